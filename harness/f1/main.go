package main

// Harness for the ASA diff ENGINE on fragment F1 (interfaces, object-group network, extended access-lists
// with object-group references, access-group anchors, routes).
//   correspondence: the Lean model NA/Model/AsaEngine.lean (driver nadrv-c01) must print exactly the change
//                   lines that the real drc.Main prints (compare-files mode, in-process), on every generated pair;
//                   the Myers scripts of every ACL pair and group pair are computed here with the real library on
//                   the same keys, passed in and validated by the driver;
//                   the Lean port of the strict device (NA/Spec/AsaDev.lean) must agree with dev.go on the final state.
//   oracle:         the REAL script is executed command by command on the strict specification-side device (dev.go):
//                   C01 convergence / left-overs / second compare empty, C07 frame, C08 every command executable,
//                   C10 resume from every cut.
// Serves -prop C01, C07, C08, C10, C14 (C14: route coverage after every printed line).  The generator extends the one of harness/asacfg (not edited).

import (
	"fmt"
	"net"
	"net/netip"
	"os"
	"path/filepath"
	"regexp"
	"sort"
	"strings"

	"github.com/hknutzen/Netspoc-Approve/go/pkg/drc"
	"github.com/pkg/diff/myers"

	. "verifharness/vhlib"
)

func main() {
	Main(map[string]PropFunc{"C01": run, "C07": run, "C08": run, "C10": run, "C14": run})
}

type cfgCase struct {
	Dev  string   `json:"device"`
	Spoc string   `json:"netspoc"`
	Note []string `json:"mutations"`
	dev  *asaDev
	spoc *asaDev
}

var workDir string
var caseNo int

func runDrc(dev, spoc string) (stdout, stderr string, status int, pan string) {
	caseNo++
	d := filepath.Join(workDir, fmt.Sprintf("c%d", caseNo%64))
	os.RemoveAll(d)
	WriteFiles(d, map[string]string{"dev": dev, "spoc": spoc, "spoc.info": `{"model":"ASA"}`})
	old := os.Args
	os.Args = []string{"drc", "-q", filepath.Join(d, "dev"), filepath.Join(d, "spoc")}
	stdout, stderr, status, pan = Captured(drc.Main)
	os.Args = old
	return
}

// ---------------------------------------------------------------- structured form for the Lean driver

// the regular expression of diffASAACLs (cisco/diff.go), copied verbatim
var logRX = regexp.MustCompile(` log( ((\w+ )?interval \d+|\w+|disable|default))?\b`)

type keyPair struct{ a, b []string }

func (p *keyPair) LenA() int           { return len(p.a) }
func (p *keyPair) LenB() int           { return len(p.b) }
func (p *keyPair) Equal(i, j int) bool { return p.a[i] == p.b[j] }

func ranges(a, b []string) string {
	var out []string
	for _, r := range myers.Diff(nil, &keyPair{a, b}).Ranges {
		out = append(out, fmt.Sprintf("%d,%d,%d,%d", r.LowA, r.HighA, r.LowB, r.HighB))
	}
	return strings.Join(out, "/")
}

func parsedBody(body string) string {
	return groupRefRE.ReplaceAllLiteralString(body, "object-group $REF")
}

func encGroups(d *asaDev) string {
	var out []string
	for _, g := range d.GOrder {
		out = append(out, g+":"+strings.Join(d.Groups[g], ","))
	}
	return strings.Join(out, ";")
}

func encAcls(d *asaDev) string {
	var out []string
	for _, a := range d.AOrder {
		parts := []string{a}
		for _, l := range d.ACLs[a] {
			p := parsedBody(l)
			split := func(x string) string { return strings.Join(strings.Split(x, "$REF"), "^") }
			parts = append(parts, split(p)+"~"+split(logRX.ReplaceAllLiteralString(p, ""))+"~"+strings.Join(refsOf(l), ","))
		}
		out = append(out, strings.Join(parts, "#"))
	}
	return strings.Join(out, ";")
}

func encBinds(d *asaDev) string {
	var out []string
	for _, k := range d.BOrder {
		out = append(out, d.Bind[k]+" "+k)
	}
	return strings.Join(out, ",")
}

// what dstOfRoute / byMoreSpecificRoute (cisco/diff.go) compute for `route INTF IP MASK GW`
func encRoutes(d *asaDev) string {
	var out []string
	for _, r := range d.Routes {
		f := strings.Fields(r)
		var ipp netip.Prefix
		ip, err1 := netip.ParseAddr(f[1])
		mask, err2 := netip.ParseAddr(f[2])
		if err1 == nil && err2 == nil {
			size, _ := net.IPMask(mask.AsSlice()).Size()
			ipp = netip.PrefixFrom(ip, size)
		}
		b := 128 - byte(ipp.Bits())
		out = append(out, fmt.Sprintf("%s~%s~%d", r, ipp.String(), b))
	}
	return strings.Join(out, ",")
}

func sortedCopy(l []string) []string {
	c := append([]string{}, l...)
	sort.Strings(c)
	return c
}

func encode(a, b *asaDev) string {
	var intfs []string
	for _, i := range a.Intfs {
		intfs = append(intfs, i[1])
	}
	var sa, sg []string
	for _, an := range a.AOrder {
		for _, bn := range b.AOrder {
			var ka, kb []string
			for _, l := range a.ACLs[an] {
				ka = append(ka, parsedBody(l))
			}
			for _, l := range b.ACLs[bn] {
				kb = append(kb, parsedBody(l))
			}
			sa = append(sa, an+">"+bn+":"+ranges(ka, kb))
		}
	}
	for _, an := range a.GOrder {
		for _, bn := range b.GOrder {
			sg = append(sg, an+">"+bn+":"+ranges(sortedCopy(a.Groups[an]), sortedCopy(b.Groups[bn])))
		}
	}
	return strings.Join([]string{
		"ai=" + strings.Join(intfs, ","),
		"ag=" + encGroups(a), "aa=" + encAcls(a), "ab=" + encBinds(a), "ar=" + encRoutes(a),
		"bg=" + encGroups(b), "ba=" + encAcls(b), "bb=" + encBinds(b), "br=" + encRoutes(b),
		"sa=" + strings.Join(sa, ";"), "sg=" + strings.Join(sg, ";"),
	}, "\t")
}

func fields(ans string) map[string]string {
	m := map[string]string{}
	for _, f := range strings.Split(ans, "\t") {
		k, v, _ := strings.Cut(f, "=")
		m[k] = v
	}
	return m
}

// leanView prints the managed part in the format of NA.AsaDev.view.
func (d *asaDev) leanView(bindings []string, withRoutes bool) string {
	var sb strings.Builder
	for _, k := range bindings {
		sb.WriteString("[" + k + "]")
		if name, ok := d.Bind[k]; ok {
			for _, l := range d.ACLs[name] {
				sb.WriteString("/" + groupRefRE.ReplaceAllStringFunc(l, func(s string) string {
					g := strings.TrimPrefix(s, "object-group ")
					return "object-group {" + strings.Join(sortedCopy(d.Groups[g]), ",") + "}"
				}))
			}
		}
	}
	if withRoutes {
		sb.WriteString("[routes]")
		for _, r := range sortedCopy(d.Routes) {
			sb.WriteString("/" + r)
		}
	}
	return sb.String()
}

// ---------------------------------------------------------------- generator

var members = []string{"host 10.1.1.1", "host 10.1.1.2", "host 10.1.1.3", "10.2.0.0 255.255.0.0", "10.3.3.0 255.255.255.0",
	"host 10.4.4.4", "host 10.5.5.5", "10.6.0.0 255.255.0.0", "host 10.7.7.7"}
var intfNames = []string{"inside", "outside", "dmz", "mgmt"}

func genAddr(r *RNG, groups []string) string {
	switch k := r.Intn(100); {
	case k < 35 && len(groups) > 0:
		return "object-group " + Pick(r, groups)
	case k < 55:
		return "any4"
	default:
		return Pick(r, members)
	}
}

func genBody(r *RNG, groups []string) string {
	act := "permit"
	if r.Chance(25) {
		act = "deny"
	}
	proto := Pick(r, []string{"tcp", "tcp", "udp", "ip"})
	s := fmt.Sprintf("%s %s %s %s", act, proto, genAddr(r, groups), genAddr(r, groups))
	if proto != "ip" && r.Chance(70) {
		s += fmt.Sprintf(" eq %d", Pick(r, []int{22, 25, 53, 80, 443}))
	}
	if r.Chance(8) {
		s += Pick(r, []string{" log", " log 4"})
	}
	return s
}

func dedupBodies(ls []string) []string {
	seen := map[string]bool{}
	var out []string
	for _, l := range ls {
		k := stripLog(l)
		if !seen[k] {
			seen[k] = true
			out = append(out, l)
		}
	}
	return out
}

func (d *asaDev) bind(key, acl string) {
	if _, ok := d.Bind[key]; !ok {
		d.BOrder = append(d.BOrder, key)
	}
	d.Bind[key] = acl
}

func (d *asaDev) unbind(key string) {
	delete(d.Bind, key)
	d.BOrder = remove(d.BOrder, key)
}

func genTarget(r *RNG) *asaDev {
	b := newDev()
	ng := r.Intn(5)
	for i := 0; i < ng; i++ {
		g := fmt.Sprintf("g%d", i)
		n := 1 + r.Intn(5)
		var ms []string
		for len(ms) < n {
			m := Pick(r, members)
			if !contains(ms, m) {
				ms = append(ms, m)
			}
		}
		b.Groups[g] = ms
		b.GOrder = append(b.GOrder, g)
	}
	perm := append([]string{}, intfNames...)
	Shuffle(r, perm)
	nm := 1 + r.Intn(3)
	for _, in := range perm[:nm] {
		b.Intfs = append(b.Intfs, [2]string{"Ethernet0/" + fmt.Sprint(len(b.Intfs)), in})
		name := in + "_in"
		var ls []string
		for i, n := 0, 1+r.Intn(6); i < n; i++ {
			ls = append(ls, genBody(r, b.GOrder))
		}
		if r.Chance(70) {
			ls = append(ls, "deny ip any4 any4")
		}
		b.ACLs[name] = dedupBodies(ls)
		b.AOrder = append(b.AOrder, name)
		b.bind("in "+in, name)
		if r.Chance(25) {
			// outgoing ACL: its own, or the one bound inbound somewhere (shared target ACL)
			if r.Chance(50) {
				b.bind("out "+in, Pick(r, b.AOrder))
			} else {
				oname := in + "_out"
				b.ACLs[oname] = dedupBodies([]string{genBody(r, b.GOrder), "permit ip any4 any4"})
				b.AOrder = append(b.AOrder, oname)
				b.bind("out "+in, oname)
			}
		}
	}
	if r.Chance(30) {
		Shuffle(r, b.BOrder)
	}
	// drop groups nobody references (Netspoc does not generate those)
	for _, g := range append([]string{}, b.GOrder...) {
		if !b.groupReferenced(g) {
			delete(b.Groups, g)
			b.GOrder = remove(b.GOrder, g)
		}
	}
	if r.Chance(60) {
		gw := []string{"192.168.1.1", "192.168.1.2", "10.0.0.1"}
		for i, n := 0, 1+r.Intn(3); i < n; i++ {
			dst := Pick(r, []string{"0.0.0.0 0.0.0.0", "10.1.0.0 255.255.0.0", "10.2.0.0 255.255.0.0", "10.9.0.0 255.255.0.0", "10.9.9.0 255.255.255.0"})
			rt := fmt.Sprintf("%s %s %s", b.Intfs[0][1], dst, Pick(r, gw))
			dup := false
			for _, x := range b.Routes {
				if strings.HasPrefix(x, b.Intfs[0][1]+" "+dst+" ") {
					dup = true
				}
			}
			if !dup {
				b.Routes = append(b.Routes, rt)
				if len(b.Intfs) > 1 && r.Chance(12) {
					// a second route to the same destination through another interface
					b.Routes = append(b.Routes, fmt.Sprintf("%s %s %s", b.Intfs[1][1], dst, Pick(r, gw)))
				}
			}
		}
	}
	return b
}

func (d *asaDev) renameGroup(from, to string) {
	if _, ok := d.Groups[to]; ok || from == to {
		return
	}
	d.Groups[to] = d.Groups[from]
	delete(d.Groups, from)
	for i, g := range d.GOrder {
		if g == from {
			d.GOrder[i] = to
		}
	}
	for a, ls := range d.ACLs {
		for i, l := range ls {
			d.ACLs[a][i] = strings.ReplaceAll(l+" ", "object-group "+from+" ", "object-group "+to+" ")
			d.ACLs[a][i] = strings.TrimSuffix(d.ACLs[a][i], " ")
		}
	}
}

func (d *asaDev) renameACL(from, to string) {
	if _, ok := d.ACLs[to]; ok || from == to {
		return
	}
	d.ACLs[to] = d.ACLs[from]
	delete(d.ACLs, from)
	for i, a := range d.AOrder {
		if a == from {
			d.AOrder[i] = to
		}
	}
	for k, v := range d.Bind {
		if v == from {
			d.Bind[k] = to
		}
	}
}

func baseName(n string) string { return strings.SplitN(n, "-DRC-", 2)[0] }

// genDevice derives a device configuration from the target by mutations and adds unmanaged content.
func genDevice(r *RNG, b *asaDev) (*asaDev, []string) {
	a := b.clone()
	var note []string
	say := func(s string) { note = append(note, s) }
	// the device never holds two routes to one destination (the target may ask for a second one)
	{
		seen := map[string]bool{}
		var keep []string
		for _, rt := range a.Routes {
			f := strings.Fields(rt)
			if k := f[1] + " " + f[2]; !seen[k] {
				seen[k] = true
				keep = append(keep, rt)
			}
		}
		a.Routes = keep
	}
	a.Unknown = []string{"hostname fw1"}
	if r.Chance(30) {
		a.Unknown = append(a.Unknown, "snmp-server host inside 10.0.0.9 community x")
	}
	// a device that was approved before carries generated names
	if r.Chance(60) {
		for _, g := range append([]string{}, a.GOrder...) {
			a.renameGroup(g, fmt.Sprintf("%s-DRC-%d", g, r.Intn(2)))
		}
		for _, n := range append([]string{}, a.AOrder...) {
			a.renameACL(n, fmt.Sprintf("%s-DRC-%d", n, r.Intn(2)))
		}
		say("approved-before")
	}
	nmut := r.Intn(7)
	for i := 0; i < nmut; i++ {
		switch k := r.Intn(100); {
		case k < 12 && len(a.GOrder) > 0:
			g := Pick(r, a.GOrder)
			to := fmt.Sprintf("%s-DRC-%d", baseName(g), r.Intn(3))
			if r.Chance(30) {
				to = "old" + g
			}
			a.renameGroup(g, to)
			say("rename-group")
		case k < 28 && len(a.GOrder) > 0:
			g := Pick(r, a.GOrder)
			ms := a.Groups[g]
			if r.Chance(50) && len(ms) > 1 {
				i := r.Intn(len(ms))
				ms = append(ms[:i:i], ms[i+1:]...)
			} else {
				m := Pick(r, members)
				if !contains(ms, m) {
					ms = append(ms, m)
				}
			}
			a.Groups[g] = ms
			say("edit-members")
		case k < 34 && len(a.GOrder) > 0:
			g := Pick(r, a.GOrder)
			var ms []string
			for len(ms) < 1+r.Intn(4) {
				m := Pick(r, members)
				if !contains(ms, m) {
					ms = append(ms, m)
				}
			}
			a.Groups[g] = ms
			say("replace-members")
		case k < 42 && len(a.GOrder) > 0:
			// duplicate group (tie): identical content under another name, unreferenced
			g := Pick(r, a.GOrder)
			n := fmt.Sprintf("%s-DRC-%d", baseName(g), 5+r.Intn(3))
			if _, ok := a.Groups[n]; !ok {
				a.Groups[n] = append([]string{}, a.Groups[g]...)
				a.GOrder = append(a.GOrder, n)
				say("duplicate-group")
			}
		case k < 46 && len(a.GOrder) > 0 && len(a.AOrder) > 0:
			// split a shared group: one referencing line gets its own copy of the group
			g := Pick(r, a.GOrder)
			n := fmt.Sprintf("%s-DRC-%d", baseName(g), 8+r.Intn(2))
			if _, ok := a.Groups[n]; ok {
				break
			}
		SPLIT:
			for _, an := range a.AOrder {
				for i, l := range a.ACLs[an] {
					if contains(refsOf(l), g) {
						a.Groups[n] = append([]string{}, a.Groups[g]...)
						a.GOrder = append(a.GOrder, n)
						l2 := strings.Replace(l+" ", "object-group "+g+" ", "object-group "+n+" ", 1)
						a.ACLs[an][i] = strings.TrimSuffix(l2, " ")
						say("split-group")
						break SPLIT
					}
				}
			}
		case k < 70 && len(a.AOrder) > 0:
			name := Pick(r, a.AOrder)
			ls := a.ACLs[name]
			switch r.Intn(4) {
			case 0:
				if len(ls) > 1 {
					i := r.Intn(len(ls))
					ls = append(ls[:i:i], ls[i+1:]...)
					say("acl-delete-line")
				}
			case 1:
				j := r.Intn(len(ls) + 1)
				ls = append(ls[:j:j], append([]string{genBody(r, a.GOrder)}, ls[j:]...)...)
				say("acl-insert-line")
			case 2:
				if len(ls) > 1 {
					i := r.Intn(len(ls))
					l := ls[i]
					ls = append(ls[:i:i], ls[i+1:]...)
					j := r.Intn(len(ls) + 1)
					ls = append(ls[:j:j], append([]string{l}, ls[j:]...)...)
					say("acl-move-line")
				}
			case 3:
				i := r.Intn(len(ls))
				if stripLog(ls[i]) != ls[i] {
					ls[i] = stripLog(ls[i])
				} else {
					ls[i] += Pick(r, []string{" log", " log 4"})
				}
				say("acl-toggle-log")
			}
			a.ACLs[name] = dedupBodies(ls)
		case k < 75 && len(a.AOrder) > 0:
			name := Pick(r, a.AOrder)
			a.renameACL(name, fmt.Sprintf("%s-DRC-%d", baseName(name), r.Intn(2)))
			say("rename-acl")
		case k < 78 && len(a.AOrder) > 0:
			// replace an ACL completely (no line in common)
			name := Pick(r, a.AOrder)
			a.ACLs[name] = dedupBodies([]string{"permit icmp any4 any4", genBody(r, a.GOrder) + " inactive"})
			say("acl-replaced")
		case k < 82 && len(a.Bind) > 1:
			// managed interface without ACL on device
			key := Pick(r, a.BOrder)
			name := a.Bind[key]
			a.unbind(key)
			if !a.aclBound(name) {
				delete(a.ACLs, name)
				a.AOrder = remove(a.AOrder, name)
			}
			say("unbound-interface")
		case k < 85 && len(a.BOrder) > 1:
			// two device bindings share one ACL
			k1, k2 := Pick(r, a.BOrder), Pick(r, a.BOrder)
			if k1 != k2 {
				old := a.Bind[k2]
				a.Bind[k2] = a.Bind[k1]
				if !a.aclBound(old) {
					delete(a.ACLs, old)
					a.AOrder = remove(a.AOrder, old)
				}
				say("device-shares-acl")
			}
		case k < 87 && len(a.BOrder) > 0:
			// the device binds the ACL in the other direction
			key := Pick(r, a.BOrder)
			dir, intf, _ := strings.Cut(key, " ")
			other := map[string]string{"in": "out", "out": "in"}[dir] + " " + intf
			if _, ok := a.Bind[other]; !ok {
				name := a.Bind[key]
				a.unbind(key)
				a.bind(other, name)
				say("binding-direction-flipped")
			}
		case k < 89:
			n := fmt.Sprintf("left-DRC-%d", r.Intn(3))
			if _, ok := a.Groups[n]; !ok {
				a.Groups[n] = []string{Pick(r, members)}
				a.GOrder = append(a.GOrder, n)
				say("leftover-group")
			}
		case k < 92:
			n := fmt.Sprintf("oldacl-DRC-%d", r.Intn(2))
			if _, ok := a.ACLs[n]; !ok {
				body := "permit ip any4 any4"
				if len(a.GOrder) > 0 && r.Chance(50) {
					body = "permit udp object-group " + Pick(r, a.GOrder) + " any4 eq 53"
				}
				a.ACLs[n] = []string{body}
				a.AOrder = append(a.AOrder, n)
				say("leftover-acl")
			}
		default:
			if len(a.Routes) > 0 && r.Chance(60) {
				i := r.Intn(len(a.Routes))
				f := strings.Fields(a.Routes[i])
				f[3] = Pick(r, []string{"192.168.1.1", "192.168.1.2", "10.0.0.1", "10.0.0.2"})
				a.Routes[i] = strings.Join(f, " ")
				say("route-change-gw")
			} else if len(a.Routes) > 0 && r.Chance(50) {
				a.Routes = a.Routes[1:]
				say("route-missing")
			} else if len(b.Routes) > 0 && !strings.Contains(strings.Join(a.Routes, ","), " 10.8.0.0 ") {
				a.Routes = append(a.Routes, a.Intfs[0][1]+" 10.8.0.0 255.255.0.0 10.0.0.1")
				say("route-extra")
			}
		}
	}
	// drop device groups that lost their last reference through mutations unless tagged (then they are left-overs)
	if r.Chance(35) {
		a.Groups["MANUAL"] = []string{"host 9.9.9.9", Pick(r, members)}
		a.GOrder = append(a.GOrder, "MANUAL")
		say("unmanaged-group")
	}
	if r.Chance(12) {
		// manual, unbound, untagged ACL that uses a group (possibly a generated one)
		body := "permit ip any4 any4"
		if len(a.GOrder) > 0 {
			body = "permit tcp any4 object-group " + Pick(r, a.GOrder) + " eq 80"
		}
		a.ACLs["MANUALACL"] = []string{body}
		a.AOrder = append(a.AOrder, "MANUALACL")
		say("unmanaged-unbound-acl")
	}
	if len(b.Routes) == 0 && r.Chance(20) {
		a.Routes = append(a.Routes, a.Intfs[0][1]+" 10.8.0.0 255.255.0.0 10.0.0.1")
		say("device-routes-only")
	}
	if r.Chance(30) {
		// interface unknown to Netspoc with its own ACL, possibly using a group
		for _, in := range intfNames {
			if !a.hasIntf(in) {
				a.Intfs = append(a.Intfs, [2]string{"Ethernet0/" + fmt.Sprint(len(a.Intfs)), in})
				name := in + "_acl"
				body := "permit ip any4 any4"
				if len(a.GOrder) > 0 && r.Chance(50) {
					body = "permit tcp object-group " + Pick(r, a.GOrder) + " any4 eq 22"
				}
				a.ACLs[name] = []string{body}
				a.AOrder = append(a.AOrder, name)
				a.bind("in "+in, name)
				say("unknown-interface-with-acl")
				if r.Chance(25) {
					oname := in + "_oacl"
					a.ACLs[oname] = []string{"permit ip any4 any4"}
					a.AOrder = append(a.AOrder, oname)
					a.bind("out "+in, oname)
					say("unknown-interface-in-and-out")
				}
				break
			}
		}
	}
	if r.Chance(10) {
		// interface without nameif/ACL that nobody knows
		a.Intfs = append(a.Intfs, [2]string{"Ethernet0/" + fmt.Sprint(len(a.Intfs)), "spare"})
		say("unknown-interface-bare")
	}
	if r.Chance(4) && len(a.Intfs) > 0 {
		// device lacks an interface that Netspoc binds (drc must refuse)
		n := a.Intfs[0][1]
		a.Intfs = a.Intfs[1:]
		for _, k := range append([]string{}, a.BOrder...) {
			if strings.HasSuffix(k, " "+n) {
				name := a.Bind[k]
				a.unbind(k)
				if !a.aclBound(name) {
					delete(a.ACLs, name)
					a.AOrder = remove(a.AOrder, name)
				}
			}
		}
		say("netspoc-interface-missing")
	}
	if r.Chance(40) {
		for _, g := range a.GOrder {
			Shuffle(r, a.Groups[g])
		}
		say("members-shuffled")
	}
	if r.Chance(30) {
		Shuffle(r, a.BOrder)
		say("bindings-shuffled")
	}
	if r.Chance(30) {
		Shuffle(r, a.GOrder)
	}
	return a, note
}

func genCase(r *RNG) cfgCase {
	b := genTarget(r)
	a, note := genDevice(r, b)
	return cfgCase{Dev: a.print(true), Spoc: b.print(false), Note: note, dev: a, spoc: b}
}

// parseDev re-reads a printed configuration (replay files carry text only).
func parseDev(text string) *asaDev {
	d := newDev()
	var curIntf string
	var curGroup string
	for _, line := range strings.Split(text, "\n") {
		if line == "" {
			continue
		}
		if strings.HasPrefix(line, " ") {
			t := strings.TrimSpace(line)
			if curGroup != "" && strings.HasPrefix(t, "network-object ") {
				d.Groups[curGroup] = append(d.Groups[curGroup], strings.TrimPrefix(t, "network-object "))
			} else if curIntf != "" && strings.HasPrefix(t, "nameif ") {
				d.Intfs = append(d.Intfs, [2]string{curIntf, strings.TrimPrefix(t, "nameif ")})
			}
			continue
		}
		curIntf, curGroup = "", ""
		w := strings.Fields(line)
		switch {
		case w[0] == "interface":
			curIntf = w[1]
		case strings.HasPrefix(line, "object-group network "):
			curGroup = w[2]
			d.Groups[curGroup] = nil
			d.GOrder = append(d.GOrder, curGroup)
		case aclCmdRE.MatchString(line):
			m := aclCmdRE.FindStringSubmatch(line)
			if _, ok := d.ACLs[m[2]]; !ok {
				d.AOrder = append(d.AOrder, m[2])
			}
			d.ACLs[m[2]] = append(d.ACLs[m[2]], m[4])
		case agCmdRE.MatchString(line):
			m := agCmdRE.FindStringSubmatch(line)
			d.bind(m[3]+" "+m[4], m[2])
		case w[0] == "route":
			d.Routes = append(d.Routes, strings.TrimPrefix(line, "route "))
		default:
			d.Unknown = append(d.Unknown, line)
		}
	}
	return d
}

// unmanagedNames: objects of the initial device that are outside Netspoc's scope (C07): ACLs bound to
// interfaces unknown to Netspoc, every group they reference, untagged ACLs that are not bound with the
// groups they reference, and untagged groups that nothing references.
func unmanagedNames(a *asaDev, managedIntf map[string]bool) (acls, groups map[string]bool) {
	acls, groups = map[string]bool{}, map[string]bool{}
	addACL := func(name string) {
		acls[name] = true
		for _, l := range a.ACLs[name] {
			for _, g := range refsOf(l) {
				groups[g] = true
			}
		}
	}
	for k, name := range a.Bind {
		_, intf, _ := strings.Cut(k, " ")
		if !managedIntf[intf] {
			addACL(name)
		}
	}
	for _, n := range a.AOrder {
		if !strings.Contains(n, "-DRC-") && !a.aclBound(n) {
			addACL(n)
		}
	}
	for _, g := range a.GOrder {
		if !strings.Contains(g, "-DRC-") && !a.groupReferenced(g) {
			groups[g] = true
		}
	}
	return
}

// unmanagedView prints the definitions of those objects in d (they must stay as they are).
func unmanagedView(d *asaDev, managedIntf map[string]bool, acls, groups map[string]bool) string {
	var sb strings.Builder
	sb.WriteString(strings.Join(d.Unknown, "\n") + "\n")
	for _, i := range d.Intfs {
		sb.WriteString("interface " + i[0] + " " + i[1] + "\n")
	}
	for _, k := range sortedCopy(d.BOrder) {
		_, intf, _ := strings.Cut(k, " ")
		if !managedIntf[intf] {
			fmt.Fprintf(&sb, "bind %s -> %s\n", k, d.Bind[k])
		}
	}
	names := []string{}
	for n := range acls {
		names = append(names, n)
	}
	sort.Strings(names)
	for _, n := range names {
		ls, ok := d.ACLs[n]
		fmt.Fprintf(&sb, "acl %s exists=%v\n %s\n", n, ok, strings.Join(ls, "\n "))
	}
	names = names[:0]
	for n := range groups {
		names = append(names, n)
	}
	sort.Strings(names)
	for _, n := range names {
		m, ok := d.Groups[n]
		fmt.Fprintf(&sb, "group %s exists=%v = %s\n", n, ok, strings.Join(sortedCopy(m), ","))
	}
	return sb.String()
}

// rejectClass maps the strict device's refusal to a class (root cause), independent of names.
func rejectClass(msg string) string {
	for _, p := range [][2]string{
		{"last line of bound access-list", "last_line_of_bound_acl_deleted"},
		{"is still referenced", "object_still_referenced"},
		{"is still bound", "acl_still_bound"},
		{"does not exist", "object_missing"},
		{"already contains this entry", "duplicate_ace"},
		{"is not ", "line_number_misses_entry"},
		{"out of range", "line_number_out_of_range"},
		{"outside object-group mode", "sub_command_outside_mode"},
		{"exit outside", "exit_outside_mode"},
		{"already in group", "member_exists"},
		{"not in group", "member_missing"},
		{"identical destination", "route_destination_exists"},
		{"not bound at", "access_group_not_bound"},
	} {
		if strings.Contains(msg, p[0]) {
			return p[1]
		}
	}
	return "other"
}

func leftovers(d *asaDev) []string {
	var out []string
	for _, g := range d.GOrder {
		if strings.Contains(g, "-DRC-") && !d.groupReferenced(g) {
			out = append(out, "object-group "+g)
		}
	}
	for _, a := range d.AOrder {
		if strings.Contains(a, "-DRC-") && !d.aclBound(a) {
			out = append(out, "access-list "+a)
		}
	}
	return out
}

func run(ctx *Ctx) *Result {
	res := NewResult()
	prop := ctx.Prop
	res.Rule = "pairs (ASA device config, Netspoc target) of fragment F1: 1-3 managed interfaces with inbound (and sometimes outbound, sometimes shared) ACLs " +
		"(lines over hosts, networks, up to two object-groups, log variants), 0-5 groups, routes; device derived from the target by generated names of an " +
		"earlier approve and up to 6 mutations (rename/duplicate/split/edit/replace groups, insert/delete/move/log-toggle lines, replaced ACL, renamed ACL, " +
		"unbound interface, shared device ACL, left-over -DRC- objects, route changes) plus unmanaged content (unknown lines, MANUAL group, unbound manual ACL, " +
		"interface unknown to Netspoc with in/out ACLs, missing interface) and shuffled member/binding order; real drc.Main in-process; model script compared " +
		"line by line; real script executed on the strict specification-side device. non-trivial = non-empty script; distinct by text of both configurations"
	res.Assumptions = []string{"ASA command semantics of the fragment is a written specification (harness/f1/dev.go = harness/asacfg/dev.go; Lean port NA/Spec/AsaDev.lean compared on every case)",
		"equivalence: per managed binding the ACL with object-groups expanded to member sets, routes as a set if the target has routes",
		"Myers scripts are computed by the harness with github.com/pkg/diff/myers on the keys the engine uses and validated by the driver",
		"parsing is not modelled: the generator emits normalised spellings (host, any4, numeric ports) and the structured form passed to the model is derived from the same data as the text"}
	var err error
	workDir, err = os.MkdirTemp("", "vh-f1-")
	if err != nil {
		panic(err)
	}
	defer os.RemoveAll(workDir)
	drv := ctx.StartNadrv("c01")
	defer drv.Close()

	// correspond compares the model with drc on one pair; returns the real script (nil if drc refused) and ok.
	// verdict: "ok" (model and drc agree on a script), "disagree", "refused" (drc exits non-zero), "panic"
	lastK2 := ""
	lastF := map[string]string{}
	correspond := func(stream string, c cfgCase, a, b *asaDev, devText, spocText string) (cmds []string, out string, verdict string) {
		lastK2 = ""
		lastF = map[string]string{}
		out, errOut, status, pan := runDrc(devText, spocText)
		if pan != "" {
			res.Fail(map[string]any{"pred": "drc_panic"}, "panic: "+pan, c)
			return nil, "", "panic"
		}
		f := fields(drv.Ask(encode(a, b)))
		lastF = f
		if status != 0 {
			res.Count(stream + ":rejected-by-drc")
			res.TracesVsImpl++
			if f["rej"] != "1" {
				res.Disagree(stream+": drc refuses, model does not", c, errOut, f["script"])
			}
			return nil, "", "refused"
		}
		res.TracesVsImpl++
		if f["rej"] != "0" {
			res.Disagree(stream+": model refuses, drc does not", c, out, JSONStr(f))
			return splitScript(out), out, "disagree"
		}
		if f["valid"] != "1" {
			res.Disagree(stream+": Myers script passed to the model is not a valid script", c, "", "valid="+f["valid"])
			return splitScript(out), out, "disagree"
		}
		res.Count(stream + ":class-ISO(isoCheck):" + f["iso"])
		if f["iso"] == "1" && strings.TrimSpace(out) != "" {
			// asa_F1_iso_quiet: the class is static, so this is a claim about the REAL code too
			res.Disagree(stream+": isoCheck holds but drc prints changes (contradicts asa_F1_iso_quiet)", c, "", out)
		}
		if f["iso"] != "1" && strings.TrimSpace(out) == "" {
			res.Count(stream + ":empty-script-outside-ISO:" + f["iso"])
		}
		real := strings.Join(strings.Split(strings.TrimSuffix(out, "\n"), "\n"), "|")
		if real != f["script"] {
			res.Disagree(stream+": change script (drc vs model)", c, real, f["script"])
			return splitScript(out), out, "disagree"
		}
		res.Count("static-hypotheses(WF,RefsClosed):" + f["wf"])
		res.Count("end-to-end-theorem-applies(k1Check):" + f["k1"])
		if f["k1"] == "1" {
			// the theorem says: accepted and converged; cross-check its conclusion on this very case
			if !strings.HasPrefix(f["exec"], "ok") {
				res.Disagree(stream+": k1Check holds but the Lean device rejects the model script (contradicts asa_F1_converges_partial)", c, "", f["exec"])
			}
		}
		res.Count(stream + ":class-K2(k2Check):" + f["k2"])
		lastK2 = f["k2"]
		// the script compared equal to drc's: the phase shape assumed by NA.Route.routes_covered holds on the REAL route commands
		res.Count("route-phase-shape(asa_routes_covered_every_step):" + f["rshape"])
		if f["rshape"] == "0" {
			res.Disagree(stream+": route commands of the real script violate the phase shape (contradicts asa_routes_covered_every_step)", c, out, "")
		}
		if f["k2"] == "1" && !strings.HasPrefix(f["exec"], "ok") {
			res.Disagree(stream+": k2Check holds but the Lean device rejects the model script (contradicts asa_F1_converges)", c, "", f["exec"])
		}
		if f["hits"] != "" {
			for _, h := range strings.Split(f["hits"], ",") {
				i := strings.LastIndex(h, ":")
				k, n := h[:i], h[i+1:]
				cnt := 0
				fmt.Sscan(n, &cnt)
				res.CountN("branch:"+k, cnt)
			}
		}
		// Lean port of the strict device vs dev.go on the (identical) script
		cmds = splitScript(out)
		ex := &executor{d: a.clone()}
		execGo := "ok"
		for i, cmd := range cmds {
			if err := ex.exec1(cmd); err != nil {
				execGo = fmt.Sprintf("rejected@%d", i)
				break
			}
		}
		// the Lean executor counts joined lines as one command
		idx := 0
		goAt := map[int]int{}
		for li, line := range strings.Split(strings.TrimSuffix(out, "\n"), "\n") {
			for range strings.Split(line, "\\N ") {
				goAt[idx] = li
				idx++
			}
		}
		execLean := f["exec"]
		if i := strings.Index(execLean, ":"); i >= 0 {
			execLean = execLean[:i]
		}
		if execGo != "ok" {
			var k int
			fmt.Sscanf(execGo, "rejected@%d", &k)
			execGo = fmt.Sprintf("rejected@%d", goAt[k])
		}
		if f["k2"] == "1" {
			// asa_F1_converges (and, on an empty script, asa_F1_unchanged_only_if_equivalent; on a cut state,
			// asa_F1_resume_partial): the REAL script is accepted by dev.go and ends in the target's view
			if execGo != "ok" {
				res.Disagree(stream+": k2Check holds but dev.go rejects the real script (contradicts asa_F1_converges)", c, "ok", execGo)
			} else {
				want := b.clone()
				want.Intfs = a.Intfs
				var bk []string
				bk = append(bk, b.BOrder...)
				if got, w := ex.d.leanView(bk, len(b.Routes) > 0), want.leanView(bk, len(b.Routes) > 0); got != w {
					res.Disagree(stream+": k2Check holds but the executed result differs from the target (contradicts asa_F1_converges)", c, w, got)
				}
				if len(cmds) == 0 {
					res.Count(stream + ":K2-and-empty-script(asa_F1_unchanged_only_if_equivalent)")
				}
			}
		}
		if execGo != execLean {
			res.Disagree(stream+": strict executor verdict (dev.go vs Lean port)", c, execGo, f["exec"])
		} else if execGo == "ok" {
			var bk []string
			bk = append(bk, b.BOrder...)
			if v := ex.d.leanView(bk, len(b.Routes) > 0); v != f["final"] {
				res.Disagree(stream+": final state (dev.go vs Lean port)", c, v, f["final"])
			}
			if lo := strings.Join(leftovers(ex.d), ","); lo != f["left"] {
				res.Disagree(stream+": left-overs (dev.go vs Lean port)", c, lo, f["left"])
			}
		}
		return cmds, out, "ok"
	}

	// runScript executes a printed script (joined lines flattened) on the strict device `start`.
	// A refused command is classified with attributes computed from the input and from the model's answer `f` for the
	// same comparison.  Only the pinned F-C08a shape is continued (the joined line applied as one replacement), so that
	// the other oracles still judge such cases; every other refusal stops the run (reported, and counted).
	type refusal struct {
		sig  map[string]any
		what string
	}
	runScript := func(start *asaDev, out string, f map[string]string) (final *asaDev, states []*asaDev, refusals []refusal, stopped bool) {
		ex := &executor{d: start.clone()}
		type flat struct {
			cmd  string
			line int
			half int
			n    int
		}
		var fl []flat
		li := 0
		for _, line := range strings.Split(strings.TrimSuffix(out, "\n"), "\n") {
			if line == "" {
				continue
			}
			parts := strings.Split(line, "\\N ")
			for h, c := range parts {
				fl = append(fl, flat{c, li, h, len(parts)})
			}
			li++
		}
		for i := 0; i < len(fl); i++ {
			err := ex.exec1(fl[i].cmd)
			if err == nil {
				states = append(states, ex.d.clone())
				continue
			}
			reason := rejectClass(err.Error())
			sg := map[string]any{"pred": "command_rejected_by_strict_device", "reason": reason}
			pinned := false
			if reason == "last_line_of_bound_acl_deleted" {
				m1 := aclCmdRE.FindStringSubmatch(fl[i].cmd)
				joined := false
				if m1 != nil {
					sg["device_acl_len"] = len(start.ACLs[m1[2]])
					if fl[i].half == 0 && fl[i].n == 2 && i+1 < len(fl) {
						if m2 := aclCmdRE.FindStringSubmatch(fl[i+1].cmd); m2 != nil && m2[1] == "" && m2[2] == m1[2] &&
							m1[3] == m2[3] && stripLog(m1[4]) == stripLog(m2[4]) {
							joined = true
						}
					}
				}
				sg["joined_readd_same_line_modulo_log"] = joined
				// the model of the unchanged code, executed by the Lean strict device on the same comparison, is refused
				// at this very line for this reason, and its planner counted `hyp:no-kept-line`
				mp := strings.HasPrefix(f["exec"], fmt.Sprintf("rejected@%d:", fl[i].line)) &&
					strings.Contains(f["exec"], "last line of bound") && strings.Contains(f["hits"], "hyp:no-kept-line")
				sg["model_predicts"] = mp
				pinned = joined && mp && sg["device_acl_len"] == 1
			}
			refusals = append(refusals, refusal{sg, fmt.Sprintf("command %d %q: %v", i, fl[i].cmd, err)})
			if !pinned {
				res.Count("run-stopped-at-refused-command:" + reason)
				return ex.d, states, refusals, true
			}
			// the joined line as ONE replacement of the only line of the bound access list
			res.Count("refused-command:F-C08a-shape(continued-as-one-replacement)")
			m1 := aclCmdRE.FindStringSubmatch(fl[i].cmd)
			m2 := aclCmdRE.FindStringSubmatch(fl[i+1].cmd)
			ex.d.ACLs[m1[2]] = []string{m2[4]}
			states = append(states, ex.d.clone(), ex.d.clone())
			i++
		}
		return ex.d, states, refusals, false
	}

	runCase := func(c cfgCase) {
		if c.dev == nil {
			c.dev, c.spoc = parseDev(c.Dev), parseDev(c.Spoc)
		}
		canon := c.Dev + "--\n" + c.Spoc
		cmds, out, verdict := correspond("F1", c, c.dev, c.spoc, c.Dev, c.Spoc)
		firstK2 := lastK2
		if verdict == "refused" || verdict == "panic" {
			res.Eval(canon, false)
			return
		}
		res.Eval(canon, len(cmds) > 0)
		res.Count(fmt.Sprintf("cmds:%02d", min(len(cmds)/3*3, 30)))
		for _, n := range c.Note {
			res.Count("mut:" + n)
		}
		bindings := sortedCopy(c.spoc.BOrder)
		withRoutes := len(c.spoc.Routes) > 0
		managed := map[string]bool{}
		for _, k := range bindings {
			_, intf, _ := strings.Cut(k, " ")
			managed[intf] = true
		}
		want := c.spoc.clone()
		want.Intfs = c.dev.Intfs
		wantView := want.managedView(bindings, withRoutes)
		uAcls, uGroups := unmanagedNames(c.dev, managed)
		// routes belong to the frame when the target specifies none (the one address family of F1: IPv4 without VRF)
		routeFrame := func(d *asaDev) string {
			if withRoutes {
				return ""
			}
			return "[routes untouched]\n " + strings.Join(sortedCopy(d.Routes), "\n ") + "\n"
		}
		frame0 := unmanagedView(c.dev, managed, uAcls, uGroups) + routeFrame(c.dev)
		dupGroup := false
		{
			seen := map[string]bool{}
			for _, g := range c.dev.GOrder {
				k := strings.Join(sortedCopy(c.dev.Groups[g]), ",")
				if seen[k] {
					dupGroup = true
				}
				seen[k] = true
			}
		}
		// an interface unknown to Netspoc that carries more than one access-group
		multiUnknown := false
		{
			cnt := map[string]int{}
			for _, k := range c.dev.BOrder {
				_, intf, _ := strings.Cut(k, " ")
				if !managed[intf] {
					cnt[intf]++
					if cnt[intf] > 1 {
						multiUnknown = true
					}
				}
			}
		}
		sig := func(pred string) map[string]any {
			_, _ = multiUnknown, dupGroup
			return map[string]any{"pred": pred}
		}
		// execute the real script
		firstF := lastF
		final, states, refusals, stopped := runScript(c.dev, out, firstF)
		for _, r := range refusals {
			known8a := r.sig["joined_readd_same_line_modulo_log"] == true && r.sig["model_predicts"] == true && r.sig["device_acl_len"] == 1
			if prop == "C08" || prop == "C01" || prop == "C10" || !known8a {
				// under C07/C14 the pinned F-C08a shape is counted (see runScript) and the case goes on; any other refusal is a failure
				// under every property
				res.Fail(r.sig, r.what, c)
			}
		}
		if stopped {
			return
		}
		if len(res.Samples) < 3 && len(cmds) > 6 {
			res.Sample(map[string]any{"device": c.Dev, "netspoc": c.Spoc, "script": out, "mutations": c.Note})
		}
		if prop == "C01" {
			if got := final.managedView(bindings, withRoutes); got != wantView {
				res.Fail(sig("not_converged"), "after executing the script the managed part differs from the target:\n"+got+"-- want\n"+wantView, c)
				return
			}
			lo := leftovers(final)
			_, out2, v2 := correspond("F1 second compare", c, final, c.spoc, final.print(true), c.Spoc)
			f2 := lastF
			if firstK2 == "1" {
				// the bridge that is not proved: K2 run => second comparison in class ISO (measured)
				res.Count(fmt.Sprintf("second-compare-of-a-K2-run:iso=%s:empty=%v", f2["iso"], strings.TrimSpace(out2) == ""))
			}
			// F-C01b, pinned: (1) every left-over is an object-group that the INITIAL device already had and that is identical to
			// a group referenced in the final state; (2) the second script only removes exactly these groups; (3) the model of the
			// unchanged code predicts it: the first run adopted a device group (`grp:found-on-device`), the second comparison is
			// outside class ISO because of a left-over group, and the model's second script only removes object-groups
			sortedMembers := func(d *asaDev, g string) string { return strings.Join(sortedCopy(d.Groups[g]), ",") }
			loInitialIdentical := len(lo) > 0
			var loGroups []string
			for _, x := range lo {
				g, isGroup := strings.CutPrefix(x, "object-group ")
				_, initial := c.dev.Groups[g]
				twin := false
				if isGroup {
					loGroups = append(loGroups, g)
					for _, h := range final.GOrder {
						if h != g && final.groupReferenced(h) && sortedMembers(final, h) == sortedMembers(final, g) {
							twin = true
						}
					}
				}
				if !isGroup || !initial || !twin {
					loInitialIdentical = false
				}
			}
			var want2 []string
			for _, g := range loGroups {
				want2 = append(want2, "no object-group network "+g)
			}
			got2 := strings.Split(strings.TrimSuffix(out2, "\n"), "\n")
			onlyDeletes := len(lo) > 0 && strings.Join(sortedCopy(got2), "\n") == strings.Join(sortedCopy(want2), "\n")
			modelOnlyGroups := f2["script"] != ""
			for _, l := range strings.Split(f2["script"], "|") {
				if !strings.HasPrefix(l, "no object-group network ") {
					modelOnlyGroups = false
				}
			}
			// how the group lost its use (from the input, the first script and the model's branch counters)
			allUnrefInitially, allLostRefInScript := len(loGroups) > 0, len(loGroups) > 0
			for _, g := range loGroups {
				if c.dev.groupReferenced(g) {
					allUnrefInitially = false
				} else {
					allLostRefInScript = false
				}
				deleted := false
				for _, cmd := range cmds {
					if strings.HasPrefix(cmd, "no access-list ") && contains(refsOf(cmd), g) {
						deleted = true
					}
				}
				if !deleted {
					allLostRefInScript = false
				}
			}
			mechanism := "other"
			switch {
			case len(lo) == 0:
				mechanism = "no_leftover"
			case allUnrefInitially && strings.Contains(firstF["hits"], "grp:found-on-device"):
				mechanism = "unused_device_group_adopted_then_renamed"
			case allLostRefInScript && strings.Contains(firstF["hits"], "line:changed-ref"):
				mechanism = "group_equalised_for_a_line_that_is_then_replaced"
			case allLostRefInScript && strings.Contains(firstF["hits"], "grp:found-on-device"):
				// F-C01d: the left-over WAS referenced: findGroupOnDevice adopts it for an inserted line, a kept line with its twin
				// re-maps the target group, the inserted line is printed with the twin and the old line of the adopted group is deleted
				mechanism = "referenced_device_group_adopted_for_inserted_line_then_renamed_and_its_line_deleted"
			}
			// the second script, classified from its text and the device it is computed for (`final`): besides the removal of
			// exactly the left-over groups it may re-point lines from one group to its TWIN (identical members in `final`): each added
			// line has a deleted partner in the same access list that differs only in that group name (F-C01e)
			twin := func(g, h string) bool {
				_, ok1 := final.Groups[g]
				_, ok2 := final.Groups[h]
				return ok1 && ok2 && g != h && sortedMembers(final, g) == sortedMembers(final, h)
			}
			class2 := "other"
			if onlyDeletes {
				class2 = "only_deletes_leftovers"
			} else if strings.TrimSpace(out2) != "" {
				var adds, dels [][]string // name, body
				okShape := true
				var grpDel []string
				for _, l := range splitScript(out2) {
					if g, ok := strings.CutPrefix(l, "no object-group network "); ok {
						grpDel = append(grpDel, g)
					} else if m := aclCmdRE.FindStringSubmatch(l); m != nil {
						if m[1] != "" {
							dels = append(dels, []string{m[2], m[4]})
						} else {
							adds = append(adds, []string{m[2], m[4]})
						}
					} else {
						okShape = false
					}
				}
				if strings.Join(sortedCopy(grpDel), ",") != strings.Join(sortedCopy(loGroups), ",") || len(adds) != len(dels) || len(adds) == 0 {
					okShape = false
				}
				used := map[int]bool{}
				for _, a := range adds {
					found := false
					for i, d := range dels {
						if used[i] || d[0] != a[0] {
							continue
						}
						ra, rd := refsOf(a[1]), refsOf(d[1])
						if len(ra) != len(rd) {
							continue
						}
						same, nd := true, 0
						ta, td := a[1], d[1]
						for k := range ra {
							if ra[k] != rd[k] {
								if !twin(ra[k], rd[k]) {
									same = false
								}
								nd++
								td = strings.Replace(td, "object-group "+rd[k]+" ", "object-group "+ra[k]+" ", 1)
							}
						}
						if same && nd > 0 && (td == ta || stripLog(td) == stripLog(ta)) {
							used[i], found = true, true
							break
						}
					}
					if !found {
						okShape = false
					}
				}
				if okShape {
					class2 = "deletes_leftovers_and_repoints_lines_between_twin_groups"
				}
			}
			// twins used alternately (A … B … A) by the lines of one access list of `final`: the kept pair with B re-maps the target
			// group, the next kept pair with A finds it `ready` under another name
			alternating := false
			for _, n := range final.AOrder {
				var seq []string
				for _, l := range final.ACLs[n] {
					seq = append(seq, refsOf(l)...)
				}
				for i := 0; i < len(seq); i++ {
					for j := i + 1; j < len(seq); j++ {
						for k := j + 1; k < len(seq); k++ {
							if seq[i] == seq[k] && twin(seq[i], seq[j]) {
								alternating = true
							}
						}
					}
				}
			}
			modelPredicts := f2["iso"] == "0:leftover-group" && modelOnlyGroups
			if class2 == "deletes_leftovers_and_repoints_lines_between_twin_groups" {
				// the model (of the unchanged code) prints the same second script and classifies the comparison as outside ISO because
				// the groups are not paired one to one
				real2 := strings.Join(strings.Split(strings.TrimSuffix(out2, "\n"), "\n"), "|")
				modelPredicts = f2["iso"] == "0:group-pairing-not-1:1" && f2["script"] == real2
			}
			sigb := func(pred string) map[string]any {
				return map[string]any{"pred": pred, "leftovers_initial_identical_groups": loInitialIdentical,
					"second_script_only_deletes_leftovers": onlyDeletes, "model_predicts": modelPredicts, "mechanism": mechanism,
					"second_script_class": class2, "twin_groups_used_alternately": alternating}
			}
			if len(lo) > 0 {
				res.Fail(sigb("leftover_generated_object"), "unreferenced generated objects remain: "+strings.Join(lo, ", ")+
					fmt.Sprintf("\nmodel: first-run hits=%s second iso=%s second script=%s", firstF["hits"], f2["iso"], f2["script"]), c)
			}
			if v2 == "refused" {
				res.Fail(sig("second_compare_failed"), "drc refuses the executed result", c)
			} else if strings.TrimSpace(out2) != "" {
				res.Fail(sigb("second_compare_not_empty"), "second compare reports changes:\n"+out2, c)
			}
			if len(cmds) == 0 && c.dev.managedView(bindings, withRoutes) != wantView {
				res.Fail(sig("unchanged_reported_for_different_device"), "empty script although the device is not equivalent", c)
			}
		}
		if prop == "C07" {
			if got := unmanagedView(final, managed, uAcls, uGroups) + routeFrame(final); got != frame0 {
				if routeFrame(final) != routeFrame(c.dev) {
					res.Fail(sig("device_routes_changed_although_target_has_none"), "routes before:\n"+routeFrame(c.dev)+"after:\n"+routeFrame(final), c)
					return
				}
				// classification: the only difference is the member list of object-groups that an unbound, untagged
				// ACL of the device references and that a managed ACL references too (edited in place by equalizedGroups)
				class := "shared_group_of_unbound_acl_edited_in_place"
				for g := range uGroups {
					before, after := strings.Join(sortedCopy(c.dev.Groups[g]), ","), strings.Join(sortedCopy(final.Groups[g]), ",")
					_, stillThere := final.Groups[g]
					if before == after && stillThere {
						continue
					}
					byUnbound, byManaged := false, false
					for _, n := range c.dev.AOrder {
						uses := false
						for _, l := range c.dev.ACLs[n] {
							if contains(refsOf(l), g) {
								uses = true
							}
						}
						if !uses {
							continue
						}
						bound := false
						for k, v := range c.dev.Bind {
							_, intf, _ := strings.Cut(k, " ")
							if v == n && managed[intf] {
								bound = true
							}
						}
						if bound {
							byManaged = true
						} else if !c.dev.aclBound(n) && !strings.Contains(n, "-DRC-") {
							byUnbound = true
						}
					}
					if !stillThere || !byUnbound || !byManaged {
						class = "other"
					}
				}
				restore := final.clone()
				for g := range uGroups {
					if _, ok := restore.Groups[g]; ok {
						restore.Groups[g] = c.dev.Groups[g]
					}
				}
				if unmanagedView(restore, managed, uAcls, uGroups)+routeFrame(restore) != frame0 {
					class = "other"
				}
				s := sig("unmanaged_content_changed")
				s["class"] = class
				res.Fail(s, "unmanaged content differs after the script:\n"+got+"-- before\n"+frame0, c)
			}
		}
		if prop == "C14" && len(c.spoc.Routes) > 0 {
			// oracle for asa_routes_covered_every_step on the REAL script: after every printed line (a joined line is one
			// command) every destination that has a route before and after still has one
			dstOf := func(r string) string {
				f := strings.Fields(r)
				if len(f) < 3 {
					return r
				}
				return f[1] + "/" + f[2]
			}
			cover := func(rs []string) map[string]bool {
				m := map[string]bool{}
				for _, r := range rs {
					m[dstOf(r)] = true
				}
				return m
			}
			before, after := cover(c.dev.Routes), cover(c.spoc.Routes)
			ex3 := &executor{d: c.dev.clone()}
			for li, line := range strings.Split(strings.TrimSuffix(out, "\n"), "\n") {
				if line == "" {
					continue
				}
				ok := true
				for _, cmd := range strings.Split(line, "\\N ") {
					if err := ex3.exec1(cmd); err != nil {
						ok = false
					}
				}
				if !ok {
					break
				}
				res.Count("route-coverage-states")
				now := cover(ex3.d.Routes)
				for d := range before {
					if after[d] && !now[d] {
						res.Fail(sig("destination_uncovered_during_script"), fmt.Sprintf("after line %d %q destination %s has no route", li, line, d), c)
					}
				}
			}
		}
		if prop == "C14" {
			// F-C14g (asacfg found it; same predicate here): the members of an UNSHARED object-group (one access-list line uses
			// it, on the device and in the result) are changed in place before the lines around it; a packet that gets the same
			// verdict before and after the run gets another one in between.  `model_predicts`: the MODEL's script (model of the
			// unchanged code) edits that group in place (`grp:eq:edit-in-place`) and prints a line command for the access list that
			// references the group AFTER the member commands.
			fl := splitScript(out)
			mode := ""
		c14g:
			for k, cmd := range fl {
				if k >= len(states) {
					break
				}
				if strings.HasPrefix(cmd, "object-group network ") {
					mode = strings.Fields(cmd)[2]
					continue
				}
				if !(strings.HasPrefix(cmd, "network-object ") || strings.HasPrefix(cmd, "no network-object ")) {
					mode = ""
					continue
				}
				if _, existed := c.dev.Groups[mode]; !existed || groupRefCount(c.dev, mode) > 1 || groupRefCount(final, mode) > 1 {
					continue
				}
				res.Count("c14-unshared-group-edit-states")
				for _, key := range c.spoc.BOrder {
					if _, ok := c.dev.Bind[key]; !ok {
						continue
					}
					for _, p := range pktUniverse {
						v0, v1 := c.dev.verdict(key, p), final.verdict(key, p)
						if v0 != v1 || v0 < 0 {
							continue
						}
						if v := states[k].verdict(key, p); v != v0 {
							// the model's prediction, read off the model's own script
							mp := strings.Contains(firstF["hits"], "grp:eq:edit-in-place")
							var ml []string
							for _, l := range strings.Split(firstF["script"], "|") {
								ml = append(ml, strings.Split(l, "\\N ")...)
							}
							seenEdit, lineAfter := false, false
							mmode := ""
							aclOfGroup := ""
							for n, ls := range c.dev.ACLs {
								for _, l := range ls {
									if contains(refsOf(l), mode) {
										aclOfGroup = n
									}
								}
							}
							for _, mc := range ml {
								switch {
								case strings.HasPrefix(mc, "object-group network "):
									mmode = strings.Fields(mc)[2]
								case strings.HasPrefix(mc, "network-object ") || strings.HasPrefix(mc, "no network-object "):
									if mmode == mode {
										seenEdit = true
									}
								default:
									mmode = ""
									if m := aclCmdRE.FindStringSubmatch(mc); m != nil && m[2] == aclOfGroup && seenEdit {
										lineAfter = true
									}
								}
							}
							// what follows in the REAL script: a line command of the access list, the edit of another group, or only
							// further member commands of this group
							followed := "member_commands_of_the_same_group_only"
							for _, later := range fl[k+1:] {
								if m := aclCmdRE.FindStringSubmatch(later); m != nil && m[2] == aclOfGroup {
									followed = "line_command_of_that_access_list"
									break
								}
								if strings.HasPrefix(later, "object-group network ") && strings.Fields(later)[2] != mode {
									followed = "edit_of_another_group"
									break
								}
							}
							_ = lineAfter
							// hypotheses of asa_unshared_group_edit_keeps_agreed_verdicts: the place binds that access list before and after,
							// no line of that access list is touched in the run and no other group that a line of that access list uses is edited (the generator's member texts never overlap): then the theorem
							// says this failure is impossible
							aclTouched, otherEdited := false, false
							var lineRefs []string
							// `pre` and `post` of the theorem are "untouched in the run": a group that ANY line of that access list
							// references must not be edited either (its line would evaluate differently before and after)
							for _, l := range c.dev.ACLs[aclOfGroup] {
								lineRefs = append(lineRefs, refsOf(l)...)
							}
							em := ""
							for _, x := range fl {
								switch {
								case strings.HasPrefix(x, "object-group network "):
									em = strings.Fields(x)[2]
								case strings.HasPrefix(x, "network-object ") || strings.HasPrefix(x, "no network-object "):
									if em != mode && contains(lineRefs, em) {
										otherEdited = true
									}
								default:
									em = ""
									if m := aclCmdRE.FindStringSubmatch(x); m != nil && m[2] == aclOfGroup {
										aclTouched = true
									}
								}
							}
							res.Fail(map[string]any{"pred": "unshared_group_members_changed_before_lines", "backend": "asa",
								"model_predicts": mp && seenEdit, "followed_by": followed,
								"theorem_hypotheses_hold": !aclTouched && !otherEdited && c.dev.Bind[key] == final.Bind[key] && c.dev.Bind[key] == aclOfGroup},
								fmt.Sprintf("after command %d (%s, group %s) packet %v at %s gets verdict %d, before and after the run it is %d", k, cmd, mode, p, key, v, v0), c)
							break c14g
						}
					}
				}
			}
		}
		if prop == "C10" {
			for k, st := range states[:max(len(states)-1, 0)] {
				res.Count("resume-cuts")
				_, outR, v2 := correspond("F1 resume", c, st, c.spoc, st.print(true), c.Spoc)
				fR := lastF
				if firstK2 == "1" {
					// is class K2 closed under executing a prefix of its own script?  (measured; see resume_closure_counterexample)
					res.Count("resume-cut-of-a-K2-run:k2=" + lastK2)
					if lastK2 != "1" && os.Getenv("F1_SHOW_CUT") != "" {
						fmt.Fprintf(os.Stderr, "CUT k=%d why=%s\n--dev\n%s--spoc\n%s--state\n%s\n", k+1, lastK2, c.Dev, c.Spoc, st.print(true))
					}
				}
				if v2 == "panic" {
					continue
				}
				if v2 == "refused" {
					res.Fail(sig("resume_state_not_accepted"), fmt.Sprintf("cut after %d commands: drc rejects the intermediate device", k+1), c)
					continue
				}
				final2, _, refusals2, stopped2 := runScript(st, outR, fR)
				for _, r := range refusals2 {
					r.sig["pred"] = "resume_command_rejected"
					res.Fail(r.sig, fmt.Sprintf("cut after %d commands: second script %s", k+1, r.what), c)
				}
				if stopped2 {
					continue
				}
				if got := final2.managedView(bindings, withRoutes); got != wantView {
					res.Fail(sig("resume_not_converged"), fmt.Sprintf("cut after %d commands: second run ends in\n%s-- want\n%s", k+1, got, wantView), c)
				}
			}
		}
	}

	if ctx.Replay != "" {
		var c cfgCase
		if err := ReadReplay(ctx.Replay, &c); err != nil {
			fmt.Fprintln(os.Stderr, err)
			os.Exit(2)
		}
		runCase(c)
		return res
	}
	for _, c := range corpus() {
		runCase(c)
	}
	n := ctx.N(1500, 30000)
	if prop == "C10" {
		n = ctx.N(200, 4000)
	}
	for i := 0; i < n; i++ {
		runCase(genCase(ctx.Rng.Fork()))
	}
	return res
}

// corpus: hand-written pairs for branches that random generation reaches rarely.
func corpus() []cfgCase {
	mk := func(dev, spoc string) cfgCase { return cfgCase{Dev: dev, Spoc: spoc, Note: []string{"corpus"}} }
	intf := "interface Ethernet0/0\n nameif inside\n"
	return []cfgCase{
		// F-C14g: members of an unshared group changed in place before the line insert
		mk("interface Ethernet0/0\n nameif dmz\n"+"object-group network g2\n network-object 10.3.3.0 255.255.255.0\n network-object host 10.5.5.5\n"+
			"access-list dmz_in extended permit udp object-group g2 any4\naccess-group dmz_in in interface dmz\n",
			"object-group network g2\n network-object 10.3.3.0 255.255.255.0\n network-object host 10.5.5.5\n network-object 10.6.0.0 255.255.0.0\n"+
				"access-list dmz_in extended deny ip any4 host 10.1.1.2\naccess-list dmz_in extended permit udp object-group g2 any4\naccess-group dmz_in in interface dmz\n"),
		// F-C01c: a group equalised for a line that is then replaced (second reference needed by an unknown interface) stays needed
		mk("interface Ethernet0/0\n nameif inside\ninterface Ethernet0/1\n nameif dmz\n"+
			"object-group network g0\n network-object host 10.1.1.1\nobject-group network g0-DRC-9\n network-object host 10.1.1.1\nobject-group network g2\n network-object host 10.4.4.4\n"+
			"access-list inside_in extended deny udp object-group g0-DRC-9 object-group g2 eq 53\naccess-list inside_in extended permit udp object-group g0 any4 eq 25\n"+
			"access-list dmz_acl extended permit tcp object-group g2 any4 eq 22\naccess-group inside_in in interface inside\naccess-group dmz_acl in interface dmz\n",
			"object-group network g0\n network-object host 10.1.1.1\nobject-group network g2\n network-object host 10.4.4.4\n"+
				"access-list inside_in extended deny udp object-group g0 object-group g2 eq 53\naccess-list inside_in extended permit udp object-group g0 any4 eq 25\naccess-group inside_in in interface inside\n"),
		// F-C01d: the adopted twin was referenced by the old copy of a moved line
		mk("interface Ethernet0/0\n nameif outside\nobject-group network g0-DRC-8\n network-object host 10.1.1.2\nobject-group network g0-DRC-0\n network-object host 10.1.1.2\n"+
			"access-list outside_in extended permit ip object-group g0-DRC-8 10.3.3.0 255.255.255.0\naccess-list outside_in extended permit tcp any4 any4 eq 80\naccess-list outside_in extended permit ip object-group g0-DRC-0 any4\naccess-group outside_in in interface outside\n",
			"object-group network g0\n network-object host 10.1.1.2\n"+
				"access-list outside_in extended permit ip object-group g0 any4\naccess-list outside_in extended permit ip object-group g0 10.3.3.0 255.255.255.0\naccess-list outside_in extended permit tcp any4 any4 eq 80\naccess-group outside_in in interface outside\n"),
		// F-C01e: twin groups used alternately by kept lines (device equivalent to the target, script not empty)
		mk("interface Ethernet0/0\n nameif dmz\nobject-group network g0\n network-object host 10.4.4.4\nobject-group network g0-DRC-8\n network-object host 10.4.4.4\n"+
			"access-list dmz_in extended deny tcp host 10.1.1.1 object-group g0 eq 22\naccess-list dmz_in extended deny tcp host 10.1.1.1 object-group g0-DRC-8 eq 443\naccess-list dmz_in extended deny tcp host 10.1.1.1 object-group g0 eq 25\naccess-group dmz_in in interface dmz\n",
			"object-group network g0\n network-object host 10.4.4.4\n"+
				"access-list dmz_in extended deny tcp host 10.1.1.1 object-group g0 eq 22\naccess-list dmz_in extended deny tcp host 10.1.1.1 object-group g0 eq 443\naccess-list dmz_in extended deny tcp host 10.1.1.1 object-group g0 eq 25\naccess-group dmz_in in interface dmz\n"),
		// F-C01b: two identical groups on the device, one left over
		mk(intf+"object-group network oldg0\n network-object host 10.1.1.1\nobject-group network g0-DRC-7\n network-object host 10.1.1.1\n"+
			"access-list inside_in extended permit tcp object-group oldg0 any4 eq 22\naccess-group inside_in in interface inside\n",
			"object-group network g0\n network-object host 10.1.1.1\n"+
				"access-list inside_in extended permit udp object-group g0 any4 eq 53\naccess-list inside_in extended permit tcp object-group g0 any4 eq 22\naccess-group inside_in in interface inside\n"),
		// group edited in place, then sub-mode left by the next group edit
		mk(intf+"object-group network a-DRC-0\n network-object host 10.1.1.1\n network-object host 10.1.1.2\nobject-group network b-DRC-0\n network-object host 10.1.1.3\n network-object host 10.4.4.4\n"+
			"access-list inside_in-DRC-0 extended permit tcp object-group a-DRC-0 object-group b-DRC-0 eq 22\naccess-group inside_in-DRC-0 in interface inside\n",
			"object-group network a\n network-object host 10.1.1.1\n network-object host 10.5.5.5\nobject-group network b\n network-object host 10.1.1.3\n"+
				"access-list inside_in extended permit tcp object-group a object-group b eq 22\naccess-group inside_in in interface inside\n"),
		// a kept pair with changed reference whose device line is moved by an earlier added line (same text modulo log)
		mk(intf+"object-group network ga\n network-object host 10.1.1.1\nobject-group network gx\n network-object host 10.1.1.2\n"+
			"access-list inside_in extended permit tcp object-group ga any4 eq 22\naccess-group inside_in in interface inside\n",
			"object-group network g1\n network-object host 10.1.1.1\nobject-group network g2\n network-object host 10.1.1.2\n"+
				"access-list inside_in extended permit tcp object-group g1 any4 eq 22 log\naccess-list inside_in extended permit tcp object-group g2 any4 eq 22\naccess-group inside_in in interface inside\n"),
		// F-C07a: a group used by a managed line and by an unbound manual ACL is edited in place
		mk(intf+"object-group network g1\n network-object host 10.5.5.5\naccess-list inside_in extended permit tcp object-group g1 any4 eq 22\n"+
			"access-list MANUALACL extended permit tcp any4 object-group g1 eq 80\naccess-group inside_in in interface inside\n",
			"object-group network g1\n network-object host 10.5.5.5\n network-object host 10.7.7.7\naccess-list inside_in extended permit tcp object-group g1 any4 eq 22\naccess-group inside_in in interface inside\n"),
		// F-C08a: the only line of a bound ACL gets another log attribute: joined delete+add, the delete removes the last line
		mk(intf+"access-list inside_in extended permit ip any4 any4\naccess-group inside_in in interface inside\n",
			"access-list inside_in extended permit ip any4 any4 log\naccess-group inside_in in interface inside\n"),
		// nothing on the device
		mk(intf, "object-group network g\n network-object host 10.1.1.1\naccess-list inside_in extended permit ip object-group g any4\naccess-group inside_in in interface inside\nroute inside 0.0.0.0 0.0.0.0 10.0.0.1\n"),
		// identical
		mk(intf+"access-list x extended permit ip any4 any4\naccess-group x in interface inside\n", "access-list x extended permit ip any4 any4\naccess-group x in interface inside\n"),
	}
}
