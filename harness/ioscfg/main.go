package main

// Configuration-level oracle for the IOS backend (interfaces with ip access-group, extended ACLs with
// numbered entries, static routes per VRF, unmanaged VRFs, unknown lines).
// Serves C02 (convergence up to block equivalence, idempotence), C07 (frame), C08, C10.

import (
	"fmt"
	"os"
	"path/filepath"
	"sort"
	"strings"

	"github.com/hknutzen/Netspoc-Approve/go/pkg/drc"

	. "verifharness/vhlib"
)

func main() {
	Main(map[string]PropFunc{"C02": run, "C07": run, "C08": run, "C10": run, "C14": run})
}

type cfgCase struct {
	Dev  string   `json:"device"`
	Spoc string   `json:"netspoc"`
	Note []string `json:"mutations"`
	dev  *iosDev
	spoc *iosDev
}

var workDir string
var caseNo int

func runDrc(dev, spoc string) (stdout, stderr string, status int, pan string) {
	caseNo++
	d := filepath.Join(workDir, fmt.Sprintf("c%d", caseNo%64))
	os.RemoveAll(d)
	WriteFiles(d, map[string]string{"dev": dev, "spoc": spoc, "spoc.info": `{"model":"IOS"}`})
	old := os.Args
	os.Args = []string{"drc", "-q", filepath.Join(d, "dev"), filepath.Join(d, "spoc")}
	stdout, stderr, status, pan = Captured(drc.Main)
	os.Args = old
	return
}

var srcs = []string{"any", "10.1.0.0 0.0.255.255", "10.1.2.0 0.0.0.255", "host 10.1.2.3", "10.2.0.0 0.0.255.255", "host 10.9.9.9"}

func genBody(r *RNG) string {
	act := "permit"
	if r.Chance(35) {
		act = "deny"
	}
	proto := Pick(r, []string{"tcp", "tcp", "udp", "ip"})
	s := fmt.Sprintf("%s %s %s any", act, proto, Pick(r, srcs))
	if proto != "ip" && r.Chance(70) {
		s += fmt.Sprintf(" eq %d", Pick(r, []int{22, 53, 80, 443}))
	}
	if r.Chance(8) {
		s += " log"
	}
	return s
}

func dedup(ls []string) []string {
	seen := map[string]bool{}
	var out []string
	for _, l := range ls {
		if k := stripLog(l); !seen[k] {
			seen[k] = true
			out = append(out, l)
		}
	}
	return out
}

func genACL(r *RNG) []string {
	var ls []string
	for i, n := 0, 1+r.Intn(6); i < n; i++ {
		ls = append(ls, genBody(r))
	}
	if r.Chance(70) {
		ls = append(ls, "deny ip any any")
	}
	return dedup(ls)
}

func genTarget(r *RNG) *iosDev {
	b := newDev()
	n := 1 + r.Intn(3)
	useVRF := r.Chance(25)
	for i := 0; i < n; i++ {
		in := &iosIntf{Name: fmt.Sprintf("Ethernet%d", i), Addr: fmt.Sprintf("10.%d.%d.1 255.255.255.0", i+1, i+1)}
		if useVRF && i == n-1 && n > 1 {
			in.VRF = "V1"
		}
		name := fmt.Sprintf("e%d_in", i)
		b.setBodies(name, genACL(r))
		in.In = name
		if r.Chance(20) {
			on := fmt.Sprintf("e%d_out", i)
			b.setBodies(on, genACL(r))
			in.Out = on
		}
		b.Intfs = append(b.Intfs, in)
	}
	rmode := r.Intn(3)
	if r.Chance(60) {
		for i, k := 0, 1+r.Intn(3); i < k; i++ {
			dst := Pick(r, []string{"0.0.0.0 0.0.0.0", "10.8.0.0 255.255.0.0", "10.9.0.0 255.255.0.0", "10.9.1.0 255.255.255.0"})
			rt := dst + " " + Pick(r, []string{"10.1.1.254", "10.1.1.253", "10.2.2.254"})
			// placement of the target's routes: mixed, all in VRF V1 (the global table then has none) or all global
			if useVRF && (rmode == 1 || rmode == 0 && r.Chance(30)) {
				rt = "vrf V1 " + rt
			}
			if !contains(b.Routes, rt) {
				b.Routes = append(b.Routes, rt)
			}
		}
	}
	if r.Chance(25) {
		for i, k := 0, 1+r.Intn(2); i < k; i++ {
			rt := fmt.Sprintf("2001:db8:%d::/48 %s", i+1, Pick(r, []string{"2001:db8:ff::1", "2001:db8:ff::2"}))
			if useVRF && r.Chance(40) {
				rt = "vrf V1 " + rt
			}
			if !contains(b.Routes6, rt) {
				b.Routes6 = append(b.Routes6, rt)
			}
		}
	}
	return b
}

func (d *iosDev) renameACL(from, to string) {
	if _, ok := d.ACLs[to]; ok || from == to {
		return
	}
	d.ACLs[to] = d.ACLs[from]
	delete(d.ACLs, from)
	for i, a := range d.AOrder {
		if a == from {
			d.AOrder[i] = to
		}
	}
	for _, i := range d.Intfs {
		if i.In == from {
			i.In = to
		}
		if i.Out == from {
			i.Out = to
		}
	}
}

func genDevice(r *RNG, b *iosDev) (*iosDev, []string) {
	a := b.clone()
	var note []string
	say := func(s string) { note = append(note, s) }
	a.Unknown = []string{"hostname r1"}
	if r.Chance(30) {
		a.Unknown = append(a.Unknown, "snmp-server community x RO")
	}
	for i, nm := 0, r.Intn(6); i < nm; i++ {
		switch k := r.Intn(100); {
		case k < 50 && len(a.AOrder) > 0:
			name := Pick(r, a.AOrder)
			ls := a.bodies(name)
			switch r.Intn(5) {
			case 0:
				if len(ls) > 1 {
					i := r.Intn(len(ls))
					ls = append(ls[:i:i], ls[i+1:]...)
					say("acl-delete-line")
				}
			case 1:
				j := r.Intn(len(ls) + 1)
				ls = append(ls[:j:j], append([]string{genBody(r)}, ls[j:]...)...)
				say("acl-insert-line")
			case 2:
				if len(ls) > 1 {
					i := r.Intn(len(ls))
					l := ls[i]
					ls = append(ls[:i:i], ls[i+1:]...)
					j := r.Intn(len(ls) + 1)
					ls = append(ls[:j:j], append([]string{l}, ls[j:]...)...)
					say("acl-move-line")
				}
			case 3:
				i := r.Intn(len(ls))
				if strings.HasSuffix(ls[i], " log") {
					ls[i] = strings.TrimSuffix(ls[i], " log")
				} else {
					ls[i] += " log"
				}
				say("acl-toggle-log")
			case 4:
				if len(ls) > 1 {
					i := r.Intn(len(ls) - 1)
					ls[i], ls[i+1] = ls[i+1], ls[i]
					say("acl-swap")
				}
			}
			a.setBodies(name, dedup(ls))
		case k < 60 && len(a.AOrder) > 0:
			name := Pick(r, a.AOrder)
			a.renameACL(name, fmt.Sprintf("%s-DRC-%d", strings.SplitN(name, "-DRC-", 2)[0], r.Intn(2)))
			say("rename-acl")
		case k < 66:
			// binding missing on device
			in := Pick(r, a.Intfs)
			if in.In != "" {
				name := in.In
				in.In = ""
				if !a.aclBound(name) {
					delete(a.ACLs, name)
					a.AOrder = remove(a.AOrder, name)
				}
				say("unbound-interface")
			}
		case k < 72:
			// extra out binding on device
			in := Pick(r, a.Intfs)
			if in.Out == "" {
				n := in.Name + "_xout"
				if _, ok := a.ACLs[n]; !ok {
					a.setBodies(n, []string{"permit ip any any"})
					in.Out = n
					say("extra-out-binding")
				}
			}
		case k < 78 && len(a.Intfs) > 1:
			// two interfaces share one ACL on the device
			i0, i1 := a.Intfs[0], a.Intfs[1]
			if i0.In != "" && i1.In != "" && i0.In != i1.In {
				old := i1.In
				i1.In = i0.In
				if !a.aclBound(old) {
					delete(a.ACLs, old)
					a.AOrder = remove(a.AOrder, old)
				}
				say("shared-acl-on-device")
			}
		case k < 84:
			n := fmt.Sprintf("left-DRC-%d", r.Intn(3))
			if _, ok := a.ACLs[n]; !ok {
				a.setBodies(n, []string{"permit ip any any"})
				say("leftover-acl")
			}
		default:
			if len(a.Routes) > 0 && r.Chance(60) {
				i := r.Intn(len(a.Routes))
				f := strings.Fields(a.Routes[i])
				f[len(f)-1] = Pick(r, []string{"10.1.1.254", "10.1.1.253", "10.2.2.254", "10.2.2.253"})
				nr := strings.Join(f, " ")
				if !contains(a.Routes, nr) {
					a.Routes[i] = nr
					say("route-change-gw")
				}
			} else if len(a.Routes) > 0 {
				a.Routes = a.Routes[1:]
				say("route-missing")
			} else if len(b.Routes) > 0 {
				a.Routes = append(a.Routes, "10.7.0.0 255.255.0.0 10.1.1.254")
				say("route-extra")
			}
			switch {
			case len(a.Routes6) > 0 && r.Chance(50):
				f := strings.Fields(a.Routes6[0])
				f[len(f)-1] = Pick(r, []string{"2001:db8:ff::1", "2001:db8:ff::2", "2001:db8:ff::9"})
				if nr := strings.Join(f, " "); !contains(a.Routes6, nr) {
					a.Routes6[0] = nr
					say("route6-change-gw")
				}
			case len(a.Routes6) > 0 && r.Chance(50):
				a.Routes6 = a.Routes6[1:]
				say("route6-missing")
			case r.Chance(50) && !contains(a.Routes6, "2001:db8:77::/48 2001:db8:ff::7"):
				// managed table: an extra route; table without target routes: must be left alone
				a.Routes6 = append(a.Routes6, "2001:db8:77::/48 2001:db8:ff::7")
				say("route6-extra-or-unmanaged")
			}
		}
	}
	// hand-made routes in a routing table that Netspoc knows (by an interface) but specifies no routes for,
	// while it does specify routes for another table: they must stay
	if len(b.Routes) > 0 && r.Chance(50) {
		has := map[string]bool{}
		for _, rt := range b.Routes {
			has[routeVRF(rt)] = true
		}
		tables := map[string]bool{}
		for _, i := range b.Intfs {
			tables[i.VRF] = true
		}
		for _, v := range []string{"", "V1"} {
			if tables[v] && !has[v] {
				pre := ""
				if v != "" {
					pre = "vrf " + v + " "
				}
				for _, rt := range []string{"0.0.0.0 0.0.0.0 10.1.1.250", "10.20.0.0 255.255.0.0 10.1.1.251"}[:1+r.Intn(2)] {
					a.Routes = append(a.Routes, pre+rt)
				}
				say("manual-routes-in-known-table-without-target-routes")
				// ... and hand-made routes to the very destinations that the target routes in ANOTHER table (those may
				// be added or replaced there in this run; seeded change C07-W1 paired them across tables)
				if r.Chance(60) {
					for _, rt := range b.Routes {
						if d := routeDest(rt); routeVRF(rt) != v && !contains(a.Routes, pre+d+" 10.1.1.249") {
							a.Routes = append(a.Routes, pre+d+" 10.1.1.249")
						}
					}
					say("manual-routes-same-destination-as-target-route-of-other-table")
				}
			}
		}
	}
	if r.Chance(30) {
		a.setBodies("MANUAL", []string{"permit ip host 9.9.9.9 any"})
		say("unmanaged-acl")
	}
	if r.Chance(30) {
		in := &iosIntf{Name: "Ethernet9", Addr: "10.99.0.1 255.255.255.0", VRF: "OTHER"}
		a.setBodies("other_in", []string{"permit ip any any"})
		in.In = "other_in"
		if r.Chance(40) && len(b.AOrder) > 0 {
			// unmanaged interface uses an ACL that Netspoc generated earlier
			a.setBodies("older-DRC-0", []string{"permit tcp any any eq 22"})
			in.Out = "older-DRC-0"
		}
		a.Intfs = append(a.Intfs, in)
		a.Routes = append(a.Routes, "vrf OTHER 10.66.0.0 255.255.0.0 10.99.0.254")
		say("unmanaged-vrf")
		if r.Chance(50) {
			// the unmanaged VRF routes the same destinations as the target does elsewhere (IPv4 and IPv6)
			for _, rt := range b.Routes {
				if nr := "vrf OTHER " + routeDest(rt) + " 10.99.0.253"; !contains(a.Routes, nr) {
					a.Routes = append(a.Routes, nr)
				}
			}
			for _, rt := range b.Routes6 {
				if nr := "vrf OTHER " + routeDest(rt) + " 2001:db8:ff::99"; !contains(a.Routes6, nr) {
					a.Routes6 = append(a.Routes6, nr)
				}
			}
			say("unmanaged-vrf-same-destinations-as-target")
		}
		// further interfaces of the same unmanaged VRF, each with its own bindings: a generated (-DRC-) ACL,
		// an ACL shared with a managed interface, a hand-made one
		for k, n := 0, r.Intn(3); k < n; k++ {
			in2 := &iosIntf{Name: fmt.Sprintf("Ethernet9%d", k), Addr: fmt.Sprintf("10.99.%d.1 255.255.255.0", k+1), VRF: "OTHER"}
			switch r.Intn(3) {
			case 0:
				name := fmt.Sprintf("gone%d-DRC-%d", k, r.Intn(2))
				a.setBodies(name, []string{"permit udp any any eq 53", "deny ip any any"})
				in2.In = name
			case 1:
				if len(a.Intfs) > 0 && a.Intfs[0].In != "" && a.Intfs[0].VRF != "OTHER" {
					in2.In = a.Intfs[0].In // shared with a managed interface
					say("unmanaged-vrf-interface-shares-acl-with-managed-interface")
				}
			default:
				name := fmt.Sprintf("hand%d", k)
				a.setBodies(name, []string{"permit ip host 10.99.9.9 any"})
				in2.Out = name
			}
			a.Intfs = append(a.Intfs, in2)
			say("unmanaged-vrf-further-interface")
		}
	}
	if r.Chance(15) {
		in := &iosIntf{Name: "Loopback7", Addr: "10.77.0.1 255.255.255.255"}
		if r.Chance(50) {
			a.setBodies("lo_in", []string{"permit ip any any"})
			in.In = "lo_in"
		}
		a.Intfs = append(a.Intfs, in)
		say("unknown-interface-in-managed-vrf")
	}
	return a, note
}

func genCase(r *RNG) cfgCase {
	b := genTarget(r)
	a, note := genDevice(r, b)
	devText := a.print()
	if r.Chance(35) {
		// blocks the tool does not model, with indented lines that look like ACL entries or other
		// sub-commands, placed behind the last access-list, the last interface or the last route
		devText = insertUnknownBlocks(r, devText)
		note = append(note, "unknown-blocks-with-sub-lines")
		return cfgCase{Dev: devText, Spoc: b.print(), Note: note, dev: parseDev(devText), spoc: b}
	}
	return cfgCase{Dev: devText, Spoc: b.print(), Note: note, dev: a, spoc: b}
}

var unknownBlocks = [][]string{
	{"ipv6 access-list V6FILTER", " permit ipv6 any any", " deny ipv6 any any log", " remark hand made"},
	{"ip access-list standard 23", " permit 10.0.0.0 0.255.255.255", " deny any"},
	{"line vty 0 4", " access-class 23 in", " transport input ssh"},
	{"router ospf 1", " network 10.0.0.0 0.255.255.255 area 0", " passive-interface default"},
	{"class-map match-any CM", " match access-group name MANUAL"},
}

func insertUnknownBlocks(r *RNG, text string) string {
	lines := strings.Split(strings.TrimSuffix(text, "\n"), "\n")
	// section ends: index behind the last line of each top-level block kind
	lastOf := func(prefix string) int {
		end := -1
		in := false
		for i, l := range lines {
			if !strings.HasPrefix(l, " ") {
				in = strings.HasPrefix(l, prefix)
			}
			if in {
				end = i + 1
			}
		}
		return end
	}
	var pos []int
	for _, p := range []string{"ip access-list extended ", "interface ", "ip route "} {
		if e := lastOf(p); e >= 0 {
			pos = append(pos, e)
		}
	}
	if len(pos) == 0 {
		pos = []int{len(lines)}
	}
	for k := 1 + r.Intn(2); k > 0; k-- {
		at := Pick(r, pos)
		blk := Pick(r, unknownBlocks)
		if strings.Contains(strings.Join(lines, "\n"), blk[0]+"\n") {
			continue
		}
		lines = append(lines[:at:at], append(append([]string{}, blk...), lines[at:]...)...)
		for i := range pos {
			if pos[i] > at {
				pos[i] += len(blk)
			}
		}
	}
	return strings.Join(lines, "\n") + "\n"
}

func parseDev(text string) *iosDev {
	d := newDev()
	var cur *iosIntf
	acl := ""
	unk := false
	for _, line := range strings.Split(text, "\n") {
		if line == "" {
			continue
		}
		if strings.HasPrefix(line, " ") {
			t := strings.TrimSpace(line)
			switch {
			case unk:
				d.Unknown = append(d.Unknown, line) // sub-line of a block the tool does not model
			case acl != "":
				d.ACLs[acl] = append(d.ACLs[acl], iosEntry{10 * (len(d.ACLs[acl]) + 1), t})
			case cur != nil && strings.HasPrefix(t, "ip address "):
				cur.Addr = strings.TrimPrefix(t, "ip address ")
			case cur != nil && strings.HasPrefix(t, "vrf forwarding "):
				cur.VRF = strings.TrimPrefix(t, "vrf forwarding ")
			case cur != nil && agRE.MatchString(t):
				m := agRE.FindStringSubmatch(t)
				if m[3] == "in" {
					cur.In = m[2]
				} else {
					cur.Out = m[2]
				}
			}
			continue
		}
		cur, acl, unk = nil, "", false
		switch {
		case strings.HasPrefix(line, "interface "):
			cur = &iosIntf{Name: strings.TrimPrefix(line, "interface ")}
			d.Intfs = append(d.Intfs, cur)
		case strings.HasPrefix(line, "ip access-list extended "):
			acl = strings.TrimPrefix(line, "ip access-list extended ")
			d.ACLs[acl] = nil
			d.AOrder = append(d.AOrder, acl)
		case strings.HasPrefix(line, "ipv6 route "):
			d.Routes6 = append(d.Routes6, strings.TrimPrefix(line, "ipv6 route "))
		case strings.HasPrefix(line, "ip route "):
			d.Routes = append(d.Routes, strings.TrimPrefix(line, "ip route "))
		default:
			d.Unknown = append(d.Unknown, line)
			unk = true
		}
	}
	return d
}

// unmanagedView: definitions that must stay exactly as they are.
// routeDest: the destination of a route (`[vrf X] DEST [MASK] GATEWAY`), without table and gateway.
func routeDest(r string) string {
	f := strings.Fields(r)
	if len(f) > 1 && f[0] == "vrf" {
		f = f[2:]
	}
	return strings.Join(f[:len(f)-1], " ")
}

func unmanagedView(d *iosDev, managedIntf map[string]bool, vrfs map[string]bool, acls map[string]bool, vrfs6 map[string]bool) string {
	var sb strings.Builder
	sb.WriteString(strings.Join(d.Unknown, "\n") + "\n")
	for _, i := range d.Intfs {
		if !managedIntf[i.Name] {
			fmt.Fprintf(&sb, "interface %s vrf=%s addr=%s in=%s out=%s\n", i.Name, i.VRF, i.Addr, i.In, i.Out)
		} else {
			fmt.Fprintf(&sb, "interface %s vrf=%s addr=%s\n", i.Name, i.VRF, i.Addr)
		}
	}
	names := []string{}
	for n := range acls {
		names = append(names, n)
	}
	sort.Strings(names)
	for _, n := range names {
		_, ok := d.ACLs[n]
		fmt.Fprintf(&sb, "acl %s exists=%v\n %s\n", n, ok, strings.Join(d.bodies(n), "\n "))
	}
	var rs []string
	for _, r := range d.Routes {
		if !vrfs[routeVRF(r)] {
			rs = append(rs, r)
		}
	}
	sort.Strings(rs)
	sb.WriteString("routes " + strings.Join(rs, " | ") + "\n")
	rs = nil
	for _, r := range d.Routes6 {
		if !vrfs6[routeVRF(r)] {
			rs = append(rs, r)
		}
	}
	sort.Strings(rs)
	sb.WriteString("ipv6 routes " + strings.Join(rs, " | ") + "\n")
	return sb.String()
}

func run(ctx *Ctx) *Result {
	res := NewResult()
	prop := ctx.Prop
	res.Rule = "pairs (IOS device config, Netspoc target): 1-3 managed interfaces with in/out ACLs, routes (global and VRF V1); device derived by up to 5 " +
		"mutations (ACL line insert/delete/move/swap/log, rename ACL, missing/extra binding, ACL shared by two interfaces, left-over -DRC- ACL, route changes) plus " +
		"unmanaged content (unknown lines, MANUAL ACL, interface and routes in VRF OTHER possibly using a -DRC- ACL, interface unknown to Netspoc); real drc.Main " +
		"in-process; script executed command by command on the strict specification-side IOS. non-trivial = non-empty script; distinct by text"
	res.Assumptions = []string{"IOS command semantics of the fragment is a written specification (harness/ioscfg/dev.go)",
		"equivalence: per managed interface and direction the bound ACL up to order inside runs of equal action and modulo log; routes of the target's VRFs as sets"}
	var err error
	workDir, err = os.MkdirTemp("", "vh-ioscfg-")
	if err != nil {
		panic(err)
	}
	defer os.RemoveAll(workDir)

	runCase := func(c cfgCase) {
		if c.dev == nil {
			c.dev, c.spoc = parseDev(c.Dev), parseDev(c.Spoc)
		}
		out, errOut, status, pan := runDrc(c.Dev, c.Spoc)
		canon := c.Dev + "--\n" + c.Spoc
		if pan != "" {
			res.Eval(canon, false)
			res.Fail(map[string]any{"pred": "drc_panic"}, "panic: "+pan, c)
			return
		}
		if status != 0 {
			res.Eval(canon, false)
			// every generated pair is inside the accepted language: a refusal is a finding of its own
			res.Count("rejected-by-drc")
			res.Fail(map[string]any{"pred": "valid_pair_rejected_by_drc"}, "drc refuses a valid device/target pair (exit "+fmt.Sprint(status)+"): "+strings.TrimSpace(errOut), c)
			return
		}
		cmds := splitScript(out)
		res.Eval(canon, len(cmds) > 0)
		res.Count(fmt.Sprintf("cmds:%02d", min(len(cmds)/3*3, 30)))
		for _, n := range c.Note {
			res.Count("mut:" + n)
		}
		managed := map[string]bool{}
		var intfs []string
		vrfs := map[string]bool{}
		for _, i := range c.spoc.Intfs {
			managed[i.Name] = true
			intfs = append(intfs, i.Name)
			vrfs[i.VRF] = true
		}
		// routes are managed only in VRFs for which the target specifies routes
		rvrfs := map[string]bool{}
		for _, r := range c.spoc.Routes {
			vrfs[routeVRF(r)] = true
			rvrfs[routeVRF(r)] = true
		}
		// ipv6 routes likewise, per routing table
		rvrfs6 := map[string]bool{}
		for _, r := range c.spoc.Routes6 {
			rvrfs6[routeVRF(r)] = true
		}
		withRoutes := len(c.spoc.Routes) > 0
		wantView := c.spoc.managedView(intfs, rvrfs, withRoutes, rvrfs6)
		// unmanaged ACLs: bound to unmanaged interfaces, or untagged and unbound
		uACL := map[string]bool{}
		for _, i := range c.dev.Intfs {
			if !managed[i.Name] {
				for _, n := range []string{i.In, i.Out} {
					if n != "" {
						uACL[n] = true
					}
				}
			}
		}
		for _, n := range c.dev.AOrder {
			if !strings.Contains(n, "-DRC-") && !c.dev.aclBound(n) {
				uACL[n] = true
			}
		}
		frame0 := unmanagedView(c.dev, managed, rvrfs, uACL, rvrfs6)
		sig := func(pred string) map[string]any { return map[string]any{"pred": pred} }
		ex := &executor{d: c.dev.clone()}
		var states []*iosDev
		for i, cmd := range cmds {
			if err := ex.exec1(cmd); err != nil {
				if prop != "C07" && prop != "C14" {
					res.Fail(sig("command_rejected_by_strict_device"), fmt.Sprintf("command %d %q: %v", i, cmd, err), c)
				}
				// C07 / C14 judge states; what a refused script would have done is C08's business (same cases, same harness)
				res.Count("script-refused-by-strict-device:not-judged-further")
				return
			}
			states = append(states, ex.d.clone())
		}
		res.TracesVsImpl++
		final := ex.d
		if len(res.Samples) < 3 && len(cmds) > 4 {
			res.Sample(map[string]any{"device": c.Dev, "netspoc": c.Spoc, "script": out, "mutations": c.Note})
		}
		if prop == "C02" {
			if got := final.managedView(intfs, rvrfs, withRoutes, rvrfs6); got != wantView {
				res.Fail(sig("not_converged"), "after executing the script the managed part differs from the target:\n"+got+"-- want\n"+wantView, c)
				return
			}
			for _, n := range final.AOrder {
				if strings.Contains(n, "-DRC-") && !final.aclBound(n) {
					res.Fail(sig("leftover_generated_object"), "unbound generated access-list remains: "+n, c)
				}
			}
			out2, _, st2, pan2 := runDrc(final.print(), c.Spoc)
			if pan2 != "" || st2 != 0 {
				res.Fail(sig("second_compare_failed"), fmt.Sprintf("second compare: exit %d %s", st2, pan2), c)
			} else if strings.TrimSpace(out2) != "" {
				res.Fail(sig("second_compare_not_empty"), "second compare reports changes:\n"+out2, c)
			}
			if len(cmds) == 0 && c.dev.managedView(intfs, rvrfs, withRoutes, rvrfs6) != wantView {
				res.Fail(sig("unchanged_reported_for_different_device"), "empty script although the device is not equivalent", c)
			}
		}
		if prop == "C14" {
			dsts := func(d *iosDev) map[string]bool {
				m := map[string]bool{}
				for _, r := range d.Routes {
					f := strings.Fields(r)
					if len(f) >= 5 && f[0] == "vrf" {
						m[f[1]+" "+f[2]+" "+f[3]] = true
					} else if len(f) >= 3 {
						m[" "+f[0]+" "+f[1]] = true
					}
				}
				return m
			}
			before, after := dsts(c.dev), dsts(final)
			joinedFirst := map[int]bool{}
			idx := 0
			for _, line := range strings.Split(strings.TrimSuffix(out, "\n"), "\n") {
				if line == "" {
					continue
				}
				h := strings.Split(line, "\\N ")
				if len(h) == 2 {
					joinedFirst[idx] = true
				}
				idx += len(h)
			}
			for k, st := range states {
				if joinedFirst[k] {
					continue
				}
				now := dsts(st)
				for d := range before {
					if after[d] && !now[d] {
						res.Fail(sig("route_destination_uncovered_during_change"), fmt.Sprintf("after command %d destination %s has no route although it has one before and after", k, d), c)
					}
				}
			}
		}
		if prop == "C07" {
			if got := unmanagedView(final, managed, rvrfs, uACL, rvrfs6); got != frame0 {
				res.Fail(sig("unmanaged_content_changed"), "unmanaged content differs after the script:\n"+got+"-- before\n"+frame0, c)
			}
		}
		if prop == "C10" {
			for k, st := range states[:max(len(states)-1, 0)] {
				res.Count("resume-cuts")
				out2, _, st2, pan2 := runDrc(st.print(), c.Spoc)
				if pan2 != "" {
					res.Fail(sig("resume_drc_panic"), fmt.Sprintf("cut after %d commands: panic %s", k+1, pan2), c)
					continue
				}
				if st2 != 0 {
					res.Fail(sig("resume_state_not_accepted"), fmt.Sprintf("cut after %d commands: drc rejects the intermediate device", k+1), c)
					continue
				}
				ex2 := &executor{d: st.clone()}
				bad := false
				for i, cmd := range splitScript(out2) {
					if err := ex2.exec1(cmd); err != nil {
						res.Fail(sig("resume_command_rejected"), fmt.Sprintf("cut after %d commands: second script command %d %q: %v", k+1, i, cmd, err), c)
						bad = true
						break
					}
				}
				if bad {
					continue
				}
				if got := ex2.d.managedView(intfs, rvrfs, withRoutes, rvrfs6); got != wantView {
					res.Fail(sig("resume_not_converged"), fmt.Sprintf("cut after %d commands: second run ends in\n%s-- want\n%s", k+1, got, wantView), c)
				}
			}
		}
	}

	if ctx.Replay != "" {
		var c cfgCase
		if err := ReadReplay(ctx.Replay, &c); err != nil {
			fmt.Fprintln(os.Stderr, err)
			os.Exit(2)
		}
		runCase(c)
		return res
	}
	n := ctx.N(600, 20000)
	if prop == "C10" {
		n = ctx.N(800, 8000)
	}
	for i := 0; i < n; i++ {
		runCase(genCase(ctx.Rng.Fork()))
	}
	return res
}
