package main

// Specification-side model of the IOS configuration fragment (interfaces with ip access-group
// bindings, address, VRF; `ip access-list extended` with numbered entries; static routes with
// VRFs; unknown lines) with a STRICT command executor. Independent of the planner under test.

import (
	"fmt"
	"regexp"
	"sort"
	"strconv"
	"strings"
)

type iosIntf struct {
	Name, Addr, VRF string
	In, Out         string
}

type iosEntry struct {
	N    int
	Body string
}

type iosDev struct {
	Unknown []string
	Intfs   []*iosIntf
	ACLs    map[string][]iosEntry
	AOrder  []string
	Routes  []string // text after "ip route "
	Routes6 []string // text after "ipv6 route "
}

func newDev() *iosDev { return &iosDev{ACLs: map[string][]iosEntry{}} }

func (d *iosDev) clone() *iosDev {
	c := newDev()
	c.Unknown = append([]string{}, d.Unknown...)
	for _, i := range d.Intfs {
		x := *i
		c.Intfs = append(c.Intfs, &x)
	}
	for k, v := range d.ACLs {
		c.ACLs[k] = append([]iosEntry{}, v...)
	}
	c.AOrder = append([]string{}, d.AOrder...)
	c.Routes = append([]string{}, d.Routes...)
	c.Routes6 = append([]string{}, d.Routes6...)
	return c
}

func (d *iosDev) bodies(name string) []string {
	var out []string
	for _, e := range d.ACLs[name] {
		out = append(out, e.Body)
	}
	return out
}

func (d *iosDev) setBodies(name string, bodies []string) {
	if _, ok := d.ACLs[name]; !ok {
		d.AOrder = append(d.AOrder, name)
	}
	var es []iosEntry
	for i, b := range bodies {
		es = append(es, iosEntry{10 * (i + 1), b})
	}
	d.ACLs[name] = es
}

func (d *iosDev) print() string {
	var sb strings.Builder
	for _, l := range d.Unknown {
		sb.WriteString(l + "\n")
	}
	for _, a := range d.AOrder {
		fmt.Fprintf(&sb, "ip access-list extended %s\n", a)
		for _, e := range d.ACLs[a] {
			fmt.Fprintf(&sb, " %s\n", e.Body)
		}
	}
	for _, i := range d.Intfs {
		fmt.Fprintf(&sb, "interface %s\n", i.Name)
		if i.VRF != "" {
			fmt.Fprintf(&sb, " vrf forwarding %s\n", i.VRF)
		}
		if i.Addr != "" {
			fmt.Fprintf(&sb, " ip address %s\n", i.Addr)
		}
		if i.In != "" {
			fmt.Fprintf(&sb, " ip access-group %s in\n", i.In)
		}
		if i.Out != "" {
			fmt.Fprintf(&sb, " ip access-group %s out\n", i.Out)
		}
	}
	for _, r := range d.Routes {
		fmt.Fprintf(&sb, "ip route %s\n", r)
	}
	for _, r := range d.Routes6 {
		fmt.Fprintf(&sb, "ipv6 route %s\n", r)
	}
	return sb.String()
}

var logRE = regexp.MustCompile(` log(-input)?$`)

func stripLog(b string) string { return logRE.ReplaceAllString(b, "") }

func (d *iosDev) aclBound(n string) bool {
	for _, i := range d.Intfs {
		if i.In == n || i.Out == n {
			return true
		}
	}
	return false
}

func (d *iosDev) intf(n string) *iosIntf {
	for _, i := range d.Intfs {
		if i.Name == n {
			return i
		}
	}
	return nil
}

func remove(l []string, s string) []string {
	var out []string
	for _, x := range l {
		if x != s {
			out = append(out, x)
		}
	}
	return out
}

func contains(l []string, s string) bool {
	for _, x := range l {
		if x == s {
			return true
		}
	}
	return false
}

type executor struct {
	d    *iosDev
	mode string // "", "acl:NAME", "intf:NAME"
}

var numRE = regexp.MustCompile(`^(\d+) (.*)$`)
var noNumRE = regexp.MustCompile(`^no (\d+)$`)
var agRE = regexp.MustCompile(`^(no )?ip access-group (\S+) (in|out)$`)
var reseqRE = regexp.MustCompile(`^ip access-list resequence (\S+) (\d+) (\d+)$`)

func isEntry(s string) bool {
	return strings.HasPrefix(s, "permit ") || strings.HasPrefix(s, "deny ") || strings.HasPrefix(s, "remark ")
}

func (e *executor) exec1(cmd string) error {
	d := e.d
	if cmd == "exit" {
		if e.mode == "" {
			return fmt.Errorf("exit outside of a sub-mode")
		}
		e.mode = ""
		return nil
	}
	// sub-mode commands
	if name, ok := strings.CutPrefix(e.mode, "acl:"); ok {
		es := d.ACLs[name]
		if m := noNumRE.FindStringSubmatch(cmd); m != nil {
			n, _ := strconv.Atoi(m[1])
			for i, x := range es {
				if x.N == n {
					d.ACLs[name] = append(es[:i:i], es[i+1:]...)
					return nil
				}
			}
			return fmt.Errorf("no entry %d in %s", n, name)
		}
		if m := numRE.FindStringSubmatch(cmd); m != nil && isEntry(m[2]) {
			n, _ := strconv.Atoi(m[1])
			for _, x := range es {
				if x.N == n {
					return fmt.Errorf("sequence number %d already used in %s", n, name)
				}
				if !strings.HasPrefix(m[2], "remark ") && stripLog(x.Body) == stripLog(m[2]) {
					return fmt.Errorf("%s already contains this entry: %s", name, m[2])
				}
			}
			pos := len(es)
			for i, x := range es {
				if n < x.N {
					pos = i
					break
				}
			}
			d.ACLs[name] = append(es[:pos:pos], append([]iosEntry{{n, m[2]}}, es[pos:]...)...)
			return nil
		}
		if b, ok := strings.CutPrefix(cmd, "no "); ok && isEntry(b) {
			for i, x := range es {
				if x.Body == b {
					d.ACLs[name] = append(es[:i:i], es[i+1:]...)
					return nil
				}
			}
			return fmt.Errorf("entry to delete not in %s: %s", name, b)
		}
		if isEntry(cmd) {
			for _, x := range es {
				if !strings.HasPrefix(cmd, "remark ") && stripLog(x.Body) == stripLog(cmd) {
					return fmt.Errorf("%s already contains this entry: %s", name, cmd)
				}
			}
			last := 0
			if len(es) > 0 {
				last = es[len(es)-1].N
			}
			d.ACLs[name] = append(es, iosEntry{last + 10, cmd})
			return nil
		}
	}
	if name, ok := strings.CutPrefix(e.mode, "intf:"); ok {
		if m := agRE.FindStringSubmatch(cmd); m != nil {
			i := d.intf(name)
			slot := &i.In
			if m[3] == "out" {
				slot = &i.Out
			}
			if m[1] != "" {
				if *slot != m[2] {
					return fmt.Errorf("interface %s: %s not bound %s", name, m[2], m[3])
				}
				*slot = ""
				return nil
			}
			if _, ok := d.ACLs[m[2]]; !ok {
				return fmt.Errorf("interface %s: access-list %s does not exist", name, m[2])
			}
			*slot = m[2]
			return nil
		}
	}
	if isEntry(cmd) || numRE.MatchString(cmd) || noNumRE.MatchString(cmd) || agRE.MatchString(cmd) {
		return fmt.Errorf("sub-command outside its mode (%q): %s", e.mode, cmd)
	}
	// top-level commands leave the sub-mode
	e.mode = ""
	if m := reseqRE.FindStringSubmatch(cmd); m != nil {
		es, ok := d.ACLs[m[1]]
		if !ok {
			return fmt.Errorf("resequence: access-list %s does not exist", m[1])
		}
		a, _ := strconv.Atoi(m[2])
		b, _ := strconv.Atoi(m[3])
		for i := range es {
			es[i].N = a + i*b
		}
		return nil
	}
	if n, ok := strings.CutPrefix(cmd, "ip access-list extended "); ok {
		if _, ok := d.ACLs[n]; !ok {
			d.ACLs[n] = nil
			d.AOrder = append(d.AOrder, n)
		}
		e.mode = "acl:" + n
		return nil
	}
	if n, ok := strings.CutPrefix(cmd, "no ip access-list extended "); ok {
		if _, ok := d.ACLs[n]; !ok {
			return fmt.Errorf("access-list %s does not exist", n)
		}
		if d.aclBound(n) {
			return fmt.Errorf("access-list %s is still bound to an interface", n)
		}
		delete(d.ACLs, n)
		d.AOrder = remove(d.AOrder, n)
		return nil
	}
	if n, ok := strings.CutPrefix(cmd, "interface "); ok {
		if d.intf(n) == nil {
			return fmt.Errorf("interface %s does not exist", n)
		}
		e.mode = "intf:" + n
		return nil
	}
	if r, ok := strings.CutPrefix(cmd, "ipv6 route "); ok {
		if contains(d.Routes6, r) {
			return fmt.Errorf("route exists: %s", r)
		}
		d.Routes6 = append(d.Routes6, r)
		return nil
	}
	if r, ok := strings.CutPrefix(cmd, "no ipv6 route "); ok {
		if !contains(d.Routes6, r) {
			return fmt.Errorf("route does not exist: %s", r)
		}
		d.Routes6 = remove(d.Routes6, r)
		return nil
	}
	if r, ok := strings.CutPrefix(cmd, "ip route "); ok {
		if contains(d.Routes, r) {
			return fmt.Errorf("route exists: %s", r)
		}
		d.Routes = append(d.Routes, r)
		return nil
	}
	if r, ok := strings.CutPrefix(cmd, "no ip route "); ok {
		if !contains(d.Routes, r) {
			return fmt.Errorf("route does not exist: %s", r)
		}
		d.Routes = remove(d.Routes, r)
		return nil
	}
	return fmt.Errorf("command outside the modelled fragment: %s", cmd)
}

func splitScript(out string) []string {
	var cmds []string
	for _, line := range strings.Split(strings.TrimSuffix(out, "\n"), "\n") {
		if line == "" {
			continue
		}
		cmds = append(cmds, strings.Split(line, "\\N ")...)
	}
	return cmds
}

// blockCanon: remarks dropped, lines grouped into maximal runs of equal action, each run sorted modulo log.
func blockCanon(bodies []string) string {
	var blocks [][]string
	cur := ""
	for _, b := range bodies {
		if strings.HasPrefix(b, "remark ") {
			continue
		}
		act, _, _ := strings.Cut(b, " ")
		if act != cur {
			blocks = append(blocks, nil)
			cur = act
		}
		blocks[len(blocks)-1] = append(blocks[len(blocks)-1], stripLog(b))
	}
	var sb strings.Builder
	for _, bl := range blocks {
		sort.Strings(bl)
		sb.WriteString("  {" + strings.Join(bl, " ; ") + "}\n")
	}
	return sb.String()
}

func routeVRF(r string) string {
	f := strings.Fields(r)
	if len(f) > 1 && f[0] == "vrf" {
		return f[1]
	}
	return ""
}

// managedView: what the target specifies: per interface of the target its in/out filters (block canonical), routes of the target's VRFs.
func (d *iosDev) managedView(intfs []string, vrfs map[string]bool, withRoutes bool, vrfs6 map[string]bool) string {
	var sb strings.Builder
	for _, n := range intfs {
		i := d.intf(n)
		if i == nil {
			fmt.Fprintf(&sb, "[%s] missing\n", n)
			continue
		}
		for _, dir := range []string{"in", "out"} {
			name := i.In
			if dir == "out" {
				name = i.Out
			}
			fmt.Fprintf(&sb, "[%s %s] bound=%v\n", n, dir, name != "")
			if name != "" {
				sb.WriteString(blockCanon(d.bodies(name)))
			}
		}
	}
	if withRoutes {
		var rs []string
		for _, r := range d.Routes {
			if vrfs[routeVRF(r)] {
				rs = append(rs, r)
			}
		}
		sort.Strings(rs)
		sb.WriteString("[routes]\n " + strings.Join(rs, "\n ") + "\n")
	}
	if len(vrfs6) > 0 {
		var rs []string
		for _, r := range d.Routes6 {
			if vrfs6[routeVRF(r)] {
				rs = append(rs, r)
			}
		}
		sort.Strings(rs)
		sb.WriteString("[ipv6 routes]\n " + strings.Join(rs, "\n ") + "\n")
	}
	return sb.String()
}
