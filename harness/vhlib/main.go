package vhlib

import (
	"encoding/json"
	"flag"
	"fmt"
	"os"
	"sort"
	"time"
)

// PropFunc runs one property's correspondence + oracle and returns what ./check consumes.
type PropFunc func(ctx *Ctx) *Result

// Main is the entry point of every harness binary: props maps the property ids this binary
// serves to their runners.
func Main(props map[string]PropFunc) {
	var (
		prop   = flag.String("prop", "", "property id (C01..C20)")
		tier   = flag.String("tier", "quick", "quick|thorough")
		seed   = flag.Uint64("seed", 1, "PRNG seed")
		out    = flag.String("out", "", "result JSON file")
		nadrv  = flag.String("nadrv", "/verif/lean/.lake/build/bin", "directory of the Lean driver binaries nadrv-*")
		replay = flag.String("replay", "", "replay file: run only this case")
		verif  = flag.String("verif", "/verif", "verif root")
	)
	flag.Parse()
	f, ok := props[*prop]
	if !ok {
		ids := []string{}
		for k := range props {
			ids = append(ids, k)
		}
		sort.Strings(ids)
		fmt.Fprintf(os.Stderr, "vh: unknown property %q (have %v)\n", *prop, ids)
		os.Exit(2)
	}
	ctx := &Ctx{Prop: *prop, Tier: *tier, Seed: *seed, Nadrv: *nadrv, Replay: *replay, Verif: *verif}
	ctx.Rng = NewRNG(*seed)
	ctx.Repo = os.Getenv("VERIF_REPO")
	if ctx.Repo == "" {
		ctx.Repo = "/repo"
	}
	start := time.Now()
	res := f(ctx)
	res.Property = *prop
	res.WallS = time.Since(start).Seconds()
	data, _ := json.MarshalIndent(res, "", " ")
	if *out != "" {
		if err := os.WriteFile(*out, data, 0644); err != nil {
			fmt.Fprintln(os.Stderr, err)
			os.Exit(2)
		}
	} else {
		os.Stdout.Write(data)
		fmt.Println()
	}
	if *replay != "" && len(res.Failures)+len(res.Disagreements) > 0 {
		os.Exit(1)
	}
}
