// Package vhlib is the shared part of the Go side of the verification machinery.
package vhlib

import (
	"bufio"
	"bytes"
	"crypto/sha256"
	"encoding/hex"
	"encoding/json"
	"fmt"
	"io"
	"os"
	"os/exec"
	"path/filepath"
	"sort"
	"strings"
	"sync"
)

// Ctx carries the parameters of one harness run.
type Ctx struct {
	Prop, Tier, Nadrv, Replay, Verif, Repo string
	Seed                                   uint64
	Rng                                    *RNG
}

func (c *Ctx) Thorough() bool { return c.Tier == "thorough" }

// N picks a budget by tier.
func (c *Ctx) N(quick, thorough int) int {
	if c.Thorough() {
		return thorough
	}
	return quick
}

// Disagreement: model and implementation differ on one input (the tie is broken there).
type Disagreement struct {
	Stream string `json:"stream"`
	Input  any    `json:"input"`
	Impl   string `json:"impl"`
	Model  string `json:"model"`
}

// Failure: the property's direct oracle found an input on which the real code violates
// the property. Sig is matched against known_findings.jsonl by ./check.
type Failure struct {
	Sig   map[string]any `json:"sig"`
	What  string         `json:"what"`
	Input any            `json:"input"`
}

// Result is what ./check consumes.
type Result struct {
	Property      string         `json:"property"`
	Evaluations   int            `json:"evaluations"`
	Distinct      int            `json:"distinct_nontrivial"`
	Rule          string         `json:"rule"`
	Samples       []any          `json:"samples"`
	Distribution  map[string]int `json:"distribution"`
	TracesVsImpl  int            `json:"traces_validated_against_impl"`
	Disagreements []Disagreement `json:"disagreements"`
	Failures      []Failure      `json:"failures"`
	Assumptions   []string       `json:"assumptions"`
	Exhaustive    bool           `json:"exhaustive"`
	WallS         float64        `json:"wall_s"`
	Notes         []string       `json:"notes"`
	seen          map[string]bool
	maxDisagree   int
}

func NewResult() *Result {
	return &Result{Distribution: map[string]int{}, seen: map[string]bool{}, maxDisagree: 20}
}

func (r *Result) Count(key string)         { r.Distribution[key]++ }
func (r *Result) CountN(key string, n int) { r.Distribution[key] += n }

// Eval records one evaluated case; canon is its canonical input text; nontrivial says
// whether it exercises the property's mechanism (rule given in r.Rule).
func (r *Result) Eval(canon string, nontrivial bool) {
	r.Evaluations++
	if nontrivial {
		h := sha256.Sum256([]byte(canon))
		k := hex.EncodeToString(h[:8])
		if !r.seen[k] {
			r.seen[k] = true
			r.Distinct++
		}
	}
}

func (r *Result) Sample(v any) {
	if len(r.Samples) < 5 {
		r.Samples = append(r.Samples, v)
	}
}

func (r *Result) Disagree(stream string, input any, impl, model string) {
	if len(r.Disagreements) < r.maxDisagree {
		r.Disagreements = append(r.Disagreements, Disagreement{stream, input, impl, model})
	}
	r.Count("disagreement:" + stream)
}

func (r *Result) Fail(sig map[string]any, what string, input any) {
	// keep at most 3 per distinct signature
	n := 0
	key := JSONStr(sig)
	for _, f := range r.Failures {
		if JSONStr(f.Sig) == key {
			n++
		}
	}
	if n < 3 {
		r.Failures = append(r.Failures, Failure{sig, what, input})
	}
	r.Count("failure:" + key)
}

// ---------------------------------------------------------------- PRNG (splitmix64)

type RNG struct{ s uint64 }

// NewRNG mixes the seed so that neighbouring seeds give unrelated streams
// (the state must not be an affine function of the seed: Next adds a constant).
func NewRNG(seed uint64) *RNG {
	z := seed + 0x9E3779B97F4A7C15
	z = (z ^ (z >> 30)) * 0xBF58476D1CE4E5B9
	z = (z ^ (z >> 27)) * 0x94D049BB133111EB
	z ^= z >> 31
	return &RNG{s: z ^ 0xD1B54A32D192ED03}
}
func (r *RNG) Next() uint64 {
	r.s += 0x9E3779B97F4A7C15
	z := r.s
	z = (z ^ (z >> 30)) * 0xBF58476D1CE4E5B9
	z = (z ^ (z >> 27)) * 0x94D049BB133111EB
	return z ^ (z >> 31)
}
func (r *RNG) Intn(n int) int {
	if n <= 0 {
		return 0
	}
	return int(r.Next() % uint64(n))
}
func (r *RNG) Bool() bool         { return r.Next()&1 == 1 }
func (r *RNG) Chance(p int) bool  { return r.Intn(100) < p } // p percent
func (r *RNG) Fork() *RNG         { return NewRNG(r.Next()) }
func Pick[T any](r *RNG, l []T) T { return l[r.Intn(len(l))] }
func Shuffle[T any](r *RNG, l []T) {
	for i := len(l) - 1; i > 0; i-- {
		j := r.Intn(i + 1)
		l[i], l[j] = l[j], l[i]
	}
}

// ---------------------------------------------------------------- Lean driver pipe

// Nadrv is a running `nadrv <sub-command>` process: one line in, one line out.
type Nadrv struct {
	cmd *exec.Cmd
	in  io.WriteCloser
	out *bufio.Reader
	mu  sync.Mutex
}

// StartNadrv starts the Lean driver executable nadrv-<name> (lean/.lake/build/bin).
func (c *Ctx) StartNadrv(name string, args ...string) *Nadrv {
	cmd := exec.Command(filepath.Join(c.Nadrv, "nadrv-"+name), args...)
	in, _ := cmd.StdinPipe()
	outp, _ := cmd.StdoutPipe()
	cmd.Stderr = os.Stderr
	if err := cmd.Start(); err != nil {
		fmt.Fprintf(os.Stderr, "vh: cannot start %s %v: %v\n", c.Nadrv, args, err)
		os.Exit(2)
	}
	return &Nadrv{cmd: cmd, in: in, out: bufio.NewReaderSize(outp, 1<<20)}
}

// Ask sends one line (must not contain a newline) and returns the answer line.
func (n *Nadrv) Ask(line string) string {
	n.mu.Lock()
	defer n.mu.Unlock()
	if strings.ContainsAny(line, "\n\r") {
		panic("nadrv line contains newline: " + line)
	}
	if _, err := io.WriteString(n.in, line+"\n"); err != nil {
		return "DRIVER-ERROR write: " + err.Error()
	}
	ans, err := n.out.ReadString('\n')
	if err != nil {
		return "DRIVER-ERROR read: " + err.Error()
	}
	return strings.TrimSuffix(ans, "\n")
}

func (n *Nadrv) Close() {
	n.in.Close()
	n.cmd.Wait()
}

// ---------------------------------------------------------------- running the real code in-process

var stdMu sync.Mutex

// Captured runs f with os.Stdout/os.Stderr redirected to pipes and recovers a Go panic.
// Process globals (os.Args, cwd, env) are the caller's business; calls are serialised.
func Captured(f func() int) (stdout, stderr string, status int, panicMsg string) {
	stdMu.Lock()
	defer stdMu.Unlock()
	ro, wo, _ := os.Pipe()
	re, we, _ := os.Pipe()
	oldO, oldE := os.Stdout, os.Stderr
	os.Stdout, os.Stderr = wo, we
	var bo, be bytes.Buffer
	var wg sync.WaitGroup
	wg.Add(2)
	go func() { io.Copy(&bo, ro); wg.Done() }()
	go func() { io.Copy(&be, re); wg.Done() }()
	func() {
		defer func() {
			if e := recover(); e != nil {
				panicMsg = fmt.Sprint(e)
				status = 2
			}
		}()
		status = f()
	}()
	os.Stdout, os.Stderr = oldO, oldE
	wo.Close()
	we.Close()
	wg.Wait()
	ro.Close()
	re.Close()
	return bo.String(), be.String(), status, panicMsg
}

// WriteFiles writes a set of files (relative names) below dir.
func WriteFiles(dir string, files map[string]string) {
	names := make([]string, 0, len(files))
	for n := range files {
		names = append(names, n)
	}
	sort.Strings(names)
	for _, n := range names {
		p := filepath.Join(dir, n)
		os.MkdirAll(filepath.Dir(p), 0755)
		if err := os.WriteFile(p, []byte(files[n]), 0644); err != nil {
			panic(err)
		}
	}
}

func JSONStr(v any) string {
	b, _ := json.Marshal(v)
	return string(b)
}

func ReadReplay(path string, v any) error {
	data, err := os.ReadFile(path)
	if err != nil {
		return err
	}
	var wrap struct {
		Input json.RawMessage `json:"input"`
	}
	if err := json.Unmarshal(data, &wrap); err == nil && wrap.Input != nil {
		return json.Unmarshal(wrap.Input, v)
	}
	return json.Unmarshal(data, v)
}
