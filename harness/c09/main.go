package main

// C09 — any device-side failure stops the run and is reported truthfully.
// See docs/C09.md.  Modes of this binary:
//   vh-c09 -devsim <dir>      console device simulator (spawned via SIMULATE_ROUTER, or as `ssh` found in PATH)
//   vh-c09 -fakescp <dir> ... stands in for `scp` (Linux: found in PATH; records the copy, fails on demand)
//   vh-c09 -c09worker         run cases (JSON lines) against the real code in-process
//   vh-c09 -probe <file>      run one CaseIn and print the CaseOut (debugging)
//   vh-c09 -prop C09 ...      the harness proper (vhlib.Main)

import (
	"encoding/json"
	"fmt"
	"os"

	. "verifharness/vhlib"
)

func main() {
	if len(os.Args) >= 3 && os.Args[1] == "-devsim" {
		runDevSim(os.Args[2])
		return
	}
	if len(os.Args) >= 3 && os.Args[1] == "-fakescp" {
		runFakeScp(os.Args[2], os.Args[3:])
		return
	}
	if len(os.Args) >= 2 && os.Args[1] == "-c09worker" {
		runWorker()
		return
	}
	if len(os.Args) >= 3 && os.Args[1] == "-probe" {
		data, err := os.ReadFile(os.Args[2])
		if err != nil {
			panic(err)
		}
		var c CaseIn
		if err := json.Unmarshal(data, &c); err != nil {
			panic(err)
		}
		o := runCase(c)
		out, _ := json.MarshalIndent(o, "", " ")
		fmt.Println(string(out))
		return
	}
	if len(os.Args) >= 3 && os.Args[1] == "-mkscen" {
		var p ScenParams
		if err := json.Unmarshal([]byte(os.Args[2]), &p); err != nil {
			panic(err)
		}
		c := CaseIn{Scen: buildScenario(p), Tool: "doapprove", Mode: "approve", FaultPos: -1}
		out, _ := json.MarshalIndent(c, "", " ")
		fmt.Println(string(out))
		return
	}
	Main(map[string]PropFunc{"C09": run})
}
