package main

// The harness proper: scenarios x fault positions x fault kinds, each run against the real
// code (worker processes) and against the Lean model (nadrv-c09); transcripts, exit status,
// status file and history are compared; an oracle that does not use the model checks the
// property on the real run.

import (
	"bufio"
	"encoding/json"
	"fmt"
	"io"
	"os"
	"os/exec"
	"regexp"
	"sort"
	"strconv"
	"strings"
	"sync"
	"time"

	. "verifharness/vhlib"
)

// ---------------------------------------------------------------- worker pool

type worker struct {
	cmd  *exec.Cmd
	in   io.WriteCloser
	out  *bufio.Reader
	base string // the cases' working directories live below this one
}

func startWorker() *worker {
	cmd := exec.Command(selfExe(), "-c09worker")
	base, _ := os.MkdirTemp("", "c09w")
	cmd.Env = append(os.Environ(), "C09_WORKBASE="+base)
	in, _ := cmd.StdinPipe()
	outp, _ := cmd.StdoutPipe()
	cmd.Stderr = io.Discard
	if err := cmd.Start(); err != nil {
		panic(err)
	}
	return &worker{cmd, in, bufio.NewReaderSize(outp, 1<<22), base}
}

// bound on the wall time of one run: far more than any run of the program needs (every wait of
// the program is limited by its time-out); a run still alive then never ends.
func runBound(c CaseIn) time.Duration {
	return time.Duration(12+6*c.timeout()) * time.Second
}

// run hands one case to the worker.  A run that is still alive after the bound is killed together
// with the worker (hung = true; the caller starts a new worker).
func (w *worker) run(c CaseIn) (o CaseOut, hung bool, err error) {
	data, _ := json.Marshal(c)
	if _, err := w.in.Write(append(data, '\n')); err != nil {
		return CaseOut{}, false, err
	}
	type ans struct {
		line []byte
		err  error
	}
	ch := make(chan ans, 1)
	go func() {
		line, err := w.out.ReadBytes('\n')
		ch <- ans{line, err}
	}()
	var a ans
	select {
	case a = <-ch:
	case <-time.After(runBound(c)):
		w.cmd.Process.Kill()
		<-ch
		return CaseOut{Exit: -1, Hung: true, FaultAt: c.FaultPos}, true, nil
	}
	if a.err != nil {
		return CaseOut{}, false, a.err
	}
	if err := json.Unmarshal(a.line, &o); err != nil {
		return CaseOut{}, false, err
	}
	return o, false, nil
}

func (w *worker) stop() {
	w.in.Close()
	done := make(chan struct{})
	go func() { w.cmd.Wait(); close(done) }()
	select {
	case <-done:
	case <-time.After(3 * time.Second):
		w.cmd.Process.Kill()
		<-done
	}
	if w.base != "" {
		os.RemoveAll(w.base)
	}
}

// runAll runs the cases on n worker processes; results in input order.
func runAll(cases []CaseIn, n int) []CaseOut {
	outs := make([]CaseOut, len(cases))
	idx := make(chan int, len(cases))
	for i := range cases {
		idx <- i
	}
	close(idx)
	var wg sync.WaitGroup
	for k := 0; k < n; k++ {
		wg.Add(1)
		go func() {
			defer wg.Done()
			w := startWorker()
			defer func() { w.stop() }()
			for i := range idx {
				o, hung, err := w.run(cases[i])
				if err != nil {
					// the worker died (a Go panic that is not a bailout would do that): restart
					o = CaseOut{Exit: 2, Panic: "worker died: " + err.Error(), FaultAt: -1}
				}
				if err != nil || hung {
					w.stop()
					w = startWorker()
				}
				outs[i] = o
			}
		}()
	}
	wg.Wait()
	return outs
}

// ---------------------------------------------------------------- plans

type plan struct {
	packets [][]string // change script: packets of 1 or 2 lines
	ipt     bool       // Linux: iptables change
}

func (p plan) lines() []string {
	var l []string
	for _, pk := range p.packets {
		l = append(l, pk...)
	}
	return l
}

// planFromCmp reads what `compare` logged with ShowChanges (the real planner's script).
func planFromCmp(backend, cmp string) plan {
	var p plan
	lines := strings.Split(strings.TrimRight(cmp, "\n"), "\n")
	if strings.TrimSpace(cmp) == "" {
		return p
	}
	switch backend {
	case "ASA", "IOS":
		for _, l := range lines {
			p.packets = append(p.packets, strings.SplitN(l, "\\N ", 2))
		}
	case "Linux":
		for _, l := range lines {
			if strings.HasPrefix(l, "ip route") {
				p.packets = append(p.packets, strings.SplitN(l, "\\N ", 2))
			} else {
				p.ipt = true
			}
		}
	case "PAN-OS":
		for _, l := range lines {
			if l != "" {
				p.packets = append(p.packets, []string{l})
			}
		}
	case "NSX":
		for i := 0; i+1 < len(lines)+1 && i < len(lines); i += 2 {
			p.packets = append(p.packets, []string{lines[i]})
		}
	}
	return p
}

// ---------------------------------------------------------------- canonical transcript

func isHTTP(backend string) bool { return backend == "PAN-OS" || backend == "NSX" }

// canonLine maps a line the device received to the vocabulary of the model.
func canonLine(backend, l string) string {
	switch backend {
	case "PAN-OS":
		switch {
		case strings.Contains(l, "type=keygen"):
			return "keygen"
		case strings.Contains(l, "high-availability"):
			return "show ha"
		case strings.Contains(l, "action=get"):
			return "get config"
		case strings.Contains(l, "type=commit"):
			return "commit"
		case strings.Contains(l, "<show><jobs>"):
			return "show jobs"
		}
		return strings.TrimPrefix(l, "GET /api/?key=K&")
	case "NSX":
		switch {
		case l == "POST /api/session/create":
			return "session create"
		case strings.HasPrefix(l, "GET ") && strings.HasSuffix(l, "/gateway-policies"):
			return "gateway-policies"
		case strings.HasPrefix(l, "GET ") && strings.Contains(l, "/infra/services"):
			return "services"
		case strings.HasPrefix(l, "GET ") && strings.Contains(l, "/default/groups"):
			return "groups"
		}
		return l
	}
	if l == "secret" {
		return "<secret>"
	}
	return l
}

// ---------------------------------------------------------------- the oracle (does not use the model)

var cleanupLines = map[string]bool{"end": true, "exit": true, "reload cancel": true, "": true}

type verdict struct {
	ok   bool
	pred string
	what string
	// what identifies the failing input and the failure (all computed without the model):
	class    string // class of the command whose reply was replaced (faultClass)
	cmd      string // that command, canonical ("<preamble>", "<change>" for a command of the script)
	symptom  string // what was observed
	kind     string // the fault kind as the oracle classifies it (WARNING: in place of show output = unexpected)
	method   string // HTTP: method of the request whose reply was replaced
	replayed bool   // HTTP close: the same request arrived a second time on a new connection
}

// sig is the signature of a failure: the known-findings file pins these attributes, so that a
// different command, fault kind, symptom, or a failure the model of the unchanged code does not
// predict for this input, is reported as new.
func (v verdict) sig(c CaseIn, kind string, modelPredicts bool) map[string]any {
	s := map[string]any{"pred": v.pred, "backend": c.Scen.Backend, "model_predicts": modelPredicts}
	if v.kind != "" {
		kind = v.kind
	}
	if kind != "" {
		s["kind"] = kind
	}
	if v.class != "" {
		s["class"] = v.class
	}
	if v.cmd != "" {
		s["cmd"] = v.cmd
	}
	if v.symptom != "" {
		s["symptom"] = v.symptom
	}
	if v.method != "" {
		s["method"] = v.method
		s["replay_observed"] = v.replayed
	}
	return s
}

// statusResult: result and policy of the record of this action ("DIFF/p1"); the policy tells a
// record written by this run (p1) from a pre-seeded one (p0).
func statusResult(status string, compare bool) string {
	var v struct {
		Approve struct{ Result, Policy string } `json:"approve"`
		Compare struct{ Result, Policy string } `json:"compare"`
	}
	json.Unmarshal([]byte(status), &v)
	if compare {
		return v.Compare.Result + "/" + v.Compare.Policy
	}
	return v.Approve.Result + "/" + v.Approve.Policy
}

var endRe = regexp.MustCompile(`(?m) END: (\S+)$`)

func historyEnd(h string) string {
	m := endRe.FindAllStringSubmatch(h, -1)
	if len(m) == 0 {
		return ""
	}
	return m[len(m)-1][1]
}

func showLike(l string) bool {
	for _, p := range []string{"sh ", "show ", "uname", "hostname", "grep", "which"} {
		if strings.HasPrefix(l, p) {
			return true
		}
	}
	return l == "write term" || l == "iptables-save" || l == "ip route show"
}

func benignKind(k string) bool {
	return k == "warntext" || k == "infotext" || k == "warns_only" || k == "info_then_warn" || k == ""
}

// the commands of the session itself (ASA, IOS); every other line of a baseline transcript is a
// command of the change script
var sessionLines = map[string]bool{"secret": true, "yes": true, "enable": true, "": true, "sh pager": true,
	"terminal pager 0": true, "sh term": true, "configure terminal": true, "terminal width 511": true, "end": true,
	"sh ver": true, "show hostname": true, "write term": true, "write memory": true, "term len 0": true,
	"term width 512": true, "sh run": true, "no logging console": true, "line vty 0 15": true,
	"logging synchronous level all": true, "ip subnet-zero": true, "ip classless": true, "reload in 2": true,
	"n": true, "reload cancel": true, "exit": true}

// commands of the session itself whose output the program only logs or does not read at all
// (per backend); everything else that is not classified below is "unknown"
var setupOrShow = map[string]map[string]bool{
	"ASA": {"<secret>": true, "enable": true, "sh pager": true, "terminal pager 0": true, "sh term": true,
		"configure terminal": true, "terminal width 511": true, "end": true, "sh ver": true, "yes": true},
	"IOS": {"<secret>": true, "enable": true, "term len 0": true, "term width 512": true, "sh ver": true,
		"configure terminal": true, "end": true, "no logging console": true, "line vty 0 15": true,
		"logging synchronous level all": true, "ip subnet-zero": true, "ip classless": true,
		"reload in 2": true, "do reload in 2": true, "n": true, "reload cancel": true, "do reload cancel": true, "yes": true},
	"Linux": {"<secret>": true, "yes": true, "PS1=router#": true, "uname -r": true, "uname -m": true},
}

// classify the command at the fault position for the signature of a finding
func faultClass(backend string, lines []string, faultAt int, kind string, base plan, baseE plan) string {
	if faultAt <= 0 || faultAt > len(lines) {
		return "preamble"
	}
	l := canonLine(backend, lines[faultAt-1])
	inPlan := false
	for _, x := range append(base.lines(), baseE.lines()...) {
		if x == l {
			inPlan = true
		}
	}
	switch {
	case inPlan:
		return "change"
	case l == "write memory" || l == "commit" || l == "show jobs" ||
		(l == "" && faultAt >= 2 && canonLine(backend, lines[faultAt-2]) == "write memory"):
		return "save"
	case l == "show hostname" || l == "hostname -s" ||
		(backend == "IOS" && l == "" && faultAt >= 2 && canonLine(backend, lines[faultAt-2]) == "sh ver"):
		return "name_check" // the name in front of the prompt is compared with the device name
	case (backend == "ASA" || backend == "IOS") && l == "":
		return "setup_or_show" // the empty answer to the password prompt of `enable`
	case l == "write term" || l == "sh run" || l == "iptables-save" || l == "ip route show" ||
		l == "get config" || l == "gateway-policies" || l == "services" || l == "groups" || strings.HasPrefix(l, "GET "):
		return "retrieval"
	case l == "echo $?" || l == "which iptables-restore" || strings.HasPrefix(l, "grep "):
		return "probe"
	case l == "keygen" || l == "show ha" || l == "session create":
		return "login"
	case strings.HasPrefix(l, "chmod a+x /etc/network/") || l == "/etc/network/packet-filter.new" || strings.HasPrefix(l, "mv -f /etc/network/"):
		return "activate"
	case setupOrShow[backend][l]:
		return "setup_or_show"
	}
	return "unknown"
}

// commitJobKind: PAN-OS commit answered with status="success" but without a usable job id
func commitJobKind(k string) bool {
	return k == "commit_nojob" || k == "commit_emptyjob" || k == "commit_textjob"
}

// nsxBodyKind: status 200 and a body that is not what the request asks for (NSX defines the
// success of log-in and change requests by the status code; the body is not read there)
func nsxBodyKind(k string) bool {
	return k == "malformed" || k == "json_error_200" || k == "no_results" || k == "wrong_type" || k == "results_wrong_type"
}

// scpOK: the stand-in for scp (not the program's log) recorded a successful copy of that file
func scpOK(o CaseOut, what string) bool {
	for _, e := range o.ScpLog {
		if e == what+":ok" {
			return true
		}
	}
	return false
}

// sessionVocab: the commands of the session itself, per backend (a fixed vocabulary, not taken
// from a run of the program under test): anything else that is not part of the planner's script
// is a foreign command.
func sessionVocab(backend, cl string) bool {
	switch backend {
	case "ASA", "IOS":
		return sessionLines[cl] || setupOrShow[backend][cl]
	case "Linux":
		return setupOrShow[backend][cl] || cl == "hostname -s" || strings.HasPrefix(cl, "grep '") && strings.HasSuffix(cl, "' /etc/issue") ||
			cl == "iptables-save" || cl == "ip route show" || cl == "which iptables-restore" || cl == "echo $?" || cl == "exit"
	case "PAN-OS":
		return cl == "keygen" || cl == "show ha" || cl == "get config" || cl == "commit" || cl == "show jobs"
	case "NSX":
		return cl == "session create" || cl == "gateway-policies" || cl == "services" || cl == "groups" ||
			strings.HasPrefix(cl, "GET /policy/api/v1/infra/domains/default/gateway-policies/")
	}
	return false
}

// check the property on one real run (without the model).
func oracle(c CaseIn, o CaseOut, base, baseE plan) verdict {
	compare := c.Mode == "compare"
	doapp := c.Tool == "doapprove"
	res := statusResult(o.Status, compare)
	end := historyEnd(o.History)
	if o.Hung {
		return verdict{ok: false, pred: "run_never_ends", symptom: "still_running", what: fmt.Sprintf("the run was still alive %v after its start (time-out of the program: %d s): no exit status, nothing recorded", runBound(c), c.timeout())}
	}
	if o.Panic != "" {
		return verdict{ok: false, pred: "go_panic", symptom: "panic", what: "runtime panic: " + o.Panic}
	}
	linux := c.Scen.Backend == "Linux"
	realscp := c.Scen.Shape["realscp"] == 1
	// Linux: what reached the device is what the stand-in for scp recorded, not what the
	// program wrote into its own log (with the SIMULATE_ROUTER short-cut nothing is copied at all)
	copiedRouting, copiedTables := o.ScpRouting, o.ScpTables
	if linux && realscp {
		copiedRouting, copiedTables = scpOK(o, "routing"), scpOK(o, "iptables")
	}
	joined := map[string]bool{}
	for _, p := range []plan{base, baseE} {
		for _, pk := range p.packets {
			if len(pk) == 2 {
				joined[pk[0]+"\x00"+pk[1]] = true
			}
		}
	}
	kindEff := c.FaultKind
	if kindEff == "warntext" && o.FaultAt >= 1 && o.FaultAt <= len(o.Lines) && showLike(o.Lines[o.FaultAt-1]) {
		// `WARNING: …` in place of the output of a show command is unexpected output, not a notice
		kindEff = "unexpected"
	}
	c.FaultKind = kindEff
	extras := []string{"chmod a+x /etc/network/packet-filter.new", "/etc/network/packet-filter.new",
		"mv -f /etc/network/packet-filter.new /etc/network/packet-filter"}
	// every run, whatever happens: the change commands the device received are a prefix of the
	// planner's script (Linux: then of the three activation commands; PAN-OS: a command may be
	// repeated once by net/http) -- never a foreign command, never out of order
	{
		isPrefixOf := func(got, want []string) bool {
			if len(got) > len(want) {
				return false
			}
			for i := range got {
				if got[i] != want[i] {
					return false
				}
			}
			return true
		}
		okAny := false
		for _, p := range []plan{base, baseE} {
			want := p.lines()
			if linux && p.ipt {
				want = append(append([]string{}, want...), extras...)
			}
			inWant := map[string]bool{}
			for _, w := range want {
				inWant[w] = true
			}
			var got []string
			for _, l := range o.Lines {
				cl := canonLine(c.Scen.Backend, l)
				if inWant[cl] {
					if c.Scen.Backend == "PAN-OS" && len(got) > 0 && got[len(got)-1] == cl && c.FaultKind == "close" {
						continue // replayed by net/http
					}
					got = append(got, cl)
				}
			}
			if isPrefixOf(got, want) {
				okAny = true
			}
		}
		if !okAny {
			return verdict{ok: false, pred: "change_commands_not_a_prefix_of_the_script", symptom: "script_order", what: "the change commands received are not a prefix of the planner's script"}
		}
		// a command that is neither part of the session of this scenario nor of the script
		isKnown := map[string]bool{}
		for _, x := range append(append(base.lines(), baseE.lines()...), extras...) {
			isKnown[x] = true
		}
		for _, l := range o.Lines {
			cl := canonLine(c.Scen.Backend, l)
			if !isKnown[cl] && !sessionVocab(c.Scen.Backend, cl) {
				return verdict{ok: false, pred: "foreign_command", symptom: "foreign_command", cmd: cl, what: fmt.Sprintf("the device received %q, which is neither a command of the session nor of the planner's script", cl)}
			}
		}
	}
	if o.FaultAt >= 0 && !benignKind(c.FaultKind) {
		// a device-side failure was injected
		cls := faultClass(c.Scen.Backend, o.Lines, o.FaultAt, c.FaultKind, base, baseE)
		cmd := "<preamble>"
		if o.FaultAt >= 1 && o.FaultAt <= len(o.Lines) {
			cmd = canonLine(c.Scen.Backend, o.Lines[o.FaultAt-1])
			if cls == "change" {
				cmd = "<change>"
			} else if cmd == "" {
				cmd = "<empty>"
			} else if strings.HasPrefix(cmd, "grep ") {
				cmd = "grep"
			} else if strings.HasPrefix(cmd, "GET ") || strings.HasPrefix(cmd, "PUT ") || strings.HasPrefix(cmd, "PATCH ") || strings.HasPrefix(cmd, "DELETE ") {
				cmd, _, _ = strings.Cut(cmd, " ")
			}
		}
		if strings.HasPrefix(c.FaultKind, "scpfail_") {
			cls = "save"
			cmd = "<scp>"
		}
		pred := "other"
		if c.FaultKind == "savefail_ok" && cls == "save" {
			// an error sentence that contains the literal "[OK]": the code looks for the marker only
			pred = "output_of_save_command_not_inspected_beyond_confirmation"
		}
		if c.FaultKind == "errtext" || c.FaultKind == "unexpected" || c.FaultKind == "garbled" {
			switch {
			case cls == "setup_or_show", cls == "preamble",
				cls == "name_check" && c.Scen.Backend == "IOS", // only the last line in front of the prompt is looked at
				cls == "probe" && cmd == "grep":                // only asked whether there is any output
				pred = "output_of_setup_or_show_command_not_inspected"
			case cls == "retrieval":
				pred = "rejected_config_retrieval_parsed_as_configuration"
			case cls == "save":
				pred = "output_of_save_command_not_inspected_beyond_confirmation"
			}
		}
		if c.FaultKind == "no_results" && cls == "retrieval" {
			pred = "rejected_config_retrieval_parsed_as_configuration"
		}
		v := verdict{class: cls, cmd: cmd, kind: c.FaultKind}
		if isHTTP(c.Scen.Backend) && c.FaultKind == "close" && o.FaultAt >= 1 && o.FaultAt <= len(o.Lines) {
			// net/http replays a replayable request on a closed reused connection: observed iff
			// the same request arrives again, next, on another connection
			v.method, _, _ = strings.Cut(o.Lines[o.FaultAt-1], " ")
			i := o.FaultAt
			v.replayed = i < len(o.Lines) && o.Lines[i] == o.Lines[i-1] && i < len(o.Conns) && o.Conns[i] != o.Conns[i-1]
			if pred == "other" && v.replayed {
				pred = "closed_connection_replayed_by_net_http"
			}
		}
		v.pred = pred
		fail := func(symptom, what string) verdict {
			v.ok, v.symptom, v.what = false, symptom, what
			return v
		}
		if c.Scen.Backend == "NSX" && nsxBodyKind(c.FaultKind) && (cls == "change" || o.FaultAt == 1) {
			// NSX defines success of these requests by the status code: not a failure
			return verdict{ok: true}
		}
		// content classification of what the device received (independent of the model):
		// change = a command of the planner's script (or one of Linux' fixed activation commands),
		// save = write memory / commit / job poll; a foreign command counts as a change
		isChange := map[string]bool{"write memory": true, "commit": true, "show jobs": true}
		for _, x := range append(append(base.lines(), baseE.lines()...), extras...) {
			isChange[x] = true
		}
		after := o.Lines[min(o.FaultAt, len(o.Lines)):]
		for i, l := range after {
			cl := canonLine(c.Scen.Backend, l)
			if i == 0 && o.FaultAt >= 1 && joined[canonLine(c.Scen.Backend, o.Lines[o.FaultAt-1])+"\x00"+cl] {
				continue // second half of the packet that was already on the wire
			}
			if i == 0 && v.replayed {
				continue // the replay of the unanswered request by net/http (judged by what follows)
			}
			if i == 0 && commitJobKind(c.FaultKind) && cl == "show jobs" {
				// the reply is a well-formed success without a job: that no commit is running
				// shows when the device rejects the poll for that job -- one poll is in order
				continue
			}
			if isChange[cl] {
				return fail("change_sent_after_failure", fmt.Sprintf("%q sent after the failure (%s at the reply to line %d, a %s command)", cl, c.FaultKind, o.FaultAt, cls))
			}
		}
		if copiedRouting && linux && c.FaultKind != "scpfail_routing" {
			// routing start-up file is copied last: must not happen after a failure
			return fail("startup_file_copied_after_failure", "start-up routing file copied after the failure")
		}
		if o.Exit == 0 {
			return fail("exit_0_after_failure", fmt.Sprintf("exit status 0 after %s at line %d (%s)", c.FaultKind, o.FaultAt, cls))
		}
		if doapp {
			want := "FAILED/p1"
			if compare {
				want = "DIFF/p1"
				if c.PrevDiff {
					want = "DIFF/p0" // already recorded as different: the record is left as it is
				}
			}
			if res != want {
				return fail("status_not_failed", fmt.Sprintf("status %q after the failure, want %s", res, want))
			}
			if end != "FAILED" {
				return fail("history_end_not_failed", fmt.Sprintf("history END: %q after the failure", end))
			}
		}
		return verdict{ok: true}
	}
	// no failure injected (or a benign notice): OK only if everything was sent, accepted and saved
	if !compare && (o.Exit == 0 || (doapp && (res == "OK/p1" || end == "OK"))) {
		if o.Exit != 0 || (doapp && (res != "OK/p1" || end != "OK")) {
			return verdict{ok: false, pred: "inconsistent_report", symptom: "inconsistent_report", what: fmt.Sprintf("exit %d, status %q, END %q", o.Exit, res, end)}
		}
		var got []string
		for _, l := range o.Lines {
			got = append(got, canonLine(c.Scen.Backend, l))
		}
		want := base.lines()
		j := 0
		for _, g := range got {
			if j < len(want) && g == want[j] {
				j++
			}
		}
		if j != len(want) {
			return verdict{ok: false, pred: "ok_without_all_commands", symptom: "command_missing", what: fmt.Sprintf("OK reported but command %q was not sent", want[j])}
		}
		if len(want) > 0 || base.ipt {
			saved := true
			switch c.Scen.Backend {
			case "ASA", "IOS":
				g := got
				if len(g) > 0 && g[len(g)-1] == "exit" {
					g = g[:len(g)-1]
				}
				n := len(g)
				saved = n >= 1 && (g[n-1] == "write memory" || (n >= 2 && g[n-2] == "write memory" && g[n-1] == ""))
			case "Linux":
				saved = (!base.ipt || copiedTables) && (len(want) == 0 || copiedRouting)
			case "PAN-OS":
				saved = len(got) >= 1 && (got[len(got)-1] == "show jobs" || got[len(got)-1] == "commit")
			}
			if !saved {
				return verdict{ok: false, pred: "ok_without_save", symptom: "not_saved", what: "OK reported but the save/commit was not the last step (Linux: the start-up file did not reach the device)"}
			}
		}
	}
	if compare && doapp && o.Exit == 0 && !strings.Contains(o.Log, "ERROR>>>") {
		// compare without failure: the record of THIS run (policy p1) says UPTODATE or DIFF, and
		// DIFF exactly if a difference was logged; a pre-seeded DIFF is left as it is
		chg := strings.Contains(o.Log, "comp: ***")
		want := "UPTODATE/p1"
		if chg {
			want = "DIFF/p1"
			if c.PrevDiff {
				want = "DIFF/p0"
			}
		}
		if res != want {
			return verdict{ok: false, pred: "compare_record_wrong", symptom: "status_record", what: fmt.Sprintf("compare without failure, difference logged: %v, status record %q, want %s", chg, res, want)}
		}
	}
	return verdict{ok: true}
}

// ---------------------------------------------------------------- model

func encPlan(p plan, tok map[string]string) string {
	var pk []string
	for _, k := range p.packets {
		var l []string
		for _, x := range k {
			l = append(l, tok[x])
		}
		pk = append(pk, strings.Join(l, "~"))
	}
	return strings.Join(pk, "|")
}

func shapeStr(m map[string]int) string {
	var ks []string
	for k := range m {
		ks = append(ks, k)
	}
	sort.Strings(ks)
	var l []string
	for _, k := range ks {
		l = append(l, fmt.Sprintf("%s=%d", k, m[k]))
	}
	return strings.Join(l, ",")
}

func parseModel(ans string) map[string]string {
	m := map[string]string{}
	i := strings.Index(ans, " sends=")
	if i >= 0 {
		m["sends"] = ans[i+7:]
		ans = ans[:i]
	}
	for _, f := range strings.Fields(ans) {
		k, v, _ := strings.Cut(f, "=")
		m[k] = v
	}
	return m
}

// ---------------------------------------------------------------- scenario sets

func quickParams() []ScenParams {
	return []ScenParams{
		{Backend: "ASA", Adds: 2, Replaces: 1, Dels: 1},
		{Backend: "ASA"}, // device equal to the target: approve applies nothing, compare records UPTODATE
		{Backend: "ASA", Adds: 1, Replaces: 1, YesNo: true, EnablePW: true, PagerOff: true, Width511: true},
		{Backend: "IOS", Adds: 1, Replaces: 1, Dels: 1, SaveAsk: true},
		{Backend: "IOS", Adds: 2, EnablePW: true, Overwrite: true},
		{Backend: "Linux", Adds: 1, Replaces: 1, IPTables: true},
		{Backend: "Linux", Dels: 1, YesNo: true},
		{Backend: "PAN-OS", Cmds: 3, Pend: 2, HA: "active"},
		{Backend: "PAN-OS", Cmds: 2, NoCh: true},
		{Backend: "PAN-OS", Cmds: 2, Vsys: 2, Pend: 1}, // two vsys with changes: two entries in s.changes
		{Backend: "NSX", Cmds: 3},
		{Backend: "NSX", Cmds: 3, OnDev: 1}, // the device holds Netspoc services: one stays, one is obsolete
	}
}

func randomParams(r *RNG, backend string) ScenParams {
	p := ScenParams{Backend: backend}
	switch backend {
	case "ASA", "IOS", "Linux":
		p.Adds, p.Replaces, p.Dels = r.Intn(4), r.Intn(3), r.Intn(3)
		p.YesNo, p.EnablePW = r.Chance(30), r.Chance(30) && backend != "Linux"
		if backend == "ASA" {
			p.PagerOff, p.Width511 = r.Chance(40), r.Chance(40)
		}
		if backend == "IOS" {
			p.SaveAsk, p.Overwrite = r.Chance(50), r.Chance(30)
		}
		if backend == "Linux" {
			p.IPTables = r.Chance(50)
		}
		if p.Adds+p.Replaces+p.Dels == 0 && !p.IPTables {
			p.Adds = 1
		}
	case "PAN-OS":
		p.Cmds = 2 + r.Intn(5)
		p.Pend = r.Intn(4)
		p.NoCh = r.Chance(15)
		p.Vsys = 1 + r.Intn(3)
		if p.Vsys > 1 && p.Cmds > 4 {
			p.Cmds = 4
		}
		if r.Chance(50) {
			p.HA = "active"
		}
	case "NSX":
		p.Cmds = 1 + r.Intn(6)
		p.OnDev = r.Intn(3)
	}
	return p
}

func kindsFor(backend string) []string {
	// the device rejects: the whole space of non-success replies of the protocol (PAN-OS: HTTP
	// 200 with a status other than "success" in every spelling, with and without <msg>; NSX: 4xx /
	// 5xx with text, JSON or no body)
	if backend == "PAN-OS" {
		return []string{"httpstatus", "status_nobody", "malformed", "errtext", "close", "silence", "stall_body",
			"rej_unauth", "rej_failure", "rej_nostatus", "rej_word", "rej_case", "rej_error_nomsg"}
	}
	if backend == "NSX" {
		// 200 with a body that is not the expected document: not JSON, an error document, a
		// document without `results`, another top-level type, `results` of another type
		return []string{"httpstatus", "status_nobody", "rej_4xx", "malformed", "json_error_200", "no_results", "wrong_type", "results_wrong_type",
			"errtext", "close", "silence", "stall_body"}
	}
	return []string{"errtext", "unexpected", "garbled", "silence", "truncated", "stall_partial", "close", "warntext"}
}

// ---------------------------------------------------------------- main run

type caseRec struct {
	in       CaseIn
	base     plan
	baseE    plan
	drvLine  string
	tok      map[string]string
	untok    map[string]string
	scenIdx  int
	baseline bool
}

func run(ctx *Ctx) *Result {
	res := NewResult()
	res.Rule = "a device-side failure is injected (any kind, any position) or the scenario has at least one change command; distinct by (scenario, tool, mode, position, kind)"
	drv := ctx.StartNadrv("c09")
	defer drv.Close()
	nw := 16

	if ctx.Replay != "" {
		var c CaseIn
		if err := ReadReplay(ctx.Replay, &c); err != nil {
			res.Notes = append(res.Notes, "replay: "+err.Error())
			return res
		}
		evalCases(ctx, res, drv, []CaseIn{c}, 1, true)
		return res
	}

	params := quickParams()
	nRandom := ctx.N(0, 36)
	backends := []string{"ASA", "IOS", "Linux", "PAN-OS", "NSX"}
	seen := map[string]bool{}
	for _, p := range params {
		seen[p.id()] = true
	}
	for len(params) < len(quickParams())+nRandom {
		p := randomParams(ctx.Rng, backends[ctx.Rng.Intn(len(backends))])
		if seen[p.id()] {
			continue
		}
		seen[p.id()] = true
		params = append(params, p)
	}
	var scens []Scenario
	for _, p := range params {
		scens = append(scens, buildScenario(p))
	}
	res.CountN("scenarios", len(scens))

	// 1. baselines: approve without fault (length of the dialogue)
	var bl []CaseIn
	for _, s := range scens {
		bl = append(bl, CaseIn{Scen: s, Tool: "doapprove", Mode: "approve", FaultPos: -1})
	}
	// (no fault, no silence: a time-out in such a run is the test machine's)
	blOut := runChecked(res, bl, nw, func(c CaseIn, o CaseOut) bool { return !envNoise(o) && !timedOut(o) })

	// 2. the matrix
	var cases []CaseIn
	for i, s := range scens {
		n := len(blOut[i].Lines)
		if n > 0 && blOut[i].Lines[n-1] == "exit" {
			n--
		}
		res.CountN("positions", n+1)
		cases = append(cases, bl[i])
		kinds := kindsFor(s.Backend)
		first := 1
		if !isHTTP(s.Backend) {
			first = 0
		}
		applicable := func(pos int, k string) bool {
			if pos == 0 && (k == "errtext" || k == "garbled" || k == "warntext") {
				return false
			}
			return true
		}
		for pos := first; pos <= n; pos++ {
			for _, k := range kinds {
				if !applicable(pos, k) {
					continue
				}
				cases = append(cases, CaseIn{Scen: s, Tool: "doapprove", Mode: "approve", FaultPos: pos, FaultKind: k})
			}
			// at every save / commit step: failures whose text embeds fragments of a good answer
			if pos >= 1 {
				l := blOut[i].Lines[pos-1]
				var extra []string
				switch {
				case s.Backend == "PAN-OS" && strings.Contains(l, "<show><jobs>"):
					extra = []string{"jobfail", "jobfail_success", "errsuccess"}
				case s.Backend == "PAN-OS" && strings.Contains(l, "type=commit"):
					// commit_*: well-formed success replies that carry no (usable) job id
					extra = []string{"commitmsg", "errsuccess", "commit_nojob", "commit_emptyjob", "commit_textjob"}
				case s.Backend == "PAN-OS" && strings.Contains(l, "type=config") && !strings.Contains(l, "action=get"):
					extra = []string{"errsuccess"}
				case (s.Backend == "ASA" || s.Backend == "IOS") && !sessionLines[l]:
					// a change command: every mixture of notices and error lines in one output
					extra = []string{"warn_then_err", "info_then_err", "err_then_warn", "warns_then_err", "warns_only", "info_then_warn"}
				case (s.Backend == "ASA" || s.Backend == "IOS") && (l == "write memory" || (l == "" && pos >= 2 && blOut[i].Lines[pos-2] == "write memory")):
					extra = []string{"savefail", "savefail_ok"}
				}
				for _, k := range extra {
					cases = append(cases, CaseIn{Scen: s, Tool: "doapprove", Mode: "approve", FaultPos: pos, FaultKind: k})
					if !sessionLines[l] && !isHTTP(s.Backend) && !ctx.Thorough() {
						continue // mixed-output kinds: via drc only in the thorough tier
					}
					cases = append(cases, CaseIn{Scen: s, Tool: "drc", Mode: "approve", FaultPos: pos, FaultKind: k})
				}
			}
		}
		// Linux: the copy of a start-up file fails (the program runs the `scp` it finds in PATH)
		if s.Backend == "Linux" {
			for _, k := range []string{"scpfail_iptables", "scpfail_routing"} {
				cases = append(cases, CaseIn{Scen: s, Tool: "doapprove", Mode: "approve", FaultPos: -3, FaultKind: k})
				cases = append(cases, CaseIn{Scen: s, Tool: "drc", Mode: "approve", FaultPos: -3, FaultKind: k})
			}
		}
		// compare mode, drc tool, previous DIFF: a sample of positions
		step := 1
		if !ctx.Thorough() {
			step = 3
		}
		for pos := first; pos <= n; pos += step {
			k := kinds[(pos+i)%len(kinds)]
			k2 := kinds[(pos+i+1)%len(kinds)]
			if !applicable(pos, k) {
				k = "close"
			}
			if !applicable(pos, k2) {
				k2 = "silence"
			}
			// the status file: absent, or with an older record (policy p0) that says DIFF resp.
			// UPTODATE -- the record written by this run names policy p1
			cases = append(cases, CaseIn{Scen: s, Tool: "doapprove", Mode: "compare", FaultPos: pos, FaultKind: k, PrevDiff: pos%3 == 1, PrevUp: pos%3 == 2})
			cases = append(cases, CaseIn{Scen: s, Tool: "drc", Mode: "approve", FaultPos: pos, FaultKind: k2})
			cases = append(cases, CaseIn{Scen: s, Tool: "drc", Mode: "compare", FaultPos: pos, FaultKind: k2}) // drc -C
		}
		cases = append(cases, CaseIn{Scen: s, Tool: "doapprove", Mode: "compare", FaultPos: -1})
		cases = append(cases, CaseIn{Scen: s, Tool: "doapprove", Mode: "compare", FaultPos: -1, PrevDiff: true})
		cases = append(cases, CaseIn{Scen: s, Tool: "doapprove", Mode: "compare", FaultPos: -1, PrevUp: true})
		cases = append(cases, CaseIn{Scen: s, Tool: "drc", Mode: "approve", FaultPos: -1})
		cases = append(cases, CaseIn{Scen: s, Tool: "drc", Mode: "compare", FaultPos: -1}) // drc -C
	}
	evalCases(ctx, res, drv, cases, nw, false)
	res.Exhaustive = false
	return res
}

// ---------------------------------------------------------------- environment noise

// The parallel phase runs the program with time-outs of 1 second; on a loaded machine the
// simulator (a child process behind a pty) now and then does not answer within that second, the
// pty pool runs dry, a worker dies.  Such a run says nothing about the program.  Every case whose
// first run disagrees with the model (or looks like one of these accidents) is therefore run a
// second time, alone, with longer time-outs, after the parallel phase; only what shows up again
// is reported.
const serialTimeoutS = 5

var envNoiseRe = regexp.MustCompile(`/dev/ptmx|no space left on device|too many open files|cannot allocate memory|resource temporarily unavailable|fork/exec`)

func envNoise(o CaseOut) bool {
	return o.Hung || strings.HasPrefix(o.Panic, "worker died") || envNoiseRe.MatchString(o.Log) ||
		envNoiseRe.MatchString(o.Stderr) || envNoiseRe.MatchString(o.Panic)
}

var timedOutRe = regexp.MustCompile(`timer expired|Client\.Timeout|deadline exceeded|i/o timeout`)

// timedOut: the program under test ran into one of its time-outs
func timedOut(o CaseOut) bool {
	return timedOutRe.MatchString(o.Log) || timedOutRe.MatchString(o.Stderr)
}

// timeoutKind: the injected fault itself makes the program run into a time-out
func timeoutKind(k string) bool {
	return k == "silence" || k == "truncated" || k == "stall_partial" || k == "stall_body"
}

// envSuspect: the run carries marks of trouble of the test machine
func envSuspect(c CaseIn, o CaseOut) bool {
	return envNoise(o) || timedOut(o) && (!timeoutKind(c.FaultKind) || o.FaultAt < 0)
}

// rerunSerial runs the given cases again, one after the other, with the long time-out, as long
// as the budget lasts; ok[i] says whether case i was run again.
func rerunSerial(cases []CaseIn, budget time.Duration) (outs []CaseOut, ok []bool) {
	outs = make([]CaseOut, len(cases))
	ok = make([]bool, len(cases))
	start := time.Now()
	for i, c := range cases {
		if time.Since(start) > budget {
			break
		}
		c.TimeoutS = serialTimeoutS
		outs[i] = runAll([]CaseIn{c}, 1)[0]
		ok[i] = true
	}
	return
}

// runChecked: runAll, then the runs that fail `good` once more alone with the long time-out.
func runChecked(res *Result, cases []CaseIn, nw int, good func(CaseIn, CaseOut) bool) []CaseOut {
	outs := runAll(cases, nw)
	var again []int
	for i := range cases {
		if !good(cases[i], outs[i]) {
			again = append(again, i)
		}
	}
	if len(again) > 0 {
		var ac []CaseIn
		for _, i := range again {
			ac = append(ac, cases[i])
		}
		o2, ok := rerunSerial(ac, 60*time.Second)
		for k, i := range again {
			if ok[k] {
				res.Count("preparation_run_repeated_serially")
				outs[i] = o2[k]
			}
		}
	}
	return outs
}

// ---------------------------------------------------------------- one case: real run vs model

type plans struct{ g, e plan }

type judged struct {
	impl, model string
	ans         string
	m           map[string]string
	v           verdict
	modelHolds  bool
	exitLost    bool
	kind        string
}

// disagrees: something would be reported as a disagreement between the real run and the model
func (j judged) disagrees() bool {
	return j.impl != j.model || (j.v.ok != j.modelHolds && j.v.pred != "go_panic")
}

func modelLine(c CaseIn, p *plans) (line string, untok map[string]string) {
	tok := map[string]string{}
	untok = map[string]string{}
	for _, l := range append(p.g.lines(), p.e.lines()...) {
		if _, ok := tok[l]; !ok {
			t := fmt.Sprintf("t%d", len(tok))
			tok[l] = t
			untok[t] = l
		}
	}
	fp := "-"
	if c.FaultPos >= 0 {
		fp = strconv.Itoa(c.FaultPos)
	}
	kind := c.FaultKind
	if kind == "" {
		kind = "-"
	}
	line = strings.Join([]string{c.Scen.Backend, c.Mode, shapeStr(c.Scen.Shape), encPlan(p.g, tok), encPlan(p.e, tok),
		strconv.Itoa(b2i(p.g.ipt)), strconv.Itoa(b2i(p.e.ipt)), fp, kind, strconv.Itoa(b2i(c.PrevDiff) + 2*b2i(c.PrevUp)), "50"}, "\t")
	return
}

func judge(c CaseIn, o CaseOut, p *plans, ans string, untok map[string]string) judged {
	j := judged{ans: ans, m: parseModel(ans), kind: c.FaultKind}
	m := j.m
	// ---- implementation, canonicalised
	var implSends []string
	for _, l := range o.Lines {
		implSends = append(implSends, canonLine(c.Scen.Backend, l))
	}
	compare := c.Mode == "compare"
	implStatus, implEnd := "-", "-"
	implExit := o.Exit
	if c.Tool == "doapprove" {
		implStatus = statusResult(o.Status, compare)
		implEnd = historyEnd(o.History)
	}
	implErr := b2i(strings.Contains(o.Log, "ERROR>>>"))
	implChg := b2i(strings.Contains(o.Log, "comp: ***"))
	var scp []string
	if o.ScpTables {
		scp = append(scp, "iptables")
	}
	if o.ScpRouting {
		scp = append(scp, "routing")
	}
	j.impl = fmt.Sprintf("exit=%d status=%s end=%s err=%d chg=%d scp=%s sends=%s", implExit, implStatus, implEnd, implErr, implChg,
		strings.Join(scp, ","), strings.Join(implSends, ";"))
	if o.Hung {
		j.impl = "hung " + j.impl
	}

	// ---- model, canonicalised
	var modelSends []string
	if m["sends"] != "" {
		for _, s := range strings.Split(m["sends"], ";") {
			_, ls, _ := strings.Cut(s, ":")
			for _, l := range strings.Split(ls, "~") {
				if u, ok := untok[l]; ok {
					l = u
				}
				if strings.HasPrefix(l, "scp ") {
					continue
				}
				modelSends = append(modelSends, l)
			}
		}
	}
	if c.FaultKind == "close" && o.FaultAt >= 0 && len(modelSends) > o.FaultAt && !isHTTP(c.Scen.Backend) {
		// a closed device does not record what is still written to it
		modelSends = modelSends[:o.FaultAt]
	}
	mExit, mStatus, mEnd := m["exit"], m["status"], m["end"]
	if c.Tool == "drc" {
		mExit, mStatus, mEnd = m["dexit"], "-", "-"
	}
	j.model = fmt.Sprintf("exit=%s status=%s end=%s err=%s chg=%s scp=%s sends=%s", mExit, mStatus, mEnd, m["err"], m["chg"], m["scp"],
		strings.Join(modelSends, ";"))
	if j.impl != j.model && j.impl+";exit" == j.model {
		// goexpect hands "exit" to its writer goroutine and the program ends: the final
		// clean-up line can be lost before it reaches the pty (seen about once in 7000 runs)
		j.exitLost = true
		j.impl = j.model
	}
	// ---- oracle on the real run; the model's own verdict (specification predicates evaluated
	// on the model's trace) must be the oracle's verdict on the real run
	j.v = oracle(c, o, p.g, p.e)
	j.modelHolds = m["sf"] == "1" && (m["ff"] == "-1" || m["dexit"] == "1")
	return j
}

// planKey: the plans of a case.  NSX, a list answered by a document without `results`: the real
// planner works with what it then believes the device holds -- its script under that very reply.
func planKey(c CaseIn) string {
	if c.Scen.Backend == "NSX" && c.FaultKind == "no_results" && c.FaultPos >= 1 {
		return fmt.Sprintf("%s#%d", c.Scen.ID, c.FaultPos)
	}
	return c.Scen.ID
}

// evalCases: plans via real compare runs, then real runs, model runs, comparison, oracle.
func evalCases(ctx *Ctx, res *Result, drv *Nadrv, cases []CaseIn, nw int, verbose bool) {
	// plans per scenario: the real planner's script against the genuine device configuration
	// and (ASA, IOS) against a retrieval that returned error text
	pl := map[string]*plans{}
	var pc []CaseIn
	var pk []string
	for _, c := range cases {
		id := c.Scen.ID
		if _, ok := pl[id]; ok {
			continue
		}
		pl[id] = &plans{}
		pc = append(pc, CaseIn{Scen: c.Scen, Tool: "doapprove", Mode: "compare", FaultPos: -1, TimeoutS: c.TimeoutS})
		pk = append(pk, id+"/g")
		if c.Scen.Backend == "ASA" || c.Scen.Backend == "IOS" {
			// position of the retrieval command: found by a dry run
			pc = append(pc, CaseIn{Scen: c.Scen, Tool: "doapprove", Mode: "compare", FaultPos: -2, TimeoutS: c.TimeoutS})
			pk = append(pk, id+"/e")
		}
	}
	// a preparation run without fault that does not end with exit 0 was disturbed
	prepGood := func(c CaseIn, o CaseOut) bool { return !envNoise(o) && !timedOut(o) }
	// first pass: genuine plans and retrieval positions
	po := runChecked(res, pc, nw, prepGood)
	var pc2 []CaseIn
	var pk2 []string
	for i, k := range pk {
		id, which, _ := strings.Cut(k, "/")
		if which == "g" {
			pl[id].g = planFromCmp(pc[i].Scen.Backend, po[i].CmpLog)
		} else {
			pos := 0
			for j, l := range po[i].Lines {
				if l == "write term" || l == "sh run" {
					pos = j + 1
				}
			}
			c := pc[i]
			c.FaultPos, c.FaultKind = pos, "unexpected"
			pc2 = append(pc2, c)
			pk2 = append(pk2, id)
		}
	}
	for _, c := range cases {
		if k := planKey(c); k != c.Scen.ID && pl[k] == nil {
			pl[k] = &plans{g: pl[c.Scen.ID].g}
			pc2 = append(pc2, CaseIn{Scen: c.Scen, Tool: "doapprove", Mode: "compare", FaultPos: c.FaultPos, FaultKind: c.FaultKind, TimeoutS: c.TimeoutS})
			pk2 = append(pk2, k)
		}
	}
	po2 := runChecked(res, pc2, nw, prepGood)
	for i, id := range pk2 {
		pl[id].e = planFromCmp(pc2[i].Scen.Backend, po2[i].CmpLog)
	}

	// parallel phase
	outs := runAll(cases, nw)
	js := make([]judged, len(cases))
	untoks := make([]map[string]string, len(cases))
	var suspects []int
	for i, c := range cases {
		line, untok := modelLine(c, pl[planKey(c)])
		untoks[i] = untok
		js[i] = judge(c, outs[i], pl[planKey(c)], drv.Ask(line), untok)
		// A first verdict is never replaced by a second run; a second run may only CONFIRM a
		// disagreement whose first run carries the marks of trouble of the test machine (a
		// time-out the injected fault cannot have caused, pty / process shortage, a dead or hung
		// worker, the lost final `exit`).  Every other disagreement is reported as it is.
		if js[i].disagrees() && envSuspect(c, outs[i]) || js[i].exitLost {
			suspects = append(suspects, i)
		}
	}
	hard := map[int]judged{} // failures of the oracle in a first run that was run again
	exitLostTwice := map[int]bool{}
	// serial phase: the suspects once more, alone, with longer time-outs
	if len(suspects) > 0 && ctx.Replay == "" {
		var sc []CaseIn
		for _, i := range suspects {
			sc = append(sc, cases[i])
		}
		o2, ok := rerunSerial(sc, 45*time.Second)
		for k, i := range suspects {
			if !ok[k] {
				res.Count("suspect_not_repeated_out_of_time")
				continue
			}
			res.Count("suspect_repeated_serially")
			j2 := judge(cases[i], o2[k], pl[planKey(cases[i])], js[i].ans, untoks[i])
			if v1 := js[i].v; !v1.ok && v1.pred != "go_panic" && v1.pred != "run_never_ends" {
				// trouble of the test machine only ever makes a run stop early: what the oracle
				// saw in the first run (a change after the failure, exit 0, ...) stands
				hard[i] = js[i]
			}
			if js[i].exitLost {
				if j2.exitLost {
					exitLostTwice[i] = true // not a race: the line is missing every time
				} else {
					res.Count("final_exit_line_not_observed")
				}
			}
			if !j2.disagrees() {
				// inconclusive first run: time-out or resource shortage of the test machine
				res.Count("inconclusive_first_run_not_reproduced")
			} else {
				cases[i].TimeoutS = serialTimeoutS // the replay uses what reproduced it
			}
			outs[i], js[i] = o2[k], j2
		}
	}

	for i, c := range cases {
		o, j, p := outs[i], js[i], pl[planKey(c)]
		m, v, ans := j.m, j.v, j.ans
		kind := c.FaultKind
		if kind == "" {
			kind = "-"
		}
		canon := fmt.Sprintf("%s|%s|%s|%d|%s|%v|%v", c.Scen.ID, c.Tool, c.Mode, c.FaultPos, c.FaultKind, c.PrevDiff, c.PrevUp)
		res.Eval(canon, c.FaultPos >= 0 || len(p.g.packets) > 0)
		res.Count("backend:" + c.Scen.Backend)
		res.Count("kind:" + kind)
		res.Count("mode:" + c.Tool + "/" + c.Mode)
		res.Count(fmt.Sprintf("plan_packets:%d", len(p.g.packets)))
		if c.FaultPos >= 0 {
			res.Count("fault_at_class:" + faultClass(c.Scen.Backend, o.Lines, o.FaultAt, c.FaultKind, p.g, p.e))
		}
		res.TracesVsImpl++
		if exitLostTwice[i] {
			res.Disagree("fault-matrix", c, j.impl+" (final exit line missing in two runs)", j.model+";exit")
		}
		if h, ok := hard[i]; ok {
			c1 := c
			c1.TimeoutS = 0
			res.Fail(h.v.sig(c1, c1.FaultKind, !h.modelHolds), h.v.what+" (first run; the repetition with longer time-outs is judged separately)", c1)
		}
		if j.impl != j.model {
			res.Disagree("fault-matrix", c, j.impl, j.model)
		}
		if m["diverge"] == "1" {
			res.Count("model_diverged")
		}
		// the model's own spec predicates must agree with what the oracle sees
		if m["sc"] != "1" {
			res.Disagree("model-safe-checked", c, "n/a", ans)
		}
		if !v.ok {
			// model_predicts: the model of the unchanged code, run on this input, says itself that
			// the property fails here (its own specification predicates on its own trace)
			res.Fail(v.sig(c, c.FaultKind, !j.modelHolds), v.what, c)
		}
		if v.ok != j.modelHolds && v.pred != "go_panic" {
			res.Disagree("oracle-vs-model-spec", c, fmt.Sprintf("oracle ok=%v %s", v.ok, v.what), ans)
		}
		if verbose {
			fmt.Fprintf(os.Stderr, "impl : %s\nmodel: %s\noracle: %+v\n", j.impl, j.model, v)
		}
		if i < 3 {
			res.Sample(map[string]any{"scenario": c.Scen.ID, "pos": c.FaultPos, "kind": c.FaultKind, "impl": j.impl})
		}
	}
}
