package main

// Running one case against the REAL code in-process (doapprove.Main / drc.Main), with a
// simulated device: console backends through SIMULATE_ROUTER=<this binary> -devsim <dir>,
// HTTP backends through an in-process TLS server (httpsim.go).

import (
	"bufio"
	"bytes"
	"encoding/json"
	"fmt"
	"os"
	"path/filepath"
	"strconv"
	"strings"
	"time"

	. "verifharness/vhlib"

	"github.com/hknutzen/Netspoc-Approve/go/pkg/doapprove"
	"github.com/hknutzen/Netspoc-Approve/go/pkg/drc"
)

// Scenario: one device + one target configuration.
type Scenario struct {
	ID       string            `json:"id"`
	Backend  string            `json:"backend"` // ASA IOS Linux PAN-OS NSX
	Preamble string            `json:"preamble,omitempty"`
	Table    map[string]string `json:"table,omitempty"`
	HTTP     *HTTPScen         `json:"http,omitempty"`
	Netspoc  map[string]string `json:"netspoc"` // files below code/: "router", "router.raw", ...
	// shape of the dialogue, handed to the model
	Shape map[string]int `json:"shape"`
}

type CaseIn struct {
	Scen      Scenario `json:"scen"`
	Tool      string   `json:"tool"` // doapprove | drc
	Mode      string   `json:"mode"` // approve | compare
	FaultPos  int      `json:"fault_pos"`
	FaultKind string   `json:"fault_kind"`
	PrevDiff  bool     `json:"prev_diff,omitempty"` // status file already says compare DIFF
	PrevUp    bool     `json:"prev_up,omitempty"`   // status file already says compare UPTODATE (policy p0)
	// time-out (seconds) written to the configuration of the program under test; 0 = 1 second.
	// The parallel phase uses 1 second; a case that disagrees is run again alone with a longer one.
	TimeoutS int `json:"timeout_s,omitempty"`
}

func (c CaseIn) timeout() int {
	if c.TimeoutS > 0 {
		return c.TimeoutS
	}
	return 1
}

type CaseOut struct {
	Exit       int      `json:"exit"`
	Panic      string   `json:"panic,omitempty"`
	Stdout     string   `json:"stdout"`
	Stderr     string   `json:"stderr"`
	Lines      []string `json:"lines"`    // everything the device received, in order
	FaultAt    int      `json:"fault_at"` // number of lines received when the fault was injected (-1: never)
	Status     string   `json:"status"`
	History    string   `json:"history"`
	Log        string   `json:"log"`
	ChangeLog  string   `json:"change_log"`
	CmpLog     string   `json:"cmp_log"`
	Conns      []int    `json:"conns,omitempty"`   // HTTP: per request the number of the TCP connection it arrived on
	ScpLog     []string `json:"scp_log,omitempty"` // Linux with real scp: file:result in order (written by the stand-in for scp)
	ScpRouting bool     `json:"scp_routing"`
	ScpTables  bool     `json:"scp_tables"`
	WallMs     int64    `json:"wall_ms"`
	Hung       bool     `json:"hung,omitempty"` // still running after the bound: killed by the harness
}

const devName = "router"

func selfExe() string {
	p, err := os.Executable()
	if err != nil {
		return os.Args[0]
	}
	return p
}

func runCase(c CaseIn) CaseOut {
	start := time.Now()
	var out CaseOut
	work, err := os.MkdirTemp(os.Getenv("C09_WORKBASE"), "c09case")
	if err != nil {
		panic(err)
	}
	defer os.RemoveAll(work)
	prevDir, _ := os.Getwd()
	defer os.Chdir(prevDir)
	os.Chdir(work)

	policies := filepath.Join(work, "policies")
	codeDir := filepath.Join(policies, "p1", "code")
	os.MkdirAll(codeDir, 0755)
	os.Symlink("p1", filepath.Join(policies, "current"))
	files := map[string]string{}
	for k, v := range c.Scen.Netspoc {
		files[k] = v
	}
	if _, ok := files[devName+".info"]; !ok {
		files[devName+".info"] = fmt.Sprintf(
			`{"model": %q, "name_list": [%q], "ip_list": ["10.1.13.33"]}`, c.Scen.Backend, devName)
	}
	if _, ok := files[devName]; !ok {
		files[devName] = ""
	}
	WriteFiles(codeDir, files)
	for _, d := range []string{"lock", "status", "history"} {
		os.Mkdir(filepath.Join(work, d), 0755)
	}
	os.WriteFile(filepath.Join(work, "credentials"), []byte("* admin secret\n"), 0644)
	os.WriteFile(filepath.Join(work, ".netspoc-approve"), []byte(fmt.Sprintf(
		"basedir = %s\ncheckbanner = NetSPoC\nsystemuser = admin\ntimeout = %d\nlogin_timeout = %d\n", work, c.timeout(), c.timeout())), 0644)
	os.Setenv("HOME", work)
	os.Setenv("TEST_TIME", "2024-Sep-29 16:19:50")
	os.Unsetenv("LANG")
	if c.PrevUp {
		os.WriteFile(filepath.Join(work, "status", devName), []byte(
			`{"approve":{"result":"OK","policy":"p0","time":1727000000},"compare":{"result":"UPTODATE","policy":"p0","time":1727000001}}`), 0644)
	}
	if c.PrevDiff {
		os.WriteFile(filepath.Join(work, "status", devName), []byte(
			`{"approve":{"result":"OK","policy":"p0","time":1727000000},"compare":{"result":"DIFF","policy":"p0","time":1727000001}}`), 0644)
	}

	simDir := filepath.Join(work, "sim")
	os.Mkdir(simDir, 0755)
	var hs *httpSim
	if c.Scen.HTTP != nil {
		hs = newHTTPSim(c.Scen.Backend, c.Scen.HTTP, c.FaultPos, c.FaultKind, c.timeout())
		os.Setenv("SIMULATE_ROUTER", hs.srv.URL)
	} else {
		cfg := simCfg{Name: devName, Preamble: c.Scen.Preamble, Table: c.Scen.Table,
			FaultPos: c.FaultPos, FaultKind: c.FaultKind, ErrText: errTextOf(c.Scen.Backend), TimeoutS: c.timeout()}
		data, _ := json.Marshal(cfg)
		os.WriteFile(filepath.Join(simDir, "sim.json"), data, 0644)
		if c.Scen.Shape["realscp"] == 1 {
			// no test short-cut: the program runs `ssh` and `scp` as it finds them in PATH
			bin := filepath.Join(simDir, "bin")
			os.Mkdir(bin, 0755)
			os.WriteFile(filepath.Join(bin, "ssh"), []byte("#!/bin/sh\nexec '"+selfExe()+"' -devsim '"+simDir+"'\n"), 0755)
			os.WriteFile(filepath.Join(bin, "scp"), []byte("#!/bin/sh\nexec '"+selfExe()+"' -fakescp '"+simDir+"' \"$@\"\n"), 0755)
			oldPath := os.Getenv("PATH")
			os.Setenv("PATH", bin+":"+oldPath)
			defer os.Setenv("PATH", oldPath)
			os.Unsetenv("SIMULATE_ROUTER")
		} else {
			os.Setenv("SIMULATE_ROUTER", selfExe()+" -devsim "+simDir)
		}
	}

	var mainFunc func() int
	logDir := filepath.Join(policies, "p1", "log")
	logFile := ""
	if c.Tool == "drc" {
		mainFunc = drc.Main
		logFile = filepath.Join(work, "drc.log")
		os.Args = []string{"drc", "-L", logDir, "--LOGFILE", logFile}
		if c.Mode == "compare" {
			os.Args = append(os.Args, "-C")
		}
		os.Args = append(os.Args, filepath.Join(codeDir, devName))
	} else {
		mainFunc = doapprove.Main
		os.Args = []string{"do-approve", c.Mode, devName}
		if c.Mode == "compare" {
			logFile = filepath.Join(logDir, devName+".compare")
		} else {
			logFile = filepath.Join(logDir, devName+".drc")
		}
	}
	out.Stdout, out.Stderr, out.Exit, out.Panic = Captured(mainFunc)
	os.Unsetenv("SIMULATE_ROUTER")

	out.FaultAt = -1
	if hs != nil {
		hs.close()
		out.Lines, out.FaultAt = hs.transcript()
		out.Conns = hs.connIDs()
	} else {
		// the simulator is a child of the expect library and reads asynchronously: tell it
		// that the program under test is done and wait for its end mark
		tp := filepath.Join(simDir, "transcript")
		time.Sleep(10 * time.Millisecond) // goexpect writes to the pty from its own goroutine
		os.WriteFile(filepath.Join(simDir, "stop"), nil, 0644)
		for i := 0; i < 1000; i++ {
			if b, err := os.ReadFile(tp); err == nil && (bytes.HasSuffix(b, []byte("\n")) && bytes.Contains(b, []byte("\nX ")) || bytes.HasPrefix(b, []byte("X "))) {
				break
			}
			time.Sleep(5 * time.Millisecond)
		}
		out.Lines, out.FaultAt = readTranscript(tp)
		if data, err := os.ReadFile(filepath.Join(simDir, "scplog")); err == nil {
			for _, l := range strings.Split(strings.TrimSpace(string(data)), "\n") {
				f := strings.Fields(l)
				if len(f) == 4 {
					out.ScpLog = append(out.ScpLog, f[2]+":"+f[3])
					if f[3] == "fail" {
						out.FaultAt, _ = strconv.Atoi(f[1])
					}
				}
			}
		}
	}
	rd := func(p string) string { b, _ := os.ReadFile(p); return string(b) }
	out.Status = rd(filepath.Join(work, "status", devName))
	out.History = rd(filepath.Join(work, "history", devName))
	out.Log = strings.ReplaceAll(rd(logFile), work+"/", "")
	out.ChangeLog = rd(filepath.Join(logDir, devName+".change"))
	out.CmpLog = rd(filepath.Join(logDir, devName+".cmp"))
	if hs != nil {
		out.Log = strings.ReplaceAll(out.Log, hs.srv.URL, "TESTSERVER")
		out.ChangeLog = strings.ReplaceAll(out.ChangeLog, hs.srv.URL, "TESTSERVER")
	}
	out.Stderr = strings.ReplaceAll(out.Stderr, work+"/", "")
	out.ScpRouting = strings.Contains(out.Log, ":/etc/network/routing")
	out.ScpTables = strings.Contains(out.Log, ":/etc/network/packet-filter")
	out.WallMs = time.Since(start).Milliseconds()
	return out
}

func errTextOf(backend string) string {
	switch backend {
	case "ASA":
		return "ERROR: % Invalid input detected at '^' marker."
	case "IOS":
		return "% Invalid next hop address (it's this router)"
	}
	return "-bash: line 1: command failed"
}

func readTranscript(path string) ([]string, int) {
	fh, err := os.Open(path)
	if err != nil {
		return nil, -1
	}
	defer fh.Close()
	var lines []string
	faultAt := -1
	sc := bufio.NewScanner(fh)
	sc.Buffer(make([]byte, 1<<20), 1<<20)
	for sc.Scan() {
		t := sc.Text()
		f := strings.SplitN(t, " ", 3)
		if len(f) < 2 {
			continue
		}
		switch f[0] {
		case "L":
			l := ""
			if len(f) == 3 {
				l = f[2]
			}
			lines = append(lines, l)
		case "F":
			n, _ := strconv.Atoi(f[1])
			faultAt = n
		}
	}
	return lines, faultAt
}

// worker: one JSON CaseIn per stdin line, one JSON CaseOut per stdout line.
func runWorker() {
	in := bufio.NewReaderSize(os.Stdin, 1<<22)
	realOut := os.Stdout
	w := bufio.NewWriter(realOut)
	for {
		line, err := in.ReadBytes('\n')
		if len(line) > 1 {
			var c CaseIn
			if e := json.Unmarshal(line, &c); e != nil {
				fmt.Fprintln(w, `{"panic":"bad case json"}`)
			} else {
				o := runCase(c)
				data, _ := json.Marshal(o)
				w.Write(data)
				w.WriteByte('\n')
			}
			w.Flush()
		}
		if err != nil {
			return
		}
	}
}
