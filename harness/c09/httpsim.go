package main

// HTTP device simulator (PAN-OS XML API, NSX policy REST API) with fault injection.
// Position p >= 1 of a fault: the reply to the p-th request.

import (
	"fmt"
	"net/http"
	"net/http/httptest"
	"net/url"
	"regexp"
	"strings"
	"sync"
	"time"
)

type HTTPScen struct {
	// PAN-OS
	DeviceXML string `json:"device_xml,omitempty"` // body of the reply to action=get
	HA        string `json:"ha,omitempty"`         // "", "active", "passive"
	CommitMsg string `json:"commit_msg,omitempty"` // "" (job enqueued) | "nochanges"
	Pend      int    `json:"pend,omitempty"`       // number of PEND answers before the final one
	JobResult string `json:"job_result,omitempty"` // default OK
	// NSX
	PolicyList string            `json:"policy_list,omitempty"`
	Policies   map[string]string `json:"policies,omitempty"`
	Services   string            `json:"services,omitempty"`
	Groups     string            `json:"groups,omitempty"`
}

type httpSim struct {
	srv       *httptest.Server
	backend   string
	sc        *HTTPScen
	faultPos  int
	faultKind string
	mu        sync.Mutex
	lines     []string
	faultAt   int
	polls     int
	conns     []string // per request: the connection it arrived on
	done      chan struct{}
	timeoutS  int // time-out of the program under test: silence lasts longer than that
}

var jobIDRe = regexp.MustCompile(`<id>[0-9]+</id>`)
var statusAttrRe = regexp.MustCompile(`status\s*=\s*['"]success['"]`)
var keyRe = regexp.MustCompile(`key=[^&]*&`)
var passRe = regexp.MustCompile(`password=[^&]*`)

func newHTTPSim(backend string, sc *HTTPScen, pos int, kind string, timeoutS int) *httpSim {
	h := &httpSim{backend: backend, sc: sc, faultPos: pos, faultKind: kind, faultAt: -1, done: make(chan struct{}), timeoutS: timeoutS}
	h.srv = httptest.NewTLSServer(http.HandlerFunc(h.handle))
	return h
}

func (h *httpSim) close() {
	close(h.done)
	h.srv.CloseClientConnections()
	h.srv.Close()
}

func (h *httpSim) transcript() ([]string, int) {
	h.mu.Lock()
	defer h.mu.Unlock()
	return append([]string(nil), h.lines...), h.faultAt
}

// connIDs numbers the connections in order of first use (1, 2, ...), one id per request.
func (h *httpSim) connIDs() []int {
	h.mu.Lock()
	defer h.mu.Unlock()
	ids := map[string]int{}
	var out []int
	for _, c := range h.conns {
		if _, ok := ids[c]; !ok {
			ids[c] = len(ids) + 1
		}
		out = append(out, ids[c])
	}
	return out
}

func (h *httpSim) handle(w http.ResponseWriter, r *http.Request) {
	h.mu.Lock()
	q, _ := url.QueryUnescape(r.URL.RawQuery)
	q = keyRe.ReplaceAllString(q, "key=K&")
	q = passRe.ReplaceAllString(q, "password=P")
	line := r.Method + " " + r.URL.Path
	if q != "" {
		line += "?" + q
	}
	h.lines = append(h.lines, line)
	h.conns = append(h.conns, r.RemoteAddr) // one client port per TCP connection
	idx := len(h.lines)
	if strings.Contains(q, "<show><jobs>") {
		h.polls++ // every poll counts, answered or not
	}
	fault := idx == h.faultPos
	kind := h.faultKind
	var normal *httptest.ResponseRecorder
	if fault && kind == "stall_body" {
		// what a conforming device would answer: status line, headers and the first half of the
		// body are sent, then the device goes silent with the connection open.  A reply without
		// body has no inside to stall in: no fault then.
		normal = httptest.NewRecorder()
		h.mu.Unlock()
		if h.backend == "PAN-OS" {
			h.panos(normal, r, q)
		} else {
			h.nsx(normal, r)
		}
		h.mu.Lock()
		if normal.Body.Len() == 0 {
			fault = false
		}
	}
	if fault {
		h.faultAt = idx
	}
	h.mu.Unlock()

	if fault {
		switch kind {
		case "httpstatus":
			w.WriteHeader(500)
			w.Write([]byte("device not ready\n"))
			return
		case "malformed":
			w.WriteHeader(200)
			w.Write([]byte("<invalid"))
			return
		case "errtext":
			if h.backend == "PAN-OS" {
				w.Write([]byte(`<response status="error" code="12"><msg>some error</msg></response>`))
			} else {
				w.WriteHeader(400)
				w.Write([]byte(`{"httpStatus":"BAD_REQUEST","error_code":500012,"error_message":"some error"}`))
			}
			return
		case "close":
			if hj, ok := w.(http.Hijacker); ok {
				conn, _, err := hj.Hijack()
				if err == nil {
					conn.Close()
				}
			}
			return
		case "rej_unauth":
			w.Write([]byte(`<response status="unauth" code="22"><msg>Session timed out</msg></response>`))
			return
		case "rej_failure":
			w.Write([]byte(`<response status="failure" code="403"/>`))
			return
		case "rej_nostatus":
			w.Write([]byte(`<response code="17"><msg><line>operation refused</line></msg></response>`))
			return
		case "rej_word":
			w.Write([]byte(`<response status="busy" code="9"><result><msg>try again later</msg></result></response>`))
			return
		case "rej_error_nomsg":
			w.Write([]byte(`<response status="error" code="7"/>`))
			return
		case "rej_case":
			// the conforming reply, only the status word in another letter case
			rec := httptest.NewRecorder()
			h.panos(rec, r, q)
			body := statusAttrRe.ReplaceAllString(rec.Body.String(), `status="SUCCESS"`)
			w.WriteHeader(rec.Code)
			w.Write([]byte(body))
			return
		case "json_error_200":
			// NSX: status 200 and a well-formed JSON error document
			w.Header().Set("content-type", "application/json")
			w.Write([]byte(`{"httpStatus":"BAD_REQUEST","error_code":500012,"module_name":"policy","error_message":"The request was rejected."}`))
			return
		case "no_results":
			// a well-formed document of the right type that lacks the list
			w.Header().Set("content-type", "application/json")
			w.Write([]byte(`{"result_count":2,"sort_by":"display_name","sort_ascending":true}`))
			return
		case "wrong_type":
			w.Header().Set("content-type", "application/json")
			w.Write([]byte(`["unexpected"]`))
			return
		case "results_wrong_type":
			w.Header().Set("content-type", "application/json")
			w.Write([]byte(`{"results":"none","result_count":0}`))
			return
		case "rej_4xx":
			w.Header().Set("content-type", "application/json")
			w.WriteHeader([]int{400, 401, 403, 404, 409, 412, 429, 502}[idx%8])
			w.Write([]byte(`{"httpStatus":"ERROR","error_code":500090,"module_name":"policy","error_message":"The request was rejected."}`))
			return
		case "status_nobody":
			// an error status and nothing else (a proxy or an overloaded management plane)
			w.WriteHeader([]int{500, 403, 503}[idx%3])
			return
		case "stall_body":
			for k, v := range normal.Header() {
				w.Header()[k] = v
			}
			w.WriteHeader(normal.Code)
			b := normal.Body.Bytes()
			w.Write(b[:(len(b)+1)/2])
			if f, ok := w.(http.Flusher); ok {
				f.Flush()
			}
			select {
			case <-time.After(time.Duration(h.timeoutS)*time.Second + 60*time.Second):
			case <-h.done:
			case <-r.Context().Done():
			}
			panic(http.ErrAbortHandler) // never complete the body
		case "silence":
			select {
			case <-time.After(time.Duration(h.timeoutS)*time.Second + 600*time.Millisecond):
			case <-h.done:
			case <-r.Context().Done():
			}
			if hj, ok := w.(http.Hijacker); ok {
				conn, _, err := hj.Hijack()
				if err == nil {
					conn.Close()
				}
			}
			return
		case "errsuccess":
			w.Write([]byte(`<response status="error" code="13"><msg>commit was not a success: candidate configuration locked</msg></response>`))
			return
		case "commit_nojob":
			// status="success", no top-level <msg>, a <result> without <job>: no job was enqueued
			if strings.Contains(q, "type=commit") {
				w.Write([]byte(`<response status="success" code="19"><result><msg><line>Commit request received</line></msg></result></response>`))
				return
			}
		case "commit_emptyjob":
			if strings.Contains(q, "type=commit") {
				w.Write([]byte(`<response status="success" code="19"><result><job></job></result></response>`))
				return
			}
		case "commit_textjob":
			if strings.Contains(q, "type=commit") {
				w.Write([]byte(`<response status="success" code="19"><result><job>none</job></result></response>`))
				return
			}
		case "commitmsg":
			if strings.Contains(q, "type=commit") {
				w.Write([]byte(`<response status="success" code="19"><msg>Commit failed, success not reached</msg></response>`))
				return
			}
		case "jobfail_success":
			if strings.Contains(q, "<show><jobs>") {
				w.Write([]byte(`<response status="success"><result><job><result>FAIL</result><details><line>0 of 3 success, status not OK</line></details></job></result></response>`))
				return
			}
		case "jobfail":
			if strings.Contains(q, "<show><jobs>") {
				w.Write([]byte(`<response status="success"><result><job><result>FAIL</result></job></result></response>`))
				return
			}
		}
	}
	if h.backend == "PAN-OS" {
		h.panos(w, r, q)
	} else {
		h.nsx(w, r)
	}
}

func (h *httpSim) panos(w http.ResponseWriter, r *http.Request, q string) {
	v := r.URL.Query()
	switch {
	case v.Get("type") == "keygen":
		fmt.Fprint(w, "<response status = 'success'>\n <result><key>LUFRPT=</key></result>\n</response>\n")
	case v.Get("type") == "op" && strings.Contains(v.Get("cmd"), "high-availability"):
		switch h.sc.HA {
		case "":
			fmt.Fprint(w, "<response status = 'success'><result><enabled>no</enabled></result></response>\n")
		default:
			fmt.Fprintf(w, "<response status = 'success'><result><enabled>yes</enabled><group><mode>Active-Passive</mode><local-info><state>%s</state></local-info></group></result></response>\n", h.sc.HA)
		}
	case v.Get("type") == "config" && v.Get("action") == "get":
		fmt.Fprint(w, h.sc.DeviceXML)
	case v.Get("type") == "config":
		fmt.Fprint(w, `<response status="success" code="20"></response>`)
	case v.Get("type") == "commit":
		if h.sc.CommitMsg == "nochanges" {
			fmt.Fprint(w, `<response status="success" code="19"><msg>There are no changes to commit.</msg></response>`)
		} else {
			fmt.Fprint(w, `<response status="success" code="19"><result><job>6</job></result></response>`)
		}
	case v.Get("type") == "op" && strings.Contains(v.Get("cmd"), "<jobs>") && !jobIDRe.MatchString(v.Get("cmd")):
		// a real device rejects a poll for a job id that is not a number
		fmt.Fprint(w, `<response status="error" code="7"><msg><line>job id is invalid</line></msg></response>`)
	case v.Get("type") == "op" && strings.Contains(v.Get("cmd"), "<jobs>"):
		h.mu.Lock()
		n := h.polls
		h.mu.Unlock()
		res := h.sc.JobResult
		if res == "" {
			res = "OK"
		}
		if n <= h.sc.Pend {
			res = "PEND"
		}
		fmt.Fprintf(w, "<response status=\"success\"><result><job>\n<result>%s</result>\n</job></result></response>", res)
	default:
		w.WriteHeader(404)
		fmt.Fprint(w, "404 page not found\n")
	}
}

func (h *httpSim) nsx(w http.ResponseWriter, r *http.Request) {
	p := r.URL.Path
	const gp = "/policy/api/v1/infra/domains/default/gateway-policies"
	orEmpty := func(s string) string {
		if s == "" {
			return "{}"
		}
		return s
	}
	switch {
	case r.Method == "POST" && p == "/api/session/create":
		w.Header().Set("x-xsrf-token", "secret")
		w.WriteHeader(200)
	case r.Method == "GET" && p == gp:
		fmt.Fprint(w, orEmpty(h.sc.PolicyList))
	case r.Method == "GET" && strings.HasPrefix(p, gp+"/"):
		fmt.Fprint(w, orEmpty(h.sc.Policies[strings.TrimPrefix(p, gp+"/")]))
	case r.Method == "GET" && p == "/policy/api/v1/infra/services":
		fmt.Fprint(w, orEmpty(h.sc.Services))
	case r.Method == "GET" && p == "/policy/api/v1/infra/domains/default/groups":
		fmt.Fprint(w, orEmpty(h.sc.Groups))
	case r.Method == "GET":
		w.WriteHeader(404)
		fmt.Fprint(w, "404 page not found\n")
	default:
		fmt.Fprint(w, "{}")
	}
}
