package main

// Console device simulator with fault injection (spawned by the code under test through
// SIMULATE_ROUTER="<this binary> -devsim <dir>").  It follows the conventions of the
// repository's testdata/simulate-cisco.pl: a preamble (with <!> marking "read one line
// here"), then for every line read: echo, table output, prompt "NAME#".
// Every line received is appended to <dir>/transcript; the fault point is marked.
//
// Position p of a fault: p = 0 is the preamble, p >= 1 is the reply to the p-th line received.

import (
	"bufio"
	"encoding/json"
	"fmt"
	"os"
	"path/filepath"
	"strings"
	"time"
)

type simCfg struct {
	Name      string            `json:"name"`
	Preamble  string            `json:"preamble"`
	Table     map[string]string `json:"table"`
	FaultPos  int               `json:"fault_pos"` // -1: none
	FaultKind string            `json:"fault_kind"`
	ErrText   string            `json:"err_text"`
	TimeoutS  int               `json:"timeout_s"` // time-out of the program under test (how long to linger)
}

type devSim struct {
	cfg    simCfg
	dir    string
	lines  chan string
	out    *bufio.Writer
	tr     *os.File
	nRead  int
	silent bool
}

// finish records the end of the session (the harness waits for this mark) and exits.
func (d *devSim) finish() {
	d.out.Flush()
	fmt.Fprintf(d.tr, "X %d\n", d.nRead)
	d.tr.Close()
	os.Exit(0)
}

func (d *devSim) emit(s string) {
	if d.silent {
		return
	}
	s = strings.ReplaceAll(s, "\n", "\r\n")
	d.out.WriteString(s)
	d.out.Flush()
}

// readLine returns the next line the client wrote, records it, and returns (line, ok).
// When the harness says that the program under test is done (file "stop") and nothing more
// arrives, the session is over.
func (d *devSim) readLine() (string, bool) {
	tick := time.NewTicker(5 * time.Millisecond)
	defer tick.Stop()
	idle := 0
	for {
		select {
		case line, ok := <-d.lines:
			if !ok {
				return "", false
			}
			line = strings.TrimRight(line, "\r\n")
			d.nRead++
			fmt.Fprintf(d.tr, "L %d %s\n", d.nRead, strings.ReplaceAll(line, "\t", " "))
			return line, true
		case <-tick.C:
			if _, err := os.Stat(filepath.Join(d.dir, "stop")); err == nil {
				idle++
				if idle >= 8 {
					d.finish()
				}
			}
		}
	}
}

func (d *devSim) mark(what string) {
	fmt.Fprintf(d.tr, "F %d %s\n", d.nRead, what)
}

// fault injects the configured fault in place of the reply to the line just read
// (echoLine is what a conforming device would echo, normal its conforming reply without prompt).
// It returns true if the conforming reply has been replaced.
func (d *devSim) fault(echoLine, normal string, promptAfter string) bool {
	if d.cfg.FaultPos != d.nRead {
		return false
	}
	more := strings.Contains(normal, "<!>") // the conforming reply reads further input
	if d.cfg.FaultKind == "truncated" && (promptAfter == "" || more) {
		// the conforming reply does not end with the standard prompt either: the truncation
		// is invisible, the failure is the silence that follows
		fmt.Fprintf(d.tr, "F %d %s\n", d.nRead+1, d.cfg.FaultKind)
	} else {
		d.mark(d.cfg.FaultKind)
	}
	prompt := d.cfg.Name + "#"
	chunk, _, _ := strings.Cut(normal, "<!>") // what a conforming device prints before it reads again
	switch d.cfg.FaultKind {
	case "errtext":
		d.emit(echoLine + d.cfg.ErrText + "\n" + prompt)
	case "warntext":
		d.emit(echoLine + "WARNING: something noteworthy\n" + prompt)
	case "infotext":
		d.emit(echoLine + "INFO: something\n" + prompt)
	case "warn_then_err":
		d.emit(echoLine + "WARNING: something noteworthy\n" + d.cfg.ErrText + "\n" + prompt)
	case "info_then_err":
		d.emit(echoLine + "INFO: something\n" + d.cfg.ErrText + "\n" + prompt)
	case "err_then_warn":
		d.emit(echoLine + d.cfg.ErrText + "\nWARNING: something noteworthy\n" + prompt)
	case "warns_then_err":
		d.emit(echoLine + "WARNING: first notice\nWARNING: second notice\nINFO: and an info\n" + d.cfg.ErrText + "\n" + prompt)
	case "warns_only":
		d.emit(echoLine + "WARNING: first notice\nWARNING: second notice\n" + prompt)
	case "info_then_warn":
		d.emit(echoLine + "INFO: something\nWARNING: something noteworthy\n" + prompt)
	case "savefail":
		// a failed save as an ASA prints it: fragments of the good answer, no [OK]
		d.emit(echoLine + "Building configuration...\nCryptochecksum: 1234abcd 5678ef01 2345abcd 6789ef01\n" +
			"%Error writing disk0:/.private/startup-config (No space left on device)\nError executing command\n[FAILED]\n" + prompt)
	case "savefail_ok":
		d.emit(echoLine + "Building configuration...\n%Error: device did not answer [OK] to the write request\n[FAILED]\n" + prompt)
	case "unexpected":
		d.emit(echoLine + "some unexpected output\n" + prompt)
	case "garbled":
		// only the echo is wrong; everything else as usual
		d.emit("xx")
		return false
	case "silence":
		d.silent = true
	case "stall_partial":
		// the device stops in the middle of a line: echo and half of the first line of output
		// (no newline, no prompt), then nothing more while the connection stays open
		first, _, _ := strings.Cut(chunk, "\n")
		if first == "" {
			first = prompt
		}
		d.emit(echoLine + first[:(len(first)+1)/2])
		d.silent = true
	case "truncated":
		if more {
			d.emit(echoLine + chunk)
		} else {
			d.emit(echoLine + normal)
		}
		d.silent = true
	case "close":
		d.finish()
	default:
		return false
	}
	return true
}

// sendWithReads prints text; at each <!> it reads a line and echoes it (as the perl simulator does).
func (d *devSim) sendWithReads(text, promptAfter string) (ok, faulted bool) {
	parts := strings.Split(text, "<!>")
	for i, p := range parts {
		d.emit(p)
		if i+1 < len(parts) {
			line, ok := d.readLine()
			if !ok {
				return false, false
			}
			rest := strings.Join(parts[i+1:], "<!>")
			if d.fault(line+"\n", rest, promptAfter) {
				// replaced the continuation; go on with the command loop
				return true, true
			}
			d.emit(line + "\n")
		}
	}
	return true, false
}

func runDevSim(dir string) {
	data, err := os.ReadFile(filepath.Join(dir, "sim.json"))
	if err != nil {
		fmt.Fprintln(os.Stderr, err)
		os.Exit(3)
	}
	d := &devSim{dir: dir, lines: make(chan string, 64), out: bufio.NewWriter(os.Stdout)}
	go func() {
		in := bufio.NewReader(os.Stdin)
		for {
			line, err := in.ReadString('\n')
			if line != "" {
				d.lines <- line
			}
			if err != nil {
				close(d.lines)
				return
			}
		}
	}()
	if err := json.Unmarshal(data, &d.cfg); err != nil {
		fmt.Fprintln(os.Stderr, err)
		os.Exit(3)
	}
	d.tr, _ = os.OpenFile(filepath.Join(dir, "transcript"), os.O_APPEND|os.O_CREATE|os.O_WRONLY, 0644)
	defer d.finish()
	// The code under test never closes the pty of a session it aborts; do not linger.
	go func() {
		time.Sleep(time.Duration(20+4*d.cfg.TimeoutS) * time.Second)
		os.Exit(0)
	}()
	prompt := d.cfg.Name + "#"
	pre := strings.TrimSuffix(d.cfg.Preamble, "\n")
	if d.cfg.FaultPos == 0 {
		d.mark(d.cfg.FaultKind)
		switch d.cfg.FaultKind {
		case "silence", "truncated":
			d.silent = true
		case "stall_partial":
			first, _, _ := strings.Cut(pre, "\n")
			d.emit(first[:(len(first)+1)/2])
			d.silent = true
		case "close":
			return
		default:
			d.emit("some unexpected output\n")
		}
	} else if ok, _ := d.sendWithReads(pre, ""); !ok {
		return
	}
	for {
		cmd, ok := d.readLine()
		if !ok {
			return
		}
		lookup := strings.TrimPrefix(cmd, "do ")
		out := d.cfg.Table[lookup]
		if lookup == "exit" {
			d.emit(cmd + "\n")
			return
		}
		if d.fault(cmd+"\n", out, prompt) {
			continue
		}
		d.emit(cmd + "\n")
		ok, faulted := d.sendWithReads(out, prompt)
		if !ok {
			return
		}
		if !faulted {
			d.emit(prompt)
		}
	}
}

// runFakeScp stands in for scp(1): the code under test runs `scp -q SRC user@ip:DST` (found in
// PATH).  It records which start-up file is copied and how many console lines the device had
// received by then, and fails (exit 1) if the configured fault says so.
func runFakeScp(dir string, args []string) {
	var cfg simCfg
	if data, err := os.ReadFile(filepath.Join(dir, "sim.json")); err == nil {
		json.Unmarshal(data, &cfg)
	}
	dst := ""
	if len(args) > 0 {
		dst = args[len(args)-1]
	}
	what := "other"
	switch {
	case strings.Contains(dst, ":/etc/network/routing"):
		what = "routing"
	case strings.Contains(dst, ":/etc/network/packet-filter"):
		what = "iptables"
	}
	n := 0
	if data, err := os.ReadFile(filepath.Join(dir, "transcript")); err == nil {
		for _, l := range strings.Split(string(data), "\n") {
			if strings.HasPrefix(l, "L ") {
				n++
			}
		}
	}
	fail := cfg.FaultKind == "scpfail_"+what
	res := "ok"
	if fail {
		res = "fail"
	}
	if fh, err := os.OpenFile(filepath.Join(dir, "scplog"), os.O_APPEND|os.O_CREATE|os.O_WRONLY, 0644); err == nil {
		fmt.Fprintf(fh, "S %d %s %s\n", n, what, res)
		fh.Close()
	}
	if fail {
		fmt.Fprintln(os.Stderr, "scp: "+dst+": No space left on device")
		os.Exit(1)
	}
	os.Exit(0)
}
