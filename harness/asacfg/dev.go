package main

// Specification-side model of the ASA configuration fragment F1 (interfaces, object-group network,
// extended access-lists, access-group bindings, static routes, unknown lines) with a STRICT command
// executor: a command that a real ASA would refuse (missing referenced object, deleting a referenced
// object, wrong `line N`, duplicate ACE, sub-command outside its mode) is rejected.
// Independent of the planner under test.

import (
	"fmt"
	"regexp"
	"sort"
	"strconv"
	"strings"
)

type asaDev struct {
	Unknown []string            // lines the tool does not model, verbatim
	Intfs   [][2]string         // hardware name, nameif
	Shut    map[string]bool     // nameif -> shutdown
	Opaque  []opaqueObj         // VPN objects kept verbatim (tunnel-group / group-policy); may reference ACLs and each other
	Groups  map[string][]string // object-group network NAME -> member texts
	GOrder  []string
	SGroups map[string]*svcGroup // object-group service NAME tcp|udp|tcp-udp -> ports
	SOrder  []string
	ACLs    map[string][]string // NAME -> line bodies (text after "extended ")
	AOrder  []string
	Bind    map[string]string // "in inside" -> ACL name
	Routes  []string          // text after "route "
	Routes6 []string          // text after "ipv6 route "
}

type svcGroup struct {
	Kind  string   // tcp | udp | tcp-udp
	Ports []string // "eq 53"
}

type opaqueObj struct {
	Header string   // e.g. "group-policy VPN-DRC-0 attributes"
	Subs   []string // e.g. "vpn-filter value acl-DRC-0"
}

func newDev() *asaDev {
	return &asaDev{Groups: map[string][]string{}, SGroups: map[string]*svcGroup{}, ACLs: map[string][]string{}, Bind: map[string]string{}, Shut: map[string]bool{}}
}

// opaqueRefs tells whether some kept VPN object references the named ACL / group-policy.
func (d *asaDev) opaqueRefs(name string) bool {
	for _, o := range d.Opaque {
		for _, s := range o.Subs {
			f := strings.Fields(s)
			if len(f) > 0 && f[len(f)-1] == name {
				return true
			}
		}
	}
	return false
}

func (d *asaDev) clone() *asaDev {
	c := newDev()
	c.Unknown = append([]string{}, d.Unknown...)
	c.Intfs = append([][2]string{}, d.Intfs...)
	for k, v := range d.Groups {
		c.Groups[k] = append([]string{}, v...)
	}
	c.GOrder = append([]string{}, d.GOrder...)
	for k, v := range d.SGroups {
		c.SGroups[k] = &svcGroup{v.Kind, append([]string{}, v.Ports...)}
	}
	c.SOrder = append([]string{}, d.SOrder...)
	for k, v := range d.ACLs {
		c.ACLs[k] = append([]string{}, v...)
	}
	c.AOrder = append([]string{}, d.AOrder...)
	for k, v := range d.Bind {
		c.Bind[k] = v
	}
	c.Routes = append([]string{}, d.Routes...)
	c.Routes6 = append([]string{}, d.Routes6...)
	for k, v := range d.Shut {
		c.Shut[k] = v
	}
	for _, o := range d.Opaque {
		c.Opaque = append(c.Opaque, opaqueObj{o.Header, append([]string{}, o.Subs...)})
	}
	return c
}

func (d *asaDev) print(withIntf bool) string {
	var sb strings.Builder
	for _, l := range d.Unknown {
		sb.WriteString(l + "\n")
	}
	if withIntf {
		for _, i := range d.Intfs {
			fmt.Fprintf(&sb, "interface %s\n", i[0])
			if d.Shut[i[1]] {
				sb.WriteString(" shutdown\n")
			}
			fmt.Fprintf(&sb, " nameif %s\n", i[1])
		}
	}
	for _, g := range d.GOrder {
		fmt.Fprintf(&sb, "object-group network %s\n", g)
		for _, m := range d.Groups[g] {
			fmt.Fprintf(&sb, " network-object %s\n", m)
		}
	}
	for _, g := range d.SOrder {
		fmt.Fprintf(&sb, "object-group service %s %s\n", g, d.SGroups[g].Kind)
		for _, m := range d.SGroups[g].Ports {
			fmt.Fprintf(&sb, " port-object %s\n", m)
		}
	}
	for _, a := range d.AOrder {
		for _, l := range d.ACLs[a] {
			fmt.Fprintf(&sb, "access-list %s extended %s\n", a, l)
		}
	}
	keys := make([]string, 0, len(d.Bind))
	for k := range d.Bind {
		keys = append(keys, k)
	}
	sort.Strings(keys)
	for _, k := range keys {
		dir, intf, _ := strings.Cut(k, " ")
		fmt.Fprintf(&sb, "access-group %s %s interface %s\n", d.Bind[k], dir, intf)
	}
	for _, r := range d.Routes {
		fmt.Fprintf(&sb, "route %s\n", r)
	}
	for _, r := range d.Routes6 {
		fmt.Fprintf(&sb, "ipv6 route %s\n", r)
	}
	for _, o := range d.Opaque {
		sb.WriteString(o.Header + "\n")
		for _, s := range o.Subs {
			sb.WriteString(" " + s + "\n")
		}
	}
	return sb.String()
}

var groupRefRE = regexp.MustCompile(`object-group (\S+)`)
var logRE = regexp.MustCompile(` log( \S+)*$`)

func refsOf(body string) []string {
	var out []string
	for _, m := range groupRefRE.FindAllStringSubmatch(body, -1) {
		out = append(out, m[1])
	}
	return out
}

func stripLog(body string) string { return logRE.ReplaceAllString(body, "") }

func (d *asaDev) groupReferenced(g string) bool {
	for _, ls := range d.ACLs {
		for _, l := range ls {
			for _, r := range refsOf(l) {
				if r == g {
					return true
				}
			}
		}
	}
	return false
}

func (d *asaDev) aclBound(a string) bool {
	for _, v := range d.Bind {
		if v == a {
			return true
		}
	}
	return false
}

func remove(l []string, s string) []string {
	var out []string
	for _, x := range l {
		if x != s {
			out = append(out, x)
		}
	}
	return out
}

func contains(l []string, s string) bool {
	for _, x := range l {
		if x == s {
			return true
		}
	}
	return false
}

func (d *asaDev) hasIntf(n string) bool {
	for _, i := range d.Intfs {
		if i[1] == n {
			return true
		}
	}
	return false
}

var aclCmdRE = regexp.MustCompile(`^(no )?access-list (\S+) (?:line (\d+) )?extended (.*)$`)
var agCmdRE = regexp.MustCompile(`^(no )?access-group (\S+) (in|out) interface (\S+)$`)

type executor struct {
	d    *asaDev
	mode string // name of the object-group whose sub-mode is open
}

// exec1 executes one command; the error says why a strict device refuses it.
func (e *executor) exec1(cmd string) error {
	d := e.d
	w := strings.Fields(cmd)
	if len(w) == 0 {
		return nil
	}
	switch {
	case cmd == "exit":
		if e.mode == "" {
			return fmt.Errorf("exit outside of a sub-mode")
		}
		e.mode = ""
		return nil
	case w[0] == "port-object" || (w[0] == "no" && len(w) > 1 && w[1] == "port-object"):
		g, ok := d.SGroups[strings.TrimPrefix(e.mode, "svc:")]
		if !strings.HasPrefix(e.mode, "svc:") || !ok {
			return fmt.Errorf("sub-command outside object-group service mode: %s", cmd)
		}
		if w[0] == "no" {
			m := canonPort(strings.Join(w[2:], " "))
			if !contains(g.Ports, m) {
				return fmt.Errorf("port to remove not in group %s: %s", e.mode, m)
			}
			g.Ports = remove(g.Ports, m)
			return nil
		}
		m := canonPort(strings.Join(w[1:], " "))
		if contains(g.Ports, m) {
			return fmt.Errorf("port already in group %s: %s", e.mode, m)
		}
		g.Ports = append(g.Ports, m)
		return nil
	case w[0] == "network-object" || (w[0] == "no" && len(w) > 1 && w[1] == "network-object"):
		if strings.HasPrefix(e.mode, "svc:") {
			return fmt.Errorf("network-object inside object-group service mode: %s", cmd)
		}
		if e.mode == "" {
			return fmt.Errorf("sub-command outside object-group mode: %s", cmd)
		}
		if w[0] == "no" {
			m := strings.Join(w[2:], " ")
			if !contains(d.Groups[e.mode], m) {
				return fmt.Errorf("member to remove not in group %s: %s", e.mode, m)
			}
			d.Groups[e.mode] = remove(d.Groups[e.mode], m)
			return nil
		}
		m := strings.Join(w[1:], " ")
		if contains(d.Groups[e.mode], m) {
			return fmt.Errorf("member already in group %s: %s", e.mode, m)
		}
		d.Groups[e.mode] = append(d.Groups[e.mode], m)
		return nil
	}
	// every other command is a top-level command and leaves the sub-mode
	e.mode = ""
	switch {
	case strings.HasPrefix(cmd, "object-group service ") && len(w) == 4:
		n, kind := w[2], w[3]
		if _, ok := d.Groups[n]; ok {
			return fmt.Errorf("object-group %s exists as network group", n)
		}
		if g, ok := d.SGroups[n]; ok {
			if g.Kind != kind {
				return fmt.Errorf("object-group service %s exists with protocol type %s, not %s", n, g.Kind, kind)
			}
		} else {
			d.SGroups[n] = &svcGroup{Kind: kind}
			d.SOrder = append(d.SOrder, n)
		}
		e.mode = "svc:" + n
		return nil
	case strings.HasPrefix(cmd, "no object-group service "):
		n := w[3]
		if _, ok := d.SGroups[n]; !ok {
			return fmt.Errorf("object-group service %s does not exist", n)
		}
		if d.groupReferenced(n) {
			return fmt.Errorf("object-group %s is still referenced", n)
		}
		delete(d.SGroups, n)
		d.SOrder = remove(d.SOrder, n)
		return nil
	case strings.HasPrefix(cmd, "object-group network "):
		n := w[2]
		if _, ok := d.SGroups[n]; ok {
			return fmt.Errorf("object-group %s exists as service group", n)
		}
		if _, ok := d.Groups[n]; !ok {
			d.Groups[n] = nil
			d.GOrder = append(d.GOrder, n)
		}
		e.mode = n
		return nil
	case strings.HasPrefix(cmd, "no object-group network "):
		n := w[3]
		if _, ok := d.Groups[n]; !ok {
			return fmt.Errorf("object-group %s does not exist", n)
		}
		if d.groupReferenced(n) {
			return fmt.Errorf("object-group %s is still referenced", n)
		}
		delete(d.Groups, n)
		d.GOrder = remove(d.GOrder, n)
		return nil
	case strings.HasPrefix(cmd, "clear configure object-group "):
		n := w[len(w)-1]
		if d.groupReferenced(n) {
			return fmt.Errorf("object-group %s is still referenced", n)
		}
		delete(d.Groups, n)
		d.GOrder = remove(d.GOrder, n)
		delete(d.SGroups, n)
		d.SOrder = remove(d.SOrder, n)
		return nil
	case strings.HasPrefix(cmd, "clear configure access-list "):
		n := w[3]
		if _, ok := d.ACLs[n]; !ok {
			return fmt.Errorf("access-list %s does not exist", n)
		}
		if d.aclBound(n) {
			return fmt.Errorf("access-list %s is still bound", n)
		}
		if d.opaqueRefs(n) {
			return fmt.Errorf("access-list %s is still referenced by a group-policy", n)
		}
		delete(d.ACLs, n)
		d.AOrder = remove(d.AOrder, n)
		return nil
	}
	if m := aclCmdRE.FindStringSubmatch(cmd); m != nil {
		no, name, lineS, body := m[1] != "", m[2], m[3], canonBody(m[4])
		ls, exists := d.ACLs[name]
		if no {
			if lineS == "" {
				return fmt.Errorf("delete without line number not expected: %s", cmd)
			}
			n, _ := strconv.Atoi(lineS)
			if n < 1 || n > len(ls) || ls[n-1] != body {
				return fmt.Errorf("line %d of %s is not %q", n, name, body)
			}
			ls = append(ls[:n-1:n-1], ls[n:]...)
			if len(ls) == 0 {
				if d.aclBound(name) {
					return fmt.Errorf("last line of bound access-list %s deleted", name)
				}
				delete(d.ACLs, name)
				d.AOrder = remove(d.AOrder, name)
			} else {
				d.ACLs[name] = ls
			}
			return nil
		}
		for _, g := range refsOf(body) {
			_, okN := d.Groups[g]
			sg, okS := d.SGroups[g]
			if !okN && !okS {
				return fmt.Errorf("referenced object-group %s does not exist", g)
			}
			if okS {
				proto := strings.Fields(body)[1]
				if !(sg.Kind == proto || sg.Kind == "tcp-udp" && (proto == "tcp" || proto == "udp")) {
					return fmt.Errorf("object-group service %s has protocol type %s, the entry is for %s", g, sg.Kind, proto)
				}
			}
		}
		for _, l := range ls {
			if stripLog(l) == stripLog(body) {
				return fmt.Errorf("access-list %s already contains this entry: %s", name, body)
			}
		}
		pos := len(ls)
		if lineS != "" {
			n, _ := strconv.Atoi(lineS)
			if n < 1 || n > len(ls)+1 {
				return fmt.Errorf("line %d out of range for %s (%d lines)", n, name, len(ls))
			}
			pos = n - 1
		}
		if !exists {
			d.AOrder = append(d.AOrder, name)
		}
		ls = append(ls[:pos:pos], append([]string{body}, ls[pos:]...)...)
		d.ACLs[name] = ls
		return nil
	}
	if m := agCmdRE.FindStringSubmatch(cmd); m != nil {
		no, name, dir, intf := m[1] != "", m[2], m[3], m[4]
		key := dir + " " + intf
		if no {
			if d.Bind[key] != name {
				return fmt.Errorf("access-group %s not bound at %s", name, key)
			}
			delete(d.Bind, key)
			return nil
		}
		if _, ok := d.ACLs[name]; !ok {
			return fmt.Errorf("access-group: access-list %s does not exist", name)
		}
		if !d.hasIntf(intf) {
			return fmt.Errorf("access-group: interface %s does not exist", intf)
		}
		d.Bind[key] = name
		return nil
	}
	if strings.HasPrefix(cmd, "ipv6 route ") || strings.HasPrefix(cmd, "no ipv6 route ") {
		// ipv6 route IF PREFIX GW [metric]
		no := strings.HasPrefix(cmd, "no ")
		r := canonRoute(strings.TrimPrefix(strings.TrimPrefix(cmd, "no "), "ipv6 route "), 3)
		f := strings.Fields(r)
		if len(f) != 3 {
			return fmt.Errorf("incomplete command: %s", cmd)
		}
		if no {
			if !contains(d.Routes6, r) {
				return fmt.Errorf("route does not exist: %s", r)
			}
			d.Routes6 = remove(d.Routes6, r)
			return nil
		}
		for _, x := range d.Routes6 {
			fx := strings.Fields(x)
			if fx[0] == f[0] && fx[1] == f[1] {
				return fmt.Errorf("route to identical destination exists: %s", x)
			}
		}
		d.Routes6 = append(d.Routes6, r)
		return nil
	}
	if strings.HasPrefix(cmd, "route ") {
		r := canonRoute(strings.TrimPrefix(cmd, "route "), 4)
		f := strings.Fields(r)
		for _, x := range d.Routes {
			fx := strings.Fields(x)
			if len(f) >= 3 && len(fx) >= 3 && fx[0] == f[0] && fx[1] == f[1] && fx[2] == f[2] {
				return fmt.Errorf("route to identical destination exists: %s", x)
			}
		}
		d.Routes = append(d.Routes, r)
		return nil
	}
	if strings.HasPrefix(cmd, "no route ") {
		r := canonRoute(strings.TrimPrefix(cmd, "no route "), 4)
		if !contains(d.Routes, r) {
			return fmt.Errorf("route does not exist: %s", r)
		}
		d.Routes = remove(d.Routes, r)
		return nil
	}
	// VPN objects are kept verbatim: `clear configure group-policy N`, `clear configure tunnel-group N`, `no group-policy …`
	if (strings.HasPrefix(cmd, "clear configure group-policy ") || strings.HasPrefix(cmd, "clear configure tunnel-group ") ||
		strings.HasPrefix(cmd, "no group-policy ") || strings.HasPrefix(cmd, "no tunnel-group ")) && len(w) >= 3 {
		name := w[len(w)-1]
		if strings.HasPrefix(cmd, "no ") {
			name = w[2]
		}
		if strings.Contains(cmd, "group-policy") && d.opaqueRefs(name) {
			return fmt.Errorf("group-policy %s is still referenced", name)
		}
		var keep []opaqueObj
		found := false
		for _, o := range d.Opaque {
			f := strings.Fields(o.Header)
			if len(f) >= 2 && f[1] == name && strings.Contains(cmd, f[0]) {
				found = true
				continue
			}
			keep = append(keep, o)
		}
		if !found {
			return fmt.Errorf("object to delete does not exist: %s", cmd)
		}
		d.Opaque = keep
		return nil
	}
	return fmt.Errorf("command outside the modelled fragment: %s", cmd)
}

// splitScript turns drc's printed change list into single commands (joined lines are two commands).
func splitScript(out string) []string {
	var cmds []string
	for _, line := range strings.Split(strings.TrimSuffix(out, "\n"), "\n") {
		if line == "" {
			continue
		}
		cmds = append(cmds, strings.Split(line, "\\N ")...)
	}
	return cmds
}

// expand replaces group references by their sorted member sets.
func (d *asaDev) expand(body string) string {
	return groupRefRE.ReplaceAllStringFunc(body, func(s string) string {
		g := strings.TrimPrefix(s, "object-group ")
		if sg, ok := d.SGroups[g]; ok {
			m := append([]string{}, sg.Ports...)
			sort.Strings(m)
			return "{service " + sg.Kind + ":" + strings.Join(m, ",") + "}"
		}
		m := append([]string{}, d.Groups[g]...)
		sort.Strings(m)
		return "{" + strings.Join(m, ",") + "}"
	})
}

// managedView is what the target specifies: per binding the expanded ACL, and the routes.
// canonRoute: a route without its trailing metric (a device shows `route IF IP MASK GW 1`); n = words without metric
func canonRoute(r string, n int) string {
	f := strings.Fields(r)
	if len(f) == n+1 {
		f = f[:n]
	}
	return strings.Join(f, " ")
}

func (d *asaDev) managedView(bindings []string, withRoutes, withRoutes6 bool) string {
	var sb strings.Builder
	for _, k := range bindings {
		fmt.Fprintf(&sb, "[%s]\n", k)
		for _, l := range d.ACLs[d.Bind[k]] {
			sb.WriteString(" " + d.expand(l) + "\n")
		}
	}
	if withRoutes {
		r := append([]string{}, d.Routes...)
		sort.Strings(r)
		sb.WriteString("[routes]\n " + strings.Join(r, "\n ") + "\n")
	}
	if withRoutes6 {
		r := append([]string{}, d.Routes6...)
		sort.Strings(r)
		sb.WriteString("[ipv6 routes]\n " + strings.Join(r, "\n ") + "\n")
	}
	return sb.String()
}

// Spellings of one entry: the device stores (and this executor compares) the canonical one — protocol by
// name, ports by number — whatever spelling a configuration text or a command uses (a real ASA prints
// well-known ports by name, Netspoc writes numbers, a raw file may use protocol numbers).
var portNames = map[string]string{"ssh": "22", "smtp": "25", "domain": "53", "www": "80", "https": "443"}
var portNumbers = map[string]string{"22": "ssh", "25": "smtp", "53": "domain", "80": "www", "443": "https"}
var protoNumbers = map[string]string{"6": "tcp", "17": "udp", "1": "icmp"}
var protoByName = map[string]string{"tcp": "6", "udp": "17", "icmp": "1"}

// log levels and ICMP types: a real ASA shows them by name, Netspoc and raw files may give numbers
var logLevelNames = []string{"emergencies", "alerts", "critical", "errors", "warnings", "notifications", "informational", "debugging"}
var icmpTypeNumbers = map[string]string{"echo-reply": "0", "unreachable": "3", "echo": "8", "time-exceeded": "11"}
var icmpTypeNames = map[string]string{"0": "echo-reply", "3": "unreachable", "8": "echo", "11": "time-exceeded"}

func canonBody(body string) string {
	w := strings.Fields(body)
	if len(w) > 1 {
		if n, ok := protoNumbers[w[1]]; ok {
			w[1] = n
		}
	}
	// address spellings of a raw file or an old device: `A 255.255.255.255` is `host A`, `0.0.0.0 0.0.0.0` is `any4`
	for i := 2; i+1 < len(w); i++ {
		if w[i+1] == "255.255.255.255" && strings.Count(w[i], ".") == 3 {
			w[i], w[i+1] = "host", w[i]
		} else if w[i] == "0.0.0.0" && w[i+1] == "0.0.0.0" {
			w = append(w[:i], append([]string{"any4"}, w[i+2:]...)...)
		}
	}
	// `log LEVEL`: level as number; 6 (informational) is the default and is not shown
	for i := 2; i < len(w); i++ {
		if w[i] == "log" && i+1 < len(w) {
			for n, name := range logLevelNames {
				if w[i+1] == name {
					w[i+1] = strconv.Itoa(n)
				}
			}
			if w[i+1] == "6" {
				w = append(w[:i+1], w[i+2:]...)
			}
			break
		}
	}
	if len(w) > 1 && w[1] == "icmp" {
		for i := 2; i < len(w); i++ {
			if n, ok := icmpTypeNumbers[w[i]]; ok {
				w[i] = n
			}
		}
	}
	for i := 2; i+1 < len(w); i++ {
		if w[i] == "eq" {
			if n, ok := portNames[w[i+1]]; ok {
				w[i+1] = n
			}
		}
		if w[i] == "range" && i+2 < len(w) {
			for j := i + 1; j <= i+2; j++ {
				if n, ok := portNames[w[j]]; ok {
					w[j] = n
				}
			}
		}
	}
	return strings.Join(w, " ")
}

func canonPort(m string) string {
	w := strings.Fields(m)
	if len(w) == 2 && w[0] == "eq" {
		if n, ok := portNames[w[1]]; ok {
			w[1] = n
		}
	}
	return strings.Join(w, " ")
}
