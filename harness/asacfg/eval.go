package main

// First-match evaluation of F1 access-lists over a small packet universe (used by the C14 oracle).

import (
	"strconv"
	"strings"
)

type pkt struct {
	proto    string
	src, dst uint32
	port     int
}

func ipv4(s string) uint32 {
	var v uint32
	for _, p := range strings.Split(s, ".") {
		n, _ := strconv.Atoi(p)
		v = v<<8 | uint32(n)
	}
	return v
}

var pktAddrs = []string{"10.1.1.1", "10.1.1.2", "10.1.1.3", "10.2.7.7", "10.3.3.9", "10.4.4.4", "10.5.5.5", "10.6.1.1", "10.7.7.7", "192.168.9.9"}

var pktUniverse = func() []pkt {
	var l []pkt
	for _, pr := range []string{"tcp", "udp", "icmp"} {
		ports := []int{22, 25, 53, 80, 443}
		if pr == "icmp" {
			ports = []int{0, 8} // ICMP types echo-reply, echo
		}
		for _, s := range pktAddrs {
			for _, d := range pktAddrs {
				for _, p := range ports {
					l = append(l, pkt{pr, ipv4(s), ipv4(d), p})
				}
			}
		}
	}
	return l
}()

// addrMatch consumes one address spec from words and tells whether ip matches it.
func (d *asaDev) addrMatch(w []string, ip uint32) (bool, []string) {
	switch w[0] {
	case "any4", "any":
		return true, w[1:]
	case "host":
		return ipv4(w[1]) == ip, w[2:]
	case "object-group":
		for _, m := range d.Groups[w[1]] {
			if ok, _ := d.addrMatch(strings.Fields(m), ip); ok {
				return true, w[2:]
			}
		}
		return false, w[2:]
	default:
		net, mask := ipv4(w[0]), ipv4(w[1])
		return ip&mask == net&mask, w[2:]
	}
}

func (d *asaDev) lineMatches(body string, p pkt) (permit, hit bool) {
	w := strings.Fields(body)
	permit = w[0] == "permit"
	proto := w[1]
	if proto != "ip" && proto != p.proto {
		return permit, false
	}
	ok, rest := d.addrMatch(w[2:], p.src)
	if !ok {
		return permit, false
	}
	ok, rest = d.addrMatch(rest, p.dst)
	if !ok {
		return permit, false
	}
	if len(rest) >= 2 && rest[0] == "object-group" {
		sg, ok := d.SGroups[rest[1]]
		if !ok {
			return permit, false
		}
		if !(sg.Kind == p.proto || sg.Kind == "tcp-udp" && (p.proto == "tcp" || p.proto == "udp")) {
			return permit, false
		}
		return permit, contains(sg.Ports, "eq "+strconv.Itoa(p.port))
	}
	if len(rest) >= 2 && rest[0] == "eq" {
		n, _ := strconv.Atoi(rest[1])
		if n != p.port {
			return permit, false
		}
	}
	if len(rest) >= 3 && rest[0] == "range" {
		lo, _ := strconv.Atoi(rest[1])
		hi, _ := strconv.Atoi(rest[2])
		if p.port < lo || p.port > hi {
			return permit, false
		}
	}
	if proto == "icmp" && len(rest) >= 1 && rest[0] != "log" {
		// ICMP type (canonical bodies carry the number)
		t := rest[0]
		if n, ok := icmpTypeNumbers[t]; ok {
			t = n
		}
		if n, err := strconv.Atoi(t); err != nil || n != p.port {
			return permit, false
		}
	}
	return permit, true
}

// verdict of the ACL bound at key (implicit deny; no binding = everything permitted is NOT modelled: -1).
func (d *asaDev) verdict(key string, p pkt) int {
	name, ok := d.Bind[key]
	if !ok {
		return -1
	}
	for _, l := range d.ACLs[name] {
		if permit, hit := d.lineMatches(l, p); hit {
			if permit {
				return 1
			}
			return 0
		}
	}
	return 0
}
