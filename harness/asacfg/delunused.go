package main

// C07 / C08, stream "deleteUnused on a synthetic command table": generated tables of device commands
// (entries with several commands, sub-commands, references, marks needed / toDelete, generated-name tag,
// clearConf) are handed to the REAL (*State).deleteUnused through the hook cisco.VerifDeleteUnused and to
// the Lean model (nadrv-c07); the emitted change commands must be equal.  An oracle that knows neither
// judges the real output: nothing outside the candidates is removed, nothing reachable from a command
// "not created by Netspoc" through unneeded commands is removed (C07), and no entry is removed while
// a command that stays or is removed later still references it (C08).

import (
	"fmt"
	"sort"
	"strings"
	. "verifharness/vhlib"

	"github.com/hknutzen/Netspoc-Approve/go/pkg/cisco"
)

type duCase struct {
	Objs []cisco.VerifC07Obj `json:"objs"`
	Note string              `json:"note,omitempty"`
}

func b01(b bool) string {
	if b {
		return "1"
	}
	return "0"
}

func ints(l []int) string {
	s := make([]string, len(l))
	for i, v := range l {
		s[i] = fmt.Sprint(v)
	}
	return strings.Join(s, ",")
}

func duLine(objs []cisco.VerifC07Obj) string {
	var os_ []string
	for _, o := range objs {
		var cs []string
		for _, c := range o.Cmds {
			var ss []string
			for _, s := range c.Subs {
				ss = append(ss, b01(s.Needed)+":"+ints(s.Refs))
			}
			cs = append(cs, b01(c.Needed)+b01(c.ToDelete)+"|"+ints(c.Refs)+"|"+strings.Join(ss, "&"))
		}
		os_ = append(os_, fmt.Sprintf("%d %d %s %s %s", o.ID, o.Kind, b01(o.Tagged), b01(o.Clear), strings.Join(cs, "+")))
	}
	return strings.Join(os_, ";")
}

// genDU: a table whose references form a DAG (an entry only references entries with a larger id), as
// the parser guarantees for real configurations (reference kinds are ranked, group cycles are rejected).
func genDU(r *RNG) duCase {
	n := 1 + r.Intn(9)
	objs := make([]cisco.VerifC07Obj, n)
	pickRefs := func(i int) []int {
		var refs []int
		if i+1 < n {
			for k := r.Intn(3); k > 0; k-- {
				t := i + 1 + r.Intn(n-i-1)
				if r.Chance(4) {
					t = 900 + r.Intn(3) // reference to an entry that does not exist on the device
				}
				refs = append(refs, t+1)
			}
		}
		return refs
	}
	for i := range objs {
		o := cisco.VerifC07Obj{ID: i + 1, Kind: 1 + r.Intn(4), Tagged: r.Chance(35), Clear: r.Chance(40)}
		nc := 1
		if r.Chance(35) {
			nc = 2 + r.Intn(3)
		}
		// all commands of an entry usually carry the same marks; always so for entries removed by
		// "clear configure" (markNeeded / markDeleted treat the commands of such an entry alike)
		uniform := o.Clear || r.Chance(70)
		needed, toDel := r.Chance(35), r.Chance(45)
		for j := 0; j < nc; j++ {
			c := cisco.VerifC07Cmd{Needed: needed, ToDelete: toDel, Refs: pickRefs(i)}
			if !uniform {
				c.Needed, c.ToDelete = r.Chance(35), r.Chance(45)
			}
			if r.Chance(25) {
				for k := 1 + r.Intn(2); k > 0; k-- {
					c.Subs = append(c.Subs, cisco.VerifC07Sub{Needed: r.Chance(40), Refs: pickRefs(i)})
				}
			}
			o.Cmds = append(o.Cmds, c)
		}
		objs[i] = o
	}
	note := "marks-as-generated"
	if r.Chance(70) {
		// the engine marks everything a needed command references as needed (markNeeded): close the marks
		note = "needed-closed-under-references"
		byID := map[int]*cisco.VerifC07Obj{}
		for i := range objs {
			byID[objs[i].ID] = &objs[i]
		}
		for changed := true; changed; {
			changed = false
			for i := range objs {
				for _, c := range objs[i].Cmds {
					var refs []int
					if c.Needed {
						refs = append(refs, c.Refs...)
					}
					for _, s := range c.Subs {
						if c.Needed || s.Needed {
							refs = append(refs, s.Refs...)
						}
					}
					for _, t := range refs {
						if o := byID[t]; o != nil {
							for k := range o.Cmds {
								if !o.Cmds[k].Needed {
									o.Cmds[k].Needed = true
									changed = true
								}
							}
						}
					}
				}
			}
		}
	}
	return duCase{Objs: objs, Note: note}
}

type duKey struct{ id, idx int }

// duJudge: which commands may go (candidates), which are protected, and the order constraint — computed
// here with an explicit visited set, independently of both the Go code and the Lean model.
func duJudge(c duCase, out []string, res *Result) {
	byID := map[int]cisco.VerifC07Obj{}
	byName := map[string]cisco.VerifC07Obj{}
	for _, o := range c.Objs {
		byID[o.ID] = o
		p, n := cisco.VerifC07Name(o)
		byName[p+" "+n] = o
	}
	follow := func(cm cisco.VerifC07Cmd, all bool) []int {
		refs := append([]int{}, cm.Refs...)
		for _, s := range cm.Subs {
			if all || !s.Needed {
				refs = append(refs, s.Refs...)
			}
		}
		return refs
	}
	// protected entries: reachable from a command that is not needed, not marked and not tagged
	prot := map[int]bool{}
	var visit func(refs []int)
	visit = func(refs []int) {
		for _, t := range refs {
			o, ok := byID[t]
			if !ok {
				continue
			}
			live := false
			for _, cm := range o.Cmds {
				if !cm.Needed {
					live = true
				}
			}
			if !live || prot[t] {
				continue
			}
			prot[t] = true
			for _, cm := range o.Cmds {
				if !cm.Needed {
					visit(follow(cm, false))
				}
			}
		}
	}
	for _, o := range c.Objs {
		for _, cm := range o.Cmds {
			if !cm.Needed && !cm.ToDelete && !o.Tagged {
				visit(follow(cm, false))
			}
		}
	}
	// replay the emitted commands
	deleted := map[duKey]bool{}
	remaining := func(o cisco.VerifC07Obj) int {
		k := 0
		for j := range o.Cmds {
			if !deleted[duKey{o.ID, j}] {
				k++
			}
		}
		return k
	}
	for _, line := range out {
		var o cisco.VerifC07Obj
		var idxs []int
		if rest, ok := strings.CutPrefix(line, "clear configure "); ok {
			o, ok = byName[rest]
			if !ok {
				res.Fail(map[string]any{"pred": "deleteUnused_unknown_command"}, "deleteUnused emits a command for an entry that is not on the device: "+line, c)
				return
			}
			for j := range o.Cmds {
				idxs = append(idxs, j)
			}
		} else if rest, ok := strings.CutPrefix(line, "no "); ok {
			f := strings.Fields(rest)
			if len(f) != 3 {
				res.Fail(map[string]any{"pred": "deleteUnused_unknown_command"}, "unexpected command: "+line, c)
				return
			}
			o, ok = byName[f[0]+" "+f[1]]
			var j int
			fmt.Sscanf(f[2], "line%d", &j)
			if !ok || j >= len(o.Cmds) {
				res.Fail(map[string]any{"pred": "deleteUnused_unknown_command"}, "deleteUnused emits a command for an entry that is not on the device: "+line, c)
				return
			}
			idxs = []int{j}
		} else {
			res.Fail(map[string]any{"pred": "deleteUnused_unknown_command"}, "unexpected command: "+line, c)
			return
		}
		for _, j := range idxs {
			cm := o.Cmds[j]
			switch {
			case cm.Needed && !o.Clear:
				res.Fail(map[string]any{"pred": "needed_command_deleted"}, "deleteUnused removes a command that is needed: "+line, c)
			case !cm.Needed && !cm.ToDelete && !o.Tagged:
				res.Fail(map[string]any{"pred": "command_not_created_by_netspoc_deleted"},
					"deleteUnused removes a command that is neither marked nor filed under a generated name: "+line, c)
			}
			deleted[duKey{o.ID, j}] = true
		}
		if o.Clear {
			for j, cm := range o.Cmds {
				if cm.Needed || !cm.ToDelete && !o.Tagged {
					res.Fail(map[string]any{"pred": "clear_configure_wipes_commands_that_must_stay"},
						fmt.Sprintf("`%s` also removes command %d of the entry, which is needed or not created by Netspoc", line, j), c)
				}
			}
		}
		if prot[o.ID] {
			res.Fail(map[string]any{"pred": "object_referenced_by_unmanaged_object_deleted"},
				"deleteUnused removes an entry that a command not created by Netspoc (transitively) references: "+line, c)
		}
		// C08: nothing that is still on the device may reference an entry that has just vanished completely
		if remaining(o) == 0 {
			for _, o2 := range c.Objs {
				for j, cm := range o2.Cmds {
					if deleted[duKey{o2.ID, j}] || cm.Needed && c.Note != "needed-closed-under-references" {
						continue
					}
					// with marks as generated a needed sub-command may reference anything (the engine would have
					// marked that as needed too): only closed marks are judged on those references
					for _, t := range follow(cm, c.Note == "needed-closed-under-references") {
						if t == o.ID {
							res.Fail(map[string]any{"pred": "referenced_object_deleted"},
								fmt.Sprintf("`%s` removes entry %d while command %d of entry %d still references it", line, o.ID, j, o2.ID), c)
						}
					}
				}
			}
		}
	}
	// completeness: every candidate that is not protected goes (a second compare must not find left-overs)
	for _, o := range c.Objs {
		if prot[o.ID] {
			continue
		}
		for j, cm := range o.Cmds {
			if !cm.Needed && (cm.ToDelete || o.Tagged) && !deleted[duKey{o.ID, j}] {
				res.Fail(map[string]any{"pred": "leftover_generated_object"},
					fmt.Sprintf("command %d of entry %d is unneeded and marked / generated, not protected, but stays", j, o.ID), c)
			}
		}
	}
}

func runDeleteUnused(ctx *Ctx, res *Result, only *duCase) {
	drv := ctx.StartNadrv("c07")
	defer drv.Close()
	one := func(c duCase) {
		sort.Slice(c.Objs, func(i, j int) bool { return c.Objs[i].ID < c.Objs[j].ID })
		line := duLine(c.Objs)
		var out []string
		_, _, _, pan := Captured(func() int { out = cisco.VerifDeleteUnused(c.Objs); return 0 })
		impl := strings.Join(out, ";")
		if len(out) == 0 {
			impl = "-"
		}
		if pan != "" {
			impl = "PANIC " + pan
		}
		model := drv.Ask(line)
		res.Eval("du:"+line, len(out) > 0)
		res.TracesVsImpl++
		res.Count("du:" + c.Note)
		res.Count(fmt.Sprintf("du:cmds:%02d", min(len(out), 12)))
		if impl != model {
			res.Disagree("deleteUnused on a synthetic command table", c, impl, model)
		}
		if pan == "" {
			duJudge(c, out, res)
		}
	}
	if only != nil {
		one(*only)
		return
	}
	n := ctx.N(1500, 40000)
	for i := 0; i < n; i++ {
		one(genDU(ctx.Rng.Fork()))
	}
}
