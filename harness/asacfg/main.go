package main

// Configuration-level oracle for the ASA backend (fragment F1: object-group network, extended ACLs,
// access-group bindings, static routes, unmanaged content). Serves C01 (convergence, idempotence),
// C07 (frame), C08 (every command executable), C10 (resume from every cut).
// Real code: drc.Main in-process (compare-files mode). Specification side: dev.go (strict executor).

import (
	"fmt"
	"os"
	"path/filepath"
	"sort"
	"strconv"
	"strings"

	"github.com/hknutzen/Netspoc-Approve/go/pkg/drc"

	. "verifharness/vhlib"
)

func main() {
	Main(map[string]PropFunc{"C01": run, "C07": run, "C08": run, "C10": run, "C14": run})
}

type cfgCase struct {
	Dev      string   `json:"device"`
	Spoc     string   `json:"netspoc"`
	Bindings []string `json:"bindings"`
	Routes   bool     `json:"routes"`
	Routes6  bool     `json:"routes6,omitempty"`
	Note     []string `json:"mutations"`
	dev      *asaDev
	spoc     *asaDev
}

var workDir string
var caseNo int

func runDrc(dev, spoc string) (stdout, stderr string, status int, pan string) {
	caseNo++
	d := filepath.Join(workDir, fmt.Sprintf("c%d", caseNo%64))
	os.RemoveAll(d)
	WriteFiles(d, map[string]string{"dev": dev, "spoc": spoc, "spoc.info": `{"model":"ASA"}`})
	old := os.Args
	os.Args = []string{"drc", "-q", filepath.Join(d, "dev"), filepath.Join(d, "spoc")}
	stdout, stderr, status, pan = Captured(drc.Main)
	os.Args = old
	return
}

// ---------------------------------------------------------------- generator

var members = []string{"host 10.1.1.1", "host 10.1.1.2", "host 10.1.1.3", "10.2.0.0 255.255.0.0", "10.3.3.0 255.255.255.0",
	"host 10.4.4.4", "host 10.5.5.5", "10.6.0.0 255.255.0.0", "host 10.7.7.7"}
var intfNames = []string{"inside", "outside", "dmz", "mgmt"}

func genAddr(r *RNG, groups []string) string {
	switch k := r.Intn(100); {
	case k < 30 && len(groups) > 0:
		return "object-group " + Pick(r, groups)
	case k < 55:
		return "any4"
	default:
		m := Pick(r, members)
		return m
	}
}

// svcFor: a service group of the target whose protocol type admits the protocol.
func svcFor(r *RNG, b *asaDev, proto string) string {
	var ok []string
	if b != nil {
		for _, g := range b.SOrder {
			k := b.SGroups[g].Kind
			if k == proto || k == "tcp-udp" {
				ok = append(ok, g)
			}
		}
	}
	if len(ok) == 0 {
		return ""
	}
	return Pick(r, ok)
}

func genBody(r *RNG, groups []string) string { return genBodyS(r, groups, nil) }

func genBodyS(r *RNG, groups []string, b *asaDev) string {
	act := "permit"
	if r.Chance(25) {
		act = "deny"
	}
	proto := Pick(r, []string{"tcp", "tcp", "udp", "ip"})
	logOpt := func() string {
		// `log`, or `log LEVEL` (canonical: the number; 6 is the default and never written)
		if r.Chance(40) {
			return " log " + Pick(r, []string{"0", "3", "4", "5", "7"})
		}
		return " log"
	}
	if r.Chance(7) {
		// ICMP line: without type, or with one (canonical: the number)
		s := fmt.Sprintf("%s icmp %s %s", act, genAddr(r, groups), genAddr(r, groups))
		if r.Chance(50) {
			s += " " + Pick(r, []string{"0", "8", "3"})
		}
		if r.Chance(45) {
			s += logOpt()
		}
		return s
	}
	s := fmt.Sprintf("%s %s %s %s", act, proto, genAddr(r, groups), genAddr(r, groups))
	if g := svcFor(r, b, proto); proto != "ip" && g != "" && r.Chance(45) {
		s += " object-group " + g
		if r.Chance(8) {
			s += logOpt()
		}
		return s
	}
	if proto != "ip" && r.Chance(10) {
		s += " " + Pick(r, []string{"range 22 25", "range 25 80", "range 80 443", "range 53 80"})
	} else if proto != "ip" && r.Chance(70) {
		s += fmt.Sprintf(" eq %d", Pick(r, []int{22, 25, 53, 80, 443}))
	}
	if r.Chance(8) {
		s += logOpt()
	}
	return s
}

func dedupBodies(ls []string) []string {
	seen := map[string]bool{}
	var out []string
	for _, l := range ls {
		k := stripLog(l)
		if !seen[k] {
			seen[k] = true
			out = append(out, l)
		}
	}
	return out
}

func genTarget(r *RNG) *asaDev {
	b := newDev()
	ng := r.Intn(5)
	for i := 0; i < ng; i++ {
		g := fmt.Sprintf("g%d", i)
		n := 1 + r.Intn(5)
		var ms []string
		for len(ms) < n {
			m := Pick(r, members)
			if !contains(ms, m) {
				ms = append(ms, m)
			}
		}
		b.Groups[g] = ms
		b.GOrder = append(b.GOrder, g)
	}
	// service object-groups (30 % of the targets): protocol type and 1-3 ports
	if r.Chance(30) {
		for i, n := 0, 1+r.Intn(2); i < n; i++ {
			g := fmt.Sprintf("s%d", i)
			sg := &svcGroup{Kind: Pick(r, []string{"tcp", "udp", "tcp-udp", "tcp-udp"})}
			for k := 1 + r.Intn(3); k > 0; k-- {
				m := fmt.Sprintf("eq %d", Pick(r, []int{22, 25, 53, 80, 443}))
				if !contains(sg.Ports, m) {
					sg.Ports = append(sg.Ports, m)
				}
			}
			b.SGroups[g] = sg
			b.SOrder = append(b.SOrder, g)
		}
	}
	perm := append([]string{}, intfNames...)
	Shuffle(r, perm)
	nm := 1 + r.Intn(3)
	for _, in := range perm[:nm] {
		b.Intfs = append(b.Intfs, [2]string{"Ethernet0/" + fmt.Sprint(len(b.Intfs)), in})
		name := in + "_in"
		var ls []string
		for i, n := 0, 1+r.Intn(6); i < n; i++ {
			ls = append(ls, genBodyS(r, b.GOrder, b))
		}
		if r.Chance(70) {
			ls = append(ls, "deny ip any4 any4")
		}
		b.ACLs[name] = dedupBodies(ls)
		b.AOrder = append(b.AOrder, name)
		b.Bind["in "+in] = name
	}
	for _, g := range append([]string{}, b.SOrder...) {
		if !b.groupReferenced(g) {
			delete(b.SGroups, g)
			b.SOrder = remove(b.SOrder, g)
		}
	}
	// drop groups nobody references (Netspoc does not generate those)
	for _, g := range append([]string{}, b.GOrder...) {
		if !b.groupReferenced(g) {
			delete(b.Groups, g)
			b.GOrder = remove(b.GOrder, g)
		}
	}
	if r.Chance(60) {
		gw := []string{"192.168.1.1", "192.168.1.2", "10.0.0.1"}
		for i, n := 0, 1+r.Intn(3); i < n; i++ {
			dst := Pick(r, []string{"0.0.0.0 0.0.0.0", "10.1.0.0 255.255.0.0", "10.2.0.0 255.255.0.0", "10.9.0.0 255.255.0.0"})
			rt := fmt.Sprintf("%s %s %s", b.Intfs[0][1], dst, Pick(r, gw))
			dup := false
			for _, x := range b.Routes {
				if strings.HasPrefix(x, b.Intfs[0][1]+" "+dst+" ") {
					dup = true
				}
			}
			if !dup {
				b.Routes = append(b.Routes, rt)
			}
		}
	}
	if r.Chance(30) {
		for i, n := 0, 1+r.Intn(2); i < n; i++ {
			rt := fmt.Sprintf("%s 2001:db8:%d::/48 %s", b.Intfs[0][1], i+1, Pick(r, []string{"fe80::1", "fe80::2", "2001:db8:ff::1"}))
			b.Routes6 = append(b.Routes6, rt)
		}
	}
	return b
}

func (d *asaDev) renameGroup(from, to string) {
	if _, ok := d.Groups[to]; ok || from == to {
		return
	}
	if _, ok := d.SGroups[to]; ok {
		return
	}
	if sg, ok := d.SGroups[from]; ok {
		d.SGroups[to] = sg
		delete(d.SGroups, from)
		for i, g := range d.SOrder {
			if g == from {
				d.SOrder[i] = to
			}
		}
	} else {
		d.Groups[to] = d.Groups[from]
		delete(d.Groups, from)
		for i, g := range d.GOrder {
			if g == from {
				d.GOrder[i] = to
			}
		}
	}
	for a, ls := range d.ACLs {
		for i, l := range ls {
			d.ACLs[a][i] = strings.ReplaceAll(l+" ", "object-group "+from+" ", "object-group "+to+" ")
			d.ACLs[a][i] = strings.TrimSuffix(d.ACLs[a][i], " ")
		}
	}
}

func (d *asaDev) renameACL(from, to string) {
	if _, ok := d.ACLs[to]; ok || from == to {
		return
	}
	d.ACLs[to] = d.ACLs[from]
	delete(d.ACLs, from)
	for i, a := range d.AOrder {
		if a == from {
			d.AOrder[i] = to
		}
	}
	for k, v := range d.Bind {
		if v == from {
			d.Bind[k] = to
		}
	}
}

// genDevice derives a device configuration from the target by mutations and adds unmanaged content.
func genDevice(r *RNG, b *asaDev) (*asaDev, []string) {
	a := b.clone()
	var note []string
	say := func(s string) { note = append(note, s) }
	a.Unknown = []string{"hostname fw1"}
	if r.Chance(30) {
		a.Unknown = append(a.Unknown, "snmp-server host inside 10.0.0.9 community x")
	}
	nmut := r.Intn(6)
	for i := 0; i < nmut; i++ {
		switch k := r.Intn(100); {
		case k < 14 && len(a.GOrder) > 0:
			g := Pick(r, a.GOrder)
			to := fmt.Sprintf("%s-DRC-%d", strings.SplitN(g, "-DRC-", 2)[0], r.Intn(3))
			if r.Chance(30) {
				to = "old" + g
			}
			a.renameGroup(g, to)
			say("rename-group")
		case k < 30 && len(a.GOrder) > 0:
			g := Pick(r, a.GOrder)
			ms := a.Groups[g]
			if r.Chance(50) && len(ms) > 1 {
				i := r.Intn(len(ms))
				ms = append(ms[:i:i], ms[i+1:]...)
			} else {
				m := Pick(r, members)
				if !contains(ms, m) {
					ms = append(ms, m)
				}
			}
			a.Groups[g] = ms
			say("edit-members")
		case k < 36 && len(a.GOrder) > 0:
			g := Pick(r, a.GOrder)
			var ms []string
			for len(ms) < 1+r.Intn(4) {
				m := Pick(r, members)
				if !contains(ms, m) {
					ms = append(ms, m)
				}
			}
			a.Groups[g] = ms
			say("replace-members")
		case k < 40 && len(a.GOrder) > 0:
			// a group used by a line further down is replaced as a whole, and a line of the opposite action differs above it
			g := Pick(r, a.GOrder)
			for _, name := range a.AOrder {
				ls := a.ACLs[name]
				for i := 1; i < len(ls); i++ {
					if contains(refsOf(ls[i]), g) {
						var ms []string
						for _, m := range members {
							if !contains(a.Groups[g], m) && len(ms) < 3 {
								ms = append(ms, m)
							}
						}
						if len(ms) == 0 {
							break
						}
						a.Groups[g] = ms
						j := r.Intn(i)
						if strings.HasPrefix(ls[i], "permit") {
							ls[j] = "deny ip any4 any4 log"
						} else {
							ls[j] = "permit ip any4 any4 log"
						}
						a.ACLs[name] = dedupBodies(ls)
						say("group-replaced-and-opposite-line-above")
						break
					}
				}
			}
		case k < 44 && len(a.GOrder) > 0:
			// duplicate group (tie): identical content under another name, unreferenced or referenced by one line
			g := Pick(r, a.GOrder)
			n := fmt.Sprintf("%s-DRC-%d", strings.SplitN(g, "-DRC-", 2)[0], 5+r.Intn(3))
			if _, ok := a.Groups[n]; !ok {
				a.Groups[n] = append([]string{}, a.Groups[g]...)
				a.GOrder = append(a.GOrder, n)
				say("duplicate-group")
			}
		case k < 70 && len(a.AOrder) > 0:
			name := Pick(r, a.AOrder)
			ls := a.ACLs[name]
			switch r.Intn(4) {
			case 0:
				if len(ls) > 1 {
					i := r.Intn(len(ls))
					ls = append(ls[:i:i], ls[i+1:]...)
					say("acl-delete-line")
				}
			case 1:
				j := r.Intn(len(ls) + 1)
				ls = append(ls[:j:j], append([]string{genBody(r, a.GOrder)}, ls[j:]...)...)
				say("acl-insert-line")
			case 2:
				if len(ls) > 1 {
					i := r.Intn(len(ls))
					l := ls[i]
					ls = append(ls[:i:i], ls[i+1:]...)
					j := r.Intn(len(ls) + 1)
					ls = append(ls[:j:j], append([]string{l}, ls[j:]...)...)
					say("acl-move-line")
				}
			case 3:
				i := r.Intn(len(ls))
				if stripLog(ls[i]) != ls[i] {
					ls[i] = stripLog(ls[i])
				} else {
					ls[i] += " log"
				}
				say("acl-toggle-log")
			}
			a.ACLs[name] = dedupBodies(ls)
		case k < 76 && len(a.AOrder) > 0:
			name := Pick(r, a.AOrder)
			a.renameACL(name, fmt.Sprintf("%s-DRC-%d", strings.SplitN(name, "-DRC-", 2)[0], r.Intn(2)))
			say("rename-acl")
		case k < 80 && len(a.Bind) > 1:
			// managed interface without ACL on device
			for key, name := range a.Bind {
				delete(a.Bind, key)
				if !a.aclBound(name) {
					delete(a.ACLs, name)
					a.AOrder = remove(a.AOrder, name)
				}
				say("unbound-interface")
				break
			}
		case k < 86:
			n := fmt.Sprintf("left-DRC-%d", r.Intn(3))
			if _, ok := a.Groups[n]; !ok {
				a.Groups[n] = []string{Pick(r, members)}
				a.GOrder = append(a.GOrder, n)
				say("leftover-group")
			}
		case k < 90:
			n := fmt.Sprintf("oldacl-DRC-%d", r.Intn(2))
			if _, ok := a.ACLs[n]; !ok {
				a.ACLs[n] = []string{"permit ip any4 any4"}
				a.AOrder = append(a.AOrder, n)
				say("leftover-acl")
			}
		default:
			if len(a.Routes) > 0 && r.Chance(60) {
				i := r.Intn(len(a.Routes))
				f := strings.Fields(a.Routes[i])
				f[3] = Pick(r, []string{"192.168.1.1", "192.168.1.2", "10.0.0.1", "10.0.0.2"})
				a.Routes[i] = strings.Join(f, " ")
				say("route-change-gw")
			} else if len(a.Routes) > 0 {
				a.Routes = a.Routes[1:]
				say("route-missing")
			} else if len(b.Routes) > 0 {
				a.Routes = append(a.Routes, a.Intfs[0][1]+" 10.8.0.0 255.255.0.0 10.0.0.1")
				say("route-extra")
			}
			switch {
			case len(a.Routes6) > 0 && r.Chance(50):
				f := strings.Fields(a.Routes6[0])
				f[2] = Pick(r, []string{"fe80::1", "fe80::2", "fe80::9"})
				a.Routes6[0] = strings.Join(f, " ")
				say("route6-change-gw")
			case len(a.Routes6) > 0 && r.Chance(50):
				a.Routes6 = a.Routes6[1:]
				say("route6-missing")
			case r.Chance(50) && !contains(a.Routes6, a.Intfs[0][1]+" 2001:db8:77::/48 fe80::7"):
				// with ipv6 routes in the target: an extra one; without: routes the tool must leave alone
				a.Routes6 = append(a.Routes6, a.Intfs[0][1]+" 2001:db8:77::/48 fe80::7")
				say("route6-extra-or-unmanaged")
			}
		}
	}
	// remove groups that became unreferenced and untagged by renames? keep: they are unmanaged then.
	if r.Chance(20) {
		// manually created tunnel-group -> generated group-policy -> generated ACL (two reference hops; nothing of it in the target)
		a.ACLs["vpnf-DRC-0"] = []string{"permit ip any4 host 10.7.7.7"}
		a.AOrder = append(a.AOrder, "vpnf-DRC-0")
		a.Opaque = append(a.Opaque,
			opaqueObj{"group-policy VPNGP-DRC-0 internal", nil},
			opaqueObj{"group-policy VPNGP-DRC-0 attributes", []string{"vpn-filter value vpnf-DRC-0"}},
			opaqueObj{"tunnel-group MANUALTG type remote-access", nil},
			opaqueObj{"tunnel-group MANUALTG general-attributes", []string{"default-group-policy VPNGP-DRC-0"}})
		say("manual-tunnel-group-chain")
	}
	// service groups on the device: narrower protocol type (the target widened it and uses it in lines of the other
	// protocol too), other ports, other name
	for _, g := range append([]string{}, a.SOrder...) {
		sg := a.SGroups[g]
		switch k := r.Intn(100); {
		case k < 30 && sg.Kind == "tcp-udp":
			keep := Pick(r, []string{"tcp", "udp"})
			sg.Kind = keep
			for n, ls := range a.ACLs {
				var out []string
				for _, l := range ls {
					if contains(refsOf(l), g) && strings.Fields(l)[1] != keep {
						continue
					}
					out = append(out, l)
				}
				if len(out) == 0 {
					out = []string{"deny ip any4 any4"}
				}
				a.ACLs[n] = out
			}
			say("service-group-narrower-protocol-type")
		case k < 55:
			if r.Chance(50) && len(sg.Ports) > 1 {
				sg.Ports = sg.Ports[1:]
			} else if m := fmt.Sprintf("eq %d", Pick(r, []int{22, 25, 53, 80, 443})); !contains(sg.Ports, m) {
				sg.Ports = append(sg.Ports, m)
			}
			say("service-group-edit-ports")
		case k < 70:
			a.renameGroup(g, fmt.Sprintf("%s-DRC-%d", g, r.Intn(3)))
			say("service-group-rename")
		}
	}
	if r.Chance(35) {
		a.Groups["MANUAL"] = []string{"host 9.9.9.9", Pick(r, members)}
		a.GOrder = append(a.GOrder, "MANUAL")
		say("unmanaged-group")
	}
	if r.Chance(30) {
		// interface unknown to Netspoc with its own ACL, possibly using a group
		for _, in := range intfNames {
			if !a.hasIntf(in) {
				a.Intfs = append(a.Intfs, [2]string{"Ethernet0/" + fmt.Sprint(len(a.Intfs)), in})
				name := in + "_acl"
				body := "permit ip any4 any4"
				if len(a.GOrder) > 0 && r.Chance(50) {
					body = "permit tcp object-group " + Pick(r, a.GOrder) + " any4 eq 22"
				}
				a.ACLs[name] = []string{body}
				a.AOrder = append(a.AOrder, name)
				a.Bind["in "+in] = name
				say("unknown-interface-with-acl")
				if r.Chance(40) {
					a.Shut[in] = true
					say("unknown-interface-shutdown")
				}
				if r.Chance(35) {
					on := in + "_oacl"
					a.ACLs[on] = []string{"permit ip any4 any4"}
					a.AOrder = append(a.AOrder, on)
					a.Bind["out "+in] = on
					say("unknown-interface-in-and-out")
				}
				break
			}
		}
	}
	return a, note
}

func genCase(r *RNG) cfgCase {
	b := genTarget(r)
	a, note := genDevice(r, b)
	var bindings []string
	for k := range b.Bind {
		bindings = append(bindings, k)
	}
	sort.Strings(bindings)
	devText, spocText := a.print(true), b.print(false)
	if r.Chance(35) {
		devText = respell(r, devText, false)
		note = append(note, "device-spells-ports-by-name")
	}
	if r.Chance(25) {
		spocText = respell(r, spocText, true)
		note = append(note, "target-spells-protocol-by-number-or-ports-by-name")
	}
	if r.Chance(30) {
		// blocks the tool does not model, with indented sub-lines, behind the last object-group, access-list or route
		devText = insertUnknownBlocks(r, devText)
		note = append(note, "unknown-blocks-with-sub-lines")
		return cfgCase{Dev: devText, Spoc: spocText, Bindings: bindings, Routes: len(b.Routes) > 0, Routes6: len(b.Routes6) > 0, Note: note, dev: parseDev(devText), spoc: b}
	}
	return cfgCase{Dev: devText, Spoc: spocText, Bindings: bindings, Routes: len(b.Routes) > 0, Routes6: len(b.Routes6) > 0, Note: note, dev: a, spoc: b}
}

var unknownBlocks = [][]string{
	{"object network SRV1", " host 10.66.6.6"},
	{"object-group icmp-type PINGS", " icmp-object echo", " icmp-object echo-reply"},
	{"policy-map global_policy", " class inspection_default", "  inspect dns"},
	{"object-group user ADMINS", " user LOCAL\\admin"},
	{"dynamic-access-policy-record DfltAccessPolicy", " network-acl MANUALACL"},
}

func insertUnknownBlocks(r *RNG, text string) string {
	lines := strings.Split(strings.TrimSuffix(text, "\n"), "\n")
	lastOf := func(prefix string) int {
		end := -1
		in := false
		for i, l := range lines {
			if !strings.HasPrefix(l, " ") {
				in = strings.HasPrefix(l, prefix)
			}
			if in {
				end = i + 1
			}
		}
		return end
	}
	pos := []int{len(lines)}
	for _, p := range []string{"object-group network ", "access-list ", "route "} {
		if e := lastOf(p); e >= 0 {
			pos = append(pos, e)
		}
	}
	for k := 1 + r.Intn(2); k > 0; k-- {
		at := Pick(r, pos)
		blk := Pick(r, unknownBlocks)
		if strings.Contains(strings.Join(lines, "\n"), blk[0]+"\n") {
			continue
		}
		lines = append(lines[:at:at], append(append([]string{}, blk...), lines[at:]...)...)
		for i := range pos {
			if pos[i] > at {
				pos[i] += len(blk)
			}
		}
	}
	return strings.Join(lines, "\n") + "\n"
}

// repointsBetweenTwins: created = the state after the first run holds two network groups with the same member set of
// which at least one did not exist before; rep = every command of the second script is an access-list line added or
// deleted, and the added and the deleted bodies of each access list are the same multiset once every twin name is
// replaced by one representative.
func repointsBetweenTwins(before, after *asaDev, script string) (rep, created bool) {
	canonOf := map[string]string{}
	byMembers := map[string]string{}
	for _, g := range after.GOrder {
		m := append([]string{}, after.Groups[g]...)
		sort.Strings(m)
		k := strings.Join(m, ",")
		if first, ok := byMembers[k]; ok {
			canonOf[g] = first
			_, old1 := before.Groups[g]
			_, old2 := before.Groups[first]
			if !old1 || !old2 {
				created = true
			}
		} else {
			byMembers[k] = g
			canonOf[g] = g
		}
	}
	if !created {
		return false, false
	}
	norm := func(body string) string {
		w := strings.Fields(canonBody(body))
		for i := 1; i < len(w); i++ {
			if w[i-1] == "object-group" {
				if c, ok := canonOf[w[i]]; ok {
					w[i] = c
				}
			}
		}
		return strings.Join(w, " ")
	}
	bal := map[string]int{}
	for _, line := range strings.Split(strings.TrimSpace(script), "\n") {
		for _, h := range strings.Split(line, "\\N ") {
			m := aclCmdRE.FindStringSubmatch(h)
			if m == nil {
				return false, true
			}
			k := m[2] + "|" + norm(m[4])
			if m[1] != "" {
				bal[k]--
			} else {
				bal[k]++
			}
		}
	}
	for _, v := range bal {
		if v != 0 {
			return false, true
		}
	}
	return true, true
}

// groupRefCount: number of access-list lines of the configuration that reference the object-group.
func groupRefCount(d *asaDev, g string) int {
	n := 0
	for _, ls := range d.ACLs {
		for _, l := range ls {
			for _, r := range refsOf(l) {
				if r == g {
					n++
				}
			}
		}
	}
	return n
}

// respell rewrites access-list entries of a configuration text into an equivalent spelling: well-known ports
// by name (as a real ASA prints them) and, in a target, the protocol by number (as a raw file may).
func respell(r *RNG, text string, target bool) string {
	lines := strings.Split(text, "\n")
	for i, line := range lines {
		if !target && (strings.HasPrefix(line, "route ") || strings.HasPrefix(line, "ipv6 route ")) && r.Chance(60) {
			lines[i] = line + " 1" // a device shows the metric
			continue
		}
		m := aclCmdRE.FindStringSubmatch(line)
		if m == nil || !r.Chance(60) {
			continue
		}
		w := strings.Fields(m[4])
		for j := 2; j+1 < len(w); j++ {
			if w[j] == "eq" {
				if n, ok := portNumbers[w[j+1]]; ok && (w[1] == "tcp" || w[1] == "udp" && n == "domain") {
					w[j+1] = n
				}
			}
		}
		for j := 2; j < len(w); j++ {
			if w[j] == "log" && j+1 < len(w) {
				// a device shows the level by name
				if n, err := strconv.Atoi(w[j+1]); err == nil && n < len(logLevelNames) {
					w[j+1] = logLevelNames[n]
				}
			} else if w[j] == "log" && target && r.Chance(30) {
				// the default level written out
				w = append(w, Pick(r, []string{"6", "informational"}))
				break
			}
		}
		if w[1] == "icmp" {
			for j := 2; j < len(w); j++ {
				if n, ok := icmpTypeNames[w[j]]; ok && w[j-1] != "host" && w[j-1] != "log" {
					w[j] = n
				}
			}
		}
		for j := 2; j+2 < len(w); j++ {
			if w[j] == "range" {
				for k := j + 1; k <= j+2; k++ {
					if n, ok := portNumbers[w[k]]; ok && w[1] == "tcp" {
						w[k] = n
					}
				}
			}
		}
		if target && r.Chance(40) {
			// spellings a raw file may use: `A 255.255.255.255` for `host A`, `0.0.0.0 0.0.0.0` for `any4`
			var o []string
			for j := 0; j < len(w); j++ {
				switch {
				case w[j] == "host" && j+1 < len(w) && j >= 2 && w[j-1] != "log":
					o = append(o, w[j+1], "255.255.255.255")
					j++
				case w[j] == "any4" && r.Chance(50):
					o = append(o, "0.0.0.0", "0.0.0.0")
				default:
					o = append(o, w[j])
				}
			}
			w = o
		}
		if target && r.Chance(50) {
			if n, ok := protoByName[w[1]]; ok {
				w[1] = n
			}
		}
		lines[i] = strings.TrimSuffix(line, m[4]) + strings.Join(w, " ")
	}
	return strings.Join(lines, "\n")
}

// parseDev re-reads a printed configuration (replay files carry text only).
func parseDev(text string) *asaDev {
	d := newDev()
	var curIntf string
	var curGroup string
	var curShut, curOpaque, curUnk bool
	curSvc := ""
	for _, line := range strings.Split(text, "\n") {
		if line == "" {
			continue
		}
		if strings.HasPrefix(line, " ") {
			t := strings.TrimSpace(line)
			if curGroup != "" && strings.HasPrefix(t, "network-object ") {
				d.Groups[curGroup] = append(d.Groups[curGroup], strings.TrimPrefix(t, "network-object "))
			} else if curSvc != "" && strings.HasPrefix(t, "port-object ") {
				d.SGroups[curSvc].Ports = append(d.SGroups[curSvc].Ports, canonPort(strings.TrimPrefix(t, "port-object ")))
			} else if curIntf != "" && strings.HasPrefix(t, "nameif ") {
				d.Intfs = append(d.Intfs, [2]string{curIntf, strings.TrimPrefix(t, "nameif ")})
				if curShut {
					d.Shut[strings.TrimPrefix(t, "nameif ")] = true
				}
			} else if curIntf != "" && t == "shutdown" {
				curShut = true
			} else if curOpaque {
				d.Opaque[len(d.Opaque)-1].Subs = append(d.Opaque[len(d.Opaque)-1].Subs, t)
			} else if curUnk {
				d.Unknown = append(d.Unknown, line) // sub-line of a block the tool does not model
			}
			continue
		}
		curIntf, curGroup, curSvc = "", "", ""
		curShut, curOpaque, curUnk = false, false, false
		w := strings.Fields(line)
		switch {
		case w[0] == "group-policy" || w[0] == "tunnel-group":
			d.Opaque = append(d.Opaque, opaqueObj{Header: line})
			curOpaque = true
		case w[0] == "interface":
			curIntf = w[1]
		case strings.HasPrefix(line, "object-group service ") && len(w) == 4 && (w[3] == "tcp" || w[3] == "udp" || w[3] == "tcp-udp"):
			curSvc = w[2]
			d.SGroups[curSvc] = &svcGroup{Kind: w[3]}
			d.SOrder = append(d.SOrder, curSvc)
		case strings.HasPrefix(line, "object-group network "):
			curGroup = w[2]
			d.Groups[curGroup] = nil
			d.GOrder = append(d.GOrder, curGroup)
		case aclCmdRE.MatchString(line):
			m := aclCmdRE.FindStringSubmatch(line)
			if _, ok := d.ACLs[m[2]]; !ok {
				d.AOrder = append(d.AOrder, m[2])
			}
			d.ACLs[m[2]] = append(d.ACLs[m[2]], canonBody(m[4]))
		case agCmdRE.MatchString(line):
			m := agCmdRE.FindStringSubmatch(line)
			d.Bind[m[3]+" "+m[4]] = m[2]
		case w[0] == "route":
			d.Routes = append(d.Routes, canonRoute(strings.TrimPrefix(line, "route "), 4))
		case w[0] == "ipv6" && len(w) > 1 && w[1] == "route":
			d.Routes6 = append(d.Routes6, canonRoute(strings.TrimPrefix(line, "ipv6 route "), 3))
		default:
			d.Unknown = append(d.Unknown, line)
			curUnk = true
		}
	}
	return d
}

// unmanagedNames: objects of the initial device that are outside Netspoc's scope (C07): ACLs bound to
// interfaces unknown to Netspoc, every group they reference, and untagged groups that nothing references.
func unmanagedNames(a *asaDev, managedIntf map[string]bool) (acls, groups map[string]bool) {
	acls, groups = map[string]bool{}, map[string]bool{}
	for k, name := range a.Bind {
		_, intf, _ := strings.Cut(k, " ")
		if !managedIntf[intf] {
			acls[name] = true
			for _, l := range a.ACLs[name] {
				for _, g := range refsOf(l) {
					groups[g] = true
				}
			}
		}
	}
	for _, g := range a.GOrder {
		if !strings.Contains(g, "-DRC-") && !a.groupReferenced(g) {
			groups[g] = true
		}
	}
	for _, o := range a.Opaque {
		for _, sub := range o.Subs {
			f := strings.Fields(sub)
			if _, ok := a.ACLs[f[len(f)-1]]; ok {
				acls[f[len(f)-1]] = true
			}
		}
	}
	return
}

// unmanagedView prints the definitions of those objects in d (they must stay as they are).
func unmanagedView(d *asaDev, managedIntf map[string]bool, acls, groups map[string]bool, keepRoutes, keepRoutes6 bool) string {
	var sb strings.Builder
	sb.WriteString(strings.Join(d.Unknown, "\n") + "\n")
	// routes of an address family for which the target specifies none stay as they are
	if keepRoutes {
		r := append([]string{}, d.Routes...)
		sort.Strings(r)
		sb.WriteString("routes " + strings.Join(r, "; ") + "\n")
	}
	if keepRoutes6 {
		r := append([]string{}, d.Routes6...)
		sort.Strings(r)
		sb.WriteString("ipv6 routes " + strings.Join(r, "; ") + "\n")
	}
	for _, i := range d.Intfs {
		sb.WriteString("interface " + i[0] + " " + i[1] + "\n")
	}
	keys := []string{}
	for k := range d.Bind {
		keys = append(keys, k)
	}
	sort.Strings(keys)
	for _, k := range keys {
		_, intf, _ := strings.Cut(k, " ")
		if !managedIntf[intf] {
			fmt.Fprintf(&sb, "bind %s -> %s\n", k, d.Bind[k])
		}
	}
	for _, o := range d.Opaque {
		sb.WriteString("vpn " + o.Header + " {" + strings.Join(o.Subs, "; ") + "}\n")
	}
	names := []string{}
	for n := range acls {
		names = append(names, n)
	}
	sort.Strings(names)
	for _, n := range names {
		ls, ok := d.ACLs[n]
		fmt.Fprintf(&sb, "acl %s exists=%v\n %s\n", n, ok, strings.Join(ls, "\n "))
	}
	names = names[:0]
	for n := range groups {
		names = append(names, n)
	}
	sort.Strings(names)
	for _, n := range names {
		m, ok := d.Groups[n]
		m = append([]string{}, m...)
		sort.Strings(m)
		fmt.Fprintf(&sb, "group %s exists=%v = %s\n", n, ok, strings.Join(m, ","))
	}
	return sb.String()
}

func leftovers(d *asaDev) []string {
	var out []string
	for _, g := range d.GOrder {
		if strings.Contains(g, "-DRC-") && !d.groupReferenced(g) {
			out = append(out, "object-group "+g)
		}
	}
	for _, g := range d.SOrder {
		if strings.Contains(g, "-DRC-") && !d.groupReferenced(g) {
			out = append(out, "object-group service "+g)
		}
	}
	for _, a := range d.AOrder {
		if strings.Contains(a, "-DRC-") && !d.aclBound(a) && !d.opaqueRefs(a) {
			out = append(out, "access-list "+a)
		}
	}
	return out
}

func run(ctx *Ctx) *Result {
	res := NewResult()
	prop := ctx.Prop
	res.Rule = "pairs (ASA device config, Netspoc target) of fragment F1: 1-3 managed interfaces with bound ACLs (lines over hosts, networks, " +
		"object-groups), 0-4 groups, routes; device derived from the target by up to 5 mutations (rename/duplicate/edit/replace groups, insert/delete/" +
		"move/log-toggle lines, rename ACL, unbound interface, left-over -DRC- objects, route changes) plus unmanaged content (unknown lines, " +
		"MANUAL group, interface unknown to Netspoc with its own ACL); real drc.Main in-process; script executed command by command on the " +
		"strict specification-side device. non-trivial = non-empty script; distinct by text of both configurations"
	res.Assumptions = []string{"ASA command semantics of the fragment is a written specification (harness/asacfg/dev.go)",
		"equivalence: per managed binding the ACL with object-groups expanded to member sets, routes as a set if the target has routes"}
	var err error
	workDir, err = os.MkdirTemp("", "vh-asacfg-")
	if err != nil {
		panic(err)
	}
	defer os.RemoveAll(workDir)

	runCase := func(c cfgCase) {
		if c.dev == nil {
			c.dev, c.spoc = parseDev(c.Dev), parseDev(c.Spoc)
		}
		out, errOut, status, pan := runDrc(c.Dev, c.Spoc)
		canon := c.Dev + "--\n" + c.Spoc
		if pan != "" {
			res.Eval(canon, false)
			res.Fail(map[string]any{"pred": "drc_panic"}, "panic: "+pan, c)
			return
		}
		if status != 0 {
			res.Eval(canon, false)
			// every generated pair is inside the accepted language: a refusal is a finding of its own
			res.Count("rejected-by-drc")
			res.Fail(map[string]any{"pred": "valid_pair_rejected_by_drc"}, "drc refuses a valid device/target pair (exit "+fmt.Sprint(status)+"): "+strings.TrimSpace(errOut), c)
			return
		}
		cmds := splitScript(out)
		res.Eval(canon, len(cmds) > 0)
		res.Count(fmt.Sprintf("cmds:%02d", min(len(cmds)/3*3, 30)))
		for _, n := range c.Note {
			res.Count("mut:" + n)
		}
		managed := map[string]bool{}
		for _, k := range c.Bindings {
			_, intf, _ := strings.Cut(k, " ")
			managed[intf] = true
		}
		want := c.spoc.clone()
		want.Intfs = c.dev.Intfs
		wantView := want.managedView(c.Bindings, c.Routes, c.Routes6)
		uAcls, uGroups := unmanagedNames(c.dev, managed)
		frame0 := unmanagedView(c.dev, managed, uAcls, uGroups, !c.Routes, !c.Routes6)
		firstOnIface := ""
		{
			// F-C01 classification: the first access-group line of the device is bound to an interface unknown to Netspoc
			for _, line := range strings.Split(c.Dev, "\n") {
				if m := agCmdRE.FindStringSubmatch(line); m != nil {
					if !managed[m[4]] {
						firstOnIface = "unknown"
					} else {
						firstOnIface = "managed"
					}
					break
				}
			}
		}
		dupGroup := false
		{
			seen := map[string]bool{}
			for _, g := range c.dev.GOrder {
				m := append([]string{}, c.dev.Groups[g]...)
				sort.Strings(m)
				k := strings.Join(m, ",")
				if seen[k] {
					dupGroup = true
				}
				seen[k] = true
			}
		}
		sig := func(pred string) map[string]any {
			return map[string]any{"pred": pred, "first_access_group": firstOnIface, "identical_groups_on_device": dupGroup}
		}
		// execute
		ex := &executor{d: c.dev.clone()}
		states := []*asaDev{}
		for i, cmd := range cmds {
			if err := ex.exec1(cmd); err != nil {
				if prop == "C08" || prop == "C01" || prop == "C10" {
					res.Fail(sig("command_rejected_by_strict_device"), fmt.Sprintf("command %d %q: %v", i, cmd, err), c)
				}
				// C07 / C14 judge states; what a refused script would have done is C08's business (same cases, same harness)
				res.Count("script-refused-by-strict-device:not-judged-further")
				return
			}
			if ex.mode == "" {
				states = append(states, ex.d.clone())
			} else {
				states = append(states, nil) // inside a sub-mode block: cut position, state printed the same way
				states[len(states)-1] = ex.d.clone()
			}
		}
		res.TracesVsImpl++
		final := ex.d
		if len(res.Samples) < 3 && len(cmds) > 4 {
			res.Sample(map[string]any{"device": c.Dev, "netspoc": c.Spoc, "script": out, "mutations": c.Note})
		}
		if prop == "C01" {
			if got := final.managedView(c.Bindings, c.Routes, c.Routes6); got != wantView {
				res.Fail(sig("not_converged"), "after executing the script the managed part differs from the target:\n"+got+"-- want\n"+wantView, c)
				return
			}
			if lo := leftovers(final); len(lo) > 0 {
				res.Fail(sig("leftover_generated_object"), "unreferenced generated objects remain: "+strings.Join(lo, ", "), c)
			}
			out2, _, st2, pan2 := runDrc(final.print(true), c.Spoc)
			if pan2 != "" || st2 != 0 {
				res.Fail(sig("second_compare_failed"), fmt.Sprintf("second compare: exit %d %s", st2, pan2), c)
			} else if strings.TrimSpace(out2) != "" {
				sg := sig("second_compare_not_empty")
				// twin groups: the first run created a group with exactly the members of a group that was on the device
				// before (and stays referenced); is the second script nothing but lines re-pointed from one twin to the other?
				if rep, created := repointsBetweenTwins(c.dev, final, out2); created {
					sg["twin_group_created_by_first_run"] = true
					sg["second_script_only_repoints_lines_between_twin_groups"] = rep
				}
				res.Fail(sg, "second compare reports changes:\n"+out2, c)
			}
			if len(cmds) == 0 && c.dev.managedView(c.Bindings, c.Routes, c.Routes6) != wantView {
				res.Fail(sig("unchanged_reported_for_different_device"), "empty script although the device is not equivalent", c)
			}
		}
		if prop == "C14" {
			// ACL step safety with object-groups: every packet on which the bound ACL of a managed interface gives the
			// same verdict before and after gets that verdict after every command. Membership edits of existing groups
			// are outside the property: such scripts are skipped for this part.
			groupEdit := false
			mode := ""
			for _, cmd := range cmds {
				if strings.HasPrefix(cmd, "object-group network ") || strings.HasPrefix(cmd, "object-group service ") {
					mode = strings.Fields(cmd)[2]
				} else if strings.HasPrefix(cmd, "network-object ") || strings.HasPrefix(cmd, "no network-object ") ||
					strings.HasPrefix(cmd, "port-object ") || strings.HasPrefix(cmd, "no port-object ") {
					// only edits of a SHARED group are outside the property: a group that one access-list line
					// alone references (on the device and in the result) is part of that line
					_, existed := c.dev.Groups[mode]
					if _, ok := c.dev.SGroups[mode]; ok {
						existed = true
					}
					if existed && (groupRefCount(c.dev, mode) > 1 || groupRefCount(final, mode) > 1) {
						groupEdit = true
					}
				} else {
					mode = ""
				}
			}
			if groupEdit {
				res.Count("c14-acl-skipped-membership-edit")
			} else {
				joined := map[int]bool{}
				idx := 0
				for _, line := range strings.Split(strings.TrimSuffix(out, "\n"), "\n") {
					if line == "" {
						continue
					}
					h := strings.Split(line, "\\N ")
					if len(h) == 2 {
						joined[idx] = true
					}
					idx += len(h)
				}
			steps:
				for _, key := range c.Bindings {
					if _, ok := c.dev.Bind[key]; !ok {
						continue
					}
					for _, p := range pktUniverse {
						v0, v1 := c.dev.verdict(key, p), final.verdict(key, p)
						if v0 != v1 || v0 < 0 {
							continue
						}
						for k, st := range states {
							if joined[k] {
								continue
							}
							if v := st.verdict(key, p); v != v0 {
								moved := false
								if k > 0 && joined[k-1] {
									moved = true
								}
								// the line that decides the packet now: is it one that the run still removes?
								pendingGone := false
								if name, ok := st.Bind[key]; ok {
									for _, l := range st.ACLs[name] {
										if _, hit := st.lineMatches(l, p); hit {
											pendingGone = !contains(final.ACLs[final.Bind[key]], l)
											// … or that a later command deletes (to re-add it elsewhere)
											for _, later := range cmds[k+1:] {
												if m := aclCmdRE.FindStringSubmatch(later); m != nil && m[1] != "" && m[2] == name && canonBody(m[4]) == l {
													pendingGone = true
												}
											}
											break
										}
									}
								}
								pred := "acl_step_unsafe_other"
								switch {
								case strings.HasPrefix(cmds[k], "network-object ") || strings.HasPrefix(cmds[k], "no network-object ") ||
									strings.HasPrefix(cmds[k], "port-object ") || strings.HasPrefix(cmds[k], "no port-object "):
									// the member list of a group that only this access-list line uses is changed in place
									// while the lines around it are still the old ones (finding F-C14g)
									pred = "unshared_group_members_changed_before_lines"
								case moved && pendingGone:
									pred = "move_down_across_pending_opposite_delete"
								case moved:
									pred = "move_unsafe_other"
								}
								res.Fail(map[string]any{"pred": pred, "backend": "asa", "first_access_group": firstOnIface},
									fmt.Sprintf("after command %d (%s) packet %v at %s gets verdict %d, before and after the run it is %d", k, cmds[k], p, key, v, v0), c)
								break steps
							}
						}
					}
				}
				res.Count("c14-acl-steps-checked")
			}
			// every destination that has a route before and after has one after each command
			// (the two halves of a joined line count as one step: check after the second half only)
			dsts := func(d *asaDev) map[string]bool {
				m := map[string]bool{}
				for _, r := range d.Routes {
					f := strings.Fields(r)
					if len(f) >= 3 {
						m[f[1]+" "+f[2]] = true
					}
				}
				return m
			}
			before, after := dsts(c.dev), dsts(final)
			joinedFirst := map[int]bool{}
			idx := 0
			for _, line := range strings.Split(strings.TrimSuffix(out, "\n"), "\n") {
				if line == "" {
					continue
				}
				h := strings.Split(line, "\\N ")
				if len(h) == 2 {
					joinedFirst[idx] = true
				}
				idx += len(h)
			}
			for k, st := range states {
				if joinedFirst[k] {
					continue
				}
				now := dsts(st)
				for d := range before {
					if after[d] && !now[d] {
						res.Fail(sig("route_destination_uncovered_during_change"), fmt.Sprintf("after command %d destination %s has no route although it has one before and after", k, d), c)
					}
				}
			}
		}
		if prop == "C07" {
			if got := unmanagedView(final, managed, uAcls, uGroups, !c.Routes, !c.Routes6); got != frame0 {
				res.Fail(sig("unmanaged_content_changed"), "unmanaged content differs after the script:\n"+got+"-- before\n"+frame0, c)
			}
		}
		if prop == "C10" {
			settles := 0 // 0 = not yet known, 1 = the uninterrupted run's second compare is empty, 2 = it is not
			for k, st := range states[:max(len(states)-1, 0)] {
				res.Count("resume-cuts")
				out2, _, st2, pan2 := runDrc(st.print(true), c.Spoc)
				if pan2 != "" {
					res.Fail(sig("resume_drc_panic"), fmt.Sprintf("cut after %d commands: panic %s", k+1, pan2), c)
					continue
				}
				if st2 != 0 {
					res.Fail(sig("resume_state_not_accepted"), fmt.Sprintf("cut after %d commands: drc rejects the intermediate device", k+1), c)
					continue
				}
				ex2 := &executor{d: st.clone()}
				bad := false
				for i, cmd := range splitScript(out2) {
					if err := ex2.exec1(cmd); err != nil {
						res.Fail(sig("resume_command_rejected"), fmt.Sprintf("cut after %d commands: second script command %d %q: %v", k+1, i, cmd, err), c)
						bad = true
						break
					}
				}
				if bad {
					continue
				}
				if got := ex2.d.managedView(c.Bindings, c.Routes, c.Routes6); got != wantView {
					res.Fail(sig("resume_not_converged"), fmt.Sprintf("cut after %d commands: second run ends in\n%s-- want\n%s", k+1, got, wantView), c)
					continue
				}
				// "... and a further compare reports no change" (seeded change C10-W1: a generated object-group of the cut
				// run stayed behind).  Judged only where the UNINTERRUPTED run settles: a case whose plain second compare is
				// not empty belongs to C01 (findings F-C01b / F-C01e), not to the cut.
				if settles == 0 {
					settles = 1
					if o, _, s0, p0 := runDrc(final.print(true), c.Spoc); p0 != "" || s0 != 0 || strings.TrimSpace(o) != "" {
						settles = 2
					}
				}
				if settles == 2 {
					res.Count("resume-further-compare-skipped:uninterrupted-run-does-not-settle")
					continue
				}
				res.Count("resume-further-compares")
				out3, _, st3, pan3 := runDrc(ex2.d.print(true), c.Spoc)
				if pan3 != "" || st3 != 0 {
					res.Fail(sig("resume_further_compare_failed"), fmt.Sprintf("cut after %d commands: compare after the resumed run: exit %d %s", k+1, st3, pan3), c)
				} else if strings.TrimSpace(out3) != "" {
					sg := sig("resume_further_compare_not_empty")
					if rep, created := repointsBetweenTwins(st, ex2.d, out3); created {
						sg["twin_group_created_by_resumed_run"] = true
						sg["further_script_only_repoints_lines_between_twin_groups"] = rep
					}
					res.Fail(sg, fmt.Sprintf("cut after %d commands: the compare after the resumed run reports changes:\n%s", k+1, out3), c)
				}
			}
		}
	}

	if ctx.Replay != "" {
		var du duCase
		if err := ReadReplay(ctx.Replay, &du); err == nil && len(du.Objs) > 0 {
			if prop == "C07" || prop == "C08" {
				runDeleteUnused(ctx, res, &du)
			}
			return res
		}
		var c cfgCase
		if err := ReadReplay(ctx.Replay, &c); err != nil {
			fmt.Fprintln(os.Stderr, err)
			os.Exit(2)
		}
		runCase(c)
		return res
	}
	if prop == "C07" || prop == "C08" {
		runDeleteUnused(ctx, res, nil)
	}
	n := ctx.N(600, 20000)
	if prop == "C10" {
		n = ctx.N(1500, 12000)
	}
	for i := 0; i < n; i++ {
		runCase(genCase(ctx.Rng.Fork()))
	}
	return res
}
