package main

// Scripted IOS device, run as a child process of the real code through the repository's own
// SIMULATE_ROUTER mechanism (console.GetSSHConn spawns it on a pty):
//
//	vh-c15 -simdev <script.json>
//
// Semantics (port of go/testdata/simulate-cisco.pl, made deterministic):
//   * the preamble is sent at start-up;
//   * every input line is answered by its scripted reply, or by the default reply
//     `<line>\n<prompt>`; a reply may contain `<!>` markers: at each marker one more input line
//     is read and echoed (with its line end);
//   * "\n" is sent as "\r\n";
//   * FAST DEVICE: all complete input lines that arrive in one read() are answered in ONE
//     write(), so the answer to both halves of a joined two-command line reaches the client's
//     expect buffer atomically (the timing the Lean model assumes, DESIGN: "expect buffering
//     details" are not verified);
//   * every received line is appended to the log file (the ordered transcript of the device).
import (
	"encoding/json"
	"fmt"
	"os"
	"strings"
	"time"
)

type simScript struct {
	Prompt   string              `json:"prompt"`   // e.g. "router#"
	Preamble string              `json:"preamble"` // may contain <!>
	Replies  map[string][]string `json:"replies"`  // line -> reply per occurrence (last one repeats)
	Log      string              `json:"log"`
	Slow     bool                `json:"slow"` // answer line by line with a pause (lock-step timing)
	// Splits: the answer to this line is written in pieces, cut at these byte offsets of the raw
	// (CR LF) answer, with DelayMs between the pieces (slow echo, prompt in pieces)
	Splits  map[string][]int `json:"splits"`
	DelayMs int              `json:"delay_ms"`
}

type simState struct {
	sc      *simScript
	occ     map[string]int
	log     *os.File
	pending []string // rest of the current reply split at <!>
	out     strings.Builder
	done    bool
}

func (s *simState) emit(t string) { s.out.WriteString(strings.ReplaceAll(t, "\n", "\r\n")) }

// feed the parts of a reply: emit up to the next <!> marker
func (s *simState) start(reply string) {
	parts := strings.Split(reply, "<!>")
	s.emit(parts[0])
	s.pending = append(parts[1:], s.pending...)
}

func (s *simState) line(l string) {
	fmt.Fprintf(s.log, "%s\n", l)
	if len(s.pending) > 0 {
		// a line read at a <!> marker: echo it, continue the reply
		s.emit(l + "\n")
		p := s.pending[0]
		s.pending = s.pending[1:]
		s.emit(p)
		return
	}
	if l == "exit" {
		s.emit(l + "\n")
		s.done = true
		return
	}
	if rs, ok := s.sc.Replies[l]; ok && len(rs) > 0 {
		k := s.occ[l]
		s.occ[l]++
		if k >= len(rs) {
			k = len(rs) - 1
		}
		if cuts, ok := s.sc.Splits[l]; ok && len(cuts) > 0 && !strings.Contains(rs[k], "<!>") {
			raw := strings.ReplaceAll(rs[k], "\n", "\r\n")
			prev := 0
			for _, c := range cuts {
				if c <= prev || c >= len(raw) {
					continue
				}
				s.out.WriteString(raw[prev:c])
				s.flush()
				time.Sleep(time.Duration(s.sc.DelayMs) * time.Millisecond)
				prev = c
			}
			s.out.WriteString(raw[prev:])
			return
		}
		s.start(rs[k])
		return
	}
	s.emit(l + "\n" + s.sc.Prompt)
}

func (s *simState) flush() {
	if s.out.Len() > 0 {
		os.Stdout.WriteString(s.out.String())
		s.out.Reset()
	}
}

func runSim(file string) {
	data, err := os.ReadFile(file)
	if err != nil {
		os.Exit(3)
	}
	sc := &simScript{}
	if err := json.Unmarshal(data, sc); err != nil {
		os.Exit(3)
	}
	lf, err := os.OpenFile(sc.Log, os.O_WRONLY|os.O_CREATE|os.O_APPEND, 0644)
	if err != nil {
		os.Exit(3)
	}
	s := &simState{sc: sc, occ: map[string]int{}, log: lf}
	fmt.Fprintf(lf, "PID %d\n", os.Getpid())
	s.start(sc.Preamble)
	s.flush()
	// watchdog: never outlive the harness for long
	go func() {
		time.Sleep(60 * time.Second)
		os.Exit(4)
	}()
	buf := make([]byte, 65536)
	var acc []byte
	for !s.done {
		n, err := os.Stdin.Read(buf)
		if n > 0 {
			acc = append(acc, buf[:n]...)
			for {
				i := strings.IndexByte(string(acc), '\n')
				if i < 0 {
					break
				}
				l := strings.TrimSuffix(string(acc[:i]), "\r")
				acc = acc[i+1:]
				s.line(l)
				if sc.Slow {
					s.flush()
					time.Sleep(40 * time.Millisecond)
				}
				if s.done {
					break
				}
			}
			s.flush()
		}
		if err != nil {
			break
		}
	}
	lf.Close()
}
