package main

import (
	"fmt"
	"strings"
	. "verifharness/vhlib"
)

// ---------------------------------------------------------------- base scripts

// op: 'a' add a route, 'r' replace a route (joined two-command line), 'd' delete a route
func buildBase(ops string) (device, target []string) {
	for i, op := range ops {
		dst := fmt.Sprintf("ip route 10.%d.0.0 255.255.0.0", i+1)
		switch op {
		case 'a':
			target = append(target, fmt.Sprintf("%s 10.9.%d.1", dst, i+1))
		case 'r':
			device = append(device, fmt.Sprintf("%s 10.8.%d.1", dst, i+1))
			target = append(target, fmt.Sprintf("%s 10.9.%d.2", dst, i+1))
		case 'd':
			device = append(device, fmt.Sprintf("%s 10.8.%d.3", dst, i+1))
		}
	}
	return
}

// the physical command lines the planner will emit (any order)
func physLines(device, target []string) []string {
	var l []string
	for _, d := range device {
		l = append(l, "no "+d)
	}
	for _, t := range target {
		l = append(l, t)
	}
	return l
}

var goodOuts = []string{"", "", "", "INFO: ignored text\n", "WARNING: Route already exists\n", "INFO: a\nWARNING: b\n", "\n"}
var badOuts = []string{"failed\n", "% Invalid input detected at '^' marker.\n", "WARNING: w\nerror\n"}

const (
	msg2 = " --- SHUTDOWN in 0:02:00 ---"
	msg1 = " --- SHUTDOWN in 0:01:00 ---"
	msg01 = " --- SHUTDOWN in 00:01:00 ---"
	msgA = " --- SHUTDOWN ABORTED ---"
)

func cloneCase(c Case) Case {
	n := c
	n.Behav = map[string]Behav{}
	for k, v := range c.Behav {
		n.Behav[k] = v
	}
	if c.Special != nil {
		n.Special = map[string][]string{}
		for k, v := range c.Special {
			n.Special[k] = v
		}
	}
	return n
}

func bannerFree(c Case) Case {
	n := cloneCase(c)
	for k, v := range n.Behav {
		n.Behav[k] = Behav{Out: v.Out}
	}
	n.Splits, n.DelayMs, n.Late = nil, 0, false
	n.Fixed = nil
	if n.SpecialIsBanner != "" {
		n.Special, n.SpecialIsBanner = nil, ""
	}
	return n
}

// all banner placements for one physical line
func placements(line string, offsets []int) []Behav {
	l := []Behav{{Form: "A", Pad: 0}, {Form: "A", Pad: 2}, {Form: "C", Pad: 0}, {Form: "C", Pad: 2}, {Form: "D"}}
	// after the complete last line: 3, 4, 5 empty lines in front of BEL, 0, 1, 2 behind the banner
	for pre := 0; pre <= 2; pre++ {
		for post := 0; post <= 2; post++ {
			l = append(l, Behav{Form: "E", Pad: pre, Post: post})
		}
	}
	for _, o := range offsets {
		l = append(l, Behav{Form: "B", Off: o})
	}
	return l
}

func allOffsets(line string) []int {
	r := make([]int, len(line)+1)
	for i := range r {
		r[i] = i
	}
	return r
}

// exhaustive family: one banner, every line, every placement
func genExhaustive(ops string, outs map[int]string, msgsUsed []string, sampleEvery int, noAsk bool) []Case {
	dev, tgt := buildBase(ops)
	lines := physLines(dev, tgt)
	base := Case{Device: dev, Target: tgt, Behav: map[string]Behav{}, NoAsk: noAsk}
	for i, o := range outs {
		if i < len(lines) {
			base.Behav[lines[i]] = Behav{Out: o}
		}
	}
	var cases []Case
	for _, l := range lines {
		for mi, m := range msgsUsed {
			offs := allOffsets(l)
			if mi > 0 && sampleEvery > 1 {
				var s []int
				for _, o := range offs {
					if o%sampleEvery == 0 || o == len(l) {
						s = append(s, o)
					}
				}
				offs = s
			}
			for _, p := range placements(l, offs) {
				c := cloneCase(base)
				p.Msg = m
				p.Out = base.Behav[l].Out
				c.Behav[l] = p
				cases = append(cases, c)
			}
		}
	}
	return cases
}

func genRandom(r *RNG, n int) []Case {
	var cases []Case
	for i := 0; i < n; i++ {
		k := 1 + r.Intn(5)
		var ops strings.Builder
		ops.WriteByte("ar"[r.Intn(2)])
		for j := 1; j < k; j++ {
			ops.WriteByte("aarrd"[r.Intn(5)])
		}
		dev, tgt := buildBase(ops.String())
		lines := physLines(dev, tgt)
		c := Case{Device: dev, Target: tgt, Behav: map[string]Behav{}, NoAsk: r.Chance(40)}
		for _, l := range lines {
			b := Behav{Out: Pick(r, goodOuts)}
			if r.Chance(6) {
				b.Out = Pick(r, badOuts)
			}
			if r.Chance(35) {
				b.Msg = Pick(r, []string{msg2, msg1, msg1, msg01, msgA})
				switch r.Intn(5) {
				case 4:
					b.Form, b.Pad, b.Post = "E", r.Intn(3), r.Intn(3)
				case 0:
					b.Form, b.Pad = "A", r.Intn(4)
				case 1:
					b.Form, b.Off = "B", r.Intn(len(l)+1)
				case 2:
					b.Form, b.Pad = "C", r.Intn(4)
				case 3:
					b.Form = "D"
				}
			}
			c.Behav[l] = b
		}
		cases = append(cases, c)
	}
	return cases
}

// fault injection on the fixed dialogue (arbitrary-device side of the guard theorems)
func genFaults(thorough bool) []Case {
	dev, tgt := buildBase("ar")
	lines := physLines(dev, tgt)
	mk := func(sp map[string][]string, outs ...string) Case {
		c := Case{Device: dev, Target: tgt, Behav: map[string]Behav{}, Special: sp}
		for i, o := range outs {
			c.Behav[lines[i]] = Behav{Out: o}
		}
		return c
	}
	l := []Case{
		// reload accepted without the save question (also a first-class variant: Case.NoAsk)
		func() Case { c := mk(nil); c.NoAsk = true; return c }(),
		// write memory: overwrite question
		mk(map[string][]string{"write memory": {"write memory\nWarning: Attempting to overwrite an NVRAM configuration previously written by a different version of the system image.\nOverwrite the previous NVRAM configuration?[confirm]<!>Building configuration...\n  Compressed configuration from 10194 bytes to 5372 bytes[OK]\n" + prompt}}),
		// write memory: unexpected result
		mk(map[string][]string{"write memory": {"write memory\nBuilding configuration...\nCompressed configuration is too large for nvram\nTruncate config?? [no]:\n" + prompt}}),
		// a change is rejected: deferred end + cancel, no write
		mk(nil, "failed\n"),
		mk(nil, "", "", "% Invalid input\n"),
		// echo damaged
		mk(map[string][]string{lines[1]: {"xx" + lines[1] + "\n" + prompt}}),
		// device silent after the confirmation of the reload (abort inside scheduleReload)
		mk(map[string][]string{"reload in 2": {"reload in 2\nProceed with reload? [confirm]<!>"}}),
		// no prompt after `end`
		mk(map[string][]string{"end": {"end\n" + prompt, "end\n"}}),
		// `reload cancel` without the banner
		mk(map[string][]string{"reload cancel": {"reload cancel\n% No reload is scheduled.\n" + prompt}}),
		// second `configure terminal` hangs
		mk(map[string][]string{"configure terminal": {"configure terminal\n" + prompt, "configure terminal\n"}}),
	}
	// write memory: busy once, then ok (one sleep of 3 s in the real code): the retry loop
	l = append(l, mk(map[string][]string{"write memory": {"write memory\nstartup-config file open failed (Device or resource busy)\n" + prompt,
		"write memory\nBuilding configuration...\n[OK]\n" + prompt}}))
	if thorough {
		l = append(l,
			// busy, then the overwrite question, then ok
			mk(map[string][]string{"write memory": {"write memory\nstartup-config file open failed (Device or resource busy)\n" + prompt,
				"write memory\nOverwrite the previous NVRAM configuration?[confirm]<!>Building configuration...\n[OK]\n" + prompt}}),
			// busy once and a rejected change: no write at all
			mk(map[string][]string{"write memory": {"write memory\nstartup-config file open failed (Device or resource busy)\n" + prompt}}, "failed\n"),
			// write memory: busy twice, then ok (two sleeps of 3 s in the real code)
			mk(map[string][]string{"write memory": {"write memory\nstartup-config file open failed (Device or resource busy)\n" + prompt,
				"write memory\nstartup-config file open failed (Device or resource busy)\n" + prompt,
				"write memory\nBuilding configuration...\n[OK]\n" + prompt}}),
			// busy forever
			mk(map[string][]string{"write memory": {"write memory\nstartup-config file open failed (Device or resource busy)\n" + prompt}}),
			// reload question never answered
			mk(map[string][]string{"reload in 2": {"reload in 2\n% Ambiguous\n" + prompt}}),
			// re-arm fails
			func() Case {
				c := mk(map[string][]string{"do reload in 2": {"do reload in 2\n% bad\n" + prompt}})
				c.Behav[lines[0]] = Behav{Form: "B", Off: 3, Msg: msg1}
				return c
			}(),
			// a change is rejected AND the cancel fails
			mk(map[string][]string{"reload cancel": {"reload cancel\n" + prompt}}, "failed\n"),
		)
	}
	return l
}

// ---------------------------------------------------------------- timings other than the fast device

func rawReplyLen(line string, b Behav) int {
	return len(strings.ReplaceAll(replyFor(line, b), "\n", "\r\n"))
}

// genSplits: the answer to one command line arrives in two (or three) pieces, cut at every byte.
// Only cuts after which the real code's behaviour is independent of the timing are used here
// (theorems first_read_any_chunking / hash_read_any_chunking): every cut for the forms without a
// probe, every cut for A and D, and for C every cut that does not isolate the second prompt.
func genSplits(ops string, every int, noAsk bool, forms []Behav, delay int) []Case {
	dev, tgt := buildBase(ops)
	lines := physLines(dev, tgt)
	var cases []Case
	for li, l := range lines {
		joinedFirst := strings.HasPrefix(l, "no ") && li < len(lines) // first half of a replace (probing forms excluded there)
		for _, f := range forms {
			b := f
			if probing(l, b) != "" && joinedFirst {
				continue
			}
			n := rawReplyLen(l, b)
			for k := 1; k < n; k++ {
				if every > 1 && k%every != 0 && k != n-1 {
					continue
				}
				if b.Form == "C" && k > n-len("\r\nrouter#")-len("\r\n")-1 {
					// would isolate (part of) the second prompt: see genLate
					continue
				}
				c := Case{Device: dev, Target: tgt, Behav: map[string]Behav{l: b}, NoAsk: noAsk,
					Splits: map[string][]int{l: {k}}, DelayMs: delay}
				cases = append(cases, c)
			}
		}
	}
	return cases
}

// genLate: form C, the second prompt arrives late (F-C15d)
func genLate(delay int) []Case {
	var cases []Case
	for _, ops := range []string{"aa", "a"} {
		dev, tgt := buildBase(ops)
		lines := physLines(dev, tgt)
		for _, pad := range []int{0, 2} {
			b := Behav{Form: "C", Pad: pad, Msg: msg2}
			n := rawReplyLen(lines[0], b)
			c := Case{Device: dev, Target: tgt, Behav: map[string]Behav{lines[0]: b},
				Splits: map[string][]int{lines[0]: {n - len("\r\nrouter#")}}, DelayMs: delay, Late: true}
			cases = append(cases, c)
		}
	}
	return cases
}

// ---------------------------------------------------------------- banners on the fixed dialogue

// genFixed: a banner rides on a command the session sends while the reload is scheduled, other than
// a change: the second `configure terminal`, the deferred `end`, `reload cancel` (every form, every
// offset), the confirmation of `reload in 2` / `do reload in 2`, the `do reload in 2` line itself.
func genFixed(every int) []Case {
	var cases []Case
	dev, tgt := buildBase("ar")
	lines := physLines(dev, tgt)
	for _, na := range []bool{false, true} {
		for _, l := range []string{"configure terminal", "end", "reload cancel"} {
			for mi, m := range []string{msg2, msg1} {
				offs := allOffsets(l)
				for _, p := range placements(l, offs) {
					if p.Form == "B" && (mi > 0 || every > 1) && p.Off%every != 0 && p.Off != len(l) {
						continue
					}
					if mi > 0 && p.Form != "B" && p.Pad != 0 {
						continue
					}
					p.Msg = m
					cases = append(cases, Case{Device: dev, Target: tgt, Behav: map[string]Behav{}, NoAsk: na,
						Fixed: map[string]Behav{l: p}})
				}
			}
		}
		// the confirmation (empty command): the four forms collapse to two streams
		pre := "reload in 2\n\nSystem configuration has been modified. Save? [yes/no]: <!>Reload reason: Reload Command\nProceed with reload? [confirm]"
		if na {
			pre = "reload in 2\nProceed with reload? [confirm]"
		}
		one := bannerText(msg2)                               // banner, then echo and prompt
		two := "\n\n" + bannerText(msg2) + "\n" + prompt // banner and a fresh prompt, then echo and prompt
		for _, v := range []struct{ cls, ins string }{{"one-prompt", one}, {"two-prompt", two}} {
			// confirmation of the schedule
			cases = append(cases, Case{Device: dev, Target: tgt, Behav: map[string]Behav{}, NoAsk: na,
				Special: map[string][]string{"reload in 2": {pre + v.ins + "<!>" + prompt}}, SpecialIsBanner: v.cls})
			// confirmation of a re-arm (triggered by a 1:00 banner on the first change)
			cases = append(cases, Case{Device: dev, Target: tgt, NoAsk: na,
				Behav:   map[string]Behav{lines[1]: {Form: "B", Off: 3, Msg: msg1}},
				Special: map[string][]string{"do reload in 2": {"do " + pre + v.ins + "<!>" + prompt}}, SpecialIsBanner: v.cls})
		}
		// banner before / inside the echo of `do reload in 2`
		for _, rq := range []string{bannerText(msg2) + "\n" + prompt + "do " + pre + "<!>" + prompt,
			"do rel" + bannerText(msg2) + strings.TrimPrefix("do "+pre, "do rel") + "<!>" + prompt} {
			cases = append(cases, Case{Device: dev, Target: tgt, NoAsk: na,
				Behav:   map[string]Behav{lines[1]: {Form: "B", Off: 3, Msg: msg1}},
				Special: map[string][]string{"do reload in 2": {rq}}, SpecialIsBanner: "one-prompt"})
		}
	}
	return cases
}

// genAfterLine: the banner follows the COMPLETE last line of echo/output (line end included) and is
// followed by the prompt after 0, 1 or 2 empty lines; 3, 4 or 5 empty lines in front of BEL; every
// banner kind; with and without output.  (`pre = 0, post = 0`: "cmd CRLF, three empty lines, BEL,
// banner, prompt" — the rendering in which a greedy `\n{3,}` in bannerRe eats the echo's line end.)
func genAfterLine() []Case {
	var cases []Case
	dev, tgt := buildBase("ar")
	lines := physLines(dev, tgt)
	for li, l := range lines {
		if li == 0 {
			continue // first half of the joined line: probing placement, finding F-C15b
		}
		for _, m := range []string{msg2, msg1, msg01, msgA} {
			for _, out := range []string{"", "INFO: ignored text\n"} {
				for pre := 0; pre <= 2; pre++ {
					for post := 0; post <= 2; post++ {
						cases = append(cases, Case{Device: dev, Target: tgt, NoAsk: (pre+post)%2 == 1,
							Behav: map[string]Behav{l: {Form: "E", Pad: pre, Post: post, Msg: m, Out: out}}})
					}
				}
			}
		}
	}
	return cases
}

// ---------------------------------------------------------------- several banners in one answer

// multiReply: the answer to line l (output out) with two banners m1, m2 in the given shape.
// Letters as in Behav.Form: A before the echo with a fresh prompt, B inside the echo, C after the
// output with a fresh prompt, D after the output without one.
func multiReply(l, out, shape, m1, m2 string) string {
	body := strings.TrimSuffix(l+"\n"+out, "\n")
	switch shape {
	case "DD":
		return body + bannerText(m1) + bannerText(m2) + "\n" + prompt
	case "BB":
		return l[:3] + bannerText(m1) + l[3:6] + bannerText(m2) + l[6:] + "\n" + out + prompt
	case "BD":
		return l[:3] + bannerText(m1) + strings.TrimSuffix(l[3:]+"\n"+out, "\n") + bannerText(m2) + "\n" + prompt
	case "AD":
		return bannerText(m1) + "\n" + prompt + body + bannerText(m2) + "\n" + prompt
	case "AC":
		return bannerText(m1) + "\n" + prompt + body + bannerText(m2) + "\n" + prompt + "\n" + prompt
	case "AA":
		return bannerText(m1) + "\n" + prompt + bannerText(m2) + "\n" + prompt + l + "\n" + out + prompt
	}
	panic("shape")
}

var multiShapes = []string{"DD", "BB", "BD", "AD", "AC", "AA"}

// genMulti: two banners in the answer to ONE change line (2:00 then 1:00, 1:00 then 2:00, …), and
// two warnings while `sh run` prints a long configuration (a reload scheduled by someone else).
func genMulti(thorough bool) []Case {
	var cases []Case
	dev, tgt := buildBase("ar")
	lines := physLines(dev, tgt)
	l := lines[1] // the single (not joined) line
	pairs := [][2]string{{msg2, msg1}, {msg1, msg2}}
	if thorough {
		pairs = append(pairs, [2]string{msg1, msg1}, [2]string{msg2, msg2}, [2]string{msg2, msgA})
	}
	for _, na := range []bool{false, true} {
		for _, sh := range multiShapes {
			for _, pr := range pairs {
				for oi, out := range []string{"", "INFO: ignored text\n"} {
					if oi > 0 && !thorough && na {
						continue
					}
					cases = append(cases, Case{Device: dev, Target: tgt, NoAsk: na,
						Behav:           map[string]Behav{l: {Out: out}},
						Special:         map[string][]string{l: {multiReply(l, out, sh, pr[0], pr[1])}},
						SpecialIsBanner: "multi", Multi: &Multi{Line: l, Shape: sh, Msgs: []string{pr[0], pr[1]}}})
				}
			}
		}
	}
	// a long configuration: 120 routes both sides agree on, the differences of "ar" at the end
	var long []string
	for i := 0; i < 120; i++ {
		long = append(long, fmt.Sprintf("ip route 10.%d.%d.0 255.255.255.0 10.7.7.7", 100+i/100, i%100))
	}
	ldev := append(append([]string{}, long...), dev...)
	ltgt := append(append([]string{}, long...), tgt...)
	cfg := func(b1, b2 string) string {
		return "sh run\n" + strings.Join(ldev[:40], "\n") + b1 + strings.Join(ldev[40:90], "\n") + b2 + strings.Join(ldev[90:], "\n") + "\n" + prompt
	}
	for _, pr := range pairs[:2] {
		// the banner ends the line before it (its first line end) and is followed by the next line
		cases = append(cases, Case{Device: ldev, Target: ltgt, Behav: map[string]Behav{},
			Special:         map[string][]string{"sh run": {cfg(bannerText(pr[0]), bannerText(pr[1]))}},
			SpecialIsBanner: "multi", Multi: &Multi{Line: "sh run", Shape: "shrun-plain", Msgs: []string{pr[0], pr[1]}}})
		// the same with a fresh prompt after each banner (logging synchronous of an earlier session)
		cases = append(cases, Case{Device: ldev, Target: ltgt, Behav: map[string]Behav{}, SeenDevice: ldev[:40],
			Special:         map[string][]string{"sh run": {cfg(bannerText(pr[0])+"\n"+prompt, bannerText(pr[1])+"\n"+prompt)}},
			SpecialIsBanner: "multi", Multi: &Multi{Line: "sh run", Shape: "shrun-prompt", Msgs: []string{pr[0], pr[1]}}})
	}
	return cases
}

// ---------------------------------------------------------------- login / enable dialogue

// genLogin: every variant of the login dialogue, without banner and with a one-minute banner on a change
func genLogin() []Case {
	var cases []Case
	dev, tgt := buildBase("ar")
	lines := physLines(dev, tgt)
	for _, v := range []string{"enable-pw", "enable-nopw", "hostkey", "denied", "wrong-pw"} {
		cases = append(cases, Case{Device: dev, Target: tgt, Behav: map[string]Behav{}, Login: v})
		cases = append(cases, Case{Device: dev, Target: tgt, Login: v, NoAsk: true,
			Behav: map[string]Behav{lines[1]: {Form: "B", Off: 3, Msg: msg1}}})
	}
	return cases
}
