package main

// One dialogue of the REAL code: drc.Main (approve) on a code file with model IOS, talking through
// the real console/goexpect/pty stack to the scripted device of sim.go (SIMULATE_ROUTER).

import (
	"encoding/json"
	"fmt"
	"os"
	"path/filepath"
	"strconv"
	"strings"
	"syscall"
	. "verifharness/vhlib"

	"github.com/hknutzen/Netspoc-Approve/go/pkg/drc"
)

const bell = "\a"

// Behaviour of the device for one physical command line of the change phase.
type Behav struct {
	Out  string `json:"out,omitempty"`  // output lines after the echo (each ends with \n)
	Form string `json:"form,omitempty"` // "", "A" before echo + fresh prompt, "B" inside echo at Off, "C" after output + fresh prompt, "D" after output, no fresh prompt, "E" after the complete last line (Pad empty lines more before, Post after)
	Off  int    `json:"off,omitempty"`  // for B: 0..len(cmd)
	Msg  string `json:"msg,omitempty"`  // text between the `***` of the middle line
	Pad  int    `json:"pad,omitempty"`  // additional empty lines in front of the banner (forms A, C, E); the test data uses 2
	Post int    `json:"post,omitempty"` // form E: empty lines between the banner and the prompt (0: prompt directly after the banner)
}

// A dialogue case.
type Case struct {
	Device  []string         `json:"device"`  // lines of `sh run`
	Target  []string         `json:"target"`  // lines of the Netspoc code file
	Behav   map[string]Behav `json:"behav"`   // per physical command line
	Special map[string][]string `json:"special,omitempty"` // raw replies overriding the standard ones (fault injection)
	Slow    bool             `json:"slow,omitempty"`
	// NoAsk: dialogue variant of the device: `reload in 2` is answered directly with
	// `Proceed with reload? [confirm]` (no `Save? [yes/no]` question)
	NoAsk bool `json:"noask,omitempty"`
	// Splits/DelayMs: the answer to a command line arrives in pieces (timings other than the fast device)
	Splits  map[string][]int `json:"splits,omitempty"`
	DelayMs int              `json:"delay_ms,omitempty"`
	// Late: the cut isolates the second prompt of a two-prompt answer: modelled by lateDevice;
	// timing dependent on the real side (either the late or the fast outcome is accepted)
	Late bool `json:"late,omitempty"`
	// Rerun: serial re-run of a case whose first run showed environment trouble (same time-outs: the
	// time-outs are inputs of the code under test — WaitShort — and must not differ between runs)
	Rerun bool `json:"rerun,omitempty"`
	// Fixed: a banner rides on a fixed line sent while the reload is scheduled:
	// "configure terminal" (the second one), "end" (the deferred one), "reload cancel"
	Fixed map[string]Behav `json:"fixed,omitempty"`
	// SpecialIsBanner: the scripted answers in Special only add a reload banner to the reload dialogue
	// (confirmation / `do reload in 2` lines): the banner oracle applies. Class: "one-prompt", "two-prompt"
	SpecialIsBanner string `json:"special_is_banner,omitempty"`
	// Multi: SEVERAL banners in ONE answer (SpecialIsBanner = "multi"): shape and messages, for the oracle
	Multi *Multi `json:"multi,omitempty"`
	// SeenDevice: the lines of the configuration the session sees according to the model of
	// GetCmdOutput("sh run") (a fresh prompt inside the listing ends the read); checked against the
	// Lean driver; the change script is planned from them
	SeenDevice []string `json:"seen_device,omitempty"`
	// Login: variant of the login / enable dialogue (loginPreambles)
	Login string `json:"login,omitempty"`
}

// the login / enable dialogues of the scripted device: greeting, then at every <!> one line is read
// and echoed.  "": enable mode at once; "enable-pw": user mode, `enable` asks for the password;
// "enable-nopw": `enable` without a question; "hostkey": the ssh client asks (yes/no) first;
// "denied": `enable` refused; "wrong-pw": the password question is repeated
var loginPreambles = map[string]string{
	"":            "Enter Password:<!>banner motd  managed by NetSPoC\n" + prompt,
	"enable-pw":   "Password:<!>banner motd  managed by NetSPoC\nrouter><!>Password: <!>" + prompt,
	"enable-nopw": "Password: <!>banner motd  managed by NetSPoC\nrouter> <!>" + prompt + " ",
	"hostkey":     "The authenticity of host 'router' can't be established.\nAre you sure you want to continue connecting (yes/no/[fingerprint])?<!>PASSWORD:<!>banner motd  managed by NetSPoC\n" + prompt,
	"denied":      "Password:<!>banner motd  managed by NetSPoC\nrouter><!>% Access denied\nrouter>",
	"wrong-pw":    "Password:<!>Password:<!>Password:",
}

// Multi describes an answer that carries two reload banners (the raw answer is in Special).
type Multi struct {
	Line  string   `json:"line"`  // the physical line whose answer carries them ("sh run": while the configuration is printed)
	Shape string   `json:"shape"` // DD, BB, BD, AD, AC, AA, shrun-plain, shrun-prompt
	Msgs  []string `json:"msgs"`
}

func bannerText(msg string) string { return "\n\n\n" + bell + "***\n***" + msg + "\n***\n" }

const prompt = "router#"

// reply of the device to one command line, see DESIGN C15 / ios_simul.t for the four forms
func replyFor(cmd string, b Behav) string {
	pad := strings.Repeat("\n", b.Pad)
	switch b.Form {
	case "A":
		return pad + bannerText(b.Msg) + "\n" + prompt + cmd + "\n" + b.Out + prompt
	case "B":
		off := b.Off
		if off > len(cmd) {
			off = len(cmd)
		}
		return cmd[:off] + bannerText(b.Msg) + cmd[off:] + "\n" + b.Out + prompt
	case "C":
		// the first line end of the banner terminates the last line of echo/output
		body := strings.TrimSuffix(cmd+"\n"+b.Out, "\n")
		return body + pad + bannerText(b.Msg) + "\n" + prompt + "\n" + prompt
	case "D":
		body := strings.TrimSuffix(cmd+"\n"+b.Out, "\n")
		return body + bannerText(b.Msg) + "\n" + prompt
	case "E":
		// after the COMPLETE last line (its line end included): 3+Pad empty lines in front of BEL,
		// Post empty lines behind the banner, then the prompt (no fresh prompt)
		return cmd + "\n" + b.Out + pad + bannerText(b.Msg) + strings.Repeat("\n", b.Post) + prompt
	}
	return cmd + "\n" + b.Out + prompt
}

var fixedOut = map[string]string{
	"configure terminal": "Enter configuration commands, one per line.  End with CNTL/Z.\n",
	"reload cancel":      "\n\n***\n*** --- SHUTDOWN ABORTED ---\n***\n",
	"end":                "",
}

const noAskReload = "reload in 2\nProceed with reload? [confirm]<!>" + prompt

const stdReload = "reload in 2\n\nSystem configuration has been modified. Save? [yes/no]: <!>Reload reason: Reload Command\nProceed with reload? [confirm]<!>" + prompt

func stdReplies() map[string][]string {
	return map[string][]string{
		"sh ver":             {"sh ver\nCisco IOS Software, C2900 Software (C2900-UNIVERSALK9-M), Version 15.1(4)M4,\n" + prompt},
		"configure terminal": {"configure terminal\nEnter configuration commands, one per line.  End with CNTL/Z.\n" + prompt},
		"reload in 2":        {stdReload},
		"do reload in 2":     {"do " + stdReload},
		"reload cancel":      {"reload cancel\n\n\n***\n*** --- SHUTDOWN ABORTED ---\n***\n" + prompt},
		"write memory":       {"write memory\nBuilding configuration...\n  Compressed configuration from 106098 bytes to 30504 bytes[OK]\n" + prompt},
	}
}

type Outcome struct {
	Lines  []string // every line the device received, in order
	Status int
	Stderr string
	Panic  string
}

// runDialog runs one case in directory dir (fresh). Process globals are used: sequential only.
func runDialog(dir string, c *Case) Outcome {
	os.MkdirAll(filepath.Join(dir, "code"), 0755)
	os.MkdirAll(filepath.Join(dir, "log"), 0755)
	WriteFiles(dir, map[string]string{
		"code/router":      strings.Join(c.Target, "\n") + "\n",
		"code/router.info": `{"model":"IOS","name_list":["router"],"ip_list":["10.1.13.33"]}` + "\n",
		"credentials":      "* admin secret\n",
		".netspoc-approve": fmt.Sprintf("basedir = %s\ncheckbanner = NetSPoC\nsystemuser = admin\ntimeout = %d\nlogin_timeout = %d\n", dir, 2, 3),
	})
	replies := stdReplies()
	replies["sh run"] = []string{"sh run\n" + strings.Join(c.Device, "\n") + "\n" + prompt}
	if c.NoAsk {
		replies["reload in 2"] = []string{noAskReload}
		replies["do reload in 2"] = []string{"do " + noAskReload}
	}
	for l, b := range c.Behav {
		replies[l] = []string{replyFor(l, b)}
	}
	for l, b := range c.Fixed {
		out := fixedOut[l]
		bb := b
		bb.Out = out
		switch l {
		case "configure terminal", "end":
			// the first occurrence belongs to prepareDevice (no reload scheduled yet)
			replies[l] = []string{replyFor(l, Behav{Out: out}), replyFor(l, bb)}
		case "reload cancel":
			replies[l] = []string{replyFor(l, bb)}
		}
	}
	for l, r := range c.Special {
		replies[l] = r
	}
	simLog := filepath.Join(dir, "simlog")
	sc := simScript{Prompt: prompt, Preamble: loginPreambles[c.Login],
		Replies: replies, Log: simLog, Slow: c.Slow, Splits: c.Splits, DelayMs: c.DelayMs}
	data, _ := json.Marshal(sc)
	scFile := filepath.Join(dir, "script.json")
	os.WriteFile(scFile, data, 0644)
	exe, _ := os.Executable()
	os.Setenv("SIMULATE_ROUTER", exe+" -simdev "+scFile)
	os.Setenv("HOME", dir)
	os.Setenv("TEST_TIME", "2024-Sep-29 16:19:50")
	os.Unsetenv("LANG")
	old, _ := os.Getwd()
	os.Chdir(dir)
	defer os.Chdir(old)
	os.Args = []string{"drc", "-q", "-L", filepath.Join(dir, "log"), filepath.Join(dir, "code", "router")}
	_, stderr, status, pmsg := Captured(drc.Main)
	var o Outcome
	o.Status, o.Stderr, o.Panic = status, stderr, pmsg
	ld, _ := os.ReadFile(simLog)
	for _, l := range strings.Split(strings.TrimSuffix(string(ld), "\n"), "\n") {
		if strings.HasPrefix(l, "PID ") {
			if pid, err := strconv.Atoi(l[4:]); err == nil && pid > 1 {
				syscall.Kill(pid, syscall.SIGKILL)
			}
			continue
		}
		o.Lines = append(o.Lines, l)
	}
	return o
}
