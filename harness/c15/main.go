package main

// C15 — IOS changes always run under a reload guard and survive its banners.
//
// Streams:
//   bannerRe / stripReloadBanner : tie (a), strip.go
//   dialogue                     : tie (b): transcript, result and warnings of the real code
//                                  (drc.Main approve against the scripted device) == the Lean model
// Oracle (specification side only: the guard monitor of NA/Spec/IosDev.lean evaluated by the Lean
// driver on the REAL transcript, the device script, and a banner-free run of the real code):
//   guard_brackets_changes, write_only_if_all_accepted, no_reload_pending_after_success,
//   cancel_on_failure, rearm_on_one_minute, banner_invariant.

import (
	"sort"
	"encoding/json"
	"fmt"
	"os"
	"strings"
	. "verifharness/vhlib"
)

func main() {
	if len(os.Args) >= 3 && os.Args[1] == "-simdev" {
		runSim(os.Args[2])
		return
	}
	if len(os.Args) >= 4 && os.Args[1] == "-worker" {
		runWorker(os.Args[2], os.Args[3])
		return
	}
	if len(os.Args) >= 3 && os.Args[1] == "-try" {
		var c Case
		data, _ := os.ReadFile(os.Args[2])
		if err := json.Unmarshal(data, &c); err != nil {
			panic(err)
		}
		dir, _ := os.MkdirTemp("", "c15try")
		o := runDialog(dir, &c)
		fmt.Printf("status=%d panic=%q\nstderr:\n%s\nlines:\n", o.Status, o.Panic, o.Stderr)
		for _, l := range o.Lines {
			fmt.Printf("  %q\n", l)
		}
		os.RemoveAll(dir)
		return
	}
	Main(map[string]PropFunc{"C15": run})
}

// the model mirrors the code after the repair of F-C15 (`needReload = needReload || n`)
const modelFixed = true

func isBad(out string) bool {
	for _, l := range strings.Split(out, "\n") {
		if l == "" || strings.HasPrefix(l, "INFO:") || strings.HasPrefix(l, "WARNING:") {
			continue
		}
		return true
	}
	return false
}

func isOneMinute(msg string) bool {
	return strings.Contains(msg, "SHUTDOWN in 0:01:00") || strings.Contains(msg, "SHUTDOWN in 00:01:00")
}

// probing placement: stripReloadBanner looks for another prompt (WaitShort / TryPrompt)
func probing(line string, b Behav) string {
	switch b.Form {
	case "A":
		return "A"
	case "D", "E":
		return "D"
	case "B":
		if b.Off >= len(line) && strings.TrimSpace(b.Out) == "" {
			return "D"
		}
	}
	return ""
}

func caseKey(c *Case) string { return JSONStr(c) }

// without the re-arm exchanges
func dropRearm(ls []string) []string {
	var r []string
	for i := 0; i < len(ls); i++ {
		if ls[i] == "do reload in 2" {
			for i+1 < len(ls) && (ls[i+1] == "n" || ls[i+1] == "") {
				i++
				if ls[i] == "" {
					break
				}
			}
			continue
		}
		r = append(r, ls[i])
	}
	return r
}

func nonBlankLines(s string) string {
	var r []string
	for _, l := range strings.Split(s, "\n") {
		if strings.TrimSpace(l) != "" {
			r = append(r, l)
		}
	}
	return strings.Join(r, "\n")
}

type replayIn struct {
	Case Case `json:"case"`
}

func run(ctx *Ctx) *Result {
	res := NewResult()
	res.Rule = "bannerRe/strip cases: a banner is found or a prompt probe/abort happens; dialogues: a reload banner is injected, an output is rejected or the fixed dialogue is disturbed"
	res.Assumptions = []string{
		"fast-device timing: the device's answer to everything sent is in the expect buffer before the client looks (simulator answers all lines of one packet with one write)",
		"line ends \\r\\n are converted to \\n before any function of the model sees them (expectLog does that); the model works on the \\r-free stream",
	}
	drv := ctx.StartNadrv("c15")
	defer drv.Close()

	var cases []Case
	if ctx.Replay != "" {
		var in replayIn
		if err := ReadReplay(ctx.Replay, &in); err != nil {
			res.Notes = append(res.Notes, "cannot read replay: "+err.Error())
			return res
		}
		cases = []Case{in.Case}
	} else {
		runStrip(ctx, res, drv)
		runRemoveBanner(ctx, res, drv)
		runChunks(ctx, res, drv)
		r := ctx.Rng.Fork()
		if ctx.Thorough() {
			cases = append(cases, genExhaustive("ar", nil, []string{msg1, msg2, msg01, msgA}, 1, false)...)
			cases = append(cases, genExhaustive("ar", nil, []string{msg1, msg2}, 1, true)...)
			cases = append(cases, genExhaustive("ra", map[int]string{0: "INFO: x\n", 1: "WARNING: w\n", 2: "\n"}, []string{msg1, msg2}, 1, false)...)
			cases = append(cases, genExhaustive("rd", map[int]string{1: "failed\n"}, []string{msg1, msg2}, 1, true)...)
			cases = append(cases, genExhaustive("rr", nil, []string{msg01, msg2}, 3, false)...)
			cases = append(cases, genRandom(r, 6000)...)
		} else {
			// both dialogue variants of the device (with / without `Save? [yes/no]`), banners at every offset
			cases = append(cases, genExhaustive("ar", nil, []string{msg1, msg2}, 5, false)...)
			cases = append(cases, genExhaustive("ar", nil, []string{msg1, msg2}, 5, true)...)
			cases = append(cases, genExhaustive("r", map[int]string{0: "INFO: x\n", 1: "WARNING: w\n"}, []string{msg1}, 1, false)...)
			cases = append(cases, genExhaustive("a", nil, []string{msg2, msg1}, 1, true)...)
			cases = append(cases, genRandom(r, 500)...)
		}
		// timings other than the fast device: the answer arrives in pieces cut at every byte
		splitForms := []Behav{{}, {Out: "INFO: x\n"}, {Form: "B", Off: 9, Msg: msg1}, {Form: "A", Pad: 2, Msg: msg2},
			{Form: "C", Pad: 2, Msg: msg1}, {Form: "D", Msg: msg2}}
		if ctx.Thorough() {
			cases = append(cases, genSplits("a", 1, false, splitForms, 12)...)
			cases = append(cases, genSplits("r", 2, true, splitForms, 12)...)
		} else {
			cases = append(cases, genSplits("a", 3, false, splitForms, 12)...)
			cases = append(cases, genSplits("r", 11, true, splitForms[:3], 12)...)
		}
		cases = append(cases, genLate(150)...)
		cases = append(cases, genAfterLine()...)
		// banners on the echo of the OTHER commands sent while the reload is scheduled
		if ctx.Thorough() {
			cases = append(cases, genFixed(1)...)
		} else {
			cases = append(cases, genFixed(4)...)
		}
		cases = append(cases, genFaults(ctx.Thorough())...)
		cases = append(cases, genMulti(ctx.Thorough())...)
		cases = append(cases, genLogin()...)
		// quick tier: the placements that end in a time-out of the real code (known finding) cost > 1 s each
		if !ctx.Thorough() {
			var keep []Case
			slow := 0
			for _, c := range cases {
				if knownSlow(&c) {
					slow++
					if slow > 24 {
						// quick tier only: every such case ends in a 2 s time-out of the real code
						// (F-C15b); the thorough tier runs them all
						res.Count("dropped:quick-tier cap on F-C15b placements (first half of a joined line, probing banner)")
						continue
					}
				}
				keep = append(keep, c)
			}
			cases = keep
		}
	}
	// banner-free baselines (oracle of banner_invariant), one per distinct base
	baseIdx := map[string]int{}
	all := append([]Case{}, cases...)
	for i := range cases {
		hasBanner := len(cases[i].Fixed) > 0 || cases[i].SpecialIsBanner != ""
		for _, b := range cases[i].Behav {
			if b.Form != "" {
				hasBanner = true
			}
		}
		if !hasBanner {
			continue
		}
		bf := bannerFree(cases[i])
		k := caseKey(&bf)
		if _, ok := baseIdx[k]; !ok {
			baseIdx[k] = len(all)
			all = append(all, bf)
		}
	}
	outs := runAll(all)
	// Verdicts. A first verdict is never replaced by a re-run:
	//  * HARD findings (a change outside the guard, write memory before the cancel or after a rejection,
	//    a reload left pending) are reported from the first run, whatever else happened;
	//  * a run that shows ENVIRONMENT trouble (login not reached, pty exhaustion, dead worker, a time-out
	//    of the real code that the model does not predict — the checks run next to many other jobs) is
	//    re-run serially with the SAME time-outs (they are inputs of the code under test); its other
	//    first-run findings are held, not deleted: reported if the re-run CONFIRMS them, listed in the
	//    notes as `not reproduced` otherwise; trouble again ⇒ counted inconclusive;
	//  * every other finding is reported from the first run.  ALL re-runs are kept.
	type heldT struct {
		idx  int
		what []string
	}
	var held []heldT
	for i := range cases {
		c := &cases[i]
		o := &outs[i]
		var base *WOutcome
		if j, ok := baseIdx[func() string { bf := bannerFree(*c); return caseKey(&bf) }()]; ok {
			base = &outs[j]
		}
		nd, nf := len(res.Disagreements), len(res.Failures)
		before := findingCounts(res)
		envSuspect := judge(ctx, res, drv, c, o, base, false)
		if envSuspect && ctx.Replay == "" {
			// what this run found (from the counters: the lists are capped)
			var what []string
			for k, v := range findingCounts(res) {
				if v > before[k] && !isHardKey(k) {
					what = append(what, k)
					res.Distribution[k] = before[k] // held, not reported from this run
					if before[k] == 0 {
						delete(res.Distribution, k)
					}
				}
			}
			sort.Strings(what)
			var keepF []Failure
			for _, f := range res.Failures[nf:] {
				if hardPred[fmt.Sprint(f.Sig["pred"])] {
					keepF = append(keepF, f)
				}
			}
			res.Failures = append(res.Failures[:nf], keepF...)
			res.Disagreements = res.Disagreements[:nd]
			held = append(held, heldT{i, what})
		}
	}
	if len(held) > 0 {
		res.CountN("re-run serially after environment trouble in the first run", len(held))
		var again []Case
		for _, h := range held {
			c1, c2 := cloneCase(cases[h.idx]), bannerFree(cases[h.idx])
			c1.Rerun, c2.Rerun = true, true
			again = append(again, c1, c2)
		}
		outs2 := runAllN(again, 2)
		for k, h := range held {
			before := findingCounts(res)
			judge(ctx, res, drv, &cases[h.idx], &outs2[2*k], &outs2[2*k+1], true)
			reproduced := false
			for k2, v := range findingCounts(res) {
				if v > before[k2] {
					reproduced = true
				}
			}
			if !reproduced && len(h.what) > 0 {
				res.Count("first-run findings not reproduced on the serial re-run (kept in notes)")
				if len(res.Notes) < 40 {
					res.Notes = append(res.Notes, "not reproduced on re-run: "+strings.Join(h.what, ",")+" case="+caseKey(&cases[h.idx]))
				}
			}
		}
		// an environment failure that reproduces serially on many cases is systematic (e.g. the login
		// itself is broken): that is a verdict, not an excuse
		if n := res.Distribution["inconclusive:environment"] + res.Distribution["inconclusive:environment (baseline)"]; n >= 8 {
			res.Disagree("dialogue-systematic", map[string]any{"inconclusive": n},
				"the dialogue does not get through its login / the process environment fails, reproducibly on "+fmt.Sprint(n)+" serial re-runs", "")
		}
	}
	return res
}

// isHardKey: a failure counter (`failure:<sig as JSON>`) of a hard finding
func isHardKey(k string) bool {
	if !strings.HasPrefix(k, "failure:") {
		return false
	}
	var sig map[string]any
	if json.Unmarshal([]byte(strings.TrimPrefix(k, "failure:")), &sig) != nil {
		return false
	}
	return hardPred[fmt.Sprint(sig["pred"])]
}

// findingCounts: the counters of disagreements and failures (the stored lists are capped)
func findingCounts(res *Result) map[string]int {
	m := map[string]int{}
	for k, v := range res.Distribution {
		if strings.HasPrefix(k, "disagreement:") || strings.HasPrefix(k, "failure:") {
			m[k] = v
		}
	}
	return m
}

// findings that are reported from the first run regardless of environment trouble
var hardPred = map[string]bool{
	"change_outside_guard_or_write_inside":      true,
	"reload_pending_or_unsaved_after_success":   true,
	"write_memory_although_change_not_accepted": true,
	"reload_pending_after_failure":              true,
}

// first half of a joined line with a probing banner: the real code times out (known finding)
func knownSlow(c *Case) bool {
	for l, b := range c.Behav {
		if strings.HasPrefix(l, "no ") && probing(l, b) != "" {
			// is it the first half of a replace?
			dst := l[3:strings.LastIndex(l, " ")]
			for _, t := range c.Target {
				if strings.HasPrefix(t, dst+" ") {
					return true
				}
			}
		}
	}
	return false
}

func judge(ctx *Ctx, res *Result, drv *Nadrv, c *Case, o *WOutcome, base *WOutcome, again bool) (envSuspect bool) {
	in := replayIn{Case: *c}
	nBanner, nBad := 0, 0
	for _, b := range c.Behav {
		if b.Form != "" {
			nBanner++
			res.Count("banner-form:" + b.Form)
			if isOneMinute(b.Msg) {
				res.Count("banner-kind:1min")
			} else {
				res.Count("banner-kind:other")
			}
		}
		if isBad(b.Out) {
			nBad++
		}
	}
	res.Count(fmt.Sprintf("sends:%d", len(o.Changes)))
	if c.NoAsk {
		res.Count("dialogue-variant:no-save-question")
	} else {
		res.Count("dialogue-variant:save-question")
	}
	if !again {
		res.Eval(caseKey(c), nBanner > 0 || nBad > 0 || len(c.Special) > 0 || len(c.Fixed) > 0)
		res.Sample(in)
	}

	if c.Login != "" {
		// the login / enable dialogue: the model (loginEnable against echoDev) predicts the lines and the result
		res.Count("login-variant:" + c.Login)
		done, bad := judgeLogin(res, drv, c, o, in)
		if base != nil {
			normLogin(drv, c, base)
		}
		if done || bad {
			return bad && envFailure(o)
		}
	}
	if m := c.Multi; m != nil && m.Shape == "shrun-prompt" {
		// what the session sees of the configuration: model of GetCmdOutput("sh run")
		f := strings.Split(drv.Ask("getout\t"+esc(c.Special["sh run"][0])), "\t")
		var seen []string
		if len(f) == 3 && f[0] == "ok" {
			for _, l := range strings.Split(unesc(f[1]), "\n") {
				if strings.HasPrefix(l, "ip route") {
					seen = append(seen, l)
				}
			}
		}
		if strings.Join(seen, "\n") != strings.Join(c.SeenDevice, "\n") {
			res.Disagree("sh-run-model", in, strings.Join(c.SeenDevice, "|"), strings.Join(seen, "|"))
		}
	}
	if len(c.Splits) > 0 {
		res.Count("timing:answer-in-pieces")
	}
	if c.Late {
		return judgeLate(ctx, res, drv, c, o, base, again)
	}
	// ---- tie (b): model == implementation
	impl := implView(o)
	if len(o.Changes) == 0 {
		// "No changes applied": ApplyCommands is not called at all
		res.Count("no-changes")
		if impl != "R=ok\tT=\tW=" {
			res.Disagree("dialogue", in, impl, "R=ok\tT=\tW=")
			return envFailure(o)
		}
		return false
	}
	ans := drv.Ask(modelQuery(c, o.Changes, modelFixed))
	model, _, hyp := modelView(ans)
	// hypotheses of banner_invariant_partial / rearm_on_one_minute as decided by the Lean side
	hClean, hNoProbe := false, false
	if hf := strings.Split(hyp, ","); len(hf) == 3 {
		hClean, hNoProbe = hf[0] == "1", hf[1] == "1"
	}
	faulty := len(c.Special) > 0 && c.SpecialIsBanner == ""
	twoPromptFixed := c.SpecialIsBanner == "two-prompt"
	if b, ok := c.Fixed["configure terminal"]; ok && (b.Form == "A" || b.Form == "C") {
		twoPromptFixed = true
	}
	for l, b := range c.Fixed {
		res.Count("fixed-line-banner:" + l + ":" + b.Form)
	}
	if c.SpecialIsBanner != "" {
		res.Count("reload-dialogue-banner:" + c.SpecialIsBanner)
	}
	switch {
	case faulty:
		res.Count("theorem-domain:fault-injection (guard theorems only)")
		hClean = false
	case twoPromptFixed:
		res.Count("theorem-domain:two-prompt banner on a plain SendCmd (F-C15e)")
	case len(c.Fixed) > 0 && hClean && hNoProbe:
		res.Count("theorem-domain:inside (banner on a fixed line)")
	case c.Multi != nil:
		res.Count("theorem-domain:several banners in one answer:" + c.Multi.Shape)
	case c.SpecialIsBanner != "":
		res.Count("theorem-domain:reload dialogue banner (dialogues only)")
	case hClean && hNoProbe:
		res.Count("theorem-domain:inside")
	case hClean:
		res.Count("theorem-domain:probing-first-half")
	default:
		res.Count("theorem-domain:unclean-script")
	}
	res.TracesVsImpl++
	if impl != model && envFailure(o) {
		// pty exhaustion, login time-out under load, dead worker: not a statement about the code.
		// First pass: re-examined serially with long time-outs; still failing then: inconclusive.
		if again {
			res.Count("inconclusive:environment")
			res.Notes = append(res.Notes, "inconclusive (environment): "+firstLine(o.Stderr+o.Panic))
		} else {
			res.Disagree("environment", in, impl, model)
		}
		return true
	}
	if impl != model {
		// the tie is broken here; the oracle below still looks for a concrete failing input
		res.Disagree("dialogue", in, impl, model)
	}
	if strings.HasPrefix(impl, "BAD-LOGIN") || strings.HasPrefix(impl, "PANIC") {
		return true
	}
	// a time-out of the real code that the model of the unchanged code does not predict may be load
	implR, modelR := strings.SplitN(impl, "\t", 2)[0], strings.SplitN(model, "\t", 2)[0]
	if implR != modelR && (strings.HasPrefix(implR, "R=abort:timeout") || strings.Contains(implR, "expect: ")) {
		envSuspect = true
	}
	if base != nil && base.Status != 0 && strings.Contains(base.Stderr, "while waiting for") && len(c.Special) == 0 {
		envSuspect = true
	}
	if base != nil && envFailure(base) {
		// the baseline run itself did not get through: nothing to compare with
		if again {
			res.Count("inconclusive:environment (baseline)")
		} else {
			res.Disagree("environment", in, "baseline: "+implView(base), "")
		}
		return true
	}
	if o.Status == 0 {
		res.Count("result:ok")
	} else {
		res.Count("result:" + strings.SplitN(strings.TrimPrefix(strings.SplitN(impl, "\t", 2)[0], "R=abort:"), ":", 2)[0])
	}

	// ---- oracle on the REAL transcript (Lean guard monitor = specification side)
	ls, _ := applyLines(o.Lines)
	el := make([]string, len(ls))
	for i, l := range ls {
		el[i] = esc(l)
	}
	g := strings.Split(strings.TrimPrefix(drv.Ask("monitor\t"+strings.Join(el, "|")), "G="), ",")
	if len(g) != 4 {
		res.Disagree("monitor", in, "", strings.Join(g, ","))
		return envSuspect
	}
	guardOK, pending := g[0] == "1", g[1] == "1"
	has := func(x string) bool {
		for _, l := range ls {
			if l == x {
				return true
			}
		}
		return false
	}
	count := func(x string) int {
		n := 0
		for _, l := range ls {
			if l == x {
				n++
			}
		}
		return n
	}
	// attributes of the failing run, computed from the transcript and from the Lean model of the
	// unchanged code; every known entry pins them, so a DIFFERENT violation on an input of a known
	// class is still reported
	at := runAttrs(c, o, ls, impl == model)
	fail := func(sig map[string]any, what string) {
		for k, v := range at {
			if _, ok := sig[k]; !ok {
				sig[k] = v
			}
		}
		res.Fail(sig, what, in)
	}
	if !guardOK {
		res.Fail(map[string]any{"pred": "change_outside_guard_or_write_inside"}, "a change line was sent while no reload was pending, or write memory while one was", in)
	}
	if o.Status == 0 && (pending || !has("write memory")) {
		res.Fail(map[string]any{"pred": "reload_pending_or_unsaved_after_success"}, "successful run leaves a reload scheduled or did not write memory", in)
	}
	if has("write memory") {
		// device-side truth: every change line was received and none got unacceptable output
		truth := o.Changes
		if o.TrueChanges != nil {
			truth = o.TrueChanges // what the device really needs (the session saw a prefix of its configuration)
		}
		for _, ch := range truth {
			for _, l := range strings.Split(ch, "\n") {
				if !has(l) || isBad(c.Behav[l].Out) {
					if o.TrueChanges != nil {
						// the hard predicate, with the attributes of the run: only the exact known class is absorbed
						fail(map[string]any{"pred": "write_memory_although_change_not_accepted", "on": "sh run", "shape": c.Multi.Shape, "missing": l},
							"write memory was sent although a change the device needs was not sent: the session read a prefix of `sh run`")
					} else {
						res.Fail(map[string]any{"pred": "write_memory_although_change_not_accepted"}, "write memory was sent although a change was not sent or was rejected by the device", in)
					}
				}
			}
		}
	}
	if o.Status != 0 && pending {
		armed := count("configure terminal") >= 2
		if armed {
			res.Fail(map[string]any{"pred": "reload_pending_after_failure"}, "failed run leaves the reload scheduled although the guarded block was entered", in)
		} else {
			fail(map[string]any{"pred": "abort_inside_schedule_reload_leaves_reload_pending"}, "abort between the confirmation of `reload in 2` and the registration of the deferred cancel: reload stays scheduled, no cancel is sent")
		}
	}
	// rearm_on_one_minute: every send whose answer carried a 1:00 banner is followed by exactly one re-arm
	for i, ch := range o.Changes {
		if faulty {
			res.Count("oracle-skipped:re-arm count (fault injection on the fixed dialogue)")
			break
		}
		halves := strings.Split(ch, "\n")
		if c.Multi != nil && c.Multi.Line == halves[0] {
			continue // judged below
		}
		one := -1
		for h, l := range halves {
			if b := c.Behav[l]; b.Form != "" && isOneMinute(b.Msg) {
				if one < 0 {
					one = h
				}
			}
		}
		// position of the send in the transcript and of the next event
		pos := -1
		for j, l := range ls {
			if l == halves[len(halves)-1] {
				pos = j
			}
		}
		if pos < 0 || pos+1 >= len(ls) {
			continue
		}
		// the command must have completed normally: the next line is a re-arm, the next change or `end` of a successful loop
		completed := o.Status == 0 || (i+1 < len(o.Changes) && has(strings.Split(o.Changes[i+1], "\n")[0]))
		if !completed {
			continue
		}
		got := 0
		if ls[pos+1] == "do reload in 2" {
			got = 1
		}
		want := 0
		if one >= 0 {
			want = 1
		}
		if got != want {
			sig := map[string]any{"pred": "rearm_mismatch"}
			if p := probing(halves[0], c.Behav[halves[0]]); len(halves) == 2 && p != "" {
				// the probe of the first half of THIS send consumed (part of) the answer to its second
				// half, banner included
				sig = map[string]any{"pred": "fresh_prompt_probe_swallows_reply_of_second_half", "form": p, "symptom": "lost_rearm"}
			} else if want == 1 && got == 0 && len(halves) == 2 && one == 0 {
				sig = map[string]any{"pred": "one_minute_banner_in_first_half_of_joined_line_not_rearmed"}
			}
			fail(sig, fmt.Sprintf("send %d: %d re-arm exchange(s), expected %d", i, got, want))
		}
	}
	// several banners in one answer, one of them the one-minute warning: a re-arm must follow
	if m := c.Multi; m != nil && m.Line != "sh run" {
		oneMin := false
		for _, x := range m.Msgs {
			oneMin = oneMin || isOneMinute(x)
		}
		pos := -1
		for j, x := range ls {
			if x == m.Line {
				pos = j
			}
		}
		switch {
		case o.Status != 0:
			res.Count("oracle-skipped:re-arm after several banners (run aborted)")
		case pos >= 0:
			got := pos+1 < len(ls) && ls[pos+1] == "do reload in 2"
			if got != oneMin {
				fail(map[string]any{"pred": "one_minute_among_several_banners_rearm_mismatch", "shape": m.Shape, "first_is_one_minute": isOneMinute(m.Msgs[0])},
					fmt.Sprintf("answer with banners %v: re-arm sent %v, expected %v", m.Msgs, got, oneMin))
			}
		}
	}
	// the one-minute warning on a command that is not sent through cmd(): the property's last clause
	// asks for a re-arm whatever command the warning rides on
	for _, l := range []string{"configure terminal", "end"} {
		b, ok := c.Fixed[l]
		if !ok || !isOneMinute(b.Msg) {
			continue
		}
		if o.Status != 0 {
			res.Count("oracle-skipped:re-arm after a fixed line (run aborted)")
			continue
		}
		// the banner rides on the LAST occurrence of the line (the first belongs to prepareDevice)
		pos := -1
		for j, x := range ls {
			if x == l {
				pos = j
			}
		}
		if pos >= 0 && !(pos+1 < len(ls) && ls[pos+1] == "do reload in 2") {
			fail(map[string]any{"pred": "one_minute_banner_on_fixed_line_not_rearmed", "line": l},
				"a SHUTDOWN in 0:01:00 banner on `"+l+"` (sent with plain SendCmd, output never inspected) is not followed by `do reload in 2`")
		}
	}
	// banner_invariant: same outcome as the banner-free run of the real code (scripted device
	// without injected faults: the domain of the theorem)
	if base != nil && !faulty {
		bls, _ := applyLines(base.Lines)
		same := base.Status == o.Status &&
			strings.Join(dropRearm(ls), "|") == strings.Join(dropRearm(bls), "|") &&
			nonBlankLines(errText(base.Stderr)) == nonBlankLines(errText(o.Stderr))
		if !same {
			sig := map[string]any{"pred": "banner_changes_outcome"}
			if c.Multi != nil {
				kind := "change"
				if c.Multi.Line == "sh run" {
					kind = "sh run"
				}
				sig = map[string]any{"pred": "several_banners_in_one_answer", "shape": c.Multi.Shape, "on": kind}
			} else if twoPromptFixed {
				sig = map[string]any{"pred": "two_prompt_banner_on_plain_sendcmd", "line": twoPromptLine(c)}
			} else if hClean && hNoProbe {
				// inside the domain of banner_invariant_partial: never expected
				sig = map[string]any{"pred": "banner_changes_outcome_inside_proved_domain"}
			} else if hClean {
				// F-C15b only if the transcript STOPS at a joined line whose first half carries a probing
				// banner (`form_at_stop`), not because some joined line of the case has one
				if p, ok := at["form_at_stop"].(string); ok && p != "" && at["aborted_at"] == "joined_line" {
					sig = map[string]any{"pred": "fresh_prompt_probe_swallows_reply_of_second_half", "form": p, "symptom": "abort"}
				}
			}
			fail(sig, "outcome differs from the banner-free run: "+strings.SplitN(impl, "\t", 2)[0])
		}
	}
	return envSuspect
}

// twoPromptLine: the plain-SendCmd line that carries the banner with a fresh prompt
func twoPromptLine(c *Case) string {
	if b, ok := c.Fixed["configure terminal"]; ok && (b.Form == "A" || b.Form == "C") {
		return "configure terminal"
	}
	for k := range c.Special {
		return "confirm:" + k
	}
	return "?"
}

// runAttrs: where and how the run ended, from the device's transcript.
//   abort        : "ok" or the kind of the abort of the real run
//   aborted_at   : "completed" | "no_change_sent" | "single_line" | "joined_line" — the last change packet sent
//   form_at_stop : probing form ("A"/"D"/"") of the FIRST half of that packet if it is a joined line
//   cleanup_sent : `end`, `reload cancel`, empty command follow the last change line, in this order
//   write        : `write memory` was sent
//   model_predicts: transcript, result and warnings equal those of the Lean model of the unchanged code
func runAttrs(c *Case, o *WOutcome, ls []string, modelPredicts bool) map[string]any {
	at := map[string]any{"model_predicts": modelPredicts}
	abort := "ok"
	if o.Status != 0 {
		abort = strings.SplitN(classifyAbort(func() string { l, _ := lastAbort(errText(o.Stderr)); return l }()), ":", 2)[0]
	}
	at["abort"] = abort
	lineOf := map[string]int{}
	for k, ch := range o.Changes {
		for _, l := range strings.Split(ch, "\n") {
			lineOf[l] = k
		}
	}
	last, lastK := -1, -1
	for j, l := range ls {
		if k, ok := lineOf[l]; ok {
			last, lastK = j, k
		}
	}
	at["form_at_stop"] = ""
	switch {
	case o.Status == 0:
		at["aborted_at"] = "completed"
	case lastK < 0:
		at["aborted_at"] = "no_change_sent"
	default:
		halves := strings.Split(o.Changes[lastK], "\n")
		if len(halves) == 2 {
			at["aborted_at"] = "joined_line"
			at["form_at_stop"] = probing(halves[0], c.Behav[halves[0]])
		} else {
			at["aborted_at"] = "single_line"
		}
	}
	want := []string{"end", "reload cancel", ""}
	w := 0
	for j := last + 1; j < len(ls) && w < len(want); j++ {
		if j < 0 {
			continue
		}
		if ls[j] == want[w] {
			w++
		}
	}
	at["cleanup_sent"] = w == len(want) && last >= 0
	wr := false
	for _, l := range ls {
		if l == "write memory" {
			wr = true
		}
	}
	at["write"] = wr
	return at
}

// judgeLate: the cut isolates the second prompt of a form-C answer and the piece arrives 150 ms
// later. The outcome of the real code depends on the timing: either TryPrompt misses the late
// prompt (model: lateDevice; F-C15d) or, if the client was slow, it behaves as on the fast device.
func judgeLate(ctx *Ctx, res *Result, drv *Nadrv, c *Case, o *WOutcome, base *WOutcome, again bool) bool {
	in := replayIn{Case: *c}
	if !again {
		res.Eval(caseKey(c), true)
		res.Sample(in)
	}
	impl := implView(o)
	late, _, _ := modelView(drv.Ask(modelQueryT(c, o.Changes, modelFixed, true)))
	fast, _, _ := modelView(drv.Ask(modelQueryT(c, o.Changes, modelFixed, false)))
	res.TracesVsImpl++
	switch impl {
	case late:
		res.Count("timing:late-prompt:as-lateDevice")
	case fast:
		res.Count("timing:late-prompt:as-fast-device")
	default:
		res.Disagree("dialogue-late", in, impl, late+" || "+fast)
		return envFailure(o)
	}
	if base != nil && (base.Status != o.Status) {
		ls, _ := applyLines(o.Lines)
		sig := map[string]any{"pred": "late_fresh_prompt_missed_by_tryprompt"}
		// model_predicts: the run equals the Lean model with the LATE device (lateDevice)
		for k, v := range runAttrs(c, o, ls, impl == late) {
			sig[k] = v
		}
		res.Fail(sig, "the fresh prompt behind a banner arrives late, TryPrompt (time-out 0) misses it, the stale prompt desynchronises the dialogue: "+strings.SplitN(impl, "\t", 2)[0], in)
	}
	return false
}

// envFailure: the dialogue did not get through its login, or the process ran out of ptys / file
// descriptors, or the worker died — failures of the test environment, not of the code under test.
func envFailure(o *WOutcome) bool {
	if _, ok := applyLines(o.Lines); !ok {
		return true
	}
	all := o.Stderr + o.Panic
	for _, m := range []string{"/dev/ptmx", "no space left on device", "too many open files", "worker failed",
		"while waiting for login prompt", "resource temporarily unavailable", "cannot allocate memory"} {
		if strings.Contains(all, m) {
			return true
		}
	}
	return false
}

func firstLine(s string) string {
	s = strings.TrimSpace(s)
	if i := strings.IndexByte(s, '\n'); i >= 0 {
		s = s[:i]
	}
	if len(s) > 200 {
		s = s[:200]
	}
	return s
}

// loginModel asks the Lean model of LoginEnable for the lines it sends and its result
func loginModel(drv *Nadrv, c *Case) (result string, lines []string) {
	parts := strings.Split(loginPreambles[c.Login], "<!>")
	var ps []string
	for _, p := range parts[1:] {
		ps = append(ps, esc(p))
	}
	f := strings.Split(drv.Ask("login\tsecret\t"+esc(parts[0])+"\t"+strings.Join(ps, "|")), "\t")
	if len(f) != 4 {
		return "bad-answer", nil
	}
	result = strings.TrimPrefix(f[0], "R=")
	t := strings.TrimPrefix(f[1], "T=")
	for _, l := range strings.Split(t, "|") {
		lines = append(lines, unesc(l))
	}
	return
}

// normLogin replaces the login lines of a variant by those of the standard dialogue (the rest of the
// oracle is about what follows `sh run`)
func normLogin(drv *Nadrv, c *Case, o *WOutcome) bool {
	_, want := loginModel(drv, c)
	if len(o.Lines) < len(want) {
		return false
	}
	for i, l := range want {
		if o.Lines[i] != l {
			return false
		}
	}
	o.Lines = append([]string{"secret", ""}, o.Lines[len(want):]...)
	return true
}

// judgeLogin: done = the case ends with the login (failure variants); bad = the real code differs from the model
func judgeLogin(res *Result, drv *Nadrv, c *Case, o *WOutcome, in replayIn) (done, bad bool) {
	result, want := loginModel(drv, c)
	got := append([]string{}, o.Lines...)
	if n := len(got); n > 0 && got[n-1] == "exit" && result != "ok" {
		got = got[:n-1]
	}
	implR := "ok"
	switch {
	case strings.Contains(o.Stderr, "Authentication for enable mode failed"):
		implR = "abort:loginFailed:enable"
	case strings.Contains(o.Stderr, "Authentication failed"):
		implR = "abort:loginFailed:login"
	case o.Panic != "":
		implR = "panic"
	}
	if result != "ok" {
		res.TracesVsImpl++
		if implR != result || strings.Join(got, "|") != strings.Join(want, "|") || o.Status == 0 {
			res.Disagree("login", in, fmt.Sprintf("R=%s status=%d T=%s", implR, o.Status, strings.Join(got, "|")), "R="+result+" T="+strings.Join(want, "|"))
			return true, true
		}
		res.Count("result:login refused (no command sent afterwards)")
		return true, false
	}
	if implR != "ok" || !normLogin(drv, c, o) {
		res.Disagree("login", in, fmt.Sprintf("R=%s T=%s", implR, strings.Join(got, "|")), "R=ok T="+strings.Join(want, "|"))
		return true, true
	}
	return false, false
}
