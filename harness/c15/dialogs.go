package main

// Tie (b) and the direct oracle: whole dialogues of the real code (drc.Main approve, model IOS)
// against the scripted device, with banners injected at every offset of every command.

import (
	"encoding/json"
	"fmt"
	"os"
	"os/exec"
	"path/filepath"
	"regexp"
	"runtime"
	"sort"
	"strings"
	"sync"
	. "verifharness/vhlib"

	"github.com/hknutzen/Netspoc-Approve/go/pkg/drc"
)

type WOutcome struct {
	Changes []string `json:"changes"` // change script of the real planner (joined lines contain \n)
	// TrueChanges: planned from the configuration the device REALLY has, when the session sees less
	// (Case.SeenDevice): the device-side truth of `write memory only if every change was accepted`
	TrueChanges []string `json:"true_changes,omitempty"`
	Lines   []string `json:"lines"`
	Status  int      `json:"status"`
	Stderr  string   `json:"stderr"`
	Panic   string   `json:"panic"`
}

// planner: the change script the real code derives (drc FILE1 FILE2, in-process)
func plannedChanges(dir string, c *Case) []string {
	WriteFiles(dir, map[string]string{
		"plan/device":      strings.Join(seenDevice(c), "\n") + "\n",
		"plan/router":      strings.Join(c.Target, "\n") + "\n",
		"plan/router.info": `{"model":"IOS","name_list":["router"],"ip_list":["10.1.13.33"]}` + "\n",
	})
	os.Args = []string{"drc", "-q", filepath.Join(dir, "plan/device"), filepath.Join(dir, "plan/router")}
	stdout, _, _, _ := Captured(drc.Main)
	var l []string
	for _, x := range strings.Split(strings.TrimSuffix(stdout, "\n"), "\n") {
		if x == "" {
			continue
		}
		l = append(l, strings.ReplaceAll(x, "\\N ", "\n"))
	}
	return l
}

func seenDevice(c *Case) []string {
	if c.SeenDevice != nil {
		return c.SeenDevice
	}
	return c.Device
}

func runWorker(in, out string) {
	data, err := os.ReadFile(in)
	if err != nil {
		os.Exit(3)
	}
	var cases []Case
	if err := json.Unmarshal(data, &cases); err != nil {
		os.Exit(3)
	}
	base, _ := os.MkdirTemp("", "vh-c15-w-")
	defer os.RemoveAll(base)
	res := make([]WOutcome, len(cases))
	for i := range cases {
		dir := filepath.Join(base, fmt.Sprint(i))
		os.MkdirAll(dir, 0755)
		ch := plannedChanges(dir, &cases[i])
		var tch []string
		if cases[i].SeenDevice != nil {
			full := cases[i]
			full.SeenDevice = nil
			tch = plannedChanges(dir, &full)
		}
		o := runDialog(dir, &cases[i])
		res[i] = WOutcome{Changes: ch, TrueChanges: tch, Lines: o.Lines, Status: o.Status, Stderr: o.Stderr, Panic: o.Panic}
		os.RemoveAll(dir)
	}
	b, _ := json.Marshal(res)
	os.WriteFile(out, b, 0644)
}

// runAll runs the cases on the real code in parallel worker processes (drc.Main uses process
// globals; every dialogue leaks a pty, so workers are short-lived).
func runAll(cases []Case) []WOutcome { return runAllN(cases, 16) }

// runAllN: at most maxWorkers worker processes (1 = serial)
func runAllN(cases []Case, maxWorkers int) []WOutcome {
	res := make([]WOutcome, len(cases))
	tmp, _ := os.MkdirTemp("", "vh-c15-")
	defer os.RemoveAll(tmp)
	exe, _ := os.Executable()
	const chunk = 40
	type job struct{ lo, hi int }
	var jobs []job
	for lo := 0; lo < len(cases); lo += chunk {
		hi := lo + chunk
		if hi > len(cases) {
			hi = len(cases)
		}
		jobs = append(jobs, job{lo, hi})
	}
	nw := runtime.NumCPU()
	if nw > maxWorkers {
		nw = maxWorkers
	}
	ch := make(chan job)
	var wg sync.WaitGroup
	for w := 0; w < nw; w++ {
		wg.Add(1)
		go func() {
			defer wg.Done()
			for j := range ch {
				in := filepath.Join(tmp, fmt.Sprintf("in-%d.json", j.lo))
				out := filepath.Join(tmp, fmt.Sprintf("out-%d.json", j.lo))
				b, _ := json.Marshal(cases[j.lo:j.hi])
				os.WriteFile(in, b, 0644)
				cmd := exec.Command(exe, "-worker", in, out)
				cmd.Stderr = os.Stderr
				cmd.Run()
				var part []WOutcome
				if data, err := os.ReadFile(out); err == nil {
					json.Unmarshal(data, &part)
				}
				for i := j.lo; i < j.hi; i++ {
					if i-j.lo < len(part) {
						res[i] = part[i-j.lo]
					} else {
						res[i] = WOutcome{Panic: "worker failed"}
					}
				}
			}
		}()
	}
	for _, j := range jobs {
		ch <- j
	}
	close(ch)
	wg.Wait()
	return res
}

// ---------------------------------------------------------------- canonical views

var loginPrefix = []string{"secret", "", "term len 0", "term width 512", "sh ver", "", "sh run"}

// applyLines: what the device received during ApplyCommands (after `sh run`, without `exit`).
func applyLines(lines []string) ([]string, bool) {
	if len(lines) < len(loginPrefix) {
		return nil, false
	}
	for i, l := range loginPrefix {
		if lines[i] != l {
			return nil, false
		}
	}
	r := lines[len(loginPrefix):]
	if n := len(r); n > 0 && r[n-1] == "exit" {
		r = r[:n-1]
	}
	return r, true
}

var reWarnHead = regexp.MustCompile(`^Got unexpected output from '(.*)':$`)

// implView renders the real outcome in the driver's format (without the G= field).
func implView(o *WOutcome) string {
	ls, ok := applyLines(o.Lines)
	if !ok {
		return "BAD-LOGIN " + strings.Join(o.Lines, "|")
	}
	if o.Panic != "" {
		return "PANIC " + o.Panic
	}
	r := "ok"
	if o.Status != 0 {
		last, _ := lastAbort(errText(o.Stderr))
		r = "abort:" + classifyAbort(last)
	}
	var ws []string
	var lines []string
	for _, x := range strings.Split(strings.TrimSuffix(o.Stderr, "\n"), "\n") {
		if strings.HasPrefix(x, "WARNING>>> ") {
			lines = append(lines, strings.TrimPrefix(x, "WARNING>>> "))
		}
	}
	for i := 0; i+1 < len(lines); i += 2 {
		if m := reWarnHead.FindStringSubmatch(lines[i]); m != nil {
			ws = append(ws, esc(m[1])+","+esc(lines[i+1]))
		} else {
			ws = append(ws, "?"+esc(lines[i]))
		}
	}
	el := make([]string, len(ls))
	for i, l := range ls {
		el[i] = esc(l)
	}
	return "R=" + r + "\tT=" + strings.Join(el, "|") + "\tW=" + strings.Join(ws, "|")
}

func modelView(ans string) (view, g, h string) {
	f := strings.Split(ans, "\t")
	if len(f) != 5 {
		return ans, "", ""
	}
	f[0] = "R=" + normAbort(strings.TrimPrefix(f[0], "R="))
	return strings.Join(f[:3], "\t"), strings.TrimPrefix(f[3], "G="), strings.TrimPrefix(f[4], "H=")
}

func behavEnc(b Behav) string {
	f := "N"
	switch b.Form {
	case "A":
		f = fmt.Sprintf("A%d", b.Pad)
	case "B":
		f = fmt.Sprintf("B%d", b.Off)
	case "C":
		f = fmt.Sprintf("C%d", b.Pad)
	case "D":
		f = "D"
	case "E":
		f = fmt.Sprintf("E%d.%d", b.Pad, b.Post)
	}
	return f + "," + esc(b.Msg) + "," + esc(b.Out)
}

func modelQuery(c *Case, changes []string, fixed bool) string { return modelQueryT(c, changes, fixed, c.Late) }

func modelQueryT(c *Case, changes []string, fixed bool, late bool) string {
	var cs, bs, sp []string
	for _, ch := range changes {
		cs = append(cs, esc(ch))
		for _, l := range strings.Split(ch, "\n") {
			bs = append(bs, behavEnc(c.Behav[l]))
		}
	}
	keys := make([]string, 0, len(c.Special))
	for k := range c.Special {
		keys = append(keys, k)
	}
	sort.Strings(keys)
	for _, k := range keys {
		var rs []string
		for _, r := range c.Special[k] {
			rs = append(rs, esc(r))
		}
		sp = append(sp, esc(k)+"="+strings.Join(rs, ";"))
	}
	fx := "0"
	if fixed {
		fx = "1"
	}
	na := "0"
	if c.NoAsk {
		na = "1"
	}
	lt := "0"
	if late {
		lt = "1"
	}
	var fl []string
	for _, l := range []string{"configure terminal", "end", "reload cancel"} {
		if b, ok := c.Fixed[l]; ok {
			fl = append(fl, esc(l)+"="+behavEnc(b))
		}
	}
	return "dialog\t" + fx + "\t" + na + "\t" + lt + "\t" + strings.Join(cs, "|") + "\t" + strings.Join(bs, "|") + "\t" + strings.Join(sp, "|") + "\t" + strings.Join(fl, "|")
}
