package main

// removeBanner (banner definitions in a configuration text): the real function (verif export)
// against the Lean model on structured configurations (ordinary lines and banner blocks with
// varying delimiters and white space, unterminated rests, the two-blanks quirk) and random text.

import (
	"strings"
	. "verifharness/vhlib"

	"github.com/hknutzen/Netspoc-Approve/go/pkg/ios"
)

var rbWords = []string{"banner", "banner ", "motd", "exec", "login", " ", "  ", "\t", "^", "C", "^C", "^CC", "#", "x", "\n", "\n", "\n",
	"ip route 10.0.0.0 255.0.0.0 10.1.1.1", "hello", "!", "%", "\u00e4", "bannerx", " banner"}

func rbRandom(r *RNG) string {
	n := r.Intn(14)
	var b strings.Builder
	for i := 0; i < n; i++ {
		b.WriteString(Pick(r, rbWords))
	}
	return b.String()
}

func rbStructured(r *RNG) string {
	var b strings.Builder
	n := 1 + r.Intn(6)
	for i := 0; i < n; i++ {
		switch r.Intn(3) {
		case 0:
			b.WriteString(Pick(r, []string{"hostname router\n", "ip route 10.0.0.0 255.0.0.0 10.1.1.1\n", "!\n", "\n", " banner motd ^C\n", "bannermotd ^Cx\n", "banner motd\n", "banner motd ^\n"}))
		default:
			delim := Pick(r, []string{"^C", "#", "%", "x", "^"})
			ws1 := Pick(r, []string{" ", "\t"})
			ws2 := Pick(r, []string{" ", "  ", " \t", "   "})
			after := Pick(r, []string{"C", "", "hello", " x", "\u00e4"})
			b.WriteString("banner" + ws1 + Pick(r, []string{"motd", "exec", "login", "m"}) + ws2 + delim + after + "\n")
			m := r.Intn(4)
			for j := 0; j < m; j++ {
				b.WriteString(Pick(r, []string{"hello world\n", "\n", " indented\n", "banner motd ^CC\n", "x marks\n", "# comment\n"}))
			}
			if r.Chance(85) {
				b.WriteString(delim[:1] + Pick(r, []string{"", "C", " rest"}) + "\n")
			}
		}
	}
	if r.Chance(30) {
		b.WriteString(Pick(r, []string{"end", "banner motd ^CC", "^C", "x"}))
	}
	return b.String()
}

func runRemoveBanner(ctx *Ctx, res *Result, drv *Nadrv) {
	r := ctx.Rng.Fork()
	n := ctx.N(1500, 30000)
	for i := 0; i < n; i++ {
		var s string
		if i%3 == 0 {
			s = rbRandom(r)
		} else {
			s = rbStructured(r)
		}
		impl := string(ios.VerifRemoveBanner([]byte(s)))
		model := unesc(drv.Ask("rmbanner\t" + esc(s)))
		removed := impl != s
		if removed {
			res.Count("rmbanner:removed")
		} else {
			res.Count("rmbanner:unchanged")
		}
		res.Eval("rmbanner|"+s, removed)
		res.TracesVsImpl++
		if impl != model {
			res.Disagree("removeBanner", map[string]string{"data": s}, impl, model)
		}
	}
}
