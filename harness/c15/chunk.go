package main

// Timings other than the fast device, tied at the level of one read: the REAL console.Conn
// (GetOutput = waitPrompt + StripStdPrompt, WaitShort("[#] ?$")) on a goexpect session whose bytes
// arrive in pieces cut at random byte positions, against the Lean model's read of the whole
// stream (theorems first_read_any_chunking / hash_read_any_chunking say they agree), and the Lean
// expectChunks on the same pieces.

import (
	"fmt"
	"io"
	"strings"
	"sync"
	"time"
	. "verifharness/vhlib"

	expect "github.com/tailscale/goexpect"

	"github.com/hknutzen/Netspoc-Approve/go/pkg/console"
	"github.com/hknutzen/Netspoc-Approve/go/pkg/errlog"
)

type chunkReader struct {
	mu     sync.Mutex
	chunks [][]byte
	delay  time.Duration
	first  bool
	done   chan struct{}
}

func (r *chunkReader) Read(p []byte) (int, error) {
	r.mu.Lock()
	if len(r.chunks) > 0 {
		c := r.chunks[0]
		r.chunks = r.chunks[1:]
		first := r.first
		r.first = false
		r.mu.Unlock()
		if !first {
			time.Sleep(r.delay)
		}
		return copy(p, c), nil
	}
	r.mu.Unlock()
	<-r.done
	return 0, io.EOF
}

// realChunked: kind "p" GetOutput, "h" WaitShort; returns driver format `ok TAB out TAB rest`
func realChunked(kind string, pieces []string, wantRest string) string {
	done := make(chan struct{})
	var cs [][]byte
	for i, p := range pieces {
		if i == 0 {
			p = "<<SENTINEL>>" + p
		}
		cs = append(cs, []byte(p))
	}
	rd := &chunkReader{chunks: cs, delay: 1500 * time.Microsecond, first: true, done: done}
	e, _, err := expect.SpawnGeneric(&expect.GenOptions{
		In: nopWC{}, Out: rd,
		Wait:  func() error { <-done; return nil },
		Close: func() error { return nil },
		Check: func() bool { return true },
	}, time.Second, expect.PartialMatch(true), expect.BufferSize(1<<16))
	if err != nil {
		return "ERR " + err.Error()
	}
	defer func() { close(done); e.Close() }()
	if _, _, err := e.Expect(sentinelRx, 2*time.Second); err != nil {
		return "ERR sentinel " + err.Error()
	}
	conn := console.VerifNewConn(e, promptRx, 2*time.Second, 2*time.Second)
	var o string
	_, stderr, status, pmsg := Captured(func() int {
		errlog.Quiet = true
		errlog.SetStderrLog("")
		return errlog.HandleAbort(func() int {
			if kind == "h" {
				o = conn.WaitShort(`[#] ?$`)
			} else {
				o = conn.GetOutput()
			}
			return 0
		})
	})
	// let the remaining pieces arrive, then dump the buffer (poll until nothing more comes)
	rest := ""
	quiet := 0
	// wantRest (the model's rest) only decides how long to wait for slow goroutines, not the result
	for i := 0; i < 400 && (quiet < 4 || (i < 399 && strings.ReplaceAll(rest, "\r\n", "\n") != wantRest && len(rest) < len(wantRest)+8)); i++ {
		rd.mu.Lock()
		left := len(rd.chunks)
		rd.mu.Unlock()
		more, _, _ := e.Expect(anyRx, 0)
		rest += more
		if left == 0 && more == "" {
			quiet++
		} else {
			quiet = 0
		}
		time.Sleep(1500 * time.Microsecond)
	}
	rest = strings.ReplaceAll(rest, "\r\n", "\n")
	if pmsg != "" {
		return "PANIC " + pmsg
	}
	if status != 0 {
		return fmt.Sprintf("abort:%s\t\t%s", classifyAbort(errText(stderr)), esc(rest))
	}
	return fmt.Sprintf("ok\t%s\t%s", esc(o), esc(rest))
}

func cutRandom(r *RNG, s string, maxPieces int) []string {
	n := 1 + r.Intn(maxPieces)
	var cuts []int
	for i := 1; i < n; i++ {
		cuts = append(cuts, r.Intn(len(s)+1))
	}
	// sort
	for i := range cuts {
		for j := i + 1; j < len(cuts); j++ {
			if cuts[j] < cuts[i] {
				cuts[i], cuts[j] = cuts[j], cuts[i]
			}
		}
	}
	var ps []string
	prev := 0
	for _, c := range cuts {
		if c > prev {
			ps = append(ps, s[prev:c])
			prev = c
		}
	}
	if prev < len(s) || len(ps) == 0 {
		ps = append(ps, s[prev:])
	}
	return ps
}

func runChunks(ctx *Ctx, res *Result, drv *Nadrv) {
	r := ctx.Rng.Fork()
	cmds := []string{"ip route 10.1.0.0 255.255.0.0 10.9.1.1", "no ip access-list extended x", "x"}
	n := ctx.N(160, 2500)
	for i := 0; i < n; i++ {
		cmdTxt := Pick(r, cmds)
		b := Behav{Out: Pick(r, goodOuts), Msg: Pick(r, []string{msg1, msg2, msgA})}
		if r.Chance(15) {
			b.Out = Pick(r, badOuts)
		}
		switch r.Intn(5) {
		case 0:
			b.Form = ""
		case 1:
			b.Form, b.Pad = "A", r.Intn(3)
		case 2:
			b.Form, b.Off = "B", r.Intn(len(cmdTxt)+1)
		case 3:
			b.Form, b.Pad = "C", r.Intn(3)
		case 4:
			b.Form = "D"
		}
		kind := "p"
		stream := replyFor(cmdTxt, b) + Pick(r, []string{"", "next cmd\n" + prompt, "\n\n"})
		if r.Chance(25) {
			// WaitShort: a #-free text ending the stream with the prompt
			kind = "h"
			stream = cmdTxt + "\n" + b.Out + prompt
		}
		raw := strings.ReplaceAll(stream, "\n", "\r\n")
		pieces := cutRandom(r, raw, 6)
		op := "getout"
		if kind == "h" {
			op = "waithash"
		}
		model := drv.Ask(op + "\t" + esc(stream))
		want := ""
		if mf := strings.Split(model, "\t"); len(mf) == 3 {
			want = unesc(mf[2])
		}
		impl := realChunked(kind, pieces, want)
		res.Count(fmt.Sprintf("chunks:%s:pieces=%d", kind, len(pieces)))
		res.Eval("chunks|"+kind+"|"+strings.Join(pieces, "\x00"), len(pieces) > 1)
		res.TracesVsImpl++
		if impl != model {
			res.Disagree("chunked-read", map[string]any{"kind": kind, "pieces": pieces}, impl, model)
			continue
		}
		// the Lean chunk model on the same pieces (CR removed) must agree with its own fast read
		var ps []string
		for _, p := range pieces {
			ps = append(ps, esc(strings.ReplaceAll(p, "\r", "")))
		}
		ck := drv.Ask("chunks\t" + kind + "\t\t" + strings.Join(ps, "|"))
		f := strings.Split(model, "\t")
		cf := strings.Split(ck, "\t")
		if len(f) == 3 && f[0] == "ok" && kind == "h" {
			if len(cf) != 3 || cf[0] != f[1] {
				res.Disagree("expectChunks", map[string]any{"kind": kind, "pieces": pieces}, model, ck)
			}
		}
	}
}
