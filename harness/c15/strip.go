package main

// Tie (a): the real ios.stripReloadBanner (and bannerRe) against the Lean matcher.
// The real method is called through the verif-tagged export on a State whose Conn wraps a generic
// goexpect session with a PRELOADED buffer (fast-device timing: everything the device will say
// is already there), so the branches that read another prompt (WaitShort, TryPrompt) are
// exercised and the bytes left in the buffer are compared too.

import (
	"fmt"
	"io"
	"regexp"
	"strings"
	"time"
	. "verifharness/vhlib"

	expect "github.com/tailscale/goexpect"

	"github.com/hknutzen/Netspoc-Approve/go/pkg/console"
	"github.com/hknutzen/Netspoc-Approve/go/pkg/errlog"
	"github.com/hknutzen/Netspoc-Approve/go/pkg/ios"
)

var escRepl = strings.NewReplacer("\\", "\\\\", "\n", "\\n", "\t", "\\t", "\r", "\\r", "\a", "\\a",
	"|", "\\p", ";", "\\s", "=", "\\e", ",", "\\c")

func esc(s string) string { return escRepl.Replace(s) }

func unesc(s string) string {
	var b strings.Builder
	for i := 0; i < len(s); i++ {
		if s[i] == '\\' && i+1 < len(s) {
			i++
			switch s[i] {
			case 'n':
				b.WriteByte('\n')
			case 't':
				b.WriteByte('\t')
			case 'r':
				b.WriteByte('\r')
			case 'a':
				b.WriteByte('\a')
			case 'p':
				b.WriteByte('|')
			case 's':
				b.WriteByte(';')
			case 'e':
				b.WriteByte('=')
			case 'c':
				b.WriteByte(',')
			default:
				b.WriteByte(s[i])
			}
		} else {
			b.WriteByte(s[i])
		}
	}
	return b.String()
}

type onceReader struct {
	data []byte
	done chan struct{}
}

func (r *onceReader) Read(p []byte) (int, error) {
	if r.data != nil {
		n := copy(p, r.data)
		r.data = nil
		return n, nil
	}
	<-r.done
	return 0, io.EOF
}

type nopWC struct{}

func (nopWC) Write(p []byte) (int, error) { return len(p), nil }
func (nopWC) Close() error                { return nil }

var promptRx = regexp.MustCompile(regexp.QuoteMeta("\nrouter") + `\S*` + regexp.QuoteMeta("#"))
var anyRx = regexp.MustCompile(`(?s)^.*`)
var sentinelRx = regexp.MustCompile(`<<SENTINEL>>`)

// realStrip: result text in the driver's format.
func realStrip(active bool, out, pend string) string {
	done := make(chan struct{})
	rd := &onceReader{data: []byte("<<SENTINEL>>" + pend), done: done}
	e, _, err := expect.SpawnGeneric(&expect.GenOptions{
		In: nopWC{}, Out: rd,
		Wait:  func() error { <-done; return nil },
		Close: func() error { return nil },
		Check: func() bool { return true },
	}, time.Second, expect.PartialMatch(true), expect.BufferSize(1<<16))
	if err != nil {
		return "ERR " + err.Error()
	}
	defer func() { close(done); e.Close() }()
	if _, _, err := e.Expect(sentinelRx, 2*time.Second); err != nil {
		return "ERR sentinel " + err.Error()
	}
	conn := console.VerifNewConn(e, promptRx, 4*time.Millisecond, 4*time.Millisecond)
	var o string
	var need bool
	_, stderr, status, pmsg := Captured(func() int {
		errlog.Quiet = true
		errlog.SetStderrLog("")
		return errlog.HandleAbort(func() int {
			o, need = ios.VerifStripReloadBanner(conn, active, out)
			return 0
		})
	})
	rest, _, _ := e.Expect(anyRx, 0)
	rest = strings.ReplaceAll(rest, "\r\n", "\n")
	if pmsg != "" {
		return "PANIC " + pmsg
	}
	if status != 0 {
		return fmt.Sprintf("abort:%s\t\t0\t%s", classifyAbort(errText(stderr)), esc(rest))
	}
	n := "0"
	if need {
		n = "1"
	}
	return fmt.Sprintf("ok\t%s\t%s\t%s", esc(o), n, esc(rest))
}

// errText: the message of the ERROR>>> lines of stderr.
func errText(stderr string) string {
	var l []string
	for _, x := range strings.Split(strings.TrimSuffix(stderr, "\n"), "\n") {
		if strings.HasPrefix(x, "ERROR>>> ") {
			l = append(l, strings.TrimPrefix(x, "ERROR>>> "))
		}
	}
	return strings.Join(l, "\n")
}

var reTimeout = regexp.MustCompile(`(?s)^while waiting for prompt '(.*)': expect: `)
var reMissing = regexp.MustCompile(`(?s)^Missing prompt '.*?' in response:\n'(.*)'$`)
var reEcho = regexp.MustCompile(`(?s)^Got unexpected echo in response to '([^\n]*)':\n(.*)$`)
var reOutput = regexp.MustCompile(`(?s)^Got unexpected output from '([^\n]*)':\n(.*)$`)
var reWM = regexp.MustCompile(`(?s)^write mem: unexpected result: (.*)$`)

var abortHeads = []string{"Got unexpected output from '", "Got unexpected echo in response to '", "while waiting for prompt '",
	"Missing prompt '", "write mem: "}

// lastAbort: errlog.Abort prints its message when it is raised; if a deferred call aborts again
// (Go: the new panic replaces the pending one) stderr holds both messages. The model's result is
// the LAST abort, so the comparison uses the last message; n = number of messages printed.
func lastAbort(msg string) (last string, n int) {
	lines := strings.Split(msg, "\n")
	start := 0
	for i, l := range lines {
		for _, h := range abortHeads {
			if strings.HasPrefix(l, h) {
				if i > 0 {
					start = i
				}
				n++
				break
			}
		}
	}
	return strings.Join(lines[start:], "\n"), n
}

// classifyAbort turns an abort message of the real code into the driver's rendering of the
// model's Abort value.  errlog.PrintWithMarker drops ONE trailing line feed of the message; the
// comparison does the same with the model's text (see normAbort).
func classifyAbort(msg string) string {
	if m := reTimeout.FindStringSubmatch(msg); m != nil {
		return "timeout:" + esc(m[1])
	}
	if m := reMissing.FindStringSubmatch(msg); m != nil {
		return "missingPrompt:" + esc(m[1])
	}
	if m := reEcho.FindStringSubmatch(msg); m != nil {
		return "unexpectedEcho:" + esc(m[1]) + ":" + esc(m[2])
	}
	if m := reOutput.FindStringSubmatch(msg); m != nil {
		return "unexpectedOutput:" + esc(m[1]) + ":" + esc(m[2])
	}
	if msg == "write mem: startup-config open failed - giving up" {
		return "writeMemGiveUp"
	}
	if m := reWM.FindStringSubmatch(msg); m != nil {
		return "writeMemUnexpected:" + esc(m[1])
	}
	return "other:" + esc(msg)
}

// normAbort: drop one trailing (escaped) line feed of the last field, as PrintWithMarker does.
func normAbort(s string) string {
	if strings.HasPrefix(s, "abort:missingPrompt:") {
		// message ends with a quote, nothing is trimmed
		return s
	}
	return strings.TrimSuffix(s, "\\n")
}

// ---- generators

var stripAlphabet = []string{"\n", "\n", "\n", "\a", "*", "*", "***", "\n***\n", "\n\n\n\a***\n***", " ", "\t", "a", "b",
	"router#", "\nrouter#", "#", "SHUTDOWN in 0:01:00", "SHUTDOWN in 00:01:00", "SHUTDOWN in 0:02:00", " --- ", " ", "\u0085", "\v", "\f", "r", "INFO: x", "\nrouter(config)#"}

func randStr(r *RNG, max int) string {
	n := r.Intn(max + 1)
	var b strings.Builder
	for i := 0; i < n; i++ {
		b.WriteString(Pick(r, stripAlphabet))
	}
	return b.String()
}

var msgs = []string{" --- SHUTDOWN in 0:02:00 ---", " --- SHUTDOWN in 0:01:00 ---", " --- SHUTDOWN in 00:01:00 ---",
	" --- SHUTDOWN ABORTED ---", " --- SHUTDOWN in 0:05:00 ---", "x", " --- SHUTDOWN in 10:01:00 ---", "SHUTDOWN in 0:01:0"}

// structured: a banner (sometimes damaged) embedded in echo/output text
func structStr(r *RNG) (out, pend string) {
	cmdTxt := Pick(r, []string{"ip route 10.1.1.0 255.255.255.0 10.1.2.3", "no ip access-list extended x", "", "x"})
	outTxt := Pick(r, []string{"", "", "INFO: a\n", "WARNING: w\n", "failed\n", "\n", "  \n"})
	ban := "\n\n\n\a***\n***" + Pick(r, msgs) + "\n***\n"
	if r.Chance(15) {
		// damage the banner
		i := r.Intn(len(ban))
		switch r.Intn(3) {
		case 0:
			ban = ban[:i] + ban[i+1:]
		case 1:
			ban = ban[:i] + Pick(r, stripAlphabet) + ban[i:]
		case 2:
			ban = strings.Replace(ban, "***", "**", 1)
		}
	}
	pad := strings.Repeat("\n", r.Intn(4))
	switch r.Intn(6) {
	case 0: // before, whitespace only
		out = pad + ban + Pick(r, []string{"\n", "", " \n"})
		pend = Pick(r, []string{cmdTxt + "\n" + outTxt + "router#", cmdTxt + "\n" + outTxt + "router# ", cmdTxt + "\nrouter#x\nrouter#", "", "abc", cmdTxt + "\n" + outTxt})
	case 1: // inside echo
		off := r.Intn(len(cmdTxt) + 1)
		out = cmdTxt[:off] + ban + cmdTxt[off:] + "\n" + outTxt
		pend = Pick(r, []string{"", "next\nrouter#", "\nrouter#"})
	case 2: // after output
		out = strings.TrimSuffix(cmdTxt+"\n"+outTxt, "\n") + pad + ban + Pick(r, []string{"\n", "", "  \n"})
		pend = Pick(r, []string{"", "\nrouter#", "next\nrouter#", "\nrouter#next\nrouter#", "garbage"})
	case 3: // two banners
		out = cmdTxt + ban + ban + "\n"
		pend = Pick(r, []string{"", "\nrouter#"})
	case 4:
		out = cmdTxt + "\n" + outTxt
		pend = ""
	default:
		out = randStr(r, 6) + ban + randStr(r, 6)
		pend = randStr(r, 5)
	}
	return
}

func runStrip(ctx *Ctx, res *Result, drv *Nadrv) {
	r := ctx.Rng.Fork()
	nFind := ctx.N(4000, 60000)
	for i := 0; i < nFind; i++ {
		var s string
		if i%2 == 0 {
			s = randStr(r, 14)
		} else {
			s, _ = structStr(r)
		}
		loc := ios.VerifBannerFind(s)
		impl := "none"
		if loc != nil {
			impl = esc(s[:loc[0]]) + "\t" + esc(s[loc[2]:loc[3]]) + "\t" + esc(s[loc[1]:])
			res.Count("find:match")
		} else {
			res.Count("find:nomatch")
		}
		model := drv.Ask("find\t" + esc(s))
		res.Eval("find|"+s, loc != nil)
		res.TracesVsImpl++
		if impl != model {
			res.Disagree("bannerRe", map[string]string{"s": s}, impl, model)
		}
	}
	nStrip := ctx.N(1500, 20000)
	for i := 0; i < nStrip; i++ {
		var out, pend string
		if i%4 == 0 {
			out, pend = randStr(r, 12), randStr(r, 6)
		} else {
			out, pend = structStr(r)
		}
		active := !r.Chance(8)
		impl := realStrip(active, out, pend)
		a := "0"
		if active {
			a = "1"
		}
		model := drv.Ask("strip\t" + a + "\t" + esc(out) + "\t" + esc(pend))
		kind := "plain"
		switch {
		case strings.HasPrefix(impl, "abort:"):
			kind = strings.SplitN(strings.SplitN(impl, "\t", 2)[0], ":", 3)[1]
		case strings.HasPrefix(impl, "ok"):
			f := strings.Split(impl, "\t")
			if f[2] == "1" {
				kind = "rearm"
			} else if esc(out) != f[1] {
				kind = "stripped"
			}
			if unesc(f[3]) != pend {
				kind += "+probe"
			}
		}
		res.Count("strip:" + kind)
		res.Eval("strip|"+a+"|"+out+"|"+pend, kind != "plain")
		res.TracesVsImpl++
		if impl != model {
			res.Disagree("stripReloadBanner", map[string]any{"active": active, "out": out, "pend": pend}, impl, model)
		}
	}
}
