package main

// Whole runs of the real drc / do-approve, in-process, against simulated devices of all five types.
//
//   - HTTP simulator (PAN-OS, NSX): httptest TLS server, scripted per request, fault injection at
//     request k (dropped connection = transport error, status 500, unparsable body, not-active HA).
//   - SSH simulator (ASA, IOS, Linux): this binary re-executed through SIMULATE_ROUTER
//     (`vh-c17 -sshsim DEVICE SCENARIO`); a port of testdata/simulate-cisco.pl that does NOT echo
//     what it reads at a password prompt (`<?>`), with fault injection at read k (close, silence,
//     wrong password).
//
// After every run: (1) byte scan of every file below the base directory, stdout and stderr for the
// run's unique secrets in five spellings (oracle); (2) the session logs and the marker lines of the
// run log are compared with the Lean sink model fed with the requests / replies the simulator saw
// (correspondence).

import (
	"bufio"
	"bytes"
	"context"
	"encoding/json"
	"encoding/xml"
	"fmt"
	"io"
	"log"
	"net/http"
	"net/http/httptest"
	"net/url"
	"os"
	"os/exec"
	"path/filepath"
	"regexp"
	"sort"
	"strconv"
	"strings"
	"sync"
	"syscall"
	"time"
	"unsafe"

	. "verifharness/vhlib"

	"github.com/hknutzen/Netspoc-Approve/go/pkg/doapprove"
	"github.com/hknutzen/Netspoc-Approve/go/pkg/drc"
)

type runCase struct {
	Dev      string `json:"dev"` // PAN-OS | NSX | ASA | IOS | Linux
	Cmd      string `json:"cmd"` // do-approve approve | do-approve compare | drc | drc -C | drc -u (password typed at a terminal)
	Pass     string `json:"pass"`
	Key      string `json:"key"`    // PAN-OS API key / NSX x-xsrf-token
	Cookie   string `json:"cookie"` // NSX session cookie
	FaultAt  int    `json:"fault_at"`
	Fault    string `json:"fault"`               // HTTP: eof | timeout | status | statuskey | trunc | invalid | inactive ; SSH: close | silence | wrongpass
	User     string `json:"user"`                // "" = admin
	KeyForm  int    `json:"key_form,omitempty"`  // PAN-OS: 1+index into keyElementForms — how the keygen answer spells the key element (scan only)
	KeyKind  string `json:"key_kind"`            // "" = base64-like key; else the odd character class the key contains (scan only)
	Variant  int    `json:"variant"`             // layout of the keygen response / netspoc config with or without changes
	Cred     string `json:"cred"`                // "" normal credentials file; "4fields" | "nomatch" | "badpattern": malformed
	LoginHdr string `json:"login_hdr,omitempty"` // NSX: "" = login answer carries x-xsrf-token and session cookie; "notoken" = the cookie only
}

func (c runCase) user() string {
	if c.User == "" {
		return "admin"
	}
	return c.User
}

func (c runCase) canon() string {
	return fmt.Sprintf("%s|%s|%s|%s|%s|%d|%s|%d|%s|%s|%s", c.Dev, c.Cmd, c.Pass, c.Key, c.Cookie, c.FaultAt, c.Fault, c.Variant, c.Cred, c.User, c.LoginHdr)
}

// ---------------------------------------------------------------- SSH simulator (child process)

var sshDelim = regexp.MustCompile(`(?m)^#[ ]*(.*?)[ ]*\n`)

type sshSim struct {
	in      *bufio.Reader
	out     io.Writer
	trace   *os.File
	ev      *os.File
	tl      *os.File // machine readable timeline: W <hex> | R <hex>|PWOK | S (silent from here) | X (gone)
	reads   int
	faultAt int
	fault   string
	pw      string
	silent  bool
	// faults of the read just done
	hangAfter string // write this, then fall silent for good (the answer stays incomplete)
	garbled   bool   // echo something else than the line received
	special   string // "noprompt": answer without prompt, then silence; "banner": IOS reload banner, then a foreign prompt
}

// hang: what was written since the last read is an incomplete answer (marker P), nothing follows.
func (s *sshSim) hang(text string) {
	s.write(text)
	fmt.Fprintf(s.ev, "fault %s: device hangs\n", s.fault)
	fmt.Fprintf(s.tl, "P\n")
	s.silent = true
}

func garbleEcho(line string) string {
	if line == "" {
		return "?"
	}
	return strings.ToUpper(line[:1]) + line[1:] + " ^"
}

func (s *sshSim) write(text string) {
	if s.silent {
		return
	}
	text = strings.ReplaceAll(text, "\n", "\r\n")
	s.trace.WriteString(text) // first: the run may be over as soon as the client has read the text
	fmt.Fprintf(s.tl, "W %s\n", hx(text))
	io.WriteString(s.out, text)
}

// readLine returns the next input line; ok=false at end of input.
func (s *sshSim) readLine(isPassword bool) (string, bool) {
	if s.reads == s.faultAt {
		switch s.fault {
		case "close":
			fmt.Fprintf(s.ev, "fault close at read %d\n", s.reads)
			fmt.Fprintf(s.tl, "X\n")
			os.Exit(0)
		case "silence":
			fmt.Fprintf(s.ev, "fault silence at read %d\n", s.reads)
			fmt.Fprintf(s.tl, "S\n")
			s.silent = true
		}
	}
	line, err := s.in.ReadString('\n')
	if err != nil {
		return "", false
	}
	line = strings.TrimSuffix(line, "\n")
	if s.reads == s.faultAt {
		switch s.fault {
		case "echohang":
			// the device echoes what it received — also at a password prompt — and then hangs
			s.hangAfter = line + "\n"
		case "garble":
			// the device echoes something else than it received (commands only)
			if !isPassword {
				s.garbled = true
			}
		case "noprompt":
			s.special = s.fault
		}
	}
	if s.fault == "banner" && s.faultAt >= 0 && s.reads >= s.faultAt && strings.Contains(line, "ip route ") {
		// (change phase only: the first change command at or behind the position)
		s.special, s.faultAt = "banner", -1
	}
	if line == s.pw && s.pw != "" {
		fmt.Fprintf(s.tl, "R PWOK\n")
	} else {
		fmt.Fprintf(s.tl, "R %s\n", hx(line))
	}
	if isPassword {
		if line == s.pw {
			fmt.Fprintf(s.ev, "read %d: <PASSWORD-OK>\n", s.reads)
		} else {
			fmt.Fprintf(s.ev, "read %d: <PASSWORD-WRONG>\n", s.reads)
		}
	} else if line == s.pw {
		fmt.Fprintf(s.ev, "read %d: <PASSWORD-AS-COMMAND>\n", s.reads)
	} else {
		fmt.Fprintf(s.ev, "read %d: %s\n", s.reads, line)
	}
	s.reads++
	return line, true
}

// sendLine: text with `<!>` (read a line, echo it) and `<?>` (read a line, do not echo it).
func (s *sshSim) sendLine(text string) bool {
	for {
		i := strings.Index(text, "<!>")
		j := strings.Index(text, "<?>")
		if i < 0 && j < 0 {
			s.write(text)
			return true
		}
		pwd := false
		k := i
		if i < 0 || (j >= 0 && j < i) {
			pwd, k = true, j
		}
		s.write(text[:k])
		text = text[k+3:]
		line, ok := s.readLine(pwd)
		if !ok {
			return false
		}
		if s.hangAfter != "" {
			s.hang(s.hangAfter)
			s.hangAfter = ""
			continue
		}
		if s.garbled && !pwd {
			s.garbled = false
			s.write(garbleEcho(line) + "\n")
			continue
		}
		if pwd {
			if s.fault == "wrongpass" || line != s.pw {
				// a device that rejects the password asks again and then gives up
				s.write("\nPermission denied, please try again.\npassword: ")
				if _, ok := s.readLine(true); !ok {
					return false
				}
				s.write("\nPermission denied.\n")
				return false
			}
			s.write("\n")
		} else {
			s.write(line + "\n")
		}
	}
}

func sshSimMain(args []string) int {
	if len(args) < 2 {
		return 2
	}
	device, file := args[0], args[1]
	// an aborted in-process run never closes its pty: do not linger
	time.AfterFunc(15*time.Second, func() { os.Exit(0) })
	data, err := os.ReadFile(file)
	if err != nil {
		return 2
	}
	pw, _ := os.ReadFile(file + ".pw")
	s := &sshSim{in: bufio.NewReader(os.Stdin), out: os.Stdout, faultAt: -1, pw: string(pw)}
	if f, err := os.ReadFile(file + ".fault"); err == nil {
		fmt.Sscanf(string(f), "%d %s", &s.faultAt, &s.fault)
	}
	s.trace, _ = os.OpenFile(file+".out", os.O_CREATE|os.O_WRONLY|os.O_APPEND, 0644)
	s.ev, _ = os.OpenFile(file+".ev", os.O_CREATE|os.O_WRONLY|os.O_APPEND, 0644)
	s.tl, _ = os.OpenFile(file+".tl", os.O_CREATE|os.O_WRONLY|os.O_APPEND, 0644)
	text := string(data)
	locs := sshDelim.FindAllStringSubmatchIndex(text, -1)
	preamble := text
	cmd2out := map[string]string{}
	if len(locs) > 0 {
		preamble = text[:locs[0][0]]
		for i, l := range locs {
			end := len(text)
			if i+1 < len(locs) {
				end = locs[i+1][0]
			}
			cmd2out[text[l[2]:l[3]]] = text[l[1]:end]
		}
	}
	preamble = strings.TrimSuffix(preamble, "\n")
	if s.fault == "nologin" {
		// the connection stands, but no login prompt ever comes
		s.hang("Connection established.\nTo escape to local shell, press 'Ctrl+Alt+]'.\n")
		io.Copy(io.Discard, s.in)
		return 0
	}
	if !s.sendLine(preamble) {
		return 0
	}
	for {
		cmd, ok := s.readLine(false)
		if !ok {
			return 0
		}
		lookup := strings.TrimPrefix(cmd, "do ")
		switch {
		case s.hangAfter != "":
			s.hang(s.hangAfter)
			s.hangAfter = ""
		case s.garbled:
			s.garbled = false
			s.write(garbleEcho(cmd) + "\n")
		case s.special == "banner":
			// the reload banner is all that comes before a prompt; echo and answer follow, but the prompt
			// behind them is not the router's
			s.special = ""
			s.write("\n\n\n\x07***\n*** --- SHUTDOWN in 0:05:00 ---\n***\n" + device + "#")
			time.Sleep(150 * time.Millisecond)
			s.hang(cmd + "\n% Unknown state\nother#")
			continue
		default:
			s.write(cmd + "\n")
		}
		if lookup == "exit" {
			return 0
		}
		noPrompt := false
		if out := cmd2out[lookup]; out != "" {
			// `<NOPROMPT>` at the end: the output brings its own prompt (e.g. `router>`)
			if strings.HasSuffix(out, "<NOPROMPT>\n") {
				out, noPrompt = strings.TrimSuffix(out, "<NOPROMPT>\n"), true
			}
			if !s.sendLine(out) {
				return 0
			}
		}
		if s.special == "noprompt" {
			s.special = ""
			s.hang("")
			continue
		}
		if !noPrompt {
			s.write(device + "#")
		}
	}
}

// ---------------------------------------------------------------- SSH scenarios (after testdata/*_simul.t)

const scASA = `Are you sure you want to continue connecting (yes/no)?<!>
***********************************************************
**                 managed by NetSPoC                    **
***********************************************************
netspoc@10.1.2.3's password: <?>
Type help or '?' for a list of available commands.
router>
# enable
Password: <?>
# sh pager
pager lines 24

# sh term

Width = 80, no monitor
terminal interactive
# show hostname
router
# sh ver
Cisco Adaptive Security Appliance Software Version 9.4(4)5
Hardware:   ASA5550, 4096 MB RAM, CPU Pentium 4 3000 MHz
# write term
interface Ethernet0/0
 nameif inside
route inside 0.0.0.0 0.0.0.0 10.1.2.3
# write memory
Building configuration...
Cryptochecksum: 0e1a09fa 0f7ed3c2 7e8e0d3c 2d8f4a0b

[OK]
`

const nsASAsame = "route inside 0.0.0.0 0.0.0.0 10.1.2.3\n"
const nsASAchg = "route inside 0.0.0.0 0.0.0.0 10.1.2.4\n"

const scIOS = `Enter Password:<?>
banner motd  managed by NetSPoC
router>
# enable
Password:<?>
# sh ver
Cisco IOS Software, C2900 Software (C2900-UNIVERSALK9-M), Version 15.1(4)M4,
# configure terminal
Enter configuration commands, one per line.  End with CNTL/Z.
# reload in 2

System configuration has been modified. Save? [yes/no]: <!>
Reload reason: Reload Command
Proceed with reload? [confirm]<!>
# reload cancel


***
*** --- SHUTDOWN ABORTED ---
***
# write memory
Building configuration...
  Compressed configuration from 106098 bytes to 30504 bytes[OK]
# sh run
ip route 10.20.0.0 255.255.0.0 10.1.2.3
END
`
const nsIOSsame = "ip route 10.20.0.0 255.255.0.0 10.1.2.3\n"
const nsIOSchg = "ip route 10.20.0.0 255.255.0.0 10.1.2.4\n"

const scLinux = `The authenticity of host 'router (10.1.1.1)' can't be established.
ECDSA key fingerprint is ee:6e:ee:00:33:aa:22:88:44:66:44:33:aa:77:42:f5.
Are you sure you want to continue connecting (yes/no)? <!>
root@router's password:<?>
Last login: Mon Sep 30 2024
root@linux-router:~#
# echo $?
0
# uname -r
3.2.89-2.custom
# uname -m
i686
# hostname -s
router
# grep 'NetSPoC' /etc/issue
--- managed by NetSPoC ---
# which iptables-restore
/sbin/iptables-restore
# ip route show
0.0.0.0/0 via 10.1.1.1
# iptables-save
*filter
:INPUT DROP
-A INPUT -j ACCEPT -s 10.1.11.111 -d 10.10.1.2 -p tcp --dport 23
COMMIT
`
const nsLinuxChg = `ip route add 0.0.0.0/0 via 10.1.1.99

*filter
:INPUT DROP
-A INPUT -j ACCEPT -s 10.1.11.111 -d 10.10.1.2 -p tcp --dport 22
`
const nsLinuxSame = `ip route add 0.0.0.0/0 via 10.1.1.1

*filter
:INPUT DROP
-A INPUT -j ACCEPT -s 10.1.11.111 -d 10.10.1.2 -p tcp --dport 23
`

// ---------------------------------------------------------------- HTTP simulator

type simReq struct {
	Method string
	URI    string // RequestURI as sent
	Form   string // body of a POST
	Token  string
	Cookie string
	Reply  c17Reply // what the simulator answered (kind eof = connection dropped)
}

type httpSim struct {
	srv      *httptest.Server
	mu       sync.Mutex
	reqs     []simReq
	retries  int
	lastBody string // body of the request being answered
	reply    func(i int, r *http.Request) (c17Reply, map[string]string)
}

func newHTTPSim(reply func(i int, r *http.Request) (c17Reply, map[string]string)) *httpSim {
	s := &httpSim{reply: reply}
	s.srv = httptest.NewTLSServer(http.HandlerFunc(func(w http.ResponseWriter, r *http.Request) {
		s.mu.Lock()
		i := len(s.reqs)
		body, _ := io.ReadAll(r.Body)
		if i > 0 && s.reqs[i-1].Reply.Kind == "terr" && s.reqs[i-1].Method == r.Method && s.reqs[i-1].URI == r.RequestURI {
			// http.Transport silently retries an idempotent request whose connection was closed
			// before any byte of the response arrived: the fault persists, the retry is not a new step
			s.retries++
			s.mu.Unlock()
			if hj, ok := w.(http.Hijacker); ok {
				if conn, _, err := hj.Hijack(); err == nil {
					conn.Close()
				}
			}
			return
		}
		q := simReq{Method: r.Method, URI: r.RequestURI, Form: string(body), Token: r.Header.Get("x-xsrf-token")}
		if c, err := r.Cookie("JSESSIONID"); err == nil {
			q.Cookie = c.Value
		}
		s.lastBody = string(body)
		rep, hdr := s.reply(i, r)
		q.Reply = rep
		s.reqs = append(s.reqs, q)
		s.mu.Unlock()
		switch rep.Kind {
		case "terr":
			if rep.B == "sleep" {
				// longer than the client's timeout (1 s); the client gives up
				time.Sleep(time.Duration(1300*simScale) * time.Millisecond)
				return
			}
			if hj, ok := w.(http.Hijacker); ok {
				if conn, _, err := hj.Hijack(); err == nil {
					conn.Close()
					return
				}
			}
			s.srv.CloseClientConnections()
			return
		case "trunc":
			if hj, ok := w.(http.Hijacker); ok {
				if conn, bufrw, err := hj.Hijack(); err == nil {
					fmt.Fprintf(bufrw, "HTTP/1.1 200 OK\r\nContent-Type: application/xml\r\nContent-Length: %d\r\n", len(rep.A)+64)
					for k, v := range hdr {
						fmt.Fprintf(bufrw, "%s: %s\r\n", k, v)
					}
					fmt.Fprintf(bufrw, "\r\n%s", rep.A)
					bufrw.Flush()
					conn.Close()
				}
			}
			return
		case "status":
			for k, v := range hdr {
				w.Header().Set(k, v)
			}
			code := 500
			fmt.Sscanf(rep.A, "%d", &code)
			w.WriteHeader(code)
			io.WriteString(w, rep.B)
		default:
			for k, v := range hdr {
				w.Header().Set(k, v)
			}
			w.WriteHeader(200)
			io.WriteString(w, rep.A)
		}
	}))
	return s
}

const panHA = `<response status = 'success'>
 <result>
  <enabled>yes</enabled>
  <group>
   <mode>Active-Passive</mode>
   <local-info>
    <ha2-port>hsci</ha2-port>
    <state>active</state>
   </local-info>
  </group>
 </result>
</response>
`
const panHAPassive = `<response status = 'success'>
 <result>
  <enabled>yes</enabled>
  <group>
   <mode>Active-Passive</mode>
   <local-info>
    <state>passive</state>
   </local-info>
  </group>
 </result>
</response>
`
const panConfig = `<response status = 'success'>
 <result>
  <devices>
   <entry name="localhost.localdomain">
    <deviceconfig>
     <system>
      <hostname>router</hostname>
     </system>
    </deviceconfig>
    <vsys>
     <entry name="vsys1">
     <display-name>FW7-managed-by-Netspoc</display-name>
     </entry>
    </vsys>
   </entry>
  </devices>
 </result>
</response>
`
const panNetspoc = `<config><devices><entry name="localhost.localdomain"><vsys><entry name="vsys1">
<rulebase><security><rules>
<entry name="r1">
<action>allow</action>
<from><member>z1</member></from>
<to><member>z2</member></to>
<source><member>any</member></source>
<destination><member>any</member></destination>
<service><member>tcp 80</member></service>
<application><member>any</member></application>
<rule-type>interzone</rule-type>
</entry>
</rules></security></rulebase>
<service>
<entry name="tcp 80">
 <protocol>
 <tcp><port>80</port></tcp>
 </protocol>
</entry>
</service>
</entry></vsys></entry></devices></config>
`
const panInvalid = "<invalid/>"
const panInvalidMsg = "Parsing response: expected element type <response> but have <invalid>"

func panKeygenBody(variant int, key string) (pre, post string) {
	switch variant % 4 {
	case 0:
		return "<response status = 'success'>\n <result>", "</result>\n</response>\n"
	case 1:
		return "<response status='success'><result>", "</result></response>"
	case 2:
		return "<!-- <key>decoy --><response status = 'success'><result>", "<!-- </key> --></result></response>\n"
	default:
		return "<response status = 'success'>\n<result>\n", "\n</result></response>"
	}
}

// statusFault: fault "st:CODE" — the request at FaultAt is answered with status CODE once, the next one
// normally (a client that retries succeeds); "st:CODE:stay" — every request from FaultAt on is answered
// with CODE (a client that retries fails again).
func statusFault(c *runCase, i int) (c17Reply, bool) {
	if !strings.HasPrefix(c.Fault, "st:") || c.FaultAt < 0 {
		return c17Reply{}, false
	}
	parts := strings.Split(c.Fault, ":")
	stay := len(parts) > 2 && parts[2] == "stay"
	if i == c.FaultAt || stay && i > c.FaultAt {
		return c17Reply{Kind: "status", A: parts[1], B: "service not ready\n"}, true
	}
	return c17Reply{}, false
}

// quoteFault: fault "quote:WHAT:HOW" — the device rejects the request at FaultAt with a text that QUOTES the
// request.  WHAT = cmd (the command without credentials: must stay clean) | url (the whole request as the
// device saw it, credentials included: the device reveals the secret — outside the guarantee, but only
// inside the quotation).  HOW = status (HTTP 400, the text is the body) | doc (status 200, error document)
// | msg (PAN-OS: message of the commit answer) | job (PAN-OS: result of the job status).
var reQuoted = regexp.MustCompile(`(?s)QUOTED\[.*?\]QUOTED`)

func quoteFault(c *runCase, i int, r *http.Request, form string) (c17Reply, bool) {
	if !strings.HasPrefix(c.Fault, "quote:") {
		return c17Reply{}, false
	}
	p := strings.Split(c.Fault, ":")
	if len(p) != 3 {
		return c17Reply{}, false
	}
	what, how := p[1], p[2]
	q := r.URL.Query()
	switch how {
	case "msg":
		if q.Get("type") != "commit" {
			return c17Reply{}, false
		}
	case "job":
		if !strings.Contains(q.Get("cmd"), "<jobs>") {
			return c17Reply{}, false
		}
	default:
		if i != c.FaultAt {
			return c17Reply{}, false
		}
	}
	text := ""
	if c.Dev == "PAN-OS" {
		if what == "url" {
			text = r.RequestURI
		} else {
			var ks []string
			for k := range q {
				if k != "key" && k != "password" {
					ks = append(ks, k)
				}
			}
			sort.Strings(ks)
			for _, k := range ks {
				text += "&" + k + "=" + q.Get(k)
			}
		}
	} else {
		text = r.Method + " " + r.URL.Path
		if what == "url" {
			text = r.Method + " " + r.RequestURI + " form=" + form + " cookie=" + r.Header.Get("Cookie") + " token=" + r.Header.Get("x-xsrf-token")
		}
	}
	quoted := "Invalid request QUOTED[" + text + "]QUOTED"
	var xb bytes.Buffer
	xml.EscapeText(&xb, []byte(quoted))
	switch {
	case how == "status":
		return c17Reply{Kind: "status", A: "400", B: quoted + "\n"}, true
	case c.Dev == "PAN-OS" && how == "doc":
		return c17Reply{Kind: "fail", A: "<response status=\"error\" code=\"400\"><msg>" + xb.String() + "</msg></response>", B: "No success: " + quoted}, true
	case c.Dev == "PAN-OS" && how == "msg":
		return c17Reply{Kind: "fail", A: "<response status=\"success\" code=\"19\"><msg>" + xb.String() + "</msg></response>", B: "Unexpected message: " + quoted}, true
	case c.Dev == "PAN-OS" && how == "job":
		return c17Reply{Kind: "fail", A: "<response status=\"success\"><result><job><result>" + xb.String() + "</result></job></result></response>",
			B: "Unexpected job result: " + strconv.Quote(quoted)}, true
	case c.Dev == "NSX" && how == "doc":
		jm, _ := json.Marshal(quoted)
		return c17Reply{Kind: "fail", A: "{\"error_code\": 289, \"error_message\": " + string(jm) + "}", B: "got error message instead of results: " + quoted + " (289)"}, true
	}
	return c17Reply{}, false
}

var loginStatusCodes = []string{"401", "403", "404", "429", "500", "502", "503", "504"}

const nsxInvalidMsg = "invalid character 'i' looking for beginning of value"

const nsxNetspoc = `{
 "services": [
  {
   "id": "Netspoc-icmp",
   "service_entries": [
    {
     "id": "id",
     "protocol": "ICMPv4",
     "resource_type": "ICMPTypeServiceEntry"
    }
   ]
  }
  ]
}
`

// ---------------------------------------------------------------- one run

type runOutcome struct {
	Stdout, Stderr string
	Status         int
	PanicMsg       string
	Files          map[string]string
	Reqs           []simReq
	Addr           string
	SimOut         string // SSH: bytes the simulated device wrote
	SimEv          string
	SimTl          string
	LogDir         string
	Retries        int    // HTTP: requests the transport silently repeated
	Env            string // the run could not be carried out (time-out of the child, no pty …): inconclusive
	noEcho         bool   // the device did not echo at a password prompt (computed by the model from the chunks)
}

// simScale: time-out scale of the run carried out by this process
var simScale = 1

var devSSH = map[string]bool{"ASA": true, "IOS": true, "Linux": true}

// execRun carries out one run of the real code in THIS process (it is called in a child process of
// the harness, see spawnRun).  scale multiplies the tool's time-outs (1 s) and the fault durations.
func execRun(tmp string, c *runCase, no int, scale int) *runOutcome {
	work := filepath.Join(tmp, fmt.Sprintf("run%d", no))
	side := filepath.Join(tmp, fmt.Sprintf("side%d", no)) // scenario, traces: not scanned
	simScale = scale
	os.MkdirAll(side, 0755)
	p1 := filepath.Join(work, "policies", "p1")
	codeDir := filepath.Join(p1, "code")
	os.MkdirAll(codeDir, 0755)
	os.Symlink("p1", filepath.Join(work, "policies", "current"))
	for _, d := range []string{"lock", "status", "history"} {
		os.MkdirAll(filepath.Join(work, d), 0755)
	}
	user := c.user()
	cred := "* " + user + " " + c.Pass + "\n"
	switch c.Cred {
	case "4fields":
		cred = "* admin " + c.Pass + " extra\n"
	case "nomatch":
		cred = "other admin " + c.Pass + "\n"
	case "badpattern":
		cred = "[ admin " + c.Pass + "\n"
	case "2fields":
		// user name forgotten: the password is the second field
		cred = "* " + c.Pass + "\n"
	case "blankpass":
		// a password with a blank makes four (or more) fields
		h := len(c.Pass) / 2
		cred = "* admin " + c.Pass[:h] + " " + c.Pass[h:] + "\n"
	case "multi":
		// comments, an entry for another device (bad line BEHIND the matching one is never read)
		cred = "# credentials\n\nother* admin " + c.Pass + "X\n  router  " + user + "\t" + c.Pass + "  \n* admin " + c.Pass + " " + c.Pass + "\n"
	case "badlater":
		// the entry of another device comes first and is malformed
		cred = "other admin " + c.Pass + " " + c.Pass + "\nrouter " + user + " " + c.Pass + "\n"
	case "missing":
		cred = ""
	}
	WriteFiles(work, map[string]string{
		"credentials":      cred,
		".netspoc-approve": "basedir = " + work + "\ncheckbanner = NetSPoC\nsystemuser = " + user + fmt.Sprintf("\ntimeout = %d\nlogin_timeout = %d\n", scale, scale),
	})
	if c.Cred == "missing" {
		os.Remove(filepath.Join(work, "credentials"))
	}
	info := fmt.Sprintf("{\n \"model\": %q,\n \"name_list\": [ \"router\" ],\n \"ip_list\": [ \"10.1.13.33\" ]\n}\n", c.Dev)
	netspoc := ""
	out := &runOutcome{Files: map[string]string{}, noEcho: true}
	var sim *httpSim
	os.Unsetenv("TEST_TIME")
	switch c.Dev {
	case "PAN-OS":
		netspoc = panNetspoc
		pre, post := panKeygenBody(c.Variant, c.Key)
		sim = newHTTPSim(func(i int, r *http.Request) (c17Reply, map[string]string) {
			rep := c17Reply{Kind: "ok"}
			q := r.URL.Query()
			switch {
			case q.Get("type") == "keygen":
				var kb bytes.Buffer
				xml.EscapeText(&kb, []byte(c.Key)) // the device sends well-formed XML whatever the key contains
				rep.A = pre + "<key>" + kb.String() + "</key>" + post
				if c.KeyForm > 0 {
					rep.A = pre + keyElementForms(c.Key)[c.KeyForm-1] + post
				}
			case strings.Contains(q.Get("cmd"), "high-availability"):
				rep.A = panHA
			case q.Get("type") == "config" && q.Get("action") == "get":
				rep.A = panConfig
			case q.Get("type") == "config":
				rep.A = `<response status="success" code="20"></response>`
			case q.Get("type") == "commit":
				rep.A = `<response status="success" code="19"><result><job>6</job></result></response>`
			case strings.Contains(q.Get("cmd"), "<jobs>"):
				rep.A = "<response status=\"success\"><result><job>\n<result>OK</result>\n</job></result></response>\n"
			default:
				rep = c17Reply{Kind: "status", A: "404", B: "404 page not found\n"}
			}
			if i == c.FaultAt {
				switch c.Fault {
				case "eof":
					rep = c17Reply{Kind: "terr", A: "EOF"}
				case "timeout":
					rep = c17Reply{Kind: "terr", A: "context deadline exceeded (Client.Timeout exceeded while awaiting headers)", B: "sleep"}
				case "status":
					rep = c17Reply{Kind: "status", A: "500", B: "device not ready\n"}
				case "trunc":
					// the connection is lost while the body is read; what arrived is all but the last bytes
					// (for the keygen answer: the <key> element has arrived)
					cut := len(rep.A) - 5
					if cut < 0 {
						cut = 0
					}
					rep = c17Reply{Kind: "trunc", A: rep.A[:cut], B: "unexpected EOF"}
				case "statuskey":
					// a status other than 200 although the body holds a <key> element
					rep = c17Reply{Kind: "status", A: "503", B: rep.A}
				case "invalid":
					rep = c17Reply{Kind: "fail", A: panInvalid, B: panInvalidMsg}
				case "inactive":
					rep = c17Reply{Kind: "fail", A: panHAPassive, B: ""}
				}
			}
			if r, ok := statusFault(c, i); ok {
				rep = r
			}
			if qr, ok := quoteFault(c, i, r, ""); ok {
				rep = qr
			}
			return rep, nil
		})
	case "NSX":
		netspoc = nsxNetspoc
		sim = newHTTPSim(func(i int, r *http.Request) (c17Reply, map[string]string) {
			rep := c17Reply{Kind: "ok", A: "{}"}
			var hdr map[string]string
			if r.URL.Path == "/api/session/create" {
				rep.A = ""
				hdr = map[string]string{"x-xsrf-token": c.Key, "Set-Cookie": "JSESSIONID=" + c.Cookie + "; Path=/; Secure; HttpOnly"}
				if c.LoginHdr == "notoken" {
					delete(hdr, "x-xsrf-token") // a manager that hands out the session cookie only
				}
			}
			if i == c.FaultAt {
				switch c.Fault {
				case "eof":
					rep = c17Reply{Kind: "terr", A: "EOF"}
				case "timeout":
					rep = c17Reply{Kind: "terr", A: "context deadline exceeded (Client.Timeout exceeded while awaiting headers)", B: "sleep"}
				case "status":
					rep = c17Reply{Kind: "status", A: "500", B: "device not ready\n"}
				case "trunc":
					rep = c17Reply{Kind: "trunc", A: "{", B: "unexpected EOF"}
				case "invalid":
					rep = c17Reply{Kind: "fail", A: "invalid", B: nsxInvalidMsg}
				}
			}
			if r, ok := statusFault(c, i); ok {
				rep, hdr = r, nil
			}
			if i > 0 || !strings.HasSuffix(c.Fault, ":doc") {
				if qr, ok := quoteFault(c, i, r, sim.lastBody); ok {
					rep, hdr = qr, nil
				}
			}
			return rep, hdr
		})
	case "ASA", "IOS", "Linux":
		sc := map[string]string{"ASA": scASA, "IOS": scIOS, "Linux": scLinux}[c.Dev]
		// flavours of the login dialogue (bits 1-2 of Variant)
		switch fl := (c.Variant / 2) % 8; {
		case fl == 1 && c.Dev == "ASA":
			// known host key, privileged at once, terminal already set up
			sc = strings.Replace(sc, "Are you sure you want to continue connecting (yes/no)?<!>\n", "", 1)
			sc = strings.Replace(sc, "router>\n# enable\nPassword: <?>\n", "router#\n", 1)
			sc = strings.Replace(sc, "pager lines 24\n", "no pager\n", 1)
			sc = strings.Replace(sc, "Width = 80, no monitor", "Width = 511, no monitor", 1)
		case fl == 2 && c.Dev == "ASA":
			sc = strings.Replace(sc, "# show hostname\nrouter\n", "# show hostname\nother-fw\n", 1)
		case fl == 1 && c.Dev == "IOS":
			sc = strings.Replace(sc, "router>\n# enable\nPassword:<?>\n", "router#\n", 1)
		case fl == 2 && c.Dev == "IOS":
			sc = strings.Replace(sc, "# enable\nPassword:<?>\n", "", 1) // enable without password
		case fl == 3 && c.Dev == "IOS":
			sc = strings.Replace(sc, "Enter Password:<?>", "The authenticity of host 'router' can't be established.\nAre you sure you want to continue connecting (yes/no)? <!>\nEnter Password: <?>", 1)
		case fl == 4 && c.Dev == "IOS":
			// no enable secret configured: `enable` is refused without a password prompt, the prompt stays `>`
			sc = strings.Replace(sc, "# enable\nPassword:<?>\n", "# enable\n% No password set\nrouter><NOPROMPT>\n", 1)
		case fl == 5:
			// a device that does not switch echo off at its password prompts (outside the guarantee)
			sc = strings.ReplaceAll(sc, "<?>", "<!>")
		case fl == 1 && c.Dev == "Linux":
			// public key login: no question, no password prompt
			sc = sc[strings.Index(sc, "Last login:"):]
		case fl == 2 && c.Dev == "Linux":
			sc = strings.Replace(sc, "# hostname -s\nrouter\n", "# hostname -s\nother\n", 1)
		}
		same := map[string]string{"ASA": nsASAsame, "IOS": nsIOSsame, "Linux": nsLinuxSame}[c.Dev]
		chg := map[string]string{"ASA": nsASAchg, "IOS": nsIOSchg, "Linux": nsLinuxChg}[c.Dev]
		netspoc = same
		if c.Variant%2 == 1 {
			netspoc = chg
		}
		scFile := filepath.Join(side, "scenario")
		files := map[string]string{"scenario": sc, "scenario.pw": c.Pass}
		if c.FaultAt >= 0 {
			files["scenario.fault"] = fmt.Sprintf("%d %s", c.FaultAt, c.Fault)
		} else if c.Fault == "wrongpass" {
			files["scenario.fault"] = "-1 wrongpass"
		}
		WriteFiles(side, files)
		exe, _ := os.Executable()
		os.Setenv("SIMULATE_ROUTER", exe+" -sshsim router "+scFile)
	}
	if sim != nil {
		defer sim.srv.Close()
		os.Setenv("SIMULATE_ROUTER", sim.srv.URL)
		out.Addr = sim.srv.URL
	}
	WriteFiles(codeDir, map[string]string{"router": netspoc, "router.info": info})
	os.Setenv("HOME", work)
	os.MkdirAll(filepath.Join(tmp, "TMPDIR"), 0755)
	os.Setenv("TMPDIR", filepath.Join(tmp, "TMPDIR"))
	prevDir, _ := os.Getwd()
	os.Chdir(work)
	defer os.Chdir(prevDir)
	out.LogDir = filepath.Join(p1, "log")
	var mainFn func() int
	switch c.Cmd {
	case "do-approve approve":
		os.Args = []string{"do-approve", "approve", "router"}
		mainFn = doapprove.Main
	case "do-approve compare":
		os.Args = []string{"do-approve", "compare", "router"}
		mainFn = doapprove.Main
	case "drc":
		os.Args = []string{"drc", "-L", out.LogDir, filepath.Join(codeDir, "router")}
		mainFn = drc.Main
	case "drc -u":
		os.Args = []string{"drc", "-u", user, "-L", out.LogDir, filepath.Join(codeDir, "router")}
		mainFn = drc.Main
		master, slave, err := openPTY()
		if err != nil {
			out.PanicMsg = "openpty: " + err.Error()
			return out
		}
		oldStdin := os.Stdin
		os.Stdin = slave
		var termBuf strings.Builder
		var tmu sync.Mutex
		go func() {
			// what the terminal displays: tty echo of typed input (stdout/stderr are captured separately)
			buf := make([]byte, 4096)
			for {
				n, err := master.Read(buf)
				tmu.Lock()
				termBuf.Write(buf[:n])
				tmu.Unlock()
				if err != nil {
					return
				}
			}
		}()
		go func() {
			// type the password once the program has switched off echo (term.ReadPassword)
			for i := 0; i < 400; i++ {
				if echoOff(slave) {
					break
				}
				time.Sleep(5 * time.Millisecond)
			}
			io.WriteString(master, c.Pass+"\n")
		}()
		defer func() {
			os.Stdin = oldStdin
			time.Sleep(20 * time.Millisecond)
			slave.Close()
			master.Close()
			tmu.Lock()
			out.Files["<terminal>"] = termBuf.String()
			tmu.Unlock()
		}()
	default:
		os.Args = []string{"drc", "-C", "-L", out.LogDir, filepath.Join(codeDir, "router")}
		mainFn = drc.Main
	}
	done := make(chan struct{})
	go func() {
		out.Stdout, out.Stderr, out.Status, out.PanicMsg = Captured(func() int {
			// goexpect reports through the standard logger, which in a real process writes to stderr
			log.SetOutput(os.Stderr)
			defer log.SetOutput(io.Discard)
			return mainFn()
		})
		close(done)
	}()
	select {
	case <-done:
	case <-time.After(time.Duration(10+8*scale) * time.Second):
		out.Env = "time-out of the run"
		return out
	}
	os.Unsetenv("SIMULATE_ROUTER")
	if sim != nil {
		sim.mu.Lock()
		out.Reqs = append(out.Reqs, sim.reqs...)
		out.Retries = sim.retries
		sim.mu.Unlock()
	}
	if devSSH[c.Dev] {
		b, _ := os.ReadFile(filepath.Join(side, "scenario.out"))
		out.SimOut = string(b)
		b, _ = os.ReadFile(filepath.Join(side, "scenario.ev"))
		out.SimEv = string(b)
		b, _ = os.ReadFile(filepath.Join(side, "scenario.tl"))
		out.SimTl = string(b)
	}
	out.Files = collectFiles(tmp, no)
	os.RemoveAll(work)
	os.RemoveAll(side)
	return out
}

// collectFiles: every regular file the run left below its private directory — the base directory
// (= HOME = cwd; names relative to it) and TMPDIR (names `TMPDIR/…`: scp sources and whatever else the
// code puts there) — except the simulator's own scenario and traces (`side<no>`).
func collectFiles(tmp string, no int) map[string]string {
	files := map[string]string{}
	work := filepath.Join(tmp, fmt.Sprintf("run%d", no))
	side := filepath.Join(tmp, fmt.Sprintf("side%d", no))
	filepath.Walk(tmp, func(p string, info os.FileInfo, err error) error {
		if err != nil {
			return nil
		}
		if info.IsDir() && p == side {
			return filepath.SkipDir
		}
		if info.Mode().IsRegular() {
			rel, _ := filepath.Rel(tmp, p)
			if r, err := filepath.Rel(work, p); err == nil && !strings.HasPrefix(r, "..") {
				rel = r
			}
			b, _ := os.ReadFile(p)
			files[rel] = string(b)
		}
		return nil
	})
	return files
}

func ioctl(fd uintptr, req uintptr, arg unsafe.Pointer) error {
	if _, _, e := syscall.Syscall(syscall.SYS_IOCTL, fd, req, uintptr(arg)); e != 0 {
		return e
	}
	return nil
}

func openPTY() (master, slave *os.File, err error) {
	master, err = os.OpenFile("/dev/ptmx", os.O_RDWR, 0)
	if err != nil {
		return nil, nil, err
	}
	var unlock int32
	if err = ioctl(master.Fd(), syscall.TIOCSPTLCK, unsafe.Pointer(&unlock)); err != nil {
		master.Close()
		return nil, nil, err
	}
	var n uint32
	if err = ioctl(master.Fd(), syscall.TIOCGPTN, unsafe.Pointer(&n)); err != nil {
		master.Close()
		return nil, nil, err
	}
	slave, err = os.OpenFile(fmt.Sprintf("/dev/pts/%d", n), os.O_RDWR|syscall.O_NOCTTY, 0)
	if err != nil {
		master.Close()
		return nil, nil, err
	}
	return master, slave, nil
}

func echoOff(f *os.File) bool {
	var t syscall.Termios
	if err := ioctl(f.Fd(), syscall.TCGETS, unsafe.Pointer(&t)); err != nil {
		return false
	}
	return t.Lflag&syscall.ECHO == 0
}

// ---------------------------------------------------------------- oracle: byte scan

func sinkOf(rel string) string {
	switch {
	case rel == "<stdout>":
		return "stdout"
	case rel == "<stderr>":
		return "stderr"
	case rel == "<terminal>":
		return "terminal"
	case strings.HasPrefix(rel, "TMPDIR/"):
		return "tmpfile"
	case strings.HasPrefix(rel, "history/"):
		return "history"
	case strings.HasPrefix(rel, "status/"):
		return "status"
	case strings.HasSuffix(rel, ".drc") || strings.HasSuffix(rel, ".compare"):
		return "runlog"
	case strings.HasSuffix(rel, ".login") || strings.HasSuffix(rel, ".config") || strings.HasSuffix(rel, ".change") || strings.HasSuffix(rel, ".cmp"):
		return "session" + filepath.Ext(rel)
	}
	return "other:" + rel
}

// secretOutsideDeviceText: does `line` still show the secret after every piece of text that the device
// itself wrote with the secret in it (its echo) has been taken out?
func secretOutsideDeviceText(line, simOut, secret string, user string) bool {
	rest := line
	for _, dl := range strings.Split(strings.ReplaceAll(simOut, "\r\n", "\n"), "\n") {
		dl = strings.TrimSpace(dl)
		if dl == "" {
			continue
		}
		if _, found := findSecret(dl, secret, user); found {
			rest = strings.ReplaceAll(rest, dl, "<device text>")
		}
	}
	_, found := findSecret(rest, secret, user)
	return found
}

func (e *c17Env) scanRun(c *runCase, o *runOutcome) {
	secrets := map[string]string{"password": c.Pass}
	switch c.Dev {
	case "PAN-OS":
		secrets["apikey"] = c.Key
	case "NSX":
		secrets["token"] = c.Key
		secrets["cookie"] = c.Cookie
	}
	hay := map[string]string{"<stdout>": o.Stdout, "<stderr>": o.Stderr}
	for rel, content := range o.Files {
		if rel == "credentials" || rel == ".netspoc-approve" {
			continue // the configuration holds the password by design
		}
		hay[rel] = content
	}
	if strings.HasPrefix(c.Fault, "quote:url:") {
		// the device quoted the whole request, credentials included, in its error text: what stands INSIDE
		// the quotation is device output that reveals the secret (outside the guarantee: the replies of the
		// theorems do not depend on the secrets; reply_quoting_request_counterexample); everything else
		// is judged as always
		for rel, content := range hay {
			stripped := reQuoted.ReplaceAllString(content, "QUOTED[]QUOTED")
			if stripped != content {
				for kind, secret := range secrets {
					if _, found := findSecret(content, secret, c.user()); found {
						if _, still := findSecret(stripped, secret, c.user()); !still {
							e.res.Count("scan:device-reply-quotes-the-request(outside guarantee):" + kind + ":" + sinkOf(rel))
						}
					}
				}
				hay[rel] = stripped
			}
		}
	}
	names := make([]string, 0, len(hay))
	for n := range hay {
		names = append(names, n)
	}
	sort.Strings(names)
	echoFlavour := devSSH[c.Dev] && (c.Variant/2)%8 == 5
	kinds := []string{"password", "apikey", "token", "cookie"}
	for _, kind := range kinds {
		secret, ok := secrets[kind]
		if !ok {
			continue
		}
		for _, rel := range names {
			if _, found := findSecret(hay[rel], secret, c.user()); !found {
				continue
			}
			sink := sinkOf(rel)
			// judge line by line: a second leak in a file that also holds a known line must not hide
			type verdict struct{ pred, phase, line, form string }
			seen := map[verdict]bool{}
			var verdicts []verdict
			lines := strings.Split(hay[rel], "\n")
			judged := false
			for _, line := range lines {
				form, found := findSecret(line, secret, c.user())
				if !found {
					continue
				}
				judged = true
				v := verdict{pred: "secret_in_sink", phase: "n/a", line: "n/a", form: form}
				if os.Getenv("C17_DEBUG") != "" {
					fmt.Fprintf(os.Stderr, "DEBUG %s %s line %q noEcho=%v env=%q simout=%q\n", rel, kind, line, o.noEcho, o.Env, o.SimOut)
				}
				switch {
				case kind == "password" && devSSH[c.Dev] && (!o.noEcho || echoFlavour || c.Fault == "echohang") &&
					(o.Env != "" && (echoFlavour || c.Fault == "echohang") || !secretOutsideDeviceText(line, o.SimOut, secret, c.user())):
					if os.Getenv("C17_DEBUG") != "" {
						fmt.Fprintf(os.Stderr, "DEBUG excused line %q\n", line)
					}
					// the device echoed what was typed at its password prompt: outside the guarantee
					// (hypothesis noEchoAtPasswordPrompt of ssh_echo_device_independent; the model computes it
					// from the chunks, the simulated device has it by construction in flavour 5 / fault echohang —
					// chunk boundaries vary under load) — but only where the sink shows text the device wrote;
					// a password the code itself put next to it is judged (a run the environment spoilt may have
					// lost the record of what the device wrote: then the construction of the device decides)
					e.res.Count("scan:device-echoes-at-password-prompt(outside guarantee):" + sink)
					continue
				case kind == "apikey" && c.Dev == "PAN-OS" && c.Fault == "statuskey" && !strings.HasPrefix(sink, "session"):
					// the rejected answer (status other than 200) is quoted in the WARNING; no key was obtained
					e.res.Count("scan:rejected-keygen-answer-quoted-in-warning:" + sink)
					continue
				case kind == "apikey" && c.Dev == "PAN-OS" && !strings.HasSuffix(form, ":part"):
					// F-C17: the ERROR>>> line of a request behind the HA check, embedding the request URL
					needle := formValue(secret, form)
					get := `Get "` + o.Addr + `/api/?key=`
					prs := `parse "` + o.Addr + `/api/?key=`
					i := strings.Index(line, get)
					if i < 0 {
						i = strings.Index(line, prs)
					}
					if i >= 0 && strings.Count(line, needle) == 1 {
						v.phase, v.line = "after_ha", "error_marker"
						if strings.Contains(line[i:], "/api/?key="+needle+"&type=op&cmd=<show><high-availability>") {
							v.phase = "ha_check"
						}
						if !strings.Contains(line[:i], "ERROR>>> ") {
							v.line = "other"
						}
						if v.phase == "after_ha" && v.line == "error_marker" {
							v.pred = "panos_transport_error_url" // the class of F-C17 (complement of leakPath = false)
						} else {
							// an error text with the request URL outside that class: its own predicate, so that
							// the known finding cannot swallow it (and the cap per predicate does not drop it)
							v.pred = "panos_error_url_outside_abort_after_ha"
						}
					}
				}
				if !seen[v] {
					seen[v] = true
					verdicts = append(verdicts, v)
				}
			}
			if !judged {
				// the secret spans lines (a key with a newline): the file as a whole
				form, _ := findSecret(hay[rel], secret, c.user())
				verdicts = append(verdicts, verdict{pred: "secret_in_sink", phase: "n/a", line: "n/a", form: form})
			}
			for _, v := range verdicts {
				match := "whole"
				if strings.HasSuffix(v.form, ":part") {
					match = "part"
				}
				sig := map[string]any{"pred": v.pred, "sink": sink, "dev": c.Dev, "secret": kind, "form": strings.TrimSuffix(v.form, ":part"),
					"match": match, "phase": v.phase, "line": v.line}
				if c.KeyForm > 0 {
					sig["key_element"] = keyElementForm(keyElementForms(c.Key)[c.KeyForm-1], c.Key)
				}
				e.res.Fail(sig,
					fmt.Sprintf("%s %s: %s found (%s, %s) in %s [fault %s at %d]", c.Dev, c.Cmd, kind, v.form, match, rel, c.Fault, c.FaultAt),
					map[string]any{"run": c})
				e.res.Count("leak:" + v.pred + ":" + v.phase + ":" + sink)
			}
		}
	}
}

// ---------------------------------------------------------------- correspondence with the sink model

func markerLines(runlog string) []string {
	var l []string
	for _, line := range strings.Split(runlog, "\n") {
		if strings.HasPrefix(line, "ERROR>>> ") || strings.HasPrefix(line, "WARNING>>> ") {
			l = append(l, line)
		}
	}
	return l
}

func (o *runOutcome) runlog(c *runCase) string {
	switch c.Cmd {
	case "do-approve approve":
		return o.Files["policies/p1/log/router.drc"]
	case "do-approve compare":
		return o.Files["policies/p1/log/router.compare"]
	}
	return o.Stderr
}

func parseSinks(ans string) (map[string][]string, bool) {
	m := map[string][]string{}
	for _, f := range strings.Split(ans, "\t") {
		k, v, ok := strings.Cut(f, "=")
		if !ok {
			return nil, false
		}
		m[k] = unhxList(v)
	}
	_, ok := m["runlog"]
	return m, ok
}

func (e *c17Env) comparePanos(c *runCase, o *runOutcome) {
	if len(o.Reqs) == 0 {
		return
	}
	enc := func(r c17Reply) string {
		if r.Kind == "fail" && r.B == "" {
			r.B = "x" // HA check: the text is not used
		}
		return r.enc()
	}
	kg := o.Reqs[0].Reply
	var reqs, reps []string
	for i, q := range o.Reqs[1:] {
		reps = append(reps, enc(q.Reply))
		if i == 0 {
			continue // the HA check is built into the model
		}
		uri := strings.TrimPrefix(q.URI, "/api/?key="+c.Key+"&")
		u, _ := url.Parse(q.URI)
		qq := u.Query()
		log, wrap := "change", "Command failed with "
		switch {
		case qq.Get("type") == "config" && qq.Get("action") == "get":
			log, wrap = "config", ""
		case qq.Get("type") == "commit" || strings.Contains(qq.Get("cmd"), "<jobs>"):
			wrap = "Commit failed: "
		}
		if log == "config" && q.Reply.Kind == "fail" {
			wrap = "While reading device: "
		}
		reqs = append(reqs, log+":"+hx(uri)+":"+hx(wrap))
	}
	j := func(l []string) string {
		if len(l) == 0 {
			return "-"
		}
		return strings.Join(l, ";")
	}
	line := strings.Join([]string{"panos", hx(o.Addr), hx(c.user()), hx(c.Pass), hx("router"), hx("10.1.13.33"),
		enc(kg), hx(c.Key), j(reqs), j(reps)}, "\t")
	ans := e.drv.Ask(line)
	m, ok := parseSinks(ans)
	if !ok {
		e.res.Disagree("c17 run PAN-OS (driver)", c, "", ans)
		return
	}
	impl := "login:\n" + o.Files["policies/p1/log/router.login"] + "config:\n" + o.Files["policies/p1/log/router.config"] +
		"change:\n" + o.Files["policies/p1/log/router.change"] + "runlog:\n" + strings.Join(markerLines(o.runlog(c)), "\n")
	change := entriesToFile(m["change"])
	model := "login:\n" + entriesToFile(m["login"]) + "config:\n" + entriesToFile(m["config"]) +
		"change:\n" + change + "runlog:\n" + strings.Join(m["runlog"], "\n")
	e.res.TracesVsImpl++
	if impl != model {
		e.res.Disagree("c17 run PAN-OS sinks", c, impl, model)
	}
}

func titleCase(m string) string {
	if m == "" {
		return m
	}
	return m[:1] + strings.ToLower(m[1:])
}

func (e *c17Env) compareNSX(c *runCase, o *runOutcome) {
	if len(o.Reqs) == 0 {
		return
	}
	lg := o.Reqs[0].Reply
	login := ""
	switch lg.Kind {
	case "terr":
		login = "terr:" + hx(lg.A) + ":-"
	case "status":
		code := 500
		fmt.Sscanf(lg.A, "%d", &code)
		login = "resp:" + hx(fmt.Sprintf("%d %s", code, http.StatusText(code))) + ":" + hx(fmt.Sprint(code))
	default:
		login = "resp:" + hx("200 OK") + ":" + hx("200")
	}
	var reqs, reps []string
	rest := o.Reqs[1:]
	for i, q := range rest {
		path := q.URI
		rep := q.Reply
		log, before, after := "config", "-", "-"
		if q.Method != "GET" {
			log = "change"
			before = hx("URI: "+q.Method+" "+path) + "," + hx("DATA: "+q.Form)
			if rep.Kind == "fail" {
				rep = c17Reply{Kind: "ok", A: rep.A} // the answer to a change is logged, not parsed
			}
			after = hx("RESP: " + rep.A)
		} else {
			if rep.Kind == "fail" {
				p, _, _ := strings.Cut(path, "?")
				rep.B = "while parsing " + p + ": " + rep.B
			}
			// the last GET is followed by the dump of the collected configuration
			last := i == len(rest)-1 || rest[i+1].Method != "GET"
			if last && rep.Kind == "ok" && strings.Contains(path, "/groups") {
				after = hx(strings.TrimSuffix(o.Files["policies/p1/log/router.config"], "\n"))
			}
		}
		reqs = append(reqs, strings.Join([]string{hx(titleCase(q.Method)), hx(q.Method), hx(path), log, before, after}, ":"))
		reps = append(reps, rep.enc())
	}
	j := func(l []string) string {
		if len(l) == 0 {
			return "-"
		}
		return strings.Join(l, ";")
	}
	line := strings.Join([]string{"nsx", hx(o.Addr), hx(c.user()), hx(c.Pass), hx(c.Key), hx(c.Cookie), hx("router"),
		login, j(reqs), j(reps)}, "\t")
	ans := e.drv.Ask(line)
	m, ok := parseSinks(ans)
	if !ok {
		e.res.Disagree("c17 run NSX (driver)", c, "", ans)
		return
	}
	impl := "login:\n" + o.Files["policies/p1/log/router.login"] + "config:\n" + o.Files["policies/p1/log/router.config"] +
		"change:\n" + o.Files["policies/p1/log/router.change"] + "runlog:\n" + strings.Join(markerLines(o.runlog(c)), "\n")
	model := "login:\n" + entriesToFile(m["login"]) + "config:\n" + entriesToFile(m["config"]) +
		"change:\n" + entriesToFile(m["change"]) + "runlog:\n" + strings.Join(m["runlog"], "\n")
	e.res.TracesVsImpl++
	if impl != model {
		e.res.Disagree("c17 run NSX sinks", c, impl, model)
	}
}

var reExpectErr = regexp.MustCompile(`(?m)': (expect: [^\n]*)$`)

func (e *c17Env) compareSSH(c *runCase, o *runOutcome) {
	// (a) every session log is device output, in order: login ++ config ++ change is a prefix of the
	// normalised device output (the .change log of an unchanged device is one DoLog line)
	norm := unhx(e.drv.Ask("sshlog\t" + hx(o.SimOut)))
	login, config := o.Files["policies/p1/log/router.login"], o.Files["policies/p1/log/router.config"]
	chg := o.Files["policies/p1/log/router.change"]
	logs := login + config
	if chg != "No changes applied\n" {
		logs += chg
	}
	e.res.TracesVsImpl++
	if !strings.HasPrefix(norm, logs) {
		e.res.Disagree("c17 run SSH session logs are a prefix of the device output", c, logs, norm)
	}
	// (b) step by step: the dialogue programs of the model are run against the segments the simulated
	// device wrote between its reads; sends, the content of every log file and the abort line must agree
	var segs, reads []string
	cur, silent, pending := "", false, false
	flush := func() {
		k := "f:"
		if silent {
			k = "p:" // written (or rather: not written) after the device fell silent
		}
		segs = append(segs, k+hx(cur))
		cur = ""
	}
	for _, line := range strings.Split(o.SimTl, "\n") {
		switch {
		case strings.HasPrefix(line, "W "):
			cur += unhx(line[2:])
		case strings.HasPrefix(line, "R "):
			flush()
			silent = silent || pending
			if line[2:] == "PWOK" {
				reads = append(reads, hx(c.Pass))
			} else {
				reads = append(reads, line[2:])
			}
		case line == "S":
			pending = true
		case line == "P":
			// what was written since the last read is an incomplete answer; nothing follows
			silent = true
		}
	}
	if cur != "" || silent {
		flush()
	}
	runlog := o.runlog(c)
	var errLines []string
	for _, l := range markerLines(runlog) {
		if strings.HasPrefix(l, "ERROR>>> ") {
			errLines = append(errLines, strings.TrimPrefix(l, "ERROR>>> "))
		}
	}
	errText := ""
	if m := reExpectErr.FindStringSubmatch(runlog); m != nil {
		errText = m[1]
	}
	approve := c.Cmd == "do-approve approve" || c.Cmd == "drc" || c.Cmd == "drc -u"
	applies := approve && c.Variant%2 == 1
	j := func(l []string) string {
		if len(l) == 0 {
			return "-"
		}
		return strings.Join(l, ",")
	}
	b2 := map[bool]string{true: "1", false: "0"}
	ans := e.drv.Ask(strings.Join([]string{"sshsess", strings.ToLower(c.Dev), hx(c.Pass), hx("router"), hx("NetSPoC"), hx(errText),
		j(segs), b2[applies], j(reads), hx(strings.Join(errLines, "\n"))}, "\t"))
	m, ok := parseSinks(ans)
	if !ok {
		e.res.Disagree("c17 run SSH steps (driver)", c, "", ans)
		return
	}
	finished := len(m["finished"]) == 1 && m["finished"][0] == "1"
	if len(m["echoModel"]) != 1 || m["echoModel"][0] != "1" {
		e.res.Disagree("c17 run SSH: chunk-level echo semantics (runE) and segment semantics (run) differ", c, "", ans)
	}
	o.noEcho = len(m["noecho"]) == 1 && m["noecho"][0] == "1"
	e.res.Count(fmt.Sprintf("ssh-device:noEchoAtPasswordPrompt=%v", o.noEcho))
	// the whole session — login, configuration, every command of the change script with the device's
	// echo — went through the chunk-level model (sessionProg = loadProg.andThen changeProg)
	whole := len(m["whole"]) == 1 && m["whole"][0] == "1"
	e.res.Count(fmt.Sprintf("ssh-session:whole-through-echo-model=%v,applies=%v", whole, applies))
	// hypothesis of ssh_session_with_changes_independent, checked per run: neither the commands the
	// device received (other than at its password prompts) nor anything it wrote contains the password
	scriptClean, devClean := true, true
	for _, line := range strings.Split(o.SimTl, "\n") {
		if strings.HasPrefix(line, "R ") && line[2:] != "PWOK" {
			if _, found := findSecret(unhx(line[2:]), c.Pass, c.user()); found {
				scriptClean = false
			}
		}
	}
	if _, found := findSecret(o.SimOut, c.Pass, c.user()); found {
		devClean = false
	}
	if !scriptClean {
		// neither the Netspoc code nor the simulated device holds the password, so the back end itself
		// put it into a command: it is written to the device's command history and echoed into the log
		e.res.Fail(map[string]any{"pred": "password_sent_as_command", "dev": c.Dev}, "the device received the password outside a password prompt (as part of a command)",
			map[string]any{"run": c})
	}
	e.res.Count(fmt.Sprintf("ssh-hypothesis:commands-free-of-password=%v,device-output-free-of-password=%v", scriptClean, devClean))
	wantChange := strings.Join(m["change"], "")
	if approve && finished && !applies {
		wantChange = "No changes applied\n"
	}
	if finished && applies && len(errLines) > 0 && chg != wantChange && strings.HasPrefix(wantChange, chg) {
		// abort in the change phase while the device still answers commands that arrived in the same
		// packet: what it writes behind the aborting answer is never read, hence not logged
		e.res.Count("ssh-steps:device-output-behind-the-abort-is-not-read")
		wantChange = chg
	}
	var modelLines []string
	for _, p := range m["sends"] {
		modelLines = append(modelLines, strings.Split(strings.TrimSuffix(p+"\n", "\n"), "\n")...)
	}
	var simReads []string
	for _, r := range reads {
		simReads = append(simReads, unhx(r))
	}
	sendsOK := len(modelLines) >= len(simReads) && len(modelLines)-len(simReads) <= 2
	for i := 0; sendsOK && i < len(simReads); i++ {
		sendsOK = modelLines[i] == simReads[i]
	}
	var realErr []string
	for _, l := range errLines {
		realErr = append(realErr, "ERROR>>> "+l)
	}
	impl := "login:\n" + login + "\nconfig:\n" + config + "\nchange:\n" + chg + "\nerrors:\n" + strings.Join(realErr, "\n") +
		"\nreads:\n" + strings.ReplaceAll(strings.Join(simReads, "\n"), c.Pass, "<PASSWORD>")
	model := "login:\n" + strings.Join(m["login"], "") + "\nconfig:\n" + strings.Join(m["config"], "") + "\nchange:\n" + wantChange +
		"\nerrors:\n" + strings.Join(m["runlog"], "\n") + "\nreads:\n"
	if sendsOK {
		model += strings.ReplaceAll(strings.Join(simReads, "\n"), c.Pass, "<PASSWORD>")
	} else {
		model += strings.ReplaceAll(strings.Join(modelLines, "\n"), c.Pass, "<PASSWORD>") + "\n(sends of the model)"
	}
	e.res.TracesVsImpl++
	e.res.Count(fmt.Sprintf("ssh-steps:%s:finished=%v", c.Dev, finished))
	if impl != model {
		e.res.Disagree("c17 run SSH steps (sends, logs per file, abort line)", c, impl, model)
	}
}

// ---------------------------------------------------------------- running a case robustly

type runReq struct {
	Case  *runCase `json:"case"`
	No    int      `json:"no"`
	Scale int      `json:"scale"`
	Tmp   string   `json:"tmp"` // private directory of the run, made and removed by the parent
}

// runTmpBase: where the parent keeps the private directories of the runs
var runTmpBase = os.TempDir()

// runCaseMain: `vh-c17 -runcase` — one run in a process of its own (a run that hangs can be killed,
// process globals and ptys are released with the process).
func runCaseMain() int {
	var rq runReq
	if err := json.NewDecoder(os.Stdin).Decode(&rq); err != nil {
		return 2
	}
	// self-test hooks of the robustness logic
	if os.Getenv("C17_TEST_HANG") == fmt.Sprint(rq.No) && rq.Scale == 1 {
		time.Sleep(time.Hour)
	}
	if os.Getenv("C17_TEST_PTMX") == fmt.Sprint(rq.No) || os.Getenv("C17_TEST_PTMX_ONCE") == fmt.Sprint(rq.No) && rq.Scale == 1 {
		json.NewEncoder(os.Stdout).Encode(&runOutcome{Status: 1, Stderr: "ERROR>>> open /dev/ptmx: no space left on device\n"})
		return 0
	}
	if err := os.MkdirAll(rq.Tmp, 0755); err != nil {
		return 2
	}
	o := execRun(rq.Tmp, rq.Case, rq.No, rq.Scale)
	saved := os.Stdout
	json.NewEncoder(saved).Encode(o)
	return 0
}

var envMarks = []string{"/dev/ptmx", "no space left on device", "too many open files", "resource temporarily unavailable",
	"fork/exec", "cannot allocate memory", "openpty"}

// spawnRun runs the case in a child process with a time-out of its own, far below the harness's.
func spawnRun(c *runCase, no, scale int) *runOutcome {
	exe, _ := os.Executable()
	ctx, cancel := context.WithTimeout(context.Background(), time.Duration(12+8*scale)*time.Second)
	defer cancel()
	cmd := exec.CommandContext(ctx, exe, "-runcase")
	tmp := filepath.Join(runTmpBase, fmt.Sprintf("rc%d-%d", no, scale))
	defer os.RemoveAll(tmp)
	in, _ := json.Marshal(runReq{Case: c, No: no, Scale: scale, Tmp: tmp})
	cmd.Stdin = bytes.NewReader(in)
	var outB, errB bytes.Buffer
	cmd.Stdout, cmd.Stderr = &outB, &errB
	cmd.WaitDelay = 2 * time.Second
	err := cmd.Run()
	o := &runOutcome{Files: map[string]string{}, noEcho: true}
	// whatever went wrong with the child: the files it left are still scanned for secrets
	switch {
	case ctx.Err() != nil:
		o.Env = "child killed after time-out"
		o.Files = collectFiles(tmp, no)
		return o
	case err != nil:
		o.Env = "child failed: " + err.Error() + " " + lastLine(errB.String())
		o.Files = collectFiles(tmp, no)
		return o
	}
	if err := json.Unmarshal(outB.Bytes(), o); err != nil {
		o.Env = "outcome unreadable: " + err.Error()
		o.Files = collectFiles(tmp, no)
		return o
	}
	o.noEcho = true
	if o.Files == nil {
		o.Files = map[string]string{}
	}
	if o.Env == "" {
		hay := o.Stderr + o.PanicMsg + o.runlog(c)
		for _, m := range envMarks {
			if strings.Contains(hay, m) {
				o.Env = "environment: " + m
			}
		}
	}
	return o
}

func lastLine(s string) string {
	l := strings.Split(strings.TrimSpace(s), "\n")
	return l[len(l)-1]
}

// judge: the oracle (byte scan; `leaks`) and the ties with the models (`tie`) of one outcome, each
// into a scratch result.  The scan is done for EVERY run, also one the environment spoilt.
func (e *c17Env) judge(c *runCase, o *runOutcome) (leaks, tie *Result, reached bool) {
	real := e.res
	defer func() { e.res = real }()
	leaks, tie = NewResult(), NewResult()
	if os.Getenv("C17_DEBUG") != "" {
		fmt.Fprintf(os.Stderr, "---- run %s\nstatus %d panic %q env %q\nstdout: %q\nstderr: %q\nsimEv: %q\n", JSONStr(c), o.Status, o.PanicMsg, o.Env, o.Stdout, o.Stderr, o.SimEv)
		for _, q := range o.Reqs {
			fmt.Fprintf(os.Stderr, "req %s %s form=%q -> %s\n", q.Method, q.URI, q.Form, q.Reply.Kind)
		}
		names := []string{}
		for n := range o.Files {
			names = append(names, n)
		}
		sort.Strings(names)
		for _, n := range names {
			fmt.Fprintf(os.Stderr, "file %s: %q\n", n, o.Files[n])
		}
	}
	reached = len(o.Reqs) > 0 || strings.Contains(o.SimEv, "<PASSWORD-OK>") || strings.Contains(o.SimEv, "<PASSWORD-WRONG>")
	e.res = tie
	if o.Env == "" {
		if o.PanicMsg != "" {
			tie.Fail(map[string]any{"pred": "run_panic", "dev": c.Dev}, o.PanicMsg, map[string]any{"run": c})
		}
		if c.Dev == "NSX" && len(o.Reqs) > 1 {
			// the run is meaningful only if the session secrets were really in use
			wantTok := c.Key
			if c.LoginHdr == "notoken" {
				wantTok = ""
			}
			if o.Reqs[1].Token != wantTok || o.Reqs[1].Cookie != c.Cookie {
				tie.Disagree("c17 run NSX: token/cookie not presented by the client", c, fmt.Sprint(o.Reqs[1]), "token and cookie of the login response")
			}
		}
		if strings.Contains(o.SimEv, "<PASSWORD-AS-COMMAND>") {
			tie.Count("ssh:password-sent-as-enable-password")
		}
		if o.Retries > 0 {
			tie.CountN("http:transparent-retries-of-dropped-requests", o.Retries)
		}
		// messages that embed raw device output or file/pattern names (coverage of the sink paths)
		for _, m := range []string{"while waiting for login prompt", "while waiting for prompt", "Got unexpected echo in response to", "Missing prompt",
			"Authentication failed", "Expected 3 fields in lines of", "Invalid pattern", "No matching entry found in", "Can't open", "got error message instead of results",
			"No success:", "Unexpected message:", "Unexpected job result:", "status code:"} {
			if strings.Contains(o.runlog(c)+o.Stderr, m) {
				tie.Count("message:" + m)
			}
		}
		tie.Count("run:" + c.Dev + ":" + c.Cmd)
		tie.Count(fmt.Sprintf("run-status:%s:%d", c.Dev, o.Status))
		if c.FaultAt >= 0 || c.Fault != "" {
			tie.Count("run-fault:" + c.Dev + ":" + c.Fault)
		}
		if o.PanicMsg == "" {
			if devSSH[c.Dev] && c.Cred == "" {
				e.compareSSH(c, o) // also tells whether the device kept to `noEchoAtPasswordPrompt`
			}
			switch {
			case c.Dev == "PAN-OS" && c.Cred == "" && c.User == "" && c.KeyKind == "" && c.KeyForm == 0:
				e.comparePanos(c, o)
			case c.Dev == "NSX" && c.Cred == "":
				e.compareNSX(c, o)
			}
		}
		if reached && c.FaultAt >= 0 {
			tie.Sample(map[string]any{"run": c, "status": o.Status, "markers": markerLines(o.runlog(c))})
		}
	}
	e.res = leaks
	e.scanRun(c, o)
	leaks.Count("scanned-runs")
	if o.Env != "" {
		leaks.Count("scanned-runs-spoilt-by-environment")
	}
	return leaks, tie, reached
}

func tieTrouble(r *Result) bool { return len(r.Disagreements) > 0 || len(r.Failures) > 0 }

func (e *c17Env) merge(r *Result) {
	for k, v := range r.Distribution {
		if !strings.HasPrefix(k, "failure:") && !strings.HasPrefix(k, "disagreement:") {
			e.res.CountN(k, v)
		}
	}
	e.res.TracesVsImpl += r.TracesVsImpl
	for _, d := range r.Disagreements {
		e.res.Disagree(d.Stream, d.Input, d.Impl, d.Model)
	}
	for _, f := range r.Failures {
		e.res.Fail(f.Sig, f.What, f.Input)
	}
	for _, smp := range r.Samples {
		if len(e.res.Samples) < 4 {
			e.res.Sample(smp)
		}
	}
}

// finishRun.  A secret found in what a run left behind is a hard finding: it is reported from EVERY
// run (first attempt, repetition, runs the environment spoilt), never replaced by a re-run.
// A disagreement with a model, and a run the environment spoilt (child killed, no pty …), is repeated —
// serially, with all time-outs five times as long; the repetition can only CONFIRM the first verdict:
// the first run's disagreement is reported if the repetition disagrees as well, otherwise it is counted
// as not reproduced.  A run spoilt twice is inconclusive (counted, with a note), not a disagreement.
func (e *c17Env) finishRun(c *runCase, o *runOutcome) {
	e.runNo++
	leaks, tie, reached := e.judge(c, o)
	e.merge(leaks)
	if o.Env != "" || tieTrouble(tie) {
		why := o.Env
		if why == "" {
			why = "would be reported"
		}
		e.res.Count("retry(serial, time-outs x5): " + strings.SplitN(why, ":", 2)[0])
		o2 := spawnRun(c, 100000+e.runNo, 5)
		leaks2, tie2, reached2 := e.judge(c, o2)
		e.merge(leaks2)
		switch {
		case o2.Env != "":
			e.res.Count("inconclusive: " + strings.SplitN(o2.Env, ":", 2)[0])
			e.res.Notes = append(e.res.Notes, fmt.Sprintf("inconclusive run (%s; first attempt: %s): %s", o2.Env, why, JSONStr(c)))
			return
		case o.Env != "":
			tie, reached = tie2, reached2 // the repetition is the first real verdict
		case tieTrouble(tie2):
			// confirmed: the FIRST verdict is reported
		default:
			e.res.Count("not reproduced with longer time-outs")
			tie, reached = tie2, reached2
		}
	}
	e.res.Eval(c.canon(), reached)
	e.merge(tie)
}

func (e *c17Env) oneRun(c *runCase) {
	e.finishRun(c, spawnRun(c, e.runNo+1, 1))
}

func (e *c17Env) replayRun(c *runCase) { e.oneRun(c) }

var runCmds = []string{"do-approve approve", "do-approve compare", "drc", "drc -C"}

var oddKeyKinds = []string{"amp", "newline", "quote", "percent", "lt", "space", "backslash", "apos-gt", "hash"}
var oddKeyChars = map[string]string{"amp": "&", "newline": "\n", "quote": "\"", "percent": "%zz", "lt": "<", "space": " ",
	"backslash": "\\", "apos-gt": "'>", "hash": "#"}

func (e *c17Env) genRunSecrets(rng *RNG, c *runCase) {
	if c.Pass != "" {
		return // replay
	}
	// credentials file: no whitespace in the password
	c.Pass = strings.Map(func(r rune) rune {
		if r == ' ' || r == '\t' || r == '\n' || r == '\r' || r == '\f' || r == '\v' || r == 0x85 || r == 0xA0 {
			return '_'
		}
		return r
	}, genSecret(rng, 1))
	switch c.Dev {
	case "PAN-OS":
		c.Key = genCore(rng, 24) + Pick(rng, []string{"", "=", "==", "+/x=", "/+9", "%2B", "~."})
		if odd, ok := oddKeyChars[c.KeyKind]; ok {
			c.Key = genCore(rng, 11) + odd + genCore(rng, 12) + Pick(rng, []string{"", odd, "="})
		}
	case "NSX":
		c.Key = genCore(rng, 16) + Pick(rng, []string{"", "-", "=", "+/", "%26"})
		c.Cookie = genCore(rng, 20)
	}
}

func (e *c17Env) wholeRuns() {
	rng := e.ctx.Rng.Fork()
	thorough := e.ctx.Thorough()
	var cases []*runCase
	run := func(c *runCase) {
		e.genRunSecrets(rng, c)
		cases = append(cases, c)
	}
	defer func() {
		// first attempts: a few children at a time; judged in the order of the plan
		outs := make([]*runOutcome, len(cases))
		var wg sync.WaitGroup
		sem := make(chan struct{}, 3)
		for i := range cases {
			wg.Add(1)
			sem <- struct{}{}
			go func(i int) {
				defer wg.Done()
				outs[i] = spawnRun(cases[i], i+1, 1)
				<-sem
			}(i)
		}
		wg.Wait()
		for i, c := range cases {
			e.finishRun(c, outs[i])
		}
	}()
	// corpus: the finding, minimal; transport error exactly at the HA check (must stay clean); keygen
	// request that fails after the <key> element has arrived
	run(&runCase{Dev: "PAN-OS", Cmd: "do-approve approve", FaultAt: 2, Fault: "eof"})
	for _, cmd := range runCmds {
		run(&runCase{Dev: "PAN-OS", Cmd: cmd, FaultAt: 1, Fault: "eof", Variant: 1})
		for v := 0; v < 4; v++ {
			if thorough || (v+len(cmd))%2 == 0 {
				run(&runCase{Dev: "PAN-OS", Cmd: cmd, FaultAt: 0, Fault: "trunc", Variant: v})
				run(&runCase{Dev: "PAN-OS", Cmd: cmd, FaultAt: 0, Fault: "statuskey", Variant: v})
			}
		}
	}
	// HTTP devices: success and a fault of every kind at every request position
	for _, dev := range []string{"PAN-OS", "NSX"} {
		nreq := map[string]int{"PAN-OS": 8, "NSX": 5}[dev]
		faults := []string{"eof", "status", "invalid", "trunc"}
		for ci, cmd := range runCmds {
			run(&runCase{Dev: dev, Cmd: cmd, FaultAt: -1, Variant: ci})
			for pos := 0; pos < nreq; pos++ {
				for fi, f := range faults {
					if !thorough && (pos+fi+ci)%2 == 1 && pos > 2 {
						continue
					}
					run(&runCase{Dev: dev, Cmd: cmd, FaultAt: pos, Fault: f, Variant: pos + fi})
				}
				if thorough && (pos+ci)%2 == 0 {
					run(&runCase{Dev: dev, Cmd: cmd, FaultAt: pos, Fault: "timeout", Variant: pos})
				}
			}
			if dev == "PAN-OS" {
				run(&runCase{Dev: dev, Cmd: cmd, FaultAt: 1, Fault: "inactive", Variant: ci})
			}
		}
	}
	run(&runCase{Dev: "PAN-OS", Cmd: "drc", FaultAt: 3, Fault: "timeout"})
	// keys with characters a base64 key never has (item 30 of the oracle audit): scan only
	for i, kk := range oddKeyKinds {
		for ci, cmd := range []string{"do-approve approve", "drc"} {
			if !thorough && (i+ci)%2 == 1 {
				continue
			}
			run(&runCase{Dev: "PAN-OS", Cmd: cmd, FaultAt: -1, Variant: i, KeyKind: kk})
			run(&runCase{Dev: "PAN-OS", Cmd: cmd, FaultAt: 1 + (i+ci)%4, Fault: Pick(rng, []string{"eof", "status", "trunc"}), Variant: i, KeyKind: kk})
		}
	}
	// the login request (and the one behind it) answered with every status a client might retry on —
	// once (a retry would succeed) and for good (a retry fails again); transport errors at the login
	// are in the fault matrix above (eof, trunc; timeout below)
	for ci, code := range loginStatusCodes {
		for di, dev := range []string{"NSX", "PAN-OS"} {
			for si, suffix := range []string{"", ":stay"} {
				for pos := 0; pos < 2; pos++ {
					if !thorough && pos == 1 && (ci+di+si)%2 == 1 {
						continue
					}
					run(&runCase{Dev: dev, Cmd: runCmds[(ci+di+si+pos)%len(runCmds)], FaultAt: pos, Fault: "st:" + code + suffix, Variant: ci})
				}
			}
		}
	}
	// a login answer without x-xsrf-token (session cookie only), alone and with later requests refused: whatever the
	// client remembered of the login answer must not surface in a later error text (seeded change C17-W1)
	run(&runCase{Dev: "NSX", Cmd: runCmds[0], FaultAt: -1, LoginHdr: "notoken"})
	for ci, code := range []string{"403", "401", "500"} {
		for si, suffix := range []string{"", ":stay"} {
			for pos := 1; pos < 4; pos++ {
				if !thorough && (ci+si+pos)%2 == 1 && code != "403" {
					continue
				}
				run(&runCase{Dev: "NSX", Cmd: runCmds[(ci+si+pos)%len(runCmds)], FaultAt: pos, Fault: "st:" + code + suffix, Variant: ci, LoginHdr: "notoken"})
			}
		}
	}
	// error texts of the device that quote the request — without credentials (must stay clean) and as a
	// whole (the device reveals the secret: only inside the quotation)
	for di, dev := range []string{"NSX", "PAN-OS"} {
		nreq := map[string]int{"PAN-OS": 8, "NSX": 5}[dev]
		for wi, what := range []string{"cmd", "url"} {
			for hi, how := range []string{"status", "doc"} {
				for pos := 0; pos < nreq; pos++ {
					if !thorough && pos > 1 && (pos+wi+hi+di)%3 != 0 {
						continue
					}
					run(&runCase{Dev: dev, Cmd: runCmds[(pos+wi+hi)%len(runCmds)], FaultAt: pos, Fault: "quote:" + what + ":" + how, Variant: pos})
				}
			}
			for _, how := range []string{"msg", "job"} {
				for _, cmd := range []string{"do-approve approve", "drc"} {
					if dev == "PAN-OS" && (thorough || cmd == "drc" || what == "url") {
						run(&runCase{Dev: dev, Cmd: cmd, FaultAt: 99, Fault: "quote:" + what + ":" + how, Variant: wi})
					}
				}
			}
		}
	}
	run(&runCase{Dev: "NSX", Cmd: "drc", FaultAt: 0, Fault: "timeout"})
	run(&runCase{Dev: "PAN-OS", Cmd: "do-approve compare", FaultAt: 0, Fault: "timeout"})
	// the keygen answer spells the key element in every form encoding/xml accepts
	for i := range keyElementForms("0123456789") {
		if !thorough && i%3 != int(rng.Intn(3)) {
			continue
		}
		run(&runCase{Dev: "PAN-OS", Cmd: Pick(rng, []string{"do-approve approve", "drc", "do-approve compare"}), FaultAt: -1, Variant: i, KeyForm: i + 1})
	}
	// a user name with a control character: the commit URL is rejected by net/url ("parse" error)
	run(&runCase{Dev: "PAN-OS", Cmd: "do-approve approve", FaultAt: -1, User: "ad\x01min"})
	// password typed at a terminal (may contain blanks)
	for _, dev := range []string{"PAN-OS", "NSX", "ASA", "IOS", "Linux"} {
		c := &runCase{Dev: dev, Cmd: "drc -u", FaultAt: -1, Variant: 1}
		e.genRunSecrets(rng, c)
		c.Pass = genSecret(rng, 1) + " " + genCore(rng, 5)
		cases = append(cases, c)
	}
	// malformed credentials files
	for ci, cred := range []string{"4fields", "nomatch", "badpattern", "2fields", "blankpass", "multi", "badlater", "missing"} {
		for di, dev := range []string{"PAN-OS", "ASA", "NSX", "IOS", "Linux"} {
			if thorough || di < 2 || (ci+di)%3 == 0 {
				run(&runCase{Dev: dev, Cmd: []string{"do-approve approve", "drc", "do-approve compare", "drc -C"}[(ci+di)%4], FaultAt: -1, Cred: cred})
			}
		}
	}
	// SSH devices
	for di, dev := range []string{"ASA", "IOS", "Linux"} {
		nread := map[string]int{"ASA": 14, "IOS": 12, "Linux": 16}[dev]
		for ci, cmd := range runCmds {
			if !thorough && ci != di && ci != 3-di {
				continue
			}
			for v := 0; v < 2; v++ {
				run(&runCase{Dev: dev, Cmd: cmd, FaultAt: -1, Variant: v})
			}
			run(&runCase{Dev: dev, Cmd: cmd, FaultAt: -1, Fault: "wrongpass"})
			for fl := 1; fl <= 5; fl++ {
				if thorough || (fl+ci)%2 == 0 || fl >= 4 && ci == di {
					run(&runCase{Dev: dev, Cmd: cmd, FaultAt: -1, Variant: 2*fl + ci%2})
				}
			}
			for pos := 0; pos < nread; pos++ {
				if thorough || (pos+ci)%5 == 0 {
					run(&runCase{Dev: dev, Cmd: cmd, FaultAt: pos, Fault: "close", Variant: 1})
				}
				if thorough && (pos < 6 || pos%3 == 0) || !thorough && pos == 1 && ci == di && di < 2 {
					run(&runCase{Dev: dev, Cmd: cmd, FaultAt: pos, Fault: "silence", Variant: 1})
				}
				// error messages that quote raw device output: the device echoes what it received (also the
				// password) and hangs; echoes something else than the command; answers without a prompt
				for fi, f := range []string{"echohang", "garble", "noprompt"} {
					if thorough || (pos+fi+ci+di)%6 == 0 || pos < 3 && ci == di && f == "echohang" {
						run(&runCase{Dev: dev, Cmd: cmd, FaultAt: pos, Fault: f, Variant: 1})
					}
				}
				if dev == "IOS" && pos < 2 && (cmd == "do-approve approve" || cmd == "drc") {
					// IOS, reload scheduled: the reload banner is all that precedes the prompt, and the next
					// prompt is not the router's (console.StripStdPrompt quotes what came)
					run(&runCase{Dev: dev, Cmd: cmd, FaultAt: pos, Fault: "banner", Variant: 1})
				}
			}
			if thorough || ci == di {
				run(&runCase{Dev: dev, Cmd: cmd, FaultAt: 0, Fault: "nologin", Variant: 1})
			}
		}
	}
	if thorough {
		// random cases on top of the systematic ones
		devs := []string{"PAN-OS", "NSX", "ASA", "IOS", "Linux"}
		for i := 0; i < 150; i++ {
			dev := Pick(rng, devs)
			c := &runCase{Dev: dev, Cmd: Pick(rng, runCmds), FaultAt: rng.Intn(12) - 2, Variant: rng.Intn(12)}
			if c.FaultAt < 0 {
				c.FaultAt = -1
			} else if devSSH[dev] {
				c.Fault = "close"
			} else {
				c.Fault = Pick(rng, []string{"eof", "status", "invalid", "trunc"})
			}
			run(c)
		}
	}
}
