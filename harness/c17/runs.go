package main

type runCase struct{}

func sshSimMain(args []string) int  { return 0 }
func workerMain(args []string) int  { return 0 }
func (e *c17Env) replayRun(r *runCase) {}
func (e *c17Env) wholeRuns()         {}
