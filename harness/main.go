// Command vh is the Go side of the verification machinery: per property it generates
// cases from one PRNG, runs the real implementation in-process (built with -tags verif
// against /repo's working tree), pipes the same cases through the Lean driver `nadrv`,
// compares the canonicalised outputs and runs the property's direct oracle.
package main

import (
	"encoding/json"
	"flag"
	"fmt"
	"os"
	"sort"
	"time"
)

type propFunc func(ctx *Ctx) *Result

var registry = map[string]propFunc{}

func register(id string, f propFunc) { registry[id] = f }

func main() {
	var (
		prop   = flag.String("prop", "", "property id (C01..C20)")
		tier   = flag.String("tier", "quick", "quick|thorough")
		seed   = flag.Uint64("seed", 1, "PRNG seed")
		out    = flag.String("out", "", "result JSON file")
		nadrv  = flag.String("nadrv", "/verif/lean/.lake/build/bin/nadrv", "Lean driver binary")
		replay = flag.String("replay", "", "replay file: run only this case")
		verif  = flag.String("verif", "/verif", "verif root")
	)
	flag.Parse()
	f, ok := registry[*prop]
	if !ok {
		ids := []string{}
		for k := range registry {
			ids = append(ids, k)
		}
		sort.Strings(ids)
		fmt.Fprintf(os.Stderr, "vh: unknown property %q (have %v)\n", *prop, ids)
		os.Exit(2)
	}
	ctx := &Ctx{Prop: *prop, Tier: *tier, Seed: *seed, Nadrv: *nadrv, Replay: *replay, Verif: *verif}
	ctx.rng = newRNG(*seed)
	start := time.Now()
	res := f(ctx)
	res.Property = *prop
	res.WallS = time.Since(start).Seconds()
	data, _ := json.MarshalIndent(res, "", " ")
	if *out != "" {
		if err := os.WriteFile(*out, data, 0644); err != nil {
			fmt.Fprintln(os.Stderr, err)
			os.Exit(2)
		}
	} else {
		os.Stdout.Write(data)
	}
}
