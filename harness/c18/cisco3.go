package main

// Second stream of C18 (round 3): the general model of cisco MergeSpoc (NA/Model/MergeCisco.lean).
//
// Generated ASA / IOS configurations with routes, ACLs and object-groups, crypto maps, dynamic maps,
// transform sets, group-policies, tunnel-groups, usernames, pools, interfaces with non-ACL subcommands
// (IPv4 file, IPv6 file, raw file) are parsed by the REAL parser and merged by the REAL MergeSpoc
// (hook device.VerifLoadSpocSteps); cisco.VerifConfDump shows the command tables of the three parsed
// files before the merge and of the result.  The three input tables go to `nadrv-c18 cisco3`, the
// model's merged table, warnings or error class are compared with the real ones.
// Oracle (no model): no Netspoc command lost (except the documented replacement by a raw crypto command
// with the same 5th/6th word), every raw command merged, warned about or an error; a raw non-simple
// object reached twice from the raw anchors is an error.

import (
	"fmt"
	"os"
	"path/filepath"
	"regexp"
	"sort"
	"strconv"
	"strings"

	. "verifharness/vhlib"

	"github.com/hknutzen/Netspoc-Approve/go/pkg/cisco"
	"github.com/hknutzen/Netspoc-Approve/go/pkg/device"
	"github.com/hknutzen/Netspoc-Approve/go/pkg/deviceconf"
)

type G3Case struct {
	Model string `json:"model"` // ASA | IOS
	V4    string `json:"v4"`
	V6    string `json:"v6"`
	Raw   string `json:"raw"`
	// the raw file contains a line that is no known command: the parser has to reject the file
	ExpectParseErr bool `json:"expectParseErr,omitempty"`
	// the raw file has a sub-command that is indented less than the first sub-command of its block: "Bad indentation"
	ExpectBadIndent bool `json:"expectBadIndent,omitempty"`
}

const (
	cFS = "\x1c"
	cGS = "\x1d"
	cRS = "\x1e"
	cUS = "\x1f"
)

type g3Table struct {
	isRaw bool
	cmds  []cisco.VerifC18Cmd
}

func g3Refs(c cisco.VerifC18Cmd) string {
	var l []string
	for i, r := range c.Ref {
		p := "?"
		if i < len(c.RefPrefix) {
			p = c.RefPrefix[i]
		}
		l = append(l, p+cUS+r)
	}
	return strings.Join(l, cRS)
}

// g3EncIn: input encoding for the driver (9 fields per record).
func g3EncIn(t *g3Table) string {
	if t == nil {
		return ""
	}
	var recs []string
	one := func(kind string, c cisco.VerifC18Cmd) {
		recs = append(recs, strings.Join([]string{kind, c.Prefix, c.Key, c.TypPrefix, c.Parsed, c.Name,
			strconv.Itoa(c.Seq), b2s(c.Append) + b2s(c.Anchor) + b2s(c.Simple), g3Refs(c)}, cGS))
	}
	for _, c := range t.cmds {
		one("T", c)
		for _, s := range c.Sub {
			one("S", s)
		}
	}
	return strings.Join(recs, cFS)
}

// g3EncOut: the text the driver prints for a merged table (8 fields per record).
func g3EncOut(t *g3Table) string {
	var recs []string
	one := func(kind string, c cisco.VerifC18Cmd) {
		recs = append(recs, strings.Join([]string{kind, c.Prefix, c.Key, c.Parsed, c.Name,
			strconv.Itoa(c.Seq), b2s(c.Append), g3Refs(c)}, cGS))
	}
	for _, c := range t.cmds {
		one("T", c)
		for _, s := range c.Sub {
			one("S", s)
		}
	}
	return strings.Join(recs, cFS)
}

func g3Show(s string) string {
	r := strings.NewReplacer(cFS, " ;; ", cGS, "|", cRS, ",", cUS, ":", "\t", " => ")
	return r.Replace(s)
}

type g3Real struct {
	stages  map[string]*g3Table
	aborted bool
	perr    string // error of loadSpocFile (outside MergeSpoc)
	stderr  string
	panicM  string
}

func g3Run(c G3Case) g3Real {
	files := map[string]string{"spoc.info": `{"model":"` + c.Model + `"}` + "\n"}
	if c.V4 != "" {
		files["spoc"] = c.V4
	}
	if c.V6 != "" {
		files["ipv6/spoc"] = c.V6
	}
	if c.Raw != "" {
		files["spoc.raw"] = c.Raw
	}
	resetCaseDir()
	WriteFiles(caseDir, files)
	r := g3Real{stages: map[string]*g3Table{}}
	_, stderr, _, panicMsg := Captured(func() int {
		aborted, err := device.VerifLoadSpocSteps(filepath.Join(caseDir, "spoc"), func(stage string, cf deviceconf.Config) {
			isRaw, cmds := cisco.VerifConfDump(cf)
			r.stages[stage] = &g3Table{isRaw, cmds}
		})
		r.aborted = aborted
		if err != nil {
			r.perr = err.Error()
		}
		return 0
	})
	r.stderr, r.panicM = stderr, panicMsg
	return r
}

var (
	g3ReOnce    = regexp.MustCompile(`Must reference '(.*) (\S+)' only once in raw`)
	g3ReClash   = regexp.MustCompile(`Name clash for '(.*) (\S+)' from raw`)
	g3ReNotSup  = regexp.MustCompile(`Command '(.*)' not supported in raw file`)
	g3RePeer    = regexp.MustCompile(`Missing peer or dynamic in crypto map (\S+) (\d+)`)
	g3ReWarning = regexp.MustCompile(`(?m)^WARNING>>> (Ignoring unused '.*' in raw)$`)
)

// g3Canon: what the real MergeSpoc did, in the driver's output syntax.
func (r g3Real) canon() string {
	if r.panicM != "" {
		return "err panic"
	}
	if r.aborted {
		e := r.stderr
		if m := g3ReOnce.FindStringSubmatch(e); m != nil {
			return "err onlyOnce " + m[1] + cUS + m[2]
		}
		if m := g3ReClash.FindStringSubmatch(e); m != nil {
			return "err nameClash " + m[1] + cUS + m[2]
		}
		if m := g3ReNotSup.FindStringSubmatch(e); m != nil {
			return "err notSupported " + m[1]
		}
		if m := g3RePeer.FindStringSubmatch(e); m != nil {
			return "err missingPeer " + m[1] + cUS + m[2]
		}
		return "err other " + strings.TrimSpace(e)
	}
	fin := r.stages["v4+v6+raw"]
	if fin == nil {
		return "incomplete " + r.perr
	}
	var ws []string
	for _, m := range g3ReWarning.FindAllStringSubmatch(r.stderr, -1) {
		ws = append(ws, m[1])
	}
	return "ok\t" + g3EncOut(fin) + "\t" + strings.Join(ws, cRS)
}

// ---------------------------------------------------------------- oracle on the dumped tables

func g3CryptoKey(parsed string) string {
	t := strings.Split(parsed, " ")
	k := []string{"", ""}
	if len(t) > 4 {
		copy(k, t[4:])
	}
	return k[0] + " " + k[1]
}

func g3Oracle(r g3Real) []violation {
	var vs []violation
	if r.panicM != "" {
		return []violation{{"merge_panic", "runtime panic in MergeSpoc: " + r.panicM}}
	}
	fin := r.stages["v4+v6+raw"]
	if r.aborted || fin == nil {
		return nil // a diagnostic was given
	}
	warned := map[string]bool{}
	for _, m := range g3ReWarning.FindAllStringSubmatch(r.stderr, -1) {
		warned[m[1]] = true
	}
	// what the result holds, per prefix: parsed texts of toplevel commands; subcommands per (prefix, parsed)
	have := map[string]map[string]int{}
	haveSub := map[string]map[string]bool{}
	finKeys := map[string]bool{}
	for _, c := range fin.cmds {
		if have[c.Prefix] == nil {
			have[c.Prefix] = map[string]int{}
		}
		have[c.Prefix][c.Parsed]++
		finKeys[c.Prefix+cUS+c.Key] = true
		for _, s := range c.Sub {
			k := c.Prefix + cUS + c.Parsed
			if haveSub[k] == nil {
				haveSub[k] = map[string]bool{}
			}
			haveSub[k][s.Parsed] = true
		}
	}
	subsOfPrefix := func(prefix string) map[string]bool {
		m := map[string]bool{}
		for _, c := range fin.cmds {
			if c.Prefix == prefix {
				for _, s := range c.Sub {
					m[s.Parsed] = true
				}
			}
		}
		return m
	}
	// referential integrity of the result: as many names as $REF places, every name defined
	chk := func(top cisco.VerifC18Cmd, c cisco.VerifC18Cmd) {
		if n := strings.Count(c.Parsed, "$REF"); n != len(c.Ref) {
			vs = append(vs, violation{"merged_reference_broken", fmt.Sprintf("%q has %d reference places and %d names", c.Parsed, n, len(c.Ref))})
			return
		}
		for i, n := range c.Ref {
			if i < len(c.RefPrefix) && !finKeys[c.RefPrefix[i]+cUS+n] {
				vs = append(vs, violation{"merged_reference_broken", fmt.Sprintf("%s / %q references undefined %s %s", top.Parsed, c.Parsed, c.RefPrefix[i], n)})
			}
		}
	}
	for _, c := range fin.cmds {
		chk(c, c)
		for _, s := range c.Sub {
			chk(c, s)
		}
	}
	rawT, v6T := r.stages["raw"], r.stages["v6"]
	// crypto keys of raw / IPv6 commands: they may replace a Netspoc command (documented)
	replKeys := map[string]bool{}
	for _, t := range []*g3Table{rawT, v6T} {
		if t != nil {
			for _, c := range t.cmds {
				if c.Prefix == "crypto map" || c.Prefix == "crypto dynamic-map" {
					replKeys[c.Prefix+cUS+g3CryptoKey(c.Parsed)] = true
				}
			}
		}
	}
	// (1) no Netspoc command lost
	if v4 := r.stages["v4"]; v4 != nil {
		for _, c := range v4.cmds {
			if have[c.Prefix][c.Parsed] > 0 {
				continue
			}
			if (c.Prefix == "crypto map" || c.Prefix == "crypto dynamic-map") && replKeys[c.Prefix+cUS+g3CryptoKey(c.Parsed)] {
				continue
			}
			if c.Prefix == "ip access-list extended" {
				continue // the header is taken from the raw block; lines are checked below
			}
			vs = append(vs, violation{"netspoc_command_lost", fmt.Sprintf("IPv4 command lost: %s %q", c.Prefix, c.Parsed)})
		}
		for _, c := range v4.cmds {
			all := subsOfPrefix(c.Prefix)
			for _, s := range c.Sub {
				if !all[s.Parsed] {
					vs = append(vs, violation{"netspoc_command_lost", fmt.Sprintf("IPv4 subcommand lost: %s / %q", c.Parsed, s.Parsed)})
				}
			}
		}
	}
	if rawT == nil {
		return vs
	}
	// reachability of raw objects from the raw anchors, and how often each is reached
	byKey := map[string][]cisco.VerifC18Cmd{}
	for _, c := range rawT.cmds {
		byKey[c.Prefix+cUS+c.Key] = append(byKey[c.Prefix+cUS+c.Key], c)
	}
	reached := map[string]int{}
	var visit func(c cisco.VerifC18Cmd)
	visitRefs := func(c cisco.VerifC18Cmd) {
		for i, n := range c.Ref {
			if i >= len(c.RefPrefix) {
				continue
			}
			k := c.RefPrefix[i] + cUS + n
			reached[k]++
			if reached[k] == 1 {
				for _, rc := range byKey[k] {
					visit(rc)
				}
			}
		}
	}
	visit = func(c cisco.VerifC18Cmd) {
		if c.Prefix == "ip access-list extended" {
			return
		}
		visitRefs(c)
		for _, s := range c.Sub {
			visitRefs(s)
		}
	}
	for _, c := range rawT.cmds {
		if c.Anchor {
			visit(c)
		}
	}
	for k, n := range reached {
		l := byKey[k]
		if n >= 2 && len(l) > 0 && !l[0].Simple {
			vs = append(vs, violation{"raw_object_bound_twice_not_reported", fmt.Sprintf("raw object %s is referenced %d times; no error", g3Show(k), n)})
		}
	}
	// (2) every raw command merged or warned about
	for _, c := range rawT.cmds {
		k := c.Prefix + cUS + c.Key
		w := "Ignoring unused '" + c.TypPrefix + " " + c.Name + "' in raw"
		if !c.Anchor && reached[k] == 0 {
			if !warned[w] {
				vs = append(vs, violation{"raw_unbound_object_not_reported", fmt.Sprintf("raw object %s is not referenced; no warning", g3Show(k))})
			}
			continue
		}
		if c.Prefix == "ip access-list extended" {
			all := subsOfPrefix(c.Prefix)
			for _, s := range c.Sub {
				if !all[s.Parsed] {
					vs = append(vs, violation{"raw_command_dropped_silently", fmt.Sprintf("raw ACL line lost: %q", s.Parsed)})
				}
			}
			continue
		}
		if have[c.Prefix][c.Parsed] == 0 {
			vs = append(vs, violation{"raw_command_dropped_silently", fmt.Sprintf("raw command lost: %s %q", c.Prefix, c.Parsed)})
			continue
		}
		all := subsOfPrefix(c.Prefix)
		for _, s := range c.Sub {
			if !all[s.Parsed] {
				pred := "raw_subcommand_dropped_silently"
				vs = append(vs, violation{pred, fmt.Sprintf("raw subcommand lost: %s / %q", c.Parsed, s.Parsed)})
			}
		}
	}
	return vs
}

// ---------------------------------------------------------------- oracle over the generator's TEXT lines
//
// Independent of the parser: the lines are read from the generated text, brought into the normal form the
// command tables of asa/cmd-info.go and ios/cmd-info.go describe ($NAME, $SEQ, $REF), and looked up in the
// merged table.  "Every line of every part is in the merged result (in the object a referencing line names),
// or an error / a warning names it."

type g3TL struct {
	top    bool
	text   string
	app    bool
	parent int // index of the toplevel line of a subcommand
}

func g3TextLines(text string) []g3TL {
	var out []g3TL
	app := false
	parent := -1
	for _, l := range strings.Split(text, "\n") {
		t := strings.TrimRight(l, " \t\r")
		if t == "" || t[0] == '!' {
			continue
		}
		if t == "[APPEND]" {
			app = true
			continue
		}
		if t[0] != ' ' {
			parent = len(out)
			out = append(out, g3TL{top: true, text: t, app: app, parent: -1})
		} else {
			out = append(out, g3TL{top: false, text: strings.TrimSpace(t), app: app, parent: parent})
		}
	}
	return out
}

type g3Sk struct {
	prefix string      // lookup prefix of the (parent) toplevel command
	skel   string      // text with $NAME / $SEQ / $REF
	name   string      // name of the object the line belongs to
	refs   [][2]string // referenced (prefix, name) in the order of the $REF places
}

// g3Skel: normal form of one line. ok=false: a line this oracle does not know (generator bug).
func g3Skel(model string, parentTop string, line string, isSub bool) (g3Sk, bool) {
	w := strings.Fields(line)
	join := func(l []string) string { return strings.Join(l, " ") }
	if isSub {
		p, ok := g3Skel(model, "", parentTop, false)
		if !ok {
			return g3Sk{}, false
		}
		sk := g3Sk{prefix: p.prefix, name: p.name, skel: line}
		ref := func(pfx string, i int) {
			sk.refs = append(sk.refs, [2]string{pfx, w[i]})
			w[i] = "$REF"
			sk.skel = join(w)
		}
		switch {
		case len(w) == 3 && w[0] == "default-group-policy":
			return g3Sk{}, false
		case len(w) == 2 && w[0] == "default-group-policy":
			ref("group-policy", 1)
		case len(w) == 3 && w[0] == "vpn-filter" && w[1] == "value":
			ref("access-list", 2)
		case len(w) == 3 && w[0] == "address-pools" && w[1] == "value":
			ref("ip local pool", 2)
		case len(w) == 2 && w[0] == "vpn-group-policy":
			ref("group-policy", 1)
		case len(w) == 4 && w[0] == "ip" && w[1] == "access-group":
			ref("ip access-list extended", 2)
		case len(w) == 5 && w[0] == "set" && w[1] == "ip" && w[2] == "access-group":
			ref("ip access-list extended", 3)
		case len(w) == 3 && w[0] == "crypto" && w[1] == "map" && p.prefix == "interface":
			ref("crypto map", 2)
		}
		return sk, true
	}
	switch {
	case w[0] == "route" || (len(w) > 1 && w[0] == "ipv6" && w[1] == "route"):
		pfx := "route"
		if w[0] == "ipv6" {
			pfx = "ipv6 route"
		}
		return g3Sk{prefix: pfx, skel: line}, true
	case len(w) > 1 && w[0] == "ip" && w[1] == "route":
		return g3Sk{prefix: "ip route", skel: line}, true
	case len(w) == 3 && w[0] == "object-group":
		return g3Sk{prefix: "object-group", skel: "object-group " + w[1] + " $NAME", name: w[2]}, true
	case len(w) > 3 && w[0] == "access-list":
		sk := g3Sk{prefix: "access-list", name: w[1]}
		w[1] = "$NAME"
		for i := 0; i+1 < len(w); i++ {
			if w[i] == "object-group" {
				sk.refs = append(sk.refs, [2]string{"object-group", w[i+1]})
				w[i+1] = "$REF"
			}
		}
		sk.skel = join(w)
		return sk, true
	case len(w) == 5 && w[0] == "access-group":
		sk := g3Sk{prefix: "access-group", refs: [][2]string{{"access-list", w[1]}}}
		w[1] = "$REF"
		sk.skel = join(w)
		return sk, true
	case len(w) > 5 && w[0] == "crypto" && w[1] == "ipsec" && w[3] == "transform-set":
		sk := g3Sk{prefix: "crypto ipsec " + w[2] + " transform-set", name: w[4]}
		w[4] = "$NAME"
		sk.skel = join(w)
		return sk, true
	case len(w) == 5 && w[0] == "crypto" && w[1] == "ipsec" && w[3] == "ipsec-proposal":
		return g3Sk{prefix: "crypto ipsec ikev2 ipsec-proposal", name: w[4], skel: "crypto ipsec ikev2 ipsec-proposal $NAME"}, true
	case len(w) == 5 && w[0] == "crypto" && w[1] == "map" && w[3] == "interface":
		sk := g3Sk{prefix: "crypto map interface", refs: [][2]string{{"crypto map", w[2]}}}
		w[2] = "$REF"
		sk.skel = join(w)
		return sk, true
	case len(w) >= 5 && w[0] == "crypto" && (w[1] == "map" || w[1] == "dynamic-map"):
		sk := g3Sk{prefix: "crypto " + w[1], name: w[2]}
		w[2], w[3] = "$NAME", "$SEQ"
		switch {
		case len(w) == 7 && w[4] == "match" && w[5] == "address":
			sk.refs = append(sk.refs, [2]string{"access-list", w[6]})
			w[6] = "$REF"
		case len(w) == 7 && w[4] == "ipsec-isakmp" && w[5] == "dynamic":
			sk.refs = append(sk.refs, [2]string{"crypto dynamic-map", w[6]})
			w[6] = "$REF"
		case len(w) >= 8 && w[4] == "set" && w[6] == "transform-set":
			for i := 7; i < len(w); i++ {
				sk.refs = append(sk.refs, [2]string{"crypto ipsec " + w[5] + " transform-set", w[i]})
				w[i] = "$REF"
			}
		case len(w) == 7 && w[4] == "set" && w[5] == "pfs" && w[6] == "group14":
			w = w[:6] // the default value is stripped by the parser
		}
		sk.skel = join(w)
		return sk, true
	case len(w) > 4 && w[0] == "ip" && w[1] == "local" && w[2] == "pool":
		sk := g3Sk{prefix: "ip local pool", name: w[3]}
		w[3] = "$NAME"
		sk.skel = join(w)
		return sk, true
	case len(w) == 3 && (w[0] == "group-policy" || w[0] == "username"):
		sk := g3Sk{prefix: w[0], name: w[1]}
		w[1] = "$NAME"
		sk.skel = join(w)
		return sk, true
	case len(w) >= 3 && w[0] == "tunnel-group" && w[1] != "":
		sk := g3Sk{prefix: "tunnel-group", name: w[1]}
		w[1] = "$NAME"
		sk.skel = join(w)
		return sk, true
	case len(w) == 3 && w[0] == "tunnel-group-map":
		sk := g3Sk{prefix: "tunnel-group-map", refs: [][2]string{{"tunnel-group", w[2]}}}
		w[2] = "$REF"
		sk.skel = join(w)
		return sk, true
	case len(w) == 4 && w[0] == "ip" && w[1] == "access-list" && w[2] == "extended":
		return g3Sk{prefix: "ip access-list extended", name: w[3], skel: "ip access-list extended $NAME"}, true
	case len(w) == 2 && w[0] == "interface":
		return g3Sk{prefix: "interface", skel: line}, true
	}
	return g3Sk{}, false
}

type g3Text struct {
	tl []g3TL
	sk []g3Sk
	ok []bool
}

func g3ReadText(model, text string) g3Text {
	t := g3Text{tl: g3TextLines(text)}
	for _, l := range t.tl {
		parent := ""
		if !l.top && l.parent >= 0 {
			parent = t.tl[l.parent].text
		}
		sk, ok := g3Skel(model, parent, l.text, !l.top)
		t.sk = append(t.sk, sk)
		t.ok = append(t.ok, ok)
	}
	return t
}

// g3TextOracle: the checks on text level. `fin` is the merged table, `warned` the warnings.
func g3TextOracle(c G3Case, fin *g3Table, warned map[string]bool, count func(string)) []violation {
	var vs []violation
	// what the result holds
	top := map[string]map[string][]cisco.VerifC18Cmd{} // prefix -> skeleton -> commands
	subs := map[string]map[string][]cisco.VerifC18Cmd{} // prefix -> skeleton of subcommand -> subcommands
	obj := map[string][]cisco.VerifC18Cmd{}             // prefix US key -> commands
	for _, cm := range fin.cmds {
		if top[cm.Prefix] == nil {
			top[cm.Prefix], subs[cm.Prefix] = map[string][]cisco.VerifC18Cmd{}, map[string][]cisco.VerifC18Cmd{}
		}
		top[cm.Prefix][cm.Parsed] = append(top[cm.Prefix][cm.Parsed], cm)
		obj[cm.Prefix+cUS+cm.Key] = append(obj[cm.Prefix+cUS+cm.Key], cm)
		for _, sc := range cm.Sub {
			subs[cm.Prefix][sc.Parsed] = append(subs[cm.Prefix][sc.Parsed], sc)
		}
	}
	objHas := func(pfx, key string, skTop bool, skel string) bool {
		for _, cm := range obj[pfx+cUS+key] {
			if skTop && cm.Parsed == skel {
				return true
			}
			if !skTop {
				for _, sc := range cm.Sub {
					if sc.Parsed == skel {
						return true
					}
				}
			}
		}
		return false
	}
	parts := []g3Text{g3ReadText(c.Model, c.V4), g3ReadText(c.Model, c.V6), g3ReadText(c.Model, c.Raw)}
	rawT := parts[2]
	// keys of raw / IPv6 crypto commands: they may replace a Netspoc command (documented)
	repl := map[string]bool{}
	for _, pi := range []int{1, 2} {
		for i, sk := range parts[pi].sk {
			if parts[pi].ok[i] && parts[pi].tl[i].top && (sk.prefix == "crypto map" || sk.prefix == "crypto dynamic-map") {
				repl[sk.prefix+cUS+g3CryptoKey(sk.skel)] = true
			}
		}
	}
	present := func(tl g3TL, sk g3Sk) bool {
		if tl.top {
			return len(top[sk.prefix][sk.skel]) > 0
		}
		return len(subs[sk.prefix][sk.skel]) > 0
	}
	for pi, pt := range parts {
		for i, tl := range pt.tl {
			if !pt.ok[i] {
				count("g3:text-line-unknown-to-oracle")
				continue
			}
			sk := pt.sk[i]
			count("g3:text-lines-judged")
			if present(tl, sk) {
				continue
			}
			if pi < 2 {
				if tl.top && repl[sk.prefix+cUS+g3CryptoKey(sk.skel)] {
					continue
				}
				if sk.prefix == "ip access-list extended" && tl.top {
					continue // the header comes from the raw block
				}
				vs = append(vs, violation{"netspoc_line_missing_in_result", fmt.Sprintf("line of part %d missing: %q", pi, tl.text)})
				continue
			}
			if sk.name != "" && warned["Ignoring unused '"+sk.prefix+" "+sk.name+"' in raw"] {
				continue
			}
			vs = append(vs, violation{"raw_line_missing_in_result", fmt.Sprintf("raw line neither merged nor named by a warning: %q", tl.text)})
		}
	}
	// raw lines with references: the object named in the raw file is found, complete, under the name the
	// corresponding line of the result names
	rawObj := map[string][]int{} // prefix US name -> indices of the raw lines of that object (toplevel and sub)
	for i, tl := range rawT.tl {
		if !rawT.ok[i] || rawT.sk[i].name == "" {
			continue
		}
		k := rawT.sk[i].prefix + cUS + rawT.sk[i].name
		rawObj[k] = append(rawObj[k], i)
		_ = tl
	}
	for i, tl := range rawT.tl {
		if !rawT.ok[i] || len(rawT.sk[i].refs) == 0 {
			continue
		}
		sk := rawT.sk[i]
		if sk.name != "" && warned["Ignoring unused '"+sk.prefix+" "+sk.name+"' in raw"] {
			continue // the referencing object itself is reported as unused
		}
		var cands []cisco.VerifC18Cmd
		if tl.top {
			cands = top[sk.prefix][sk.skel]
		} else {
			cands = subs[sk.prefix][sk.skel]
		}
		if len(cands) == 0 {
			continue // reported above
		}
		for ri, ref := range sk.refs {
			lines := rawObj[ref[0]+cUS+ref[1]]
			if len(lines) == 0 {
				continue // the raw file does not define it
			}
			landed := false
			for _, cand := range cands {
				if ri >= len(cand.Ref) {
					continue
				}
				all := true
				for _, li := range lines {
					if !objHas(ref[0], cand.Ref[ri], rawT.tl[li].top, rawT.sk[li].skel) {
						all = false
					}
				}
				landed = landed || all
			}
			count("g3:references-followed")
			if !landed {
				vs = append(vs, violation{"raw_object_not_under_referenced_name",
					fmt.Sprintf("%q names %s %s, but no object the result references at that place holds all its lines", tl.text, ref[0], ref[1])})
			}
		}
	}
	// placement laws of ACLs, from the text alone
	aclPrefix, dev := "access-list", "asa"
	if c.Model == "IOS" {
		aclPrefix, dev = "ip access-list extended", "ios"
	}
	kindOf := func(skel string) string {
		switch {
		case dev == "asa" && skel == "access-list $NAME extended deny ip any6 any6":
			return "6"
		case dev == "asa" && strings.Contains(skel, "$NAME extended permit"):
			return "p"
		case dev == "ios" && strings.HasPrefix(skel, "permit "):
			return "p"
		}
		return "d"
	}
	for key := range obj {
		pfx, name, _ := strings.Cut(key, cUS)
		if pfx != aclPrefix {
			continue
		}
		var res []string
		for _, cm := range obj[key] {
			if dev == "asa" {
				res = append(res, cm.Parsed)
			} else {
				for _, sc := range cm.Sub {
					res = append(res, sc.Parsed)
				}
			}
		}
		inRes := map[string]int{}
		for _, r := range res {
			inRes[r]++
		}
		ids := map[string]int{}
		dupl := false
		var srcs [3][]Line
		multi := false
		for pi, pt := range parts {
			names := map[string]bool{}
			for i, tl := range pt.tl {
				if !pt.ok[i] || pt.sk[i].prefix != aclPrefix || (dev == "asa") != tl.top {
					continue
				}
				sk := pt.sk[i]
				if inRes[sk.skel] == 0 {
					continue
				}
				// a line with the same text in another ACL of that part does not belong here: take the ACL whose lines all are here
				allHere := true
				for j, tj := range pt.tl {
					if pt.ok[j] && pt.sk[j].prefix == aclPrefix && pt.sk[j].name == sk.name && (dev == "asa") == tj.top && inRes[pt.sk[j].skel] == 0 {
						allHere = false
					}
				}
				if !allHere {
					continue
				}
				names[sk.name] = true
				if _, seen := ids[sk.skel]; seen {
					dupl = true
				}
				ids[sk.skel] = len(ids) + 1
				srcs[pi] = append(srcs[pi], Line{ID: ids[sk.skel], Kind: kindOf(sk.skel), App: tl.app && pi == 2, Known: true})
			}
			multi = multi || len(names) > 1
		}
		if dupl || multi {
			count("g3:acl-law-skipped-equal-lines-or-two-sources")
			continue
		}
		var toks []string
		for _, r := range res {
			if kindOf(r) == "6" {
				toks = append(toks, "any6")
			} else {
				toks = append(toks, strconv.Itoa(ids[r]))
			}
		}
		count("g3:acl-laws-judged")
		vs = append(vs, checkList(dev, toks, srcs[0], srcs[1], srcs[2], c.Model+" ACL "+name+" (text)")...)
	}
	return vs
}

// ---------------------------------------------------------------- generator

type g3Gen struct{ r *RNG }

// g3Indent: indentation of the raw file's sub-commands (chosen by a hash of the case, no random draws).
// 1 case in 25: every sub-command two columns deeper (the first sub-command of a block sets the depth: same result);
// 1 case in 25: the first sub-command of a block with at least two deeper than the second: the parser has to refuse.
func g3Indent(c *G3Case) {
	if c.ExpectParseErr || c.Raw == "" {
		return
	}
	h := g3Hash("indent" + c.V4 + "\x00" + c.V6 + "\x00" + c.Raw)
	lines := strings.Split(strings.TrimSuffix(c.Raw, "\n"), "\n")
	switch h % 25 {
	case 1:
		for i, l := range lines {
			if strings.HasPrefix(l, " ") {
				lines[i] = "  " + l
			}
		}
	case 2:
		done := false
		for i := 0; i+1 < len(lines) && !done; i++ {
			if strings.HasPrefix(lines[i], " ") && strings.HasPrefix(lines[i+1], " ") && (i == 0 || !strings.HasPrefix(lines[i-1], " ")) {
				lines[i] = "  " + lines[i]
				done = true
			}
		}
		if !done {
			return
		}
		c.ExpectBadIndent = true
	default:
		return
	}
	c.Raw = strings.Join(lines, "\n") + "\n"
}

func g3Hash(t string) uint32 {
	h := uint32(2166136261)
	for i := 0; i < len(t); i++ {
		h = (h ^ uint32(t[i])) * 16777619
	}
	return h
}

func (g *g3Gen) pick(l ...string) string { return l[g.r.Intn(len(l))] }

func (g *g3Gen) aclLines(name string, n int, v6 bool, groups []string, app bool) []string {
	var l []string
	any := "any4"
	if v6 {
		any = "any6"
	}
	for i := 0; i < n; i++ {
		act := g.pick("permit", "permit", "deny")
		src := fmt.Sprintf("host 10.%d.%d.%d", g.r.Intn(3), g.r.Intn(200), 1+g.r.Intn(200))
		if v6 {
			src = fmt.Sprintf("host 1000::%x", 1+g.r.Intn(60000))
		}
		if len(groups) > 0 && g.r.Chance(22) {
			src = "object-group " + Pick(g.r, groups)
		}
		l = append(l, fmt.Sprintf("access-list %s extended %s ip %s %s", name, act, src, any))
	}
	if app {
		l = append(l, fmt.Sprintf("access-list %s extended deny ip %s %s", name, any, any))
	}
	return l
}

// genASA builds the three files.
func (g *g3Gen) genASA() G3Case {
	r := g.r
	var v4, v6, raw, rawApp []string
	add := func(dst *[]string, lines ...string) { *dst = append(*dst, lines...) }
	// ---- routes
	for i := 0; i < r.Intn(3); i++ {
		add(&v4, fmt.Sprintf("route if%d 10.%d.0.0 255.255.0.0 10.1.2.%d", r.Intn(2), 20+r.Intn(4), 1+r.Intn(3)))
	}
	for i := 0; i < r.Intn(3); i++ {
		add(&raw, fmt.Sprintf("route if%d 10.%d.0.0 255.255.0.0 10.1.2.%d", r.Intn(2), 20+r.Intn(4), 1+r.Intn(3)))
	}
	if r.Chance(30) {
		add(&v6, fmt.Sprintf("ipv6 route if0 10::%d:0/120 10::2:%d", r.Intn(4), 1+r.Intn(3)))
		if r.Chance(50) {
			add(&raw, fmt.Sprintf("ipv6 route if0 10::%d:0/120 10::2:%d", r.Intn(4), 1+r.Intn(3)))
		}
	}
	// ---- interface ACLs with object-groups
	if r.Chance(70) {
		add(&v4, "object-group network g1", " network-object host 10.9.9.1")
		add(&v4, g.aclLines("A1", 1+r.Intn(3), false, []string{"g1"}, true)...)
		add(&v4, "access-group A1 in interface if0")
		if r.Chance(35) {
			add(&v6, g.aclLines("A1", 1+r.Intn(2), true, nil, true)...)
			add(&v6, "access-group A1 in interface if0")
		}
	}
	if r.Chance(60) {
		gname := g.pick("gr1", "gr1", "gr2", "gr1", "gr2", "gr1", "gr2", "gr1", "gr2", "gr1", "gr2", "g1")
		var groups []string
		if r.Chance(60) {
			add(&raw, "object-group network "+gname, fmt.Sprintf(" network-object host 10.8.8.%d", 1+r.Intn(9)))
			groups = []string{gname}
		}
		n := 1 + r.Intn(3)
		add(&raw, g.aclLines("X1", n, false, groups, false)...)
		if r.Chance(40) {
			add(&rawApp, g.aclLines("X1", 1, false, nil, false)...)
		}
		dir, ifc := g.pick("in", "in", "out"), g.pick("if0", "if0", "if1")
		add(&raw, fmt.Sprintf("access-group X1 %s interface %s", dir, ifc))
		if r.Chance(8) {
			add(&raw, fmt.Sprintf("access-group X1 %s interface %s", g.pick("in", "out"), g.pick("if1", "if2")))
		}
	}
	// ---- crypto
	tsets := []string{"T1", "T2"}
	peers4 := []string{}
	hasCrypto4 := r.Chance(65)
	if hasCrypto4 {
		add(&v4, "crypto ipsec ikev1 transform-set T1 esp-3des esp-sha-hmac")
		if r.Chance(50) {
			add(&v4, "crypto ipsec ikev1 transform-set T2 esp-aes-256 esp-sha-hmac")
		}
		if r.Chance(40) {
			add(&v4, "crypto ipsec ikev2 ipsec-proposal P1", " protocol esp encryption aes-256", " protocol esp integrity sha-384")
		}
		np := r.Intn(3)
		for i := 0; i < np; i++ {
			peer := fmt.Sprintf("1.2.3.%d", 1+i)
			peers4 = append(peers4, peer)
			seq := 1 + i*2
			add(&v4, fmt.Sprintf("crypto map M %d set peer %s", seq, peer))
			if r.Chance(70) {
				acl := fmt.Sprintf("CA%d", i)
				add(&v4, g.aclLines(acl, 1+r.Intn(2), false, nil, false)...)
				add(&v4, fmt.Sprintf("crypto map M %d match address %s", seq, acl))
			}
			if r.Chance(60) {
				add(&v4, fmt.Sprintf("crypto map M %d set ikev1 transform-set T1", seq))
			}
			if r.Chance(50) {
				add(&v4, fmt.Sprintf("crypto map M %d set pfs %s", seq, g.pick("group19", "group14", "group21")))
			}
			if r.Chance(30) {
				add(&v4, fmt.Sprintf("crypto map M %d set security-association lifetime seconds 3600", seq))
			}
		}
		if r.Chance(45) {
			add(&v4, "crypto dynamic-map D1 10 set ikev1 transform-set T1")
			if r.Chance(50) {
				add(&v4, "crypto dynamic-map D1 10 set pfs group19")
			}
			add(&v4, "crypto map M 65000 ipsec-isakmp dynamic D1")
		}
		if strings.Contains(strings.Join(v4, "\n"), "\ncrypto map M ") {
			add(&v4, "crypto map M interface if0")
		}
	}
	if r.Chance(60) {
		// raw crypto: transform sets (equal to Netspoc's, equal under another name, different, clashing name)
		switch r.Intn(10) / 3 {
		case 0:
			add(&raw, "crypto ipsec ikev1 transform-set T1 esp-3des esp-sha-hmac")
			tsets = []string{"T1"}
		case 1:
			add(&raw, "crypto ipsec ikev1 transform-set RT1 esp-3des esp-sha-hmac")
			tsets = []string{"RT1"}
		case 2:
			add(&raw, "crypto ipsec ikev1 transform-set RT1 esp-aes esp-md5-hmac")
			tsets = []string{"RT1"}
		case 3:
			add(&raw, "crypto ipsec ikev1 transform-set T1 esp-aes esp-md5-hmac") // name clash if Netspoc has T1
			tsets = []string{"T1"}
		}
		if len(tsets) == 1 && tsets[0] == "RT1" && r.Chance(45) {
			// two transform sets in one command: parsed text differs from Netspoc's command with one set
			add(&raw, "crypto ipsec ikev1 transform-set RT2 esp-aes-192 esp-sha-hmac")
			tsets = []string{"RT1", "RT2"}
		}
		mapName := g.pick("M", "M", "M", "RM")
		ne := 1 + r.Intn(2)
		usedACL := false
		for i := 0; i < ne; i++ {
			peer := fmt.Sprintf("1.2.3.%d", 1+r.Intn(4))
			seq := 1 + r.Intn(5) + i*10
			if r.Chance(8) {
				// entry without peer: error of matchCryptoMap
				add(&raw, fmt.Sprintf("crypto map %s %d set pfs group2", mapName, seq))
				continue
			}
			add(&raw, fmt.Sprintf("crypto map %s %d set peer %s", mapName, seq, peer))
			if r.Chance(60) {
				acl := "RCA"
				if !usedACL || r.Chance(15) {
					if !usedACL {
						add(&raw, g.aclLines(acl, 1+r.Intn(2), false, nil, false)...)
						if r.Chance(35) {
							add(&rawApp, g.aclLines(acl, 1, false, nil, false)...)
						}
					}
					usedACL = true
					add(&raw, fmt.Sprintf("crypto map %s %d match address %s", mapName, seq, acl))
				}
			}
			if r.Chance(60) {
				add(&raw, fmt.Sprintf("crypto map %s %d set ikev1 transform-set %s", mapName, seq, strings.Join(tsets, " ")))
			}
			if r.Chance(50) {
				add(&raw, fmt.Sprintf("crypto map %s %d set pfs %s", mapName, seq, g.pick("group19", "group21", "group14")))
			}
			if r.Chance(25) {
				add(&raw, fmt.Sprintf("crypto map %s %d set reverse-route", mapName, seq))
			}
		}
		if r.Chance(35) {
			dn := g.pick("D1", "RD1")
			add(&raw, fmt.Sprintf("crypto dynamic-map %s 10 set pfs group21", dn))
			if r.Chance(60) {
				add(&raw, fmt.Sprintf("crypto dynamic-map %s 10 set ikev1 transform-set %s", dn, strings.Join(tsets, " ")))
			}
			if r.Chance(40) {
				add(&raw, fmt.Sprintf("crypto dynamic-map %s 20 set reverse-route", dn))
			}
			add(&raw, fmt.Sprintf("crypto map %s %d ipsec-isakmp dynamic %s", mapName, 65000+r.Intn(2), dn))
		}
		if r.Chance(92) {
			add(&raw, fmt.Sprintf("crypto map %s interface %s", mapName, g.pick("if0", "if0", "if0", "if0", "if0", "if0", "if0", "if0", "if0", "if1")))
		}
	}
	// ---- tunnel-groups, group-policies, pools, usernames
	gp := func(dst *[]string, name, pool, poolDef, filter string, filterLines int, extra bool) {
		if poolDef != "" {
			add(dst, "ip local pool "+pool+" "+poolDef)
		}
		if filter != "" && filterLines > 0 {
			add(dst, g.aclLines(filter, filterLines, false, nil, false)...)
		}
		add(dst, "group-policy "+name+" internal", "group-policy "+name+" attributes")
		if pool != "" {
			add(dst, " address-pools value "+pool)
		}
		if filter != "" {
			add(dst, " vpn-filter value "+filter)
		}
		if extra {
			add(dst, " banner value "+g.pick("hello", "welcome"), " vpn-idle-timeout 60")
		}
	}
	nt4 := 0
	if r.Chance(55) {
		nt4 = 1 + r.Intn(2)
		for i := 0; i < nt4; i++ {
			name := fmt.Sprintf("GP%d", i+1)
			gp(&v4, name, "pool1", map[bool]string{true: "10.1.219.192-10.1.219.255 mask 0.0.0.63", false: ""}[i == 0],
				fmt.Sprintf("VF%d", i+1), 1+r.Intn(2), r.Chance(40))
			ip := fmt.Sprintf("1.1.1.%d", i+1)
			add(&v4, "tunnel-group "+ip+" type ipsec-l2l", "tunnel-group "+ip+" general-attributes", " default-group-policy "+name)
			if r.Chance(50) {
				add(&v4, "tunnel-group "+ip+" ipsec-attributes", " peer-id-validate nocheck")
			}
		}
	}
	if r.Chance(30) {
		add(&v4, g.aclLines("UF1", 1, false, nil, false)...)
		add(&v4, "username u1 nopassword", "username u1 attributes", " vpn-filter value UF1", " service-type remote-access")
	}
	if r.Chance(55) {
		nt := 1 + r.Intn(2)
		lastGP := ""
		rawPools, rawACLs := map[string]bool{}, map[string]bool{}
		for i := 0; i < nt; i++ {
			ip := fmt.Sprintf("1.1.1.%d", 1+r.Intn(3))
			name := g.pick("RGP1", "RGP2", "RGP1", "RGP2", "RGP1", "RGP2", "RGP1", "RGP2", "GP1")
			if lastGP != "" && r.Chance(12) {
				name = lastGP // second reference to the same raw group-policy
			} else {
				pool, poolDef := "", ""
				switch r.Intn(10) / 3 {
				case 0:
					pool, poolDef = "rpool", "10.1.219.64-10.1.219.127 mask 0.0.0.63"
				case 1:
					pool, poolDef = "rpool", "10.1.219.192-10.1.219.255 mask 0.0.0.63" // equal to Netspoc's pool1
				case 3:
					pool, poolDef = "pool1", "10.1.219.64-10.1.219.127 mask 0.0.0.63" // clash with Netspoc's pool1
				}
				if rawPools[pool] {
					poolDef = "" // defined once
				}
				if pool != "" {
					rawPools[pool] = true
				}
				filter := g.pick("", "RVF", "RVF", "", "RVF", "RVF", "", "RVF", "RVF", "VF1")
				if lastGP != "" && filter == "RVF" {
					filter = "RVF2"
				}
				nl := 1 + r.Intn(2)
				if rawACLs[filter] {
					nl = 0 // defined once, referenced again
				}
				rawACLs[filter] = true
				gp(&raw, name, pool, poolDef, filter, nl, r.Chance(40))
			}
			lastGP = name
			add(&raw, "tunnel-group "+ip+" type ipsec-l2l", "tunnel-group "+ip+" general-attributes", " default-group-policy "+name)
			if r.Chance(40) {
				add(&raw, " "+g.pick("address-pool foo", "annotation x y", "nat-assigned-to-public-ip inside"))
			}
			if r.Chance(40) {
				add(&raw, "tunnel-group "+ip+" ipsec-attributes", " "+g.pick("peer-id-validate nocheck", "peer-id-validate req", "ikev2 local-authentication certificate TP"))
			}
		}
	}
	if r.Chance(30) {
		un := g.pick("u1", "u2")
		add(&raw, g.aclLines("RUF", 1, false, nil, false)...)
		add(&raw, "username "+un+" nopassword", "username "+un+" attributes", " vpn-filter value RUF")
		if r.Chance(50) {
			add(&raw, " "+g.pick("service-type remote-access", "vpn-simultaneous-logins 3", "password-storage enable"))
		}
	}
	if r.Chance(15) {
		add(&raw, "group-policy DfltGrpPolicy attributes", " vpn-tunnel-protocol ikev1", " pfs enable")
	}
	// ---- unreferenced raw objects, unsupported prefixes
	if r.Chance(15) {
		add(&raw, g.aclLines("UNUSED", 1, false, nil, false)...)
	}
	if r.Chance(10) {
		add(&raw, "group-policy GPU internal")
	}
	if r.Chance(4) && strings.Contains(strings.Join(raw, "\n"), "tunnel-group 1.1.1.1 type") {
		add(&raw, "tunnel-group-map default-group 1.1.1.1")
	}
	if len(rawApp) > 0 {
		raw = append(raw, "[APPEND]")
		raw = append(raw, rawApp...)
	}
	join := func(l []string) string {
		if len(l) == 0 {
			return ""
		}
		return strings.Join(l, "\n") + "\n"
	}
	c := G3Case{Model: "ASA", V4: join(v4), V6: join(v6), Raw: join(raw)}
	// IPv6 file that references one non-simple object from two new commands (1 case in 40, chosen by a hash of the
	// case text so that the random stream of all other cases is untouched): the model has no answer
	// (`unmodelled`), the text-line oracle and the ACL laws judge the real result
	if h := g3Hash(c.V4 + "\x00" + c.V6 + "\x00" + c.Raw); h%40 == 0 {
		c.V6 += fmt.Sprintf("access-list A6 extended permit ip host 1000::%x any6\n", 1+h%4000)
		if h%3 != 0 {
			c.V6 += "access-list A6 extended deny ip any6 any6\n"
		}
		c.V6 += "access-group A6 in interface if1\naccess-group A6 out interface if2\n"
	}
	if r.Chance(8) {
		c.V4 = ""
	}
	if r.Chance(3) {
		// a line that is no known command: the raw parser has to reject the file
		c.Raw = g.pick("unexpected foo\n", "access-lst X extended permit ip any4 any4\n", "crypto mapp M 1 set peer 1.2.3.4\n") + c.Raw
		c.ExpectParseErr = true
	}
	g3Indent(&c)
	return c
}

func (g *g3Gen) genIOS() G3Case {
	r := g.r
	var v4, v6, raw, rawApp []string
	add := func(dst *[]string, lines ...string) { *dst = append(*dst, lines...) }
	acl := func(dst *[]string, name string, n int, final bool) {
		add(dst, "ip access-list extended "+name)
		for i := 0; i < n; i++ {
			add(dst, fmt.Sprintf(" %s udp any host 10.0.%d.%d eq %d", g.pick("permit", "permit", "deny"), r.Intn(3), 1+r.Intn(200), 1+r.Intn(60000)))
		}
		if final {
			add(dst, " deny ip any any")
		}
	}
	for i := 0; i < r.Intn(3); i++ {
		add(&v4, fmt.Sprintf("ip route 10.%d.0.0 255.255.0.0 10.1.2.%d", 20+r.Intn(4), 1+r.Intn(3)))
	}
	for i := 0; i < r.Intn(3); i++ {
		add(&raw, fmt.Sprintf("ip route 10.%d.0.0 255.255.0.0 10.1.2.%d", 20+r.Intn(4), 1+r.Intn(3)))
	}
	if r.Chance(15) {
		add(&v6, fmt.Sprintf("ip route 10.%d.0.0 255.255.0.0 10.1.2.9", 20+r.Intn(4)))
	}
	hasCM := r.Chance(40)
	if hasCM {
		acl(&v4, "CA", 1+r.Intn(2), true)
		add(&v4, "crypto map M 10 ipsec-isakmp", " set peer 1.2.3.4", " set ip access-group CA in")
	}
	for i := 0; i < 2; i++ {
		if !r.Chance(70) {
			continue
		}
		name := fmt.Sprintf("E%d_in", i)
		acl(&v4, name, 1+r.Intn(3), true)
		add(&v4, fmt.Sprintf("interface Ethernet%d", i), fmt.Sprintf(" ip address 10.0.%d.1 255.255.255.0", i), " ip access-group "+name+" in")
		if r.Chance(30) {
			add(&v4, " ip inspect X in")
		}
		if hasCM && i == 0 {
			add(&v4, " crypto map M")
		}
	}
	if r.Chance(75) {
		i := r.Intn(3)
		n := 1 + r.Intn(3)
		acl(&raw, "RX", n, false)
		if r.Chance(40) {
			add(&rawApp, "ip access-list extended RX", fmt.Sprintf(" deny udp any any eq %d", 1+r.Intn(60000)))
		}
		add(&raw, fmt.Sprintf("interface Ethernet%d", i), " ip access-group RX "+g.pick("in", "in", "out"))
		if r.Chance(40) {
			add(&raw, " "+g.pick("ip inspect X in", "ip inspect Y out", "ip unnumbered Loopback0", "shutdown"))
		}
		if r.Chance(10) {
			add(&raw, fmt.Sprintf("interface Ethernet%d", (i+1)%3), " ip access-group RX in")
		}
	}
	if r.Chance(30) {
		acl(&raw, "RCA", 1, false)
		cmName := g.pick("M", "M", "RM")
		if r.Chance(50) {
			add(&raw, "interface Ethernet0", " crypto map "+cmName)
		}
		add(&raw, fmt.Sprintf("crypto map %s %d ipsec-isakmp", cmName, 10+10*r.Intn(2)),
			" set peer "+g.pick("1.2.3.4", "1.2.3.4", "1.2.3.5"), " set ip access-group RCA "+g.pick("in", "in", "out"))
	}
	if r.Chance(15) {
		acl(&raw, "UNUSED", 1, false)
	}
	if len(rawApp) > 0 {
		raw = append(raw, "[APPEND]")
		raw = append(raw, rawApp...)
	}
	join := func(l []string) string {
		if len(l) == 0 {
			return ""
		}
		return strings.Join(l, "\n") + "\n"
	}
	c := G3Case{Model: "IOS", V4: join(v4), V6: join(v6), Raw: join(raw)}
	if r.Chance(3) {
		c.Raw = g.pick("unexpected foo\n", "ip acces-list extended X\n") + c.Raw
		c.ExpectParseErr = true
	}
	g3Indent(&c)
	return c
}

func g3Corpus() []G3Case {
	return []G3Case{
		// asa_raw.t "Add crypto"
		{Model: "ASA",
			V4: "crypto ipsec ikev1 transform-set abc esp-3des esp-sha-hmac\ncrypto dynamic-map outside_dyn_map 1 set pfs group19\n" +
				"crypto dynamic-map outside_dyn_map 1 set ikev1 transform-set abc\ncrypto map outside_map 2 ipsec-isakmp dynamic outside_dyn_map\ncrypto map outside_map interface outside\n",
			Raw: "crypto ipsec ikev1 transform-set ESP-3DES-MD5 esp-3des esp-md5-hmac\ncrypto ipsec ikev1 transform-set ESP-AES-256-SHA esp-aes-256 esp-sha-hmac\n" +
				"crypto dynamic-map raw_dyn_map 1 set pfs group21\ncrypto dynamic-map raw_dyn_map 1 set ikev1 transform-set ESP-AES-256-SHA ESP-3DES-MD5\n" +
				"crypto dynamic-map raw_dyn_map 1 set reverse-route\ncrypto map outside_map 2 ipsec-isakmp dynamic raw_dyn_map\ncrypto map outside_map interface outside\n\n" +
				"group-policy DfltGrpPolicy attributes\n vpn-tunnel-protocol ikev1\n pfs enable\n"},
		// "Prepend and append crypto filter ACL"
		{Model: "ASA",
			V4: "access-list crypto-1.2.3.4 extended permit ip host 10.1.1.10 10.1.2.0 255.255.255.240\ncrypto map crypto-outside 1 set peer 1.2.3.4\n" +
				"crypto map crypto-outside 1 match address crypto-1.2.3.4\ncrypto map crypto-outside interface outside\n",
			Raw: "access-list acl extended permit ip host 10.1.1.10 10.1.7.0 255.255.255.240\n[APPEND]\naccess-list acl extended deny ip any4 host 224.0.1.1 log\n" +
				"crypto map crypto-outside 1 set peer 1.2.3.4\ncrypto map crypto-outside 1 match address acl\ncrypto map crypto-outside interface outside\n"},
		// "Merge subcommands"
		{Model: "ASA",
			V4: "ip local pool pool 10.1.219.192-10.1.219.255 mask 0.0.0.63\ngroup-policy VPN-group internal\ngroup-policy VPN-group attributes\n address-pools value pool\n" +
				"tunnel-group 1.1.1.1 type ipsec-l2l\ntunnel-group 1.1.1.1 general-attributes\n default-group-policy VPN-group\n",
			Raw: "access-list raw-filter extended permit ip host 10.1.2.2 host 10.1.0.2\ngroup-policy raw-group internal\ngroup-policy raw-group attributes\n vpn-filter value raw-filter\n" +
				"tunnel-group 1.1.1.1 type ipsec-l2l\ntunnel-group 1.1.1.1 general-attributes\n default-group-policy raw-group\n"},
		// routes
		{Model: "ASA", V4: "route inside 10.20.0.0 255.248.0.0 10.1.2.3\nroute inside 10.23.0.0 255.255.0.0 10.1.2.5\n",
			V6:  "ipv6 route inside 10::3:0/120 10::2:2\n",
			Raw: "route inside 10.22.0.0 255.255.0.0 10.1.2.4\nroute inside 10.23.0.0 255.255.0.0 10.1.2.5\n"},
		// F-C18i: raw IOS crypto map entry with the peer of a Netspoc entry, bound by a raw interface command
		{Model: "IOS",
			V4: "ip access-list extended CA\n permit ip any host 10.0.0.1\ncrypto map M 10 ipsec-isakmp\n set peer 1.2.3.4\n set ip access-group CA in\n" +
				"interface Ethernet0\n ip address 10.0.0.1 255.255.255.0\n crypto map M\n",
			Raw: "ip access-list extended RCA\n permit ip any host 10.0.0.2\ncrypto map M 20 ipsec-isakmp\n set peer 1.2.3.4\n set ip access-group RCA out\n" +
				"interface Ethernet0\n crypto map M\n"},
		{Model: "IOS", V4: "ip route 10.20.0.0 255.248.0.0 10.1.2.3\n", Raw: "ip route 10.22.0.0 255.255.0.0 10.1.2.4\nip route 10.20.0.0 255.248.0.0 10.1.2.3\n"},
		// indentation of raw sub-commands: deeper but uniform = same result; decreasing = refused
		{Model: "IOS", V4: "ip access-list extended A1\n permit ip host 10.1.1.1 any\n deny ip any any\ninterface Ethernet0\n ip address 10.0.0.1 255.255.255.0\n ip access-group A1 in\n",
			Raw: "ip access-list extended X1\n    permit ip host 10.7.7.7 any\n    deny ip host 10.7.7.8 any\ninterface Ethernet0\n    ip access-group X1 in\n"},
		{Model: "IOS", V4: "ip access-list extended A1\n permit ip host 10.1.1.1 any\n deny ip any any\ninterface Ethernet0\n ip address 10.0.0.1 255.255.255.0\n ip access-group A1 in\n",
			Raw: "ip access-list extended X1\n   permit ip host 10.7.7.7 any\n deny ip host 10.7.7.8 any\ninterface Ethernet0\n ip access-group X1 in\n", ExpectBadIndent: true},
		{Model: "ASA", V4: "object-group network g1\n network-object host 10.9.9.1\naccess-list A1 extended permit ip object-group g1 any4\naccess-group A1 in interface if0\n",
			Raw: "object-group network gr1\n  network-object host 10.8.8.1\n network-object host 10.8.8.2\naccess-list X1 extended permit ip object-group gr1 any4\naccess-group X1 in interface if0\n", ExpectBadIndent: true},
		// IPv6 file that references one non-simple object from two new commands: the model answers
		// `unmodelled` (second read of an object whose commands Go has mutated), the text-line oracle judges the real result
		{Model: "ASA",
			V4: "access-list A1 extended permit ip host 10.1.1.1 any4\naccess-list A1 extended deny ip any4 any4\naccess-group A1 in interface if0\n",
			V6: "access-list A6 extended permit ip host 1000::1 any6\naccess-list A6 extended deny ip any6 any6\naccess-group A6 in interface if1\naccess-group A6 out interface if2\n"},
		{Model: "ASA",
			V4: "access-list A1 extended permit ip host 10.1.1.1 any4\naccess-list A1 extended deny ip any4 any4\naccess-group A1 in interface if0\n" +
				"object-group network g4\n network-object host 10.9.9.9\naccess-list A2 extended permit ip object-group g4 any4\naccess-group A2 in interface if3\n",
			V6: "object-group network g6\n network-object host 10.9.9.9\naccess-list A6 extended permit ip object-group g6 any6\naccess-list A6 extended deny ip any6 any6\n" +
				"access-group A6 in interface if1\naccess-group A6 out interface if2\n",
			Raw: "access-list X6 extended permit ip host 1000::9 any6\naccess-group X6 in interface if1\n"},
		{Model: "IOS",
			V4: "ip access-list extended A1\n permit ip host 10.1.1.1 any\n deny ip any any\ninterface Ethernet0\n ip address 10.0.0.1 255.255.255.0\n ip access-group A1 in\n",
			V6: "ip access-list extended A6\n permit ip host 10.6.6.6 any\n deny ip any any\ninterface Ethernet1\n ip access-group A6 in\ninterface Ethernet2\n ip access-group A6 in\n"},
	}
}

// ---------------------------------------------------------------- stream

func runCisco3(ctx *Ctx, res *Result, drv *Nadrv) {
	total, judged, nUnmodelled := 0, 0, 0
	runCase := func(c G3Case) {
		r := g3Run(c)
		res.Count("g3:model:" + c.Model)
		total++
		fail := func(pred, what string) {
			sig, name := sigOf(pred, map[string]any{"backend": strings.ToLower(c.Model), "stream": "cisco3"})
			res.Count("oracle:" + name)
			res.Fail(sig, what, map[string]any{"g3": c})
		}
		canonIn := c.Model + "\n" + c.V4 + "\n--\n" + c.V6 + "\n--\n" + c.Raw
		if r.perr != "" && r.stages["v4+v6+raw"] == nil && r.panicM == "" && !r.aborted {
			// a file was rejected while reading: judged from the generator's intention, never skipped
			res.Count("g3:parse-error-outside-merge")
			res.Eval(canonIn, false)
			if os.Getenv("VERIF_C18_DEBUG") != "" {
				fmt.Fprintln(os.Stderr, "PARSE-ERR:", r.perr)
			}
			if c.ExpectParseErr && strings.Contains(r.perr, "Unexpected command") {
				res.Count("g3:unknown-command-rejected-as-specified")
				judged++
			} else if c.ExpectBadIndent && strings.Contains(r.perr, "Bad indentation in subcommands") {
				res.Count("g3:decreasing-indentation-rejected-as-specified")
				judged++
			} else {
				fail("generated_input_rejected_by_parser", "a file the generator wrote from known commands only is rejected: "+r.perr)
			}
			return
		}
		if c.ExpectParseErr {
			fail("raw_unknown_command_not_reported", "raw file with a line that is no known command is accepted")
			return
		}
		if c.ExpectBadIndent {
			fail("raw_bad_indentation_not_reported", "raw file with a sub-command indented less than the first sub-command of its block is accepted (the line would be read as something else or dropped)")
			return
		}
		if strings.Contains(c.Raw, "\n   ") {
			res.Count("g3:raw-subcommands-indented-deeper")
		}
		if r.stages["v4"] == nil {
			res.Count("g3:no-stage")
			fail("no_configuration_observed", "loadSpoc showed no parsed configuration: "+r.stderr)
			return
		}
		impl := r.canon()
		line := strings.Join([]string{"cisco3", g3EncIn(r.stages["v4"]), g3EncIn(r.stages["v6"]), g3EncIn(r.stages["raw"])}, "\t")
		model := drv.Ask(line)
		// statistics on what the case reaches
		prefixes := map[string]bool{}
		if t := r.stages["raw"]; t != nil {
			for _, cm := range t.cmds {
				prefixes[cm.Prefix] = true
			}
		}
		for p := range prefixes {
			res.Count("g3:raw-prefix:" + p)
		}
		out := strings.Fields(impl)
		kind := out[0]
		if os.Getenv("VERIF_C18_DEBUG") != "" && strings.HasPrefix(impl, "err") {
			fmt.Fprintln(os.Stderr, "ERR:", g3Show(impl))
		}
		if kind == "err" && len(out) > 1 {
			kind += ":" + out[1]
		}
		res.Count("g3:outcome:" + kind)
		res.Eval(canonIn, len(prefixes) >= 3)
		res.TracesVsImpl++
		unmodelled := model == "err unmodelled"
		if unmodelled {
			// no model answer for this case; the oracles judge it all the same
			res.Count("g3:unmodelled-second-read-of-mutated-ipv6-object")
			nUnmodelled++
		}
		if os.Getenv("VERIF_C18_DEBUG") == "2" && strings.HasPrefix(impl, "ok") {
			fmt.Fprintln(os.Stderr, "CASE raw:\n"+c.Raw+"IMPL: "+g3Show(impl)+"\n")
		}
		if impl != model && !unmodelled {
			res.Disagree("c18 cisco MergeSpoc (general model)", c, g3Show(impl), g3Show(model))
		}
		// spec side, no model: the diagnostics "only once in raw", "Name clash … from raw", "not supported in raw file"
		// are rules for the raw file; merging the IPv6 file into the IPv4 file must not end with one of them
		// (also judges the cases the model has no answer for)
		if r.aborted && r.stages["v6"] != nil && r.stages["v4+v6"] == nil {
			res.Count("g3:abort-while-merging-ipv6")
			if k := strings.Fields(impl); len(k) > 1 && (k[1] == "onlyOnce" || k[1] == "nameClash" || k[1] == "notSupported") {
				fail("ipv6_merge_aborts_with_raw_diagnostic", "merging the IPv6 file aborts with a diagnostic that is a rule for raw files: "+strings.TrimSpace(r.stderr))
			}
		}
		for _, v := range g3Oracle(r) {
			fail(v.pred, v.what)
		}
		if fin := r.stages["v4+v6+raw"]; fin != nil && !r.aborted && r.panicM == "" {
			judged++
			warned := map[string]bool{}
			for _, m := range g3ReWarning.FindAllStringSubmatch(r.stderr, -1) {
				warned[m[1]] = true
			}
			for _, v := range g3TextOracle(c, fin, warned, res.Count) {
				fail(v.pred, v.what)
			}
		}
	}
	if ctx.Replay != "" {
		var w struct {
			G3 *G3Case `json:"g3"`
		}
		if err := ReadReplay(ctx.Replay, &w); err == nil && w.G3 != nil {
			runCase(*w.G3)
		} else {
			var c G3Case
			if err := ReadReplay(ctx.Replay, &c); err == nil && c.Model != "" {
				runCase(c)
			}
		}
		return
	}
	for _, c := range g3Corpus() {
		runCase(c)
	}
	g := &g3Gen{r: ctx.Rng.Fork()}
	n := ctx.N(700, 6000)
	for i := 0; i < n; i++ {
		runCase(g.genASA())
		if i%3 == 0 {
			runCase(g.genIOS())
		}
	}
	_ = sort.Strings
	// floors: most cases must reach the oracles; the model must answer nearly all of them
	if total > 100 && (judged*2 < total || nUnmodelled*20 > total) {
		res.Disagree("c18 floor: too few cisco3 cases judged", nil,
			fmt.Sprintf("%d of %d cases end with a merged table, %d without model answer", judged, total, nUnmodelled), "at least half judged, at most 5% unmodelled")
	}
}
