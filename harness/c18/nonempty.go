package main

// Stream "nonempty": the merged target (IPv4 + IPv6 + raw) against a device that is NOT empty.
//
// The cases are those of stream 1 (ASA).  A small, strict, specification-side ASA (ACLs, remarks, bindings) executes
// the change scripts of the REAL drc.Main command by command; it is independent of the code under test and refuses
// what a real device refuses (line number out of range, deleting a line that is not there, binding an ACL that
// does not exist, removing a bound ACL).  Scenarios:
//   again    device = result of an earlier approve of the same merged target: the second compare must be empty
//   older    device = result of an approve of the target WITHOUT its raw file (or without the IPv6 file): the
//            compare with the full target must be executable, reach the merged view (all laws of `oracle`) and
//            the compare after it must be empty
//   newer    device = full merged target, new target = without the raw file: the raw entries have to go
//   clash    device already holds foreign ACLs under the names the program generates (`A<n>-DRC-0`, `-DRC-1`),
//            bound at an interface Netspoc does not know or not bound at all: merged view reached, the bound
//            foreign ACL is left as it is, nothing of it shows up in a managed ACL
// Oracle: `oracle` (checkList …) on the view of the simulated device, strict execution, empty second compare.

import (
	"fmt"
	"os"
	"path/filepath"
	"sort"
	"strconv"
	"strings"

	. "verifharness/vhlib"

	"github.com/hknutzen/Netspoc-Approve/go/pkg/drc"
)

type asaSim struct {
	groups map[string][]string // object-group network NAME -> members
	gorder []string
	mode   string              // object-group whose sub-mode is open
	acls  map[string][]string // name -> bodies ("extended permit udp any4 any4 eq 7", "remark r3")
	order []string
	bind  map[string]string // "in if0" -> ACL
	nIntf int
}

func newAsaSim(n int) *asaSim {
	return &asaSim{acls: map[string][]string{}, bind: map[string]string{}, nIntf: n, groups: map[string][]string{}}
}

func (d *asaSim) clone() *asaSim {
	c := newAsaSim(d.nIntf)
	for k, v := range d.acls {
		c.acls[k] = append([]string{}, v...)
	}
	c.order = append([]string{}, d.order...)
	for k, v := range d.groups {
		c.groups[k] = append([]string{}, v...)
	}
	c.gorder = append([]string{}, d.gorder...)
	for k, v := range d.bind {
		c.bind[k] = v
	}
	return c
}

func (d *asaSim) text() string {
	var sb strings.Builder
	for i := 0; i < d.nIntf; i++ {
		fmt.Fprintf(&sb, "interface Ethernet0/%d\n nameif if%d\n", i, i)
	}
	for _, g := range d.gorder {
		fmt.Fprintf(&sb, "object-group network %s\n", g)
		for _, m := range d.groups[g] {
			fmt.Fprintf(&sb, " network-object %s\n", m)
		}
	}
	for _, n := range d.order {
		for _, b := range d.acls[n] {
			fmt.Fprintf(&sb, "access-list %s %s\n", n, b)
		}
	}
	var ks []string
	for k := range d.bind {
		ks = append(ks, k)
	}
	sort.Strings(ks)
	for _, k := range ks {
		w := strings.Fields(k)
		fmt.Fprintf(&sb, "access-group %s %s interface %s\n", d.bind[k], w[0], w[1])
	}
	return sb.String()
}

func (d *asaSim) bound(n string) bool {
	for _, a := range d.bind {
		if a == n {
			return true
		}
	}
	return false
}

func (d *asaSim) dropACL(n string) {
	delete(d.acls, n)
	var o []string
	for _, x := range d.order {
		if x != n {
			o = append(o, x)
		}
	}
	d.order = o
}

// exec executes one command strictly.
func (d *asaSim) exec(cmd string) error {
	w := strings.Fields(cmd)
	if len(w) == 0 {
		return nil
	}
	no := false
	if w[0] == "no" {
		no, w = true, w[1:]
	}
	if w[0] != "network-object" && cmd != "exit" {
		d.mode = ""
	}
	groupRefs := func(g string) bool {
		for _, l := range d.acls {
			for _, b := range l {
				if strings.Contains(" "+b+" ", " object-group "+g+" ") {
					return true
				}
			}
		}
		return false
	}
	switch {
	case cmd == "exit":
		d.mode = ""
		return nil
	case w[0] == "network-object":
		if d.mode == "" {
			return fmt.Errorf("network-object outside of an object-group")
		}
		m := strings.Join(w[1:], " ")
		l := d.groups[d.mode]
		for i, x := range l {
			if x == m {
				if no {
					if len(l) == 1 && groupRefs(d.mode) {
						return fmt.Errorf("last member of a referenced object-group removed")
					}
					d.groups[d.mode] = append(l[:i:i], l[i+1:]...)
					return nil
				}
				return fmt.Errorf("member already in the group")
			}
		}
		if no {
			return fmt.Errorf("member to remove is not in the group")
		}
		d.groups[d.mode] = append(l, m)
		return nil
	case len(w) == 3 && w[0] == "object-group" && w[1] == "network":
		g := w[2]
		_, ok := d.groups[g]
		if no {
			if !ok {
				return fmt.Errorf("object-group to remove does not exist")
			}
			if groupRefs(g) {
				return fmt.Errorf("object-group to remove is referenced")
			}
			delete(d.groups, g)
			var o []string
			for _, x := range d.gorder {
				if x != g {
					o = append(o, x)
				}
			}
			d.gorder = o
			return nil
		}
		if !ok {
			d.groups[g] = []string{}
			d.gorder = append(d.gorder, g)
		}
		d.mode = g
		return nil
	case len(w) >= 4 && w[0] == "clear" && w[1] == "configure" && w[2] == "access-list":
		n := w[3]
		if _, ok := d.acls[n]; !ok {
			return fmt.Errorf("clear of an ACL that does not exist")
		}
		if d.bound(n) {
			return fmt.Errorf("clear of an ACL that is bound")
		}
		d.dropACL(n)
		return nil
	case len(w) >= 3 && w[0] == "access-list":
		n, rest := w[1], w[2:]
		line := 0
		if rest[0] == "line" && len(rest) > 2 {
			k, err := strconv.Atoi(rest[1])
			if err != nil || k < 1 {
				return fmt.Errorf("bad line number")
			}
			line, rest = k, rest[2:]
		}
		body := strings.Join(rest, " ")
		if rest[0] != "extended" && rest[0] != "remark" {
			return fmt.Errorf("unknown access-list form")
		}
		l, ok := d.acls[n]
		if no {
			if !ok {
				return fmt.Errorf("line removed from an ACL that does not exist")
			}
			at := -1
			if line > 0 {
				if line > len(l) || l[line-1] != body {
					return fmt.Errorf("line %d of %s is not '%s'", line, n, body)
				}
				at = line - 1
			} else {
				for i, b := range l {
					if b == body {
						at = i
						break
					}
				}
				if at < 0 {
					return fmt.Errorf("line to remove is not in %s", n)
				}
			}
			l = append(l[:at:at], l[at+1:]...)
			if len(l) == 0 {
				if d.bound(n) {
					// a real ASA keeps the binding of an ACL whose last line goes; the ACL is then gone: what is
					// bound filters nothing any more — never acceptable for a target that specifies lines
					return fmt.Errorf("last line of the bound ACL %s removed", n)
				}
				d.dropACL(n)
				return nil
			}
			d.acls[n] = l
			return nil
		}
		for i, x := range rest {
			if x == "object-group" && i+1 < len(rest) {
				if _, have := d.groups[rest[i+1]]; !have {
					return fmt.Errorf("ACL line references object-group %s that does not exist", rest[i+1])
				}
			}
		}
		if !ok {
			d.order = append(d.order, n)
		}
		if line == 0 || line > len(l) {
			if line > len(l)+1 {
				return fmt.Errorf("line %d behind the end of %s (%d lines)", line, n, len(l))
			}
			d.acls[n] = append(l, body)
			return nil
		}
		nl := append([]string{}, l[:line-1]...)
		nl = append(nl, body)
		d.acls[n] = append(nl, l[line-1:]...)
		return nil
	case len(w) == 5 && w[0] == "access-group" && w[3] == "interface":
		k := w[2] + " " + w[4]
		i, err := strconv.Atoi(strings.TrimPrefix(w[4], "if"))
		if err != nil || i >= d.nIntf {
			return fmt.Errorf("unknown interface")
		}
		if no {
			if d.bind[k] != w[1] {
				return fmt.Errorf("binding to remove is not there")
			}
			delete(d.bind, k)
			return nil
		}
		if _, ok := d.acls[w[1]]; !ok {
			return fmt.Errorf("binding of an ACL that does not exist")
		}
		d.bind[k] = w[1]
		return nil
	}
	return fmt.Errorf("command not understood by the specification device")
}

// view: what readOutcome reads from a complete script, read from the device.
func (d *asaSim) view(managedIntf int) outcome {
	o := outcome{Lists: map[int][]string{}}
	for k, n := range d.bind {
		w := strings.Fields(k)
		i, _ := strconv.Atoi(strings.TrimPrefix(w[1], "if"))
		if i >= managedIntf {
			continue
		}
		key := i * 2
		if w[0] == "out" {
			key++
		}
		toks := []string{}
		for _, b := range d.acls[n] {
			f := strings.Fields(b)
			switch {
			case f[0] == "remark":
				toks = append(toks, strings.TrimPrefix(f[1], "r"))
			case strings.HasSuffix(b, "deny ip any6 any6"):
				toks = append(toks, "any6")
			case len(f) == 7 && f[5] == "eq":
				toks = append(toks, f[6])
			default:
				o.Odd = append(o.Odd, "device line: "+b)
			}
		}
		o.Lists[key] = toks
	}
	return o
}

// drcOn runs the real drc.Main with the given device text against the files of the case.
func drcOn(devText string, files map[string]string) (stdout, stderr, panicMsg string) {
	resetCaseDir()
	fs := map[string]string{}
	for k, v := range files {
		fs[k] = v
	}
	fs["dev"] = devText
	WriteFiles(caseDir, fs)
	old := os.Args
	os.Args = []string{"drc", "-q", filepath.Join(caseDir, "dev"), filepath.Join(caseDir, "spoc")}
	stdout, stderr, _, panicMsg = Captured(drc.Main)
	os.Args = old
	return
}

func scriptLines(out string) []string {
	var l []string
	for _, s := range strings.Split(out, "\n") {
		if strings.TrimSpace(s) != "" {
			// `\N ` joins commands that the device has to receive in one go
			l = append(l, strings.Split(s, "\\N ")...)
		}
	}
	return l
}

type neStep struct {
	warn   []int // "Ignoring unused … in raw"
	script []string
	errAt  string // "" or the refused command with the reason
	diag   string // ERROR / panic of drc
}

// approve: compare + execute; returns the device after it.
func neApprove(d *asaSim, files map[string]string) (*asaSim, neStep) {
	out, errOut, pan := drcOn(d.text(), files)
	st := neStep{}
	if pan != "" {
		st.diag = "panic: " + pan
		return d, st
	}
	if e := classifyErr(errOut); e != "" {
		st.diag = e + ": " + strings.TrimSpace(errOut)
		return d, st
	}
	for _, l := range strings.Split(errOut, "\n") {
		if m := reWarnUnused.FindStringSubmatch(l); m != nil {
			st.warn = append(st.warn, nameNum(m[1]))
		}
	}
	sort.Ints(st.warn)
	st.script = scriptLines(out)
	n := d.clone()
	for _, cmd := range st.script {
		if err := n.exec(cmd); err != nil {
			st.errAt = fmt.Sprintf("'%s': %v", cmd, err)
			return n, st
		}
	}
	return n, st
}

func withoutFile(fs map[string]string, name string) map[string]string {
	r := map[string]string{}
	for k, v := range fs {
		if k != name {
			r[k] = v
		}
	}
	return r
}

// runNonEmptyASA: all scenarios for one case whose run against the empty device ended clean.
func runNonEmptyASA(c Case, safe6 bool, res *Result) {
	files := c.files()
	fail := func(scn, pred, what string) {
		sig, name := sigOf(pred, map[string]any{"backend": c.Dev, "stream": "nonempty", "scenario": scn})
		res.Count("oracle:ne:" + name)
		res.Fail(sig, "[non-empty device, scenario "+scn+"] "+what, c)
	}
	debug := os.Getenv("VERIF_C18_DEBUG") == "ne"
	// judge: reach `want` from device d, then the compare after it must be empty
	judge := func(scn string, d *asaSim, fs map[string]string, want Case, foreign map[string][]string, foreignBind map[string]string) bool {
		d2, st := neApprove(d, fs)
		if debug {
			fmt.Fprintf(os.Stderr, "== %s\nDEVICE:\n%sSCRIPT:\n%s\n", scn, d.text(), strings.Join(st.script, "\n"))
		}
		res.Count("ne:scenario:" + scn)
		if st.diag != "" {
			fail(scn, "valid_pair_rejected", "drc ends with a diagnostic on a device that holds an older state of the same target: "+st.diag)
			return false
		}
		if st.errAt != "" {
			fail(scn, "command_refused_by_device", "the strict device refuses "+st.errAt)
			return false
		}
		if len(st.script) > 0 {
			res.Count("ne:changes:" + scn)
		}
		o := d2.view(nIntf)
		o.Warn = st.warn
		for _, v := range oracle(want, o, safe6) {
			fail(scn, v.pred, v.what)
		}
		res.Count("ne:views-judged")
		// foreign objects bound at the interface Netspoc does not know stay as they are
		for k, n := range foreignBind {
			if d2.bind[k] != n || strings.Join(d2.acls[n], "\n") != strings.Join(foreign[n], "\n") {
				fail(scn, "foreign_bound_acl_changed", fmt.Sprintf("ACL %s bound at '%s' (interface unknown to Netspoc) was %v, is %v bound as %s", n, k, foreign[n], d2.acls[n], d2.bind[k]))
			}
		}
		// second compare
		_, st2 := neApprove(d2, fs)
		if st2.diag != "" {
			fail(scn, "second_compare_fails", "the compare after the approve ends with: "+st2.diag)
		} else if len(st2.script) > 0 {
			fail(scn, "second_compare_not_empty", "the compare after the approve still prints: "+strings.Join(st2.script, " | "))
		} else {
			res.Count("ne:second-compare-empty")
		}
		return true
	}
	empty := newAsaSim(nIntf + 1)
	// again
	full, st := neApprove(empty, files)
	if st.diag != "" || st.errAt != "" {
		fail("again", "command_refused_by_device", "script for the empty device: "+st.diag+st.errAt)
		return
	}
	judge("again", full, files, c, nil, nil)
	// older: device has the target without raw / without IPv6
	if c.Raw.Present {
		old, st := neApprove(empty, withoutFile(files, "spoc.raw"))
		if st.diag == "" && st.errAt == "" {
			judge("older-without-raw", old, files, c, nil, nil)
		}
		// newer: raw file is withdrawn
		c2 := c
		c2.Raw = File{}
		judge("raw-withdrawn", full, withoutFile(files, "spoc.raw"), c2, nil, nil)
	}
	if c.V6.Present && c.V4.Present {
		old, st := neApprove(empty, withoutFile(files, "ipv6/spoc"))
		if st.diag == "" && st.errAt == "" {
			judge("older-without-ipv6", old, files, c, nil, nil)
		}
	}
	// clash: foreign ACLs under generated names
	names := map[string]bool{}
	for _, n := range full.order {
		names[n] = true
	}
	if len(names) > 0 {
		d := newAsaSim(nIntf + 1)
		foreign, fbind := map[string][]string{}, map[string]string{}
		i := 0
		var sorted []string
		for n := range names {
			sorted = append(sorted, n)
		}
		sort.Strings(sorted)
		for _, n := range sorted {
			body := []string{fmt.Sprintf("extended permit udp any4 any4 eq %d", 60000+i), fmt.Sprintf("extended deny udp any4 any4 eq %d", 61000+i)}
			d.acls[n] = body
			d.order = append(d.order, n)
			if i == 0 {
				k := fmt.Sprintf("in if%d", nIntf)
				d.bind[k] = n
				foreign[n], fbind[k] = body, n
			}
			i++
		}
		judge("clash-generated-names", d, files, c, foreign, fbind)
	}
}

// ---------------------------------------------------------------- Linux host that already carries a ruleset
//
// The Linux backend rewrites the whole ruleset when it differs, so the device after an approve is what drc printed.
//   again        host = what the approve of the same target printed: compare empty
//   respelled    the same, every `-s ! ip` written `! -s ip` (what iptables-save shows): compare empty
//   neg-flipped  one negation on the host removed / added: the compare must NOT be empty and print the merged target
//   older-without-raw, raw-withdrawn, older-without-ipv6: as for ASA
func runNonEmptyLinux(c Case, safe6 bool, res *Result) {
	files := c.files()
	fail := func(scn, pred, what string) {
		sig, name := sigOf(pred, map[string]any{"backend": c.Dev, "stream": "nonempty", "scenario": scn})
		res.Count("oracle:ne:" + name)
		res.Fail(sig, "[non-empty host, scenario "+scn+"] "+what, c)
	}
	run := func(dev string, fs map[string]string) (string, string, bool) {
		out, errOut, pan := drcOn(dev, fs)
		if pan != "" {
			return "", "panic: " + pan, false
		}
		if e := classifyErr(errOut); e != "" {
			return "", e + ": " + strings.TrimSpace(errOut), false
		}
		return out, errOut, true
	}
	// what drc prints is the new ruleset behind a line that says where the old one differs
	rawRun := run
	run = func(dev string, fs map[string]string) (string, string, bool) {
		out, e, ok := rawRun(dev, fs)
		var keep []string
		for _, l := range strings.Split(out, "\n") {
			if !strings.HasPrefix(l, "iptables differs at") {
				keep = append(keep, l)
			}
		}
		return strings.Join(keep, "\n"), e, ok
	}
	full, _, ok := run("", files)
	if !ok || strings.TrimSpace(full) == "" {
		return
	}
	if os.Getenv("VERIF_C18_DEBUG") == "ne" {
		fmt.Fprintf(os.Stderr, "== linux full\n%s\n", full)
	}
	expectEmpty := func(scn, dev string, fs map[string]string) {
		res.Count("ne:scenario:linux-" + scn)
		out, diag, ok := run(dev, fs)
		if !ok {
			fail(scn, "valid_pair_rejected", "drc ends with a diagnostic on a host that holds the merged target: "+diag)
		} else if len(scriptLines(out)) > 0 {
			fail(scn, "second_compare_not_empty", "host holds the merged target, compare prints: "+strings.Join(scriptLines(out), " | "))
		} else {
			res.Count("ne:second-compare-empty")
		}
	}
	// reach: host `dev`, target fs; the printed ruleset (or, if nothing is printed, the host) is judged as `want`
	reach := func(scn, dev string, fs map[string]string, want Case, mustChange bool) {
		res.Count("ne:scenario:linux-" + scn)
		out, errOut, ok := run(dev, fs)
		if !ok {
			fail(scn, "valid_pair_rejected", "drc ends with a diagnostic on a host with an older ruleset: "+errOut)
			return
		}
		if len(scriptLines(out)) == 0 {
			if mustChange {
				fail(scn, "difference_not_seen", "host differs from the merged target in a negation, compare prints nothing")
				return
			}
		} else {
			res.Count("ne:changes:linux-" + scn)
		}
		after := linuxAfter(dev, out)
		o := readOutcome("linux", after, errOut, "")
		for _, v := range oracle(want, o, safe6) {
			fail(scn, v.pred, v.what)
		}
		res.Count("ne:views-judged")
		expectEmpty(scn+"/second", after, fs)
	}
	expectEmpty("again", full, files)
	// respelled
	var re []string
	changed := false
	for _, l := range strings.Split(full, "\n") {
		w := strings.Fields(l)
		if len(w) == 7 && w[0] == "-A" && w[3] == "!" {
			l = strings.Join([]string{w[0], w[1], "!", w[2], w[4], w[5], w[6]}, " ")
			changed = true
		}
		re = append(re, l)
	}
	if changed {
		expectEmpty("respelled", strings.Join(re, "\n"), files)
	}
	// neg-flipped: first rule line gets / loses its negation
	var fl []string
	flipped := false
	for _, l := range strings.Split(full, "\n") {
		w := strings.Fields(l)
		if !flipped && len(w) >= 6 && w[0] == "-A" {
			switch {
			case len(w) == 6:
				l = strings.Join([]string{w[0], w[1], "!", w[2], w[3], w[4], w[5]}, " ")
			case w[2] == "!":
				l = strings.Join(append([]string{w[0], w[1]}, w[3:]...), " ")
			default:
				l = strings.Join(append([]string{w[0], w[1], w[2]}, w[4:]...), " ")
			}
			flipped = true
		}
		fl = append(fl, l)
	}
	if flipped {
		reach("neg-flipped", strings.Join(fl, "\n"), files, c, true)
	}
	if c.Raw.Present {
		if old, _, ok := run("", withoutFile(files, "spoc.raw")); ok {
			reach("older-without-raw", old, files, c, false)
		}
		if c.V4.Present || c.V6.Present { // a target without any file is no target
			c2 := c
			c2.Raw = File{}
			reach("raw-withdrawn", full, withoutFile(files, "spoc.raw"), c2, false)
		}
	}
	if c.V6.Present && c.V4.Present {
		if old, _, ok := run("", withoutFile(files, "ipv6/spoc")); ok {
			reach("older-without-ipv6", old, files, c, false)
		}
	}
}

// linuxAfter: the host after the printed changes: the ruleset is replaced as a whole if one is printed,
// routes are added and deleted one by one.
func linuxAfter(dev, out string) string {
	split := func(t string) (routes, rest []string) {
		for _, l := range strings.Split(t, "\n") {
			if strings.HasPrefix(l, "ip route ") {
				routes = append(routes, l)
			} else if strings.TrimSpace(l) != "" {
				rest = append(rest, l)
			}
		}
		return
	}
	dr, dt := split(dev)
	or, ot := split(out)
	hasTable := false
	for _, l := range ot {
		hasTable = hasTable || strings.HasPrefix(l, "*") || strings.HasPrefix(l, "#!/sbin/iptables-restore") // header alone: the empty ruleset
	}
	if hasTable {
		dt = ot
	}
	for _, l := range or {
		if rest, ok := strings.CutPrefix(l, "ip route del "); ok {
			var n []string
			for _, r := range dr {
				if r != "ip route add "+rest {
					n = append(n, r)
				}
			}
			dr = n
		} else {
			dr = append(dr, l)
		}
	}
	return strings.Join(append(dr, dt...), "\n") + "\n"
}

// ---------------------------------------------------------------- ASA: object-groups of the raw file on a non-empty device
//
// Small generated targets (Netspoc ACL with an object-group, raw ACL with its own object-group, optionally an
// [APPEND] line, bound at the same place) against devices that hold: nothing, the same target, the target without
// its raw file, foreign object-groups / ACLs under the raw group's own name and under the generated `-DRC-0`
// names (referenced from an ACL bound at an interface Netspoc does not know).  Expected view written down here
// from the documented rule (raw first, [APPEND] behind the last permit and in front of the trailing deny).
func (d *asaSim) expanded(key string) []string {
	var out []string
	for _, b := range d.acls[d.bind[key]] {
		w := strings.Fields(b)
		for i := 0; i+1 < len(w); i++ {
			if w[i] == "object-group" {
				m := append([]string{}, d.groups[w[i+1]]...)
				sort.Strings(m)
				w[i], w[i+1] = "{"+strings.Join(m, ",")+"}", ""
			}
		}
		out = append(out, strings.Join(strings.Fields(strings.Join(w, " ")), " "))
	}
	return out
}

func runNonEmptyGroups(rng *RNG, n int, res *Result) {
	for it := 0; it < n; it++ {
		nPermit := rng.Intn(3)
		withApp := rng.Chance(50)
		rawGroup := []string{"gr1", "gr1", "g1same", "g1clash"}[rng.Intn(4)]
		gMembers := []string{"host 10.9.9.1", "host 10.9.9.2"}
		rMembers := []string{fmt.Sprintf("host 10.8.8.%d", 1+rng.Intn(5))}
		rName := "gr1"
		switch rawGroup {
		case "g1same":
			rName, rMembers = "g1", gMembers
		case "g1clash":
			rName = "g1"
		}
		var v4, raw, want []string
		v4 = append(v4, "object-group network g1")
		for _, m := range gMembers {
			v4 = append(v4, " network-object "+m)
		}
		raw = append(raw, "object-group network "+rName)
		for _, m := range rMembers {
			raw = append(raw, " network-object "+m)
		}
		exp := func(m []string) string { s := append([]string{}, m...); sort.Strings(s); return "{" + strings.Join(s, ",") + "}" }
		raw = append(raw, "access-list X1 extended permit ip object-group "+rName+" any4")
		want = append(want, "extended permit ip "+exp(rMembers)+" any4")
		v4 = append(v4, "access-list A1 extended permit ip object-group g1 any4")
		want = append(want, "extended permit ip "+exp(gMembers)+" any4")
		for i := 0; i < nPermit; i++ {
			v4 = append(v4, fmt.Sprintf("access-list A1 extended permit ip host 10.1.1.%d any4", i+1))
			want = append(want, fmt.Sprintf("extended permit ip host 10.1.1.%d any4", i+1))
		}
		if withApp {
			want = append(want, "extended deny ip host 10.5.5.5 any4")
		}
		v4 = append(v4, "access-list A1 extended deny ip any4 any4", "access-group A1 in interface if0")
		want = append(want, "extended deny ip any4 any4")
		raw = append(raw, "access-group X1 in interface if0")
		if withApp {
			raw = append(raw, "[APPEND]", "access-list X1 extended deny ip host 10.5.5.5 any4")
		}
		files := map[string]string{"spoc": strings.Join(v4, "\n") + "\n", "spoc.raw": strings.Join(raw, "\n") + "\n", "spoc.info": `{"model":"ASA"}` + "\n"}
		neGroupsCase(NeGroups{Files: files, Want: want, Kind: rawGroup, RName: rName}, res)
	}
}

type NeGroups struct {
	Files map[string]string `json:"files"`
	Want  []string          `json:"want"`  // the ACL bound at `in if0`, groups expanded
	Kind  string            `json:"kind"`  // gr1 | g1same | g1clash
	RName string            `json:"rname"` // name of the raw file's object-group
}

func neGroupsCase(ng NeGroups, res *Result) {
	files, want, rawGroup, rName := ng.Files, ng.Want, ng.Kind, ng.RName
	{
		input := map[string]any{"neGroups": ng}
		fail := func(scn, pred, what string) {
			sig, name := sigOf(pred, map[string]any{"backend": "asa", "stream": "nonempty-groups", "scenario": scn})
			res.Count("oracle:ne:" + name)
			res.Fail(sig, "[non-empty device, object-groups, scenario "+scn+"] "+what, input)
		}
		res.Count("neg:raw-group:" + rawGroup)
		res.Eval("neGroups\n"+files["spoc"]+"--\n"+files["spoc.raw"], true)
		if rawGroup == "g1same" {
			// same name AND same members as Netspoc's group: the code reports this as a clash as well (the clash rule
			// of mergeRefs for a new raw command goes by the name alone; conservative); accepted here, and if the code
			// merges instead, the merged view is judged
			if _, errOut, _ := drcOn(newAsaSim(nIntf+1).text(), files); strings.Contains(errOut, "Name clash for 'object-group g1' from raw") {
				res.Count("neg:same-name-same-members-reported-as-clash")
				return
			}
		}
		if rawGroup == "g1clash" {
			// the raw file defines a group under a name Netspoc uses, with other members: must be reported
			_, errOut, _ := drcOn(newAsaSim(nIntf+1).text(), files)
			if !strings.Contains(errOut, "Name clash for 'object-group g1' from raw") {
				fail("name-clash", "raw_name_clash_not_reported", "raw object-group g1 differs from Netspoc's g1; expected 'Name clash', got: "+strings.TrimSpace(errOut))
			} else {
				res.Count("neg:name-clash-reported")
			}
			return
		}
		foreignDev := func(names ...string) *asaSim {
			d := newAsaSim(nIntf + 1)
			for i, g := range names {
				if strings.HasPrefix(g, "A1") {
					continue
				}
				d.groups[g] = []string{fmt.Sprintf("host 10.7.7.%d", i+1)}
				d.gorder = append(d.gorder, g)
				d.acls["F1"] = append(d.acls["F1"], "extended permit ip object-group "+g+" any4")
			}
			for _, g := range names {
				if strings.HasPrefix(g, "A1") {
					d.acls[g] = []string{"extended permit ip host 10.6.6.6 any4"}
					d.order = append(d.order, g)
					d.bind[fmt.Sprintf("out if%d", nIntf)] = g
				}
			}
			if len(d.acls["F1"]) > 0 {
				d.order = append(d.order, "F1")
				d.bind[fmt.Sprintf("in if%d", nIntf)] = "F1"
			}
			return d
		}
		judge := func(scn string, d *asaSim, mustBeEmpty bool) {
			res.Count("neg:scenario:" + scn)
			before := map[string][]string{}
			for _, k := range []string{fmt.Sprintf("in if%d", nIntf), fmt.Sprintf("out if%d", nIntf)} {
				if _, ok := d.bind[k]; ok {
					before[k] = d.expanded(k)
				}
			}
			d2, st := neApprove(d, files)
			if os.Getenv("VERIF_C18_DEBUG") == "ne" {
				fmt.Fprintf(os.Stderr, "== groups %s\nDEVICE:\n%sSCRIPT:\n%s\n", scn, d.text(), strings.Join(st.script, "\n"))
			}
			if st.diag != "" {
				fail(scn, "valid_pair_rejected", "drc ends with: "+st.diag)
				return
			}
			if st.errAt != "" {
				fail(scn, "command_refused_by_device", "the strict device refuses "+st.errAt)
				return
			}
			if mustBeEmpty && len(st.script) > 0 {
				fail(scn, "second_compare_not_empty", "device holds the merged target, compare prints: "+strings.Join(st.script, " | "))
			}
			if got := d2.expanded("in if0"); strings.Join(got, "\n") != strings.Join(want, "\n") {
				fail(scn, "merged_view_not_reached", fmt.Sprintf("ACL bound at 'in if0' with its groups expanded is %q, the merged target says %q", got, want))
			} else {
				res.Count("neg:views-judged")
			}
			for k, b := range before {
				if got := d2.expanded(k); strings.Join(got, "\n") != strings.Join(b, "\n") {
					fail(scn, "foreign_bound_acl_changed", fmt.Sprintf("ACL bound at '%s' (interface unknown to Netspoc) was %q, is %q", k, b, got))
				}
			}
			_, st2 := neApprove(d2, files)
			if st2.diag != "" || len(st2.script) > 0 {
				fail(scn, "second_compare_not_empty", "the compare after the approve prints: "+st2.diag+strings.Join(st2.script, " | "))
			} else {
				res.Count("neg:second-compare-empty")
			}
		}
		empty := newAsaSim(nIntf + 1)
		judge("empty", empty, false)
		full, st := neApprove(empty, files)
		if st.diag == "" && st.errAt == "" {
			judge("again", full, true)
		}
		if old, st := neApprove(empty, withoutFile(files, "spoc.raw")); st.diag == "" && st.errAt == "" {
			judge("older-without-raw", old, false)
		}
		judge("foreign-group-under-raw-name", foreignDev(rName), false)
		judge("foreign-under-generated-names", foreignDev("g1-DRC-0", rName+"-DRC-0", "A1-DRC-0"), false)
		judge("foreign-under-generated-names-0-and-1", foreignDev("g1-DRC-0", "g1-DRC-1", rName+"-DRC-0", rName+"-DRC-1", "A1-DRC-0"), false)
	}
}

// ---------------------------------------------------------------- IOS: the device already holds the merged target
//
// No IOS executor here: the device text is written from the script for the empty device (ACL blocks verbatim, the
// `ip access-group` lines put under their interfaces).  Scenario `again` only: the second compare must be empty.
// A device with the older target (without raw / IPv6) is compared too; without executor only this is judged:
// drc must accept the pair, and print nothing exactly when the two merged views (stream 1, judged there) are equal.
func iosDeviceFrom(script string) (string, bool) {
	acls := map[string][]string{}
	var order []string
	bind := map[int][]string{}
	cur, intf := "", -1
	for _, l := range strings.Split(script, "\n") {
		w := strings.Fields(l)
		switch {
		case len(w) == 0:
		case len(w) == 4 && w[0] == "ip" && w[1] == "access-list":
			cur, intf = w[3], -1
			if _, ok := acls[cur]; !ok {
				order = append(order, cur)
				acls[cur] = []string{}
			}
		case l == "exit":
			cur = ""
		case len(w) == 2 && w[0] == "interface":
			cur = ""
			intf, _ = strconv.Atoi(strings.TrimPrefix(w[1], "Ethernet"))
		case cur != "":
			acls[cur] = append(acls[cur], strings.TrimSpace(l))
		case intf >= 0 && len(w) == 4 && w[1] == "access-group":
			bind[intf] = append(bind[intf], strings.TrimSpace(l))
		case intf >= 0 && len(w) >= 2 && w[0] == "ip" && w[1] == "address":
		default:
			return "", false
		}
	}
	var sb strings.Builder
	for _, n := range order {
		sb.WriteString("ip access-list extended " + n + "\n")
		for _, b := range acls[n] {
			sb.WriteString(" " + b + "\n")
		}
	}
	for i := 0; i < nIntf+1; i++ {
		fmt.Fprintf(&sb, "interface Ethernet%d\n ip address 10.0.%d.1 255.255.255.0\n", i, i)
		for _, b := range bind[i] {
			sb.WriteString(" " + b + "\n")
		}
	}
	return sb.String(), true
}

func runNonEmptyIOS(c Case, res *Result) {
	files := c.files()
	fail := func(scn, pred, what string) {
		sig, name := sigOf(pred, map[string]any{"backend": c.Dev, "stream": "nonempty", "scenario": scn})
		res.Count("oracle:ne:" + name)
		res.Fail(sig, "[non-empty device, scenario "+scn+"] "+what, c)
	}
	out, errOut, pan := drcOn(files["dev"], files)
	if pan != "" || classifyErr(errOut) != "" {
		return
	}
	dev, ok := iosDeviceFrom(out)
	if !ok {
		res.Count("ne:ios-script-not-understood")
		return
	}
	res.Count("ne:scenario:ios-again")
	out2, err2, pan2 := drcOn(dev, files)
	switch {
	case pan2 != "":
		fail("again", "panic_on_nonempty_device", "panic: "+pan2)
	case classifyErr(err2) != "":
		fail("again", "valid_pair_rejected", "device holds the merged target, drc ends with: "+strings.TrimSpace(err2))
	case len(scriptLines(out2)) > 0:
		fail("again", "second_compare_not_empty", "device holds the merged target, compare prints: "+strings.Join(scriptLines(out2), " | "))
	default:
		res.Count("ne:second-compare-empty")
	}
	if c.Raw.Present && (c.V4.Present || c.V6.Present) {
		oldFiles := withoutFile(files, "spoc.raw")
		if o1, e1, p1 := drcOn(files["dev"], oldFiles); p1 == "" && classifyErr(e1) == "" {
			if devOld, ok := iosDeviceFrom(o1); ok {
				res.Count("ne:scenario:ios-older-without-raw")
				o2, e2, p2 := drcOn(devOld, files)
				c2 := c
				c2.Raw = File{}
				same := listsCanon(readOutcome("ios", o1, e1, "")) == listsCanon(readOutcome("ios", out, errOut, ""))
				switch {
				case p2 != "":
					fail("older-without-raw", "panic_on_nonempty_device", "panic: "+p2)
				case classifyErr(e2) != "":
					fail("older-without-raw", "valid_pair_rejected", "device holds the target without its raw file, drc ends with: "+strings.TrimSpace(e2))
				case same && len(scriptLines(o2)) > 0:
					fail("older-without-raw", "second_compare_not_empty", "raw file adds nothing to the view, compare prints: "+strings.Join(scriptLines(o2), " | "))
				case !same && len(scriptLines(o2)) == 0:
					fail("older-without-raw", "difference_not_seen", "the raw file changes the merged view, the compare with a device that has the view without it prints nothing")
				default:
					res.Count("ne:ios-older-judged")
				}
			}
		}
	}
}

// listsCanon: the bound lists of an outcome (without warnings).
func listsCanon(o outcome) string {
	var ks []int
	for k := range o.Lists {
		ks = append(ks, k)
	}
	sort.Ints(ks)
	var sb strings.Builder
	for _, k := range ks {
		fmt.Fprintf(&sb, "%d:%s;", k, strings.Join(o.Lists[k], ","))
	}
	return sb.String()
}
