package main

// Third group of streams of C18 (round 3 follow-up): ports of the merge code of linux, panos and nsx
// (NA/Model/MergeOther.lean) on the structures the real parsers produce.
//
// Generated files are parsed and merged by the REAL code (device.VerifLoadSpocSteps); the hooks
// linux/panos/nsx.VerifC18Dump show every parsed file and the merged result.  The generator's abstract
// configuration (Linux: the classified lines of the file) goes to `nadrv-c18 linux3|panos3|nsx3`;
// the model's merged configuration or error class must equal the real one, and every file the real
// parser accepts must be dumped exactly as the generator meant it (tie of the parser).
// Oracle: the merge laws on the dumped result (checkList), objects complete, no two different objects of
// one name, nothing of a part missing without error.

import (
	"encoding/json"
	"fmt"
	"path/filepath"
	"regexp"
	"sort"
	"strconv"
	"strings"

	. "verifharness/vhlib"

	"github.com/hknutzen/Netspoc-Approve/go/pkg/device"
	"github.com/hknutzen/Netspoc-Approve/go/pkg/deviceconf"
	"github.com/hknutzen/Netspoc-Approve/go/pkg/linux"
	"github.com/hknutzen/Netspoc-Approve/go/pkg/nsx"
	"github.com/hknutzen/Netspoc-Approve/go/pkg/panos"
)

// ---------------------------------------------------------------- abstract configurations

type O3Line struct {
	K string `json:"k"` // T table, C chain, S short chain line, A rule, P [APPEND], M COMMIT, O other
	A string `json:"a,omitempty"`
	B string `json:"b,omitempty"` // policy | rule text
	C string `json:"c,omitempty"` // target
}

type O3LFile struct {
	Present bool     `json:"present"`
	Routes  []string `json:"routes"`
	Lines   []O3Line `json:"lines"`
}

type O3Obj struct{ Name, Val string }
type O3Rule struct {
	Name string
	App  bool
}
type O3Vsys struct {
	Name                                             string
	Rules                                            []O3Rule
	Addresses, AddressGroups, Services, ServiceGroups []O3Obj
}
type O3PConf struct {
	Present  bool
	HasEntry bool
	DevName  string
	Vsys     []O3Vsys
}

type O3Policy struct {
	Id    string
	Rules []string
}
type O3NConf struct {
	Present  bool
	Policies []O3Policy
	Groups   []string
	Services []string
}

type O3Case struct {
	Backend string     `json:"backend"` // linux | panos | nsx
	L       [3]O3LFile `json:"l,omitempty"`
	P       [3]O3PConf `json:"p,omitempty"`
	N       [3]O3NConf `json:"n,omitempty"`
}

// ---------------------------------------------------------------- encodings (driver syntax)

func (f O3LFile) enc() string {
	if !f.Present {
		return "-"
	}
	var ls []string
	for _, l := range f.Lines {
		switch l.K {
		case "T":
			ls = append(ls, "T"+cUS+l.A)
		case "C":
			ls = append(ls, "C"+cUS+l.A+cUS+l.B)
		case "A":
			ls = append(ls, "A"+cUS+l.A+cUS+l.B+cUS+l.C)
		default:
			ls = append(ls, l.K)
		}
	}
	return strings.Join(f.Routes, cRS) + cFS + strings.Join(ls, cRS)
}

func (f O3LFile) text() string {
	var sb strings.Builder
	for _, r := range f.Routes {
		sb.WriteString(r + "\n")
	}
	for _, l := range f.Lines {
		switch l.K {
		case "T":
			sb.WriteString("*" + l.A + "\n")
		case "C":
			sb.WriteString(":" + l.A + " " + l.B + "\n")
		case "S":
			sb.WriteString(":LONELY\n")
		case "A":
			sb.WriteString(l.B + "\n")
		case "P":
			sb.WriteString("[APPEND]\n")
		case "M":
			sb.WriteString("COMMIT\n")
		case "O":
			sb.WriteString("flush everything\n")
		}
	}
	return sb.String()
}

func encObjs(l []O3Obj) string {
	var s []string
	for _, o := range l {
		s = append(s, o.Name+cUS+o.Val)
	}
	return strings.Join(s, cRS)
}

func (c O3PConf) enc() string {
	if !c.Present {
		return "-"
	}
	parts := []string{b2s(c.HasEntry), c.DevName}
	for _, v := range c.Vsys {
		var rs []string
		for _, r := range v.Rules {
			rs = append(rs, r.Name+cUS+b2s(r.App))
		}
		parts = append(parts, strings.Join([]string{v.Name, strings.Join(rs, cRS), encObjs(v.Addresses), encObjs(v.AddressGroups),
			encObjs(v.Services), encObjs(v.ServiceGroups)}, cGS))
	}
	return strings.Join(parts, cFS)
}

func panRuleXML(name string, app bool, svc string) string {
	a := ""
	if app {
		a = "<APPEND/>"
	}
	return fmt.Sprintf(`<entry name="%s"><action>allow</action><from><member>z1</member></from><to><member>z2</member></to>`+
		`<source><member>any</member></source><destination><member>any</member></destination><service><member>%s</member></service>`+
		`<application><member>any</member></application>%s</entry>`, name, svc, a)
}

func (c O3PConf) text() string {
	if !c.HasEntry {
		return "<config><devices></devices></config>\n"
	}
	var sb strings.Builder
	fmt.Fprintf(&sb, `<config><devices><entry name="%s"><vsys>`, c.DevName)
	for _, v := range c.Vsys {
		fmt.Fprintf(&sb, `<entry name="%s"><rulebase><security><rules>`, v.Name)
		for _, r := range v.Rules {
			sb.WriteString(panRuleXML(r.Name, r.App, "any") + "\n")
		}
		sb.WriteString(`</rules></security></rulebase><address>`)
		for _, o := range v.Addresses {
			fmt.Fprintf(&sb, `<entry name="%s"><ip-netmask>%s</ip-netmask></entry>`, o.Name, o.Val)
		}
		sb.WriteString(`</address><address-group>`)
		for _, o := range v.AddressGroups {
			fmt.Fprintf(&sb, `<entry name="%s"><static>`, o.Name)
			for _, m := range strings.Split(o.Val, ",") {
				fmt.Fprintf(&sb, `<member>%s</member>`, m)
			}
			sb.WriteString(`</static></entry>`)
		}
		sb.WriteString(`</address-group><service>`)
		for _, o := range v.Services {
			fmt.Fprintf(&sb, `<entry name="%s"><protocol><tcp><port>%s</port></tcp></protocol></entry>`, o.Name, o.Val)
		}
		sb.WriteString(`</service><service-group>`)
		for _, o := range v.ServiceGroups {
			fmt.Fprintf(&sb, `<entry name="%s"><members>`, o.Name)
			for _, m := range strings.Split(o.Val, ",") {
				fmt.Fprintf(&sb, `<member>%s</member>`, m)
			}
			sb.WriteString(`</members></entry>`)
		}
		sb.WriteString(`</service-group></entry>`)
	}
	sb.WriteString("</vsys></entry></devices></config>\n")
	return sb.String()
}

func (c O3NConf) enc() string {
	if !c.Present {
		return "-"
	}
	var ps []string
	for _, p := range c.Policies {
		ps = append(ps, strings.Join(append([]string{p.Id}, p.Rules...), cUS))
	}
	return strings.Join([]string{strings.Join(ps, cFS), strings.Join(c.Groups, cRS), strings.Join(c.Services, cRS)}, cGS)
}

func (c O3NConf) text() string {
	type m = map[string]any
	var ps, gs, ss []m
	for _, p := range c.Policies {
		rules := []m{}
		for i, r := range p.Rules {
			rules = append(rules, m{"id": r, "action": "ALLOW", "sequence_number": 10 + i, "source_groups": []string{"ANY"},
				"destination_groups": []string{"ANY"}, "services": []string{"ANY"}, "scope": []string{"/infra/tier-0s/v1"},
				"direction": "OUT", "ip_protocol": "IPV4"})
		}
		ps = append(ps, m{"id": p.Id, "rules": rules})
	}
	for _, g := range c.Groups {
		gs = append(gs, m{"id": g, "expression": []m{{"id": "id", "resource_type": "IPAddressExpression", "ip_addresses": []string{"10.1.1.1"}}}})
	}
	for _, s := range c.Services {
		ss = append(ss, m{"id": s, "service_entries": []m{{"id": "id", "resource_type": "L4PortSetServiceEntry", "l4_protocol": "TCP",
			"destination_ports": []string{"80"}, "source_ports": []string{}}}})
	}
	b, _ := json.Marshal(m{"policies": ps, "groups": gs, "services": ss})
	return string(b) + "\n"
}

// ---------------------------------------------------------------- real run

type o3Real struct {
	dumps   map[string]string // stage -> configuration in driver syntax
	aborted bool
	perr    string
	stderr  string
	panicM  string
	lfin    *linux.VerifC18Conf
	pfin    *panos.VerifC18Conf
	nfin    *nsx.VerifC18Conf
}

func encLReal(d linux.VerifC18Conf) string {
	parts := []string{strings.Join(d.Routes, cRS), strings.Join(d.Tables, cRS)}
	for _, ch := range d.Chains {
		var rs []string
		for _, r := range ch.Rules {
			rs = append(rs, r.Orig+cUS+r.Target+cUS+b2s(r.Append))
		}
		parts = append(parts, strings.Join([]string{ch.Table, ch.Name, ch.Policy, strings.Join(rs, cRS)}, cGS))
	}
	return strings.Join(parts, cFS)
}

func pFromReal(d panos.VerifC18Conf) O3PConf {
	c := O3PConf{Present: true, HasEntry: d.NEntries > 0, DevName: d.DevName}
	conv := func(l []panos.VerifC18Obj, addr bool) []O3Obj {
		var r []O3Obj
		for _, o := range l {
			r = append(r, O3Obj{o.Name, o.Val})
		}
		return r
	}
	for _, v := range d.Vsys {
		nv := O3Vsys{Name: v.Name, Addresses: conv(v.Addresses, true), AddressGroups: conv(v.AddressGroups, false),
			Services: conv(v.Services, false), ServiceGroups: conv(v.ServiceGroups, false)}
		for _, r := range v.Rules {
			nv.Rules = append(nv.Rules, O3Rule{r.Name, r.Append})
		}
		c.Vsys = append(c.Vsys, nv)
	}
	return c
}

func nFromReal(d nsx.VerifC18Conf) O3NConf {
	c := O3NConf{Present: true, Groups: d.Groups, Services: d.Services}
	for _, p := range d.Policies {
		c.Policies = append(c.Policies, O3Policy{p.Id, p.Rules})
	}
	return c
}

// the values the real parser shows for addresses / services are XML; the generator's values are put into that form
func pCanonVals(c O3PConf) O3PConf {
	out := c
	out.Vsys = nil
	for _, v := range c.Vsys {
		nv := v
		nv.Addresses, nv.Services, nv.AddressGroups, nv.ServiceGroups = nil, nil, nil, nil
		for _, o := range v.Addresses {
			nv.Addresses = append(nv.Addresses, O3Obj{o.Name, "<ip-netmask>" + o.Val + "</ip-netmask>"})
		}
		for _, o := range v.Services {
			nv.Services = append(nv.Services, O3Obj{o.Name, "<protocol><tcp><port>" + o.Val + "</port></tcp></protocol>"})
		}
		srt := func(l []O3Obj) []O3Obj {
			var r []O3Obj
			for _, o := range l {
				m := strings.Split(o.Val, ",")
				sort.Strings(m)
				r = append(r, O3Obj{o.Name, strings.Join(m, ",")})
			}
			return r
		}
		nv.AddressGroups, nv.ServiceGroups = srt(v.AddressGroups), srt(v.ServiceGroups)
		out.Vsys = append(out.Vsys, nv)
	}
	return out
}

func o3Run(c O3Case) o3Real {
	model := map[string]string{"linux": "Linux", "panos": "PAN-OS", "nsx": "NSX"}[c.Backend]
	files := map[string]string{"spoc.info": `{"model":"` + model + `"}` + "\n"}
	names := []string{"spoc", "ipv6/spoc", "spoc.raw"}
	for i, n := range names {
		switch c.Backend {
		case "linux":
			if c.L[i].Present {
				files[n] = c.L[i].text()
			}
		case "panos":
			if c.P[i].Present {
				files[n] = c.P[i].text()
			}
		case "nsx":
			if c.N[i].Present {
				files[n] = c.N[i].text()
			}
		}
	}
	resetCaseDir()
	WriteFiles(caseDir, files)
	r := o3Real{dumps: map[string]string{}}
	_, stderr, _, panicMsg := Captured(func() int {
		aborted, err := device.VerifLoadSpocSteps(filepath.Join(caseDir, "spoc"), func(stage string, cf deviceconf.Config) {
			switch c.Backend {
			case "linux":
				d := linux.VerifC18Dump(cf)
				r.dumps[stage] = encLReal(d)
				if stage == "v4+v6+raw" {
					r.lfin = &d
				}
			case "panos":
				d := panos.VerifC18Dump(cf)
				r.dumps[stage] = pFromReal(d).enc()
				if stage == "v4+v6+raw" {
					r.pfin = &d
				}
			case "nsx":
				d := nsx.VerifC18Dump(cf)
				r.dumps[stage] = nFromReal(d).enc()
				if stage == "v4+v6+raw" {
					r.nfin = &d
				}
			}
		})
		r.aborted = aborted
		if err != nil {
			r.perr = err.Error()
		}
		return 0
	})
	r.stderr, r.panicM = stderr, panicMsg
	return r
}

var o3Errs = []struct {
	re  *regexp.Regexp
	fmt string
}{
	{regexp.MustCompile(`Must not redefine chain "(.*)" of table "(.*)" from rawdata`), "err redefChain $2" + cUS + "$1"},
	{regexp.MustCompile(`Duplicate definition of table "(.*)"`), "err dupTable $1"},
	{regexp.MustCompile(`Duplicate definition of chain "(.*)"`), "err dupChain $1"},
	{regexp.MustCompile(`Must define policy before adding rules of chain "(.*)"`), "err noPolicy $1"},
	{regexp.MustCompile(`Found (rule|chain policy) outside of table`), "err outside"},
	{regexp.MustCompile(`(Unknown|Unsupported) command`), "err unknownCmd"},
	{regexp.MustCompile(`Different names in <device> of XML: \w+='(.*)', \w+='(.*)'`), "err devName $1" + cUS + "$2"},
	{regexp.MustCompile(`Name clash for (\S+) '(.*)' in vsys '(.*)'`), "err clash $1" + cUS + "$2" + cUS + "$3"},
	{regexp.MustCompile(`Must not use rule name starting with 'r<NUM>': (\S+)`), "err reservedRULE $1"},
	{regexp.MustCompile(`Must only define group where name has prefix 'Netspoc': (\S+)`), "err groupPrefix $1"},
	{regexp.MustCompile(`Must not use group name starting with 'Netspoc-g<NUM>': (\S+)`), "err reservedGroup $1"},
	{regexp.MustCompile(`Must only define service where name has prefix 'Netspoc-raw': (\S+)`), "err servicePrefix $1"},
}

func (r o3Real) canon(backend string) string {
	if r.panicM != "" {
		return "err panic " + r.panicM
	}
	msg := r.stderr + " " + r.perr
	if r.aborted || r.perr != "" {
		for _, e := range o3Errs {
			if m := e.re.FindStringSubmatchIndex(msg); m != nil {
				s := string(e.re.ExpandString(nil, e.fmt, msg, m))
				if backend == "panos" {
					s = strings.Replace(s, "reservedRULE", "reservedName", 1)
				} else {
					s = strings.Replace(s, "reservedRULE", "reservedRule", 1)
				}
				return s
			}
		}
		return "err other " + strings.TrimSpace(msg)
	}
	fin, ok := r.dumps["v4+v6+raw"]
	if !ok {
		return "incomplete"
	}
	return "ok\t" + fin
}

// modelCanon3 sorts the model's answer the way the real dump is sorted (Linux: chains by table, name).
func modelCanon3(backend, ans string) string {
	if backend != "linux" || !strings.HasPrefix(ans, "ok\t") {
		return ans
	}
	parts := strings.Split(strings.TrimPrefix(ans, "ok\t"), cFS)
	if len(parts) < 2 {
		return ans
	}
	tabs := strings.Split(parts[1], cRS)
	if parts[1] == "" {
		tabs = nil
	}
	sort.Strings(tabs)
	chains := append([]string{}, parts[2:]...)
	sort.SliceStable(chains, func(i, j int) bool {
		a, b := strings.SplitN(chains[i], cGS, 3), strings.SplitN(chains[j], cGS, 3)
		if a[0] != b[0] {
			return a[0] < b[0]
		}
		return a[1] < b[1]
	})
	return "ok\t" + strings.Join(append([]string{parts[0], strings.Join(tabs, cRS)}, chains...), cFS)
}

// ---------------------------------------------------------------- oracle

func o3Lines(names []string, apps []bool, kinds []string, ids map[string]int) []Line {
	var l []Line
	for i, n := range names {
		if _, ok := ids[n]; !ok {
			ids[n] = len(ids) + 1
		}
		l = append(l, Line{ID: ids[n], Kind: kinds[i], App: apps[i], Known: true})
	}
	return l
}

var o3ReReserved = regexp.MustCompile(`^r\d`)

// o3Expect judges from the generator's input alone which diagnostics have to come:
// must != "": an entry of an unmergeable kind (enumerated per backend in NA/Props/C18Other.lean) is present;
// otherwise no error may come at all.
func o3Expect(c O3Case) (must string) {
	switch c.Backend {
	case "linux":
		known := map[string]map[string]string{} // table -> chain -> policy, of the parts merged so far
		for pi, f := range c.L {
			if !f.Present {
				continue
			}
			cur := ""
			own := map[string]map[string]string{}
			var order []string
			for _, l := range f.Lines {
				switch l.K {
				case "T":
					if own[l.A] != nil {
						return "table " + l.A + " written twice"
					}
					own[l.A] = map[string]string{}
					order = append(order, l.A)
					cur = l.A
				case "C", "S", "A":
					if cur == "" {
						return "line outside of any table"
					}
					if l.K == "C" {
						if _, dup := own[cur][l.A]; dup {
							return "chain " + l.A + " written twice"
						}
						own[cur][l.A] = l.B
					}
					if l.K == "A" {
						if _, ok := own[cur][l.A]; !ok {
							return "rule of chain " + l.A + " without policy line"
						}
					}
				case "O":
					return "unknown line"
				}
			}
			for t, chains := range own {
				if known[t] == nil {
					known[t] = chains // new table: taken as it is
					continue
				}
				for n, pol := range chains {
					if old, ok := known[t][n]; ok {
						if old == "-" || old == "" {
							return fmt.Sprintf("user chain %s/%s of part %d is defined by an earlier part", t, n, pi)
						}
					} else {
						known[t][n] = pol
					}
				}
			}
		}
	case "nsx":
		raw := c.N[2]
		if raw.Present {
			for _, p := range raw.Policies {
				for _, r := range p.Rules {
					if o3ReReserved.MatchString(r) {
						return "reserved rule name " + r
					}
				}
			}
			for _, g := range raw.Groups {
				if !strings.HasPrefix(g, "Netspoc") || regexp.MustCompile(`^Netspoc-g\d`).MatchString(g) {
					return "group name " + g
				}
			}
			for _, sv := range raw.Services {
				if !strings.HasPrefix(sv, "Netspoc-raw") {
					return "service name " + sv
				}
			}
		}
	case "panos":
		devName := ""
		merged := map[string]*O3Vsys{} // objects and rules known under a vsys name so far
		hasEntry := false
		for pi, p := range c.P {
			if !p.Present || !p.HasEntry {
				continue
			}
			if pi == 2 {
				for _, v := range p.Vsys {
					for _, r := range v.Rules {
						if o3ReReserved.MatchString(r.Name) {
							return "reserved rule name " + r.Name
						}
					}
				}
			}
			if hasEntry && devName != "" && p.DevName != "" && devName != p.DevName {
				return "device name " + p.DevName + " differs from " + devName
			}
			last := map[string]int{}
			for i, v := range p.Vsys {
				last[v.Name] = i
			}
			differ := func(typ string, old, neu []O3Obj, group bool) string {
				for _, o2 := range neu {
					for _, o1 := range old {
						v1, v2 := o1.Val, o2.Val
						if group {
							a, b := strings.Split(v1, ","), strings.Split(v2, ",")
							sort.Strings(a)
							sort.Strings(b)
							v1, v2 = strings.Join(a, ","), strings.Join(b, ",")
						}
						if o1.Name == o2.Name && v1 != v2 {
							return typ + " " + o2.Name + " defined differently"
						}
					}
				}
				return ""
			}
			for i, v := range p.Vsys {
				if m := merged[v.Name]; m != nil && last[v.Name] == i {
					for _, e := range []string{differ("address", m.Addresses, v.Addresses, false), differ("address-group", m.AddressGroups, v.AddressGroups, true),
						differ("service", m.Services, v.Services, false), differ("service-group", m.ServiceGroups, v.ServiceGroups, true)} {
						if e != "" {
							return e
						}
					}
				}
			}
			wasKnown := map[string]bool{}
			for n := range merged {
				wasKnown[n] = true
			}
			for i, v := range p.Vsys {
				if wasKnown[v.Name] && last[v.Name] != i {
					continue // not merged (F-C18k)
				}
				m := merged[v.Name]
				if m == nil {
					m = &O3Vsys{Name: v.Name}
					merged[v.Name] = m
				}
				m.Addresses = append(m.Addresses, v.Addresses...)
				m.AddressGroups = append(m.AddressGroups, v.AddressGroups...)
				m.Services = append(m.Services, v.Services...)
				m.ServiceGroups = append(m.ServiceGroups, v.ServiceGroups...)
			}
			if !hasEntry {
				hasEntry = true
				if pi == 0 {
					devName = p.DevName
				} else if len(p.Vsys) == 0 {
					hasEntry = false // nothing created
				}
			}
		}
	}
	return ""
}

func o3Oracle(c O3Case, r o3Real) []violation {
	var vs []violation
	if r.panicM != "" {
		return []violation{{"merge_panic", r.panicM}}
	}
	must := o3Expect(c)
	if r.aborted || r.perr != "" {
		if must == "" {
			return []violation{{"valid_input_rejected", "input without any unmergeable entry ends with: " + strings.TrimSpace(r.stderr+" "+r.perr)}}
		}
		return nil
	}
	if must != "" {
		vs = append(vs, violation{"unmergeable_entry_not_reported", must + ": no error"})
	}
	switch c.Backend {
	case "nsx":
		if r.nfin == nil {
			return nil
		}
		for id := range map[string]bool{"": true} {
			_ = id
		}
		ids := map[string]bool{}
		for _, p := range r.nfin.Policies {
			ids[p.Id] = true
		}
		seen := map[string]bool{}
		for part := range c.N {
			for _, p := range c.N[part].Policies {
				seen[p.Id] = true
			}
		}
		for id := range seen {
			idm := map[string]int{}
			get := func(part int) []Line {
				var names []string
				for _, p := range c.N[part].Policies {
					if p.Id == id {
						names = append(names, p.Rules...)
					}
				}
				k := make([]string, len(names))
				a := make([]bool, len(names))
				for i := range k {
					k[i] = "p"
				}
				return o3Lines(names, a, k, idm)
			}
			n4, n6, raw := get(0), get(1), get(2)
			var res []string
			for _, p := range r.nfin.Policies {
				if p.Id == id {
					for _, ru := range p.Rules {
						res = append(res, strconv.Itoa(idm[ru]))
					}
				}
			}
			if len(n4)+len(n6)+len(raw) == 0 {
				continue
			}
			vs = append(vs, checkList("nsx", res, n4, n6, raw, "nsx policy "+id)...)
		}
		for part := range c.N {
			for _, g := range c.N[part].Groups {
				if !contains(r.nfin.Groups, g) {
					vs = append(vs, violation{"object_lost", "nsx group " + g})
				}
			}
			for _, s := range c.N[part].Services {
				if !contains(r.nfin.Services, s) {
					vs = append(vs, violation{"object_lost", "nsx service " + s})
				}
			}
		}
	case "panos":
		if r.pfin == nil {
			return nil
		}
		names := map[string]bool{}
		for part := range c.P {
			for _, v := range c.P[part].Vsys {
				names[v.Name] = true
			}
		}
		// F-C18k, per vsys: occurrences of a vsys name inside one part that are not the last one are not merged
		// when the name is known from an earlier part; `dropped` collects their rules and addresses
		droppedRule, droppedAddr := map[string]bool{}, map[string]bool{}
		separately := map[string]bool{}
		for vn := range names {
			idm := map[string]int{}
			earlier := false
			var parts3 [3][]Line
			for part := range c.P {
				var ns []string
				var as []bool
				if c.P[part].HasEntry {
					var occ []O3Vsys
					for _, v := range c.P[part].Vsys {
						if v.Name == vn {
							occ = append(occ, v)
						}
					}
					if len(occ) > 1 && !earlier && part == 2 {
						// a new vsys written twice: the code adds two vsys of that name; each is judged on its own
						var finals [][]string
						for _, v := range r.pfin.Vsys {
							if v.Name == vn {
								var l []string
								for _, ru := range v.Rules {
									l = append(l, ru.Name)
								}
								finals = append(finals, l)
							}
						}
						if len(finals) != len(occ) {
							vs = append(vs, violation{"vsys_written_twice_not_added_twice", fmt.Sprintf("panos vsys %s: %d entries in raw, %d in the result", vn, len(occ), len(finals))})
						} else {
							for i, v := range occ {
								im := map[string]int{}
								var ns2, res2 []string
								var as2 []bool
								for _, ru := range v.Rules {
									ns2 = append(ns2, ru.Name)
									as2 = append(as2, ru.App)
								}
								k2 := make([]string, len(ns2))
								for j := range k2 {
									k2[j] = "p"
								}
								l2 := o3Lines(ns2, as2, k2, im)
								for _, n := range finals[i] {
									res2 = append(res2, strconv.Itoa(im[n]))
								}
								vs = append(vs, checkList("panos", res2, nil, nil, l2, fmt.Sprintf("panos vsys %s (entry %d)", vn, i))...)
							}
						}
						separately[vn] = true
						occ = nil
					}
					if len(occ) > 1 && earlier {
						for _, v := range occ[:len(occ)-1] {
							for _, ru := range v.Rules {
								droppedRule[vn+"/"+ru.Name] = true
							}
							for _, o := range v.Addresses {
								droppedAddr[vn+"/"+o.Name] = true
							}
						}
						occ = occ[len(occ)-1:]
					}
					for _, v := range occ {
						for _, ru := range v.Rules {
							ns = append(ns, ru.Name)
							as = append(as, ru.App && part == 2)
						}
					}
					if len(occ) > 0 {
						earlier = true
					}
				}
				k := make([]string, len(ns))
				for i := range k {
					k[i] = "p"
				}
				parts3[part] = o3Lines(ns, as, k, idm)
			}
			if separately[vn] {
				continue
			}
			n4, n6, raw := parts3[0], parts3[1], parts3[2]
			var res []string
			for _, v := range r.pfin.Vsys {
				if v.Name == vn {
					for _, ru := range v.Rules {
						if droppedRule[vn+"/"+ru.Name] {
							continue // a rule the known finding says is dropped, but it is there: judged below as foreign
						}
						res = append(res, strconv.Itoa(idm[ru.Name]))
					}
				}
			}
			// the known finding, for this vsys only and only for the rules it explains
			for key := range droppedRule {
				if !strings.HasPrefix(key, vn+"/") {
					continue
				}
				found := false
				for _, v := range r.pfin.Vsys {
					if v.Name == vn {
						for _, ru := range v.Rules {
							found = found || vn+"/"+ru.Name == key
						}
					}
				}
				if !found {
					vs = append(vs, violation{withAttrs("panos_duplicate_vsys_in_part", "affected_object=true", "model_predicts=true", "what_is_lost=rule"),
						"rule " + key + " of a vsys entry that is written twice in one file is not merged"})
				}
			}
			if len(n4)+len(n6)+len(raw) == 0 && len(res) == 0 {
				continue
			}
			// the laws on the lines that have to be there, also for a vsys with the known defect
			vs = append(vs, checkList("panos", res, n4, n6, raw, "panos vsys "+vn)...)
		}
		// objects: all there, no two different definitions under one name
		for _, v := range r.pfin.Vsys {
			for typ, l := range map[string][]panos.VerifC18Obj{"address": v.Addresses, "address-group": v.AddressGroups, "service": v.Services, "service-group": v.ServiceGroups} {
				val := map[string]string{}
				for _, o := range l {
					if old, ok := val[o.Name]; ok && old != o.Val {
						vs = append(vs, violation{"object_name_clash_not_reported", fmt.Sprintf("panos %s %s has two different definitions in vsys %s", typ, o.Name, v.Name)})
					}
					val[o.Name] = o.Val
				}
			}
		}
		for part := range c.P {
			if !c.P[part].HasEntry {
				continue
			}
			for _, v := range c.P[part].Vsys {
				for _, o := range v.Addresses {
					ok := false
					for _, rv := range r.pfin.Vsys {
						if rv.Name == v.Name {
							for _, ro := range rv.Addresses {
								ok = ok || ro.Name == o.Name
							}
						}
					}
					if !ok {
						p := "object_lost"
						if droppedAddr[v.Name+"/"+o.Name] {
							p = withAttrs("panos_duplicate_vsys_in_part", "affected_object=true", "model_predicts=true", "what_is_lost=address")
						}
						vs = append(vs, violation{p, "panos address " + o.Name + " of vsys " + v.Name})
					}
				}
			}
		}
	case "linux":
		if r.lfin == nil {
			return nil
		}
		// what the three files say, chain by chain (as the real parser dumped them)
		type key struct{ t, n string }
		idm := map[string]int{}
		parts := [3]map[key][]Line{{}, {}, {}}
		pol := [3]map[key]string{{}, {}, {}}
		for i, st := range []string{"v4", "v6", "raw"} {
			d := r.dumps[st]
			if d == "" {
				continue
			}
			f := strings.Split(d, cFS)
			for _, ch := range f[2:] {
				g := strings.Split(ch, cGS)
				k := key{g[0], g[1]}
				pol[i][k] = g[2]
				var ns, ks []string
				var as []bool
				if g[3] != "" {
					for _, ru := range strings.Split(g[3], cRS) {
						u := strings.Split(ru, cUS)
						ns = append(ns, g[0]+"/"+g[1]+"/"+u[0])
						kk := "o"
						if u[1] == "DROP" {
							kk = "d"
						} else if u[1] == "ACCEPT" {
							kk = "p"
						}
						ks = append(ks, kk)
						as = append(as, u[2] == "1")
					}
				}
				parts[i][k] = o3Lines(ns, as, ks, idm)
			}
		}
		keys := map[key]bool{}
		for i := range parts {
			for k := range parts[i] {
				keys[k] = true
			}
		}
		for k := range keys {
			var res []string
			for _, ch := range r.lfin.Chains {
				if ch.Table == k.t && ch.Name == k.n {
					for _, ru := range ch.Rules {
						res = append(res, strconv.Itoa(idm[k.t+"/"+k.n+"/"+ru.Orig]))
					}
				}
			}
			raw := parts[2][k]
			_, in4 := pol[0][k]
			_, in6 := pol[1][k]
			n6 := parts[1][k]
			if !in4 && !in6 {
				// chain only in raw: taken as it is
				raw = append([]Line{}, raw...)
				for i := range raw {
					raw[i].App = false
				}
			}
			if !in4 {
				n6 = append([]Line{}, n6...)
			}
			vs = append(vs, checkList("linux", res, parts[0][k], n6, raw, "linux chain "+k.t+"/"+k.n)...)
		}
		// every rule line of every file reaches the parser's dump (nothing dropped while reading)
		for i := range c.L {
			if !c.L[i].Present {
				continue
			}
			d := r.dumps[[]string{"v4", "v6", "raw"}[i]]
			for _, l := range c.L[i].Lines {
				if l.K == "A" && !strings.Contains(d, l.B+cUS) {
					vs = append(vs, violation{"linux_rule_dropped_while_reading", "rule line lost by the parser: " + l.B})
				}
			}
		}
	}
	return vs
}

func contains(l []string, s string) bool {
	for _, x := range l {
		if x == s {
			return true
		}
	}
	return false
}

// ---------------------------------------------------------------- generators

type o3Gen struct {
	r  *RNG
	id int
}

func (g *o3Gen) next() int { g.id++; return g.id }

func (g *o3Gen) linuxFile(raw bool, present int) O3LFile {
	r := g.r
	f := O3LFile{Present: r.Chance(present)}
	if !f.Present {
		return f
	}
	for i := 0; i < r.Intn(3); i++ {
		f.Routes = append(f.Routes, fmt.Sprintf("ip route add 10.%d.0.0/16 via 10.1.2.%d", 20+r.Intn(5), 1+r.Intn(3)))
	}
	tables := []string{"filter", "mangle"}
	if r.Bool() {
		tables = []string{"mangle", "filter"}
	}
	commit := r.Chance(55)
	chainsOf := []string{"INPUT", "FORWARD", "c1", "c2"}
	rule := func(ch string) O3Line {
		n := g.next()
		t := Pick(r, []string{"ACCEPT", "ACCEPT", "DROP", "DROP", "LOG", "RETURN"})
		return O3Line{K: "A", A: ch, B: fmt.Sprintf("-A %s -s 10.%d.%d.%d -j %s", ch, n/65536+1, n/256%256, n%256, t), C: t}
	}
	emit := func(t string) {
		f.Lines = append(f.Lines, O3Line{K: "T", A: t})
		var declared []string
		for _, ch := range chainsOf {
			pc := 45
			if raw && ch[0] == 'c' {
				pc = 12 // a user chain of the raw file that Netspoc also has is an error
			}
			if r.Chance(pc) {
				p := "DROP"
				if ch[0] == 'c' {
					p = "-"
				} else if raw && r.Chance(10) {
					p = "ACCEPT"
				}
				f.Lines = append(f.Lines, O3Line{K: "C", A: ch, B: p})
				declared = append(declared, ch)
			}
		}
		app := false
		n := r.Intn(6)
		for i := 0; i < n && len(declared) > 0; i++ {
			if raw && !app && r.Chance(25) {
				f.Lines = append(f.Lines, O3Line{K: "P"})
				app = true
			}
			f.Lines = append(f.Lines, rule(Pick(r, declared)))
		}
		if raw {
			switch x := r.Intn(100); {
			case x < 4 && len(declared) > 0: // chain declared a second time, more rules
				ch := Pick(r, declared)
				f.Lines = append(f.Lines, O3Line{K: "C", A: ch, B: "DROP"}, rule(ch))
			case x < 6:
				f.Lines = append(f.Lines, rule("c9")) // no policy
			case x < 8:
				f.Lines = append(f.Lines, O3Line{K: "O"})
			case x < 10:
				f.Lines = append(f.Lines, O3Line{K: "S"})
			}
		}
		if commit {
			f.Lines = append(f.Lines, O3Line{K: "M"})
		}
	}
	for _, t := range tables {
		if r.Chance(70) {
			emit(t)
		}
	}
	if raw && r.Chance(6) {
		emit(Pick(r, tables)) // a table a second time
	}
	if raw && r.Chance(2) {
		f.Lines = append([]O3Line{rule("INPUT")}, f.Lines...) // rule outside of any table
	}
	return f
}

func (g *o3Gen) panConf(part int) O3PConf {
	r := g.r
	c := O3PConf{Present: r.Chance([]int{90, 30, 92}[part])}
	if !c.Present {
		return c
	}
	c.HasEntry = r.Chance(93)
	if !c.HasEntry {
		return c
	}
	c.DevName = "dev1"
	if part > 0 {
		switch x := r.Intn(100); {
		case x < 6:
			c.DevName = "other"
		case x < 16:
			c.DevName = ""
		}
	}
	tag := []string{"n", "s", "w"}[part]
	for i := 1; i <= 3; i++ {
		if !r.Chance(55) {
			continue
		}
		v := O3Vsys{Name: fmt.Sprintf("vsys%d", i)}
		for j := 0; j < r.Intn(5); j++ {
			name := fmt.Sprintf("%sx%d", tag, g.next())
			if part == 2 && r.Chance(2) {
				name = fmt.Sprintf("r%d", g.next())
			}
			v.Rules = append(v.Rules, O3Rule{name, part == 2 && r.Chance(35)})
		}
		// objects: own names, names shared with the other parts (same or different definition)
		for j := 0; j < r.Intn(3); j++ {
			n := fmt.Sprintf("a%d", 1+r.Intn(4))
			val := fmt.Sprintf("10.1.%s.0/24", n[1:])
			if part > 0 && r.Chance(12) {
				val = "10.9.9.9/32"
			}
			if !hasObj(v.Addresses, n) {
				v.Addresses = append(v.Addresses, O3Obj{n, val})
			}
		}
		if r.Chance(40) {
			n := fmt.Sprintf("g%d", 1+r.Intn(2))
			val := "a1,a2"
			if part > 0 && r.Chance(15) {
				val = "a1,a3"
			}
			v.AddressGroups = append(v.AddressGroups, O3Obj{n, val})
		}
		if r.Chance(50) {
			n := fmt.Sprintf("tcp %d", 80+r.Intn(2))
			val := n[4:]
			if part > 0 && r.Chance(10) {
				val = "8080"
			}
			v.Services = append(v.Services, O3Obj{n, val})
		}
		if r.Chance(30) {
			val := "tcp 80"
			if part > 0 && r.Chance(15) {
				val = "tcp 80,tcp 81"
			}
			v.ServiceGroups = append(v.ServiceGroups, O3Obj{"sg1", val})
		}
		c.Vsys = append(c.Vsys, v)
		if part == 2 && r.Chance(5) {
			c.Vsys = append(c.Vsys, O3Vsys{Name: v.Name, Rules: []O3Rule{{fmt.Sprintf("wx%d", g.next()), false}}})
		}
	}
	return c
}

func hasObj(l []O3Obj, n string) bool {
	for _, o := range l {
		if o.Name == n {
			return true
		}
	}
	return false
}

func (g *o3Gen) nsxConf(part int) O3NConf {
	r := g.r
	c := O3NConf{Present: r.Chance([]int{90, 35, 92}[part])}
	if !c.Present {
		return c
	}
	tag := []string{"r", "v6r", "raw"}[part]
	for i := 1; i <= 3; i++ {
		if !r.Chance(55) {
			continue
		}
		p := O3Policy{Id: fmt.Sprintf("Netspoc-v%d", i)}
		for j := 0; j < r.Intn(4); j++ {
			p.Rules = append(p.Rules, fmt.Sprintf("%s%d", tag, g.next()))
		}
		if part == 2 && r.Chance(3) {
			p.Rules = append(p.Rules, fmt.Sprintf("r%d", g.next()))
		}
		c.Policies = append(c.Policies, p)
		if part > 0 && r.Chance(10) {
			c.Policies = append(c.Policies, O3Policy{Id: p.Id, Rules: []string{fmt.Sprintf("%s%d", tag, g.next())}})
		}
	}
	Shuffle(r, c.Policies)
	for j := 0; j < r.Intn(3); j++ {
		n := fmt.Sprintf("Netspoc-%sg%d", []string{"", "v6", "raw-"}[part], g.next())
		if part == 2 {
			switch x := r.Intn(100); {
			case x < 3:
				n = fmt.Sprintf("my-group%d", g.next())
			case x < 6:
				n = fmt.Sprintf("Netspoc-g%d", g.next())
			}
		}
		c.Groups = append(c.Groups, n)
	}
	for j := 0; j < r.Intn(3); j++ {
		n := fmt.Sprintf("Netspoc-tcp_%d", 80+r.Intn(3))
		if part == 2 {
			n = fmt.Sprintf("Netspoc-raw-tcp_%d", g.next())
			if r.Chance(4) {
				n = fmt.Sprintf("Netspoc-icmp%d", g.next())
			}
		}
		if !contains(c.Services, n) {
			c.Services = append(c.Services, n)
		}
	}
	return c
}

func (g *o3Gen) gen(backend string) O3Case {
	g.id = 0
	c := O3Case{Backend: backend}
	switch backend {
	case "linux":
		c.L = [3]O3LFile{g.linuxFile(false, 90), g.linuxFile(false, 12), g.linuxFile(true, 92)}
	case "panos":
		c.P = [3]O3PConf{g.panConf(0), g.panConf(1), g.panConf(2)}
	case "nsx":
		c.N = [3]O3NConf{g.nsxConf(0), g.nsxConf(1), g.nsxConf(2)}
	}
	return c
}

func o3Corpus() []O3Case {
	lr := func(ch string, n int, t string) O3Line {
		return O3Line{K: "A", A: ch, B: fmt.Sprintf("-A %s -s 10.0.0.%d -j %s", ch, n, t), C: t}
	}
	v4 := O3LFile{Present: true, Lines: []O3Line{{K: "T", A: "filter"}, {K: "C", A: "INPUT", B: "DROP"}, lr("INPUT", 1, "ACCEPT"), lr("INPUT", 2, "DROP")}}
	pv := func(name string, rules ...string) O3Vsys {
		v := O3Vsys{Name: name}
		for _, r := range rules {
			v.Rules = append(v.Rules, O3Rule{r, false})
		}
		return v
	}
	return []O3Case{
		// raw with *filter twice / chain declared twice: the first rules were dropped while reading
		{Backend: "linux", L: [3]O3LFile{v4, {}, {Present: true, Lines: []O3Line{{K: "T", A: "filter"}, {K: "C", A: "INPUT", B: "DROP"}, lr("INPUT", 11, "ACCEPT"),
			{K: "T", A: "filter"}, {K: "C", A: "INPUT", B: "DROP"}, lr("INPUT", 12, "ACCEPT")}}}},
		{Backend: "linux", L: [3]O3LFile{v4, {}, {Present: true, Lines: []O3Line{{K: "T", A: "filter"}, {K: "C", A: "INPUT", B: "DROP"}, lr("INPUT", 11, "ACCEPT"),
			{K: "C", A: "INPUT", B: "DROP"}, lr("INPUT", 12, "ACCEPT")}}}},
		// raw with another device name: nothing of it was merged
		{Backend: "panos", P: [3]O3PConf{{Present: true, HasEntry: true, DevName: "dev1", Vsys: []O3Vsys{pv("vsys1", "nx1")}}, {},
			{Present: true, HasEntry: true, DevName: "other", Vsys: []O3Vsys{pv("vsys1", "wx2")}}}},
		// raw address a1 with another value
		{Backend: "panos", P: [3]O3PConf{
			{Present: true, HasEntry: true, DevName: "dev1", Vsys: []O3Vsys{{Name: "vsys1", Rules: []O3Rule{{"nx1", false}}, Addresses: []O3Obj{{"a1", "10.1.1.0/24"}}}}}, {},
			{Present: true, HasEntry: true, DevName: "dev1", Vsys: []O3Vsys{{Name: "vsys1", Rules: []O3Rule{{"wx2", true}}, Addresses: []O3Obj{{"a1", "10.9.9.9/32"}}}}}}},
		// raw with vsys1 twice (known F-C18k)
		{Backend: "panos", P: [3]O3PConf{{Present: true, HasEntry: true, DevName: "dev1", Vsys: []O3Vsys{pv("vsys1", "nx1")}}, {},
			{Present: true, HasEntry: true, DevName: "dev1", Vsys: []O3Vsys{pv("vsys1", "wx2"), pv("vsys1", "wx3")}}}},
		{Backend: "nsx", N: [3]O3NConf{{Present: true, Policies: []O3Policy{{"Netspoc-v1", []string{"r1", "r2"}}}},
			{Present: true, Policies: []O3Policy{{"Netspoc-v1", []string{"v6r3"}}, {"Netspoc-v2", []string{"v6r4"}}}},
			{Present: true, Policies: []O3Policy{{"Netspoc-v2", []string{"raw5"}}, {"Netspoc-v1", []string{"raw6"}}, {"Netspoc-v2", []string{"raw7"}}}, Groups: []string{"Netspoc-raw-g1"}}}},
	}
}

// ---------------------------------------------------------------- stream

func runOther3(ctx *Ctx, res *Result, drv *Nadrv, genName string) {
	judged, total := map[string]int{}, map[string]int{}
	defer func() {
		for b, n := range total {
			if n > 100 && judged[b]*2 < n {
				res.Disagree("c18 floor: too few cases judged", map[string]any{"backend": b, "stream": "other3"},
					fmt.Sprintf("%d of %d cases end with a merged configuration", judged[b], n), "at least half")
			}
		}
	}()
	runCase := func(c O3Case) {
		r := o3Run(c)
		res.Count("o3:backend:" + c.Backend)
		impl := r.canon(c.Backend)
		var line string
		switch c.Backend {
		case "linux":
			line = strings.Join([]string{"linux3", genName, c.L[0].enc(), c.L[1].enc(), c.L[2].enc()}, "\t")
		case "panos":
			line = strings.Join([]string{"panos3", genName, pCanonVals(c.P[0]).enc(), pCanonVals(c.P[1]).enc(), pCanonVals(c.P[2]).enc()}, "\t")
		case "nsx":
			line = strings.Join([]string{"nsx3", c.N[0].enc(), c.N[1].enc(), c.N[2].enc()}, "\t")
		}
		model := modelCanon3(c.Backend, drv.Ask(line))
		out := strings.Fields(impl)
		kind := out[0]
		if kind == "err" && len(out) > 1 {
			kind += ":" + out[1]
		}
		res.Count("o3:" + c.Backend + ":" + kind)
		j, _ := json.Marshal(c)
		nontriv := false
		switch c.Backend {
		case "linux":
			nontriv = c.L[0].Present && c.L[2].Present && len(c.L[2].Lines) > 3
		case "panos":
			nontriv = c.P[0].HasEntry && c.P[2].HasEntry && len(c.P[2].Vsys) > 0
		case "nsx":
			nontriv = c.N[0].Present && c.N[2].Present && len(c.N[2].Policies) > 0
		}
		res.Eval(string(j), nontriv)
		res.TracesVsImpl++
		if impl != model {
			res.Disagree("c18 "+c.Backend+" MergeSpoc (port)", map[string]any{"o3": c}, g3Show(impl), g3Show(model))
		}
		// tie of the parsers: what the real parser shows for each accepted file is what the generator wrote
		if c.Backend != "linux" {
			for i, st := range []string{"v4", "v6", "raw"} {
				d, ok := r.dumps[st]
				if !ok {
					continue
				}
				want := ""
				if c.Backend == "panos" {
					p := pCanonVals(c.P[i])
					if !p.Present {
						p = O3PConf{Present: true}
					}
					if !p.HasEntry {
						p.DevName, p.Vsys = "", nil
					}
					want = p.enc()
				} else {
					n := c.N[i]
					n.Present = true
					want = n.enc()
				}
				if d != want {
					res.Disagree("c18 "+c.Backend+" parsed file as dumped", map[string]any{"o3": c}, g3Show(d), g3Show(want))
				}
			}
		}
		for _, v := range o3Oracle(c, r) {
			sig, name := sigOf(v.pred, map[string]any{"backend": c.Backend, "stream": "other3"})
			res.Count("oracle:" + name)
			res.Fail(sig, v.what, map[string]any{"o3": c})
		}
		total[c.Backend]++
		if strings.HasPrefix(impl, "ok\t") {
			judged[c.Backend]++
		}
	}
	if ctx.Replay != "" {
		var w struct {
			O3 *O3Case `json:"o3"`
		}
		if err := ReadReplay(ctx.Replay, &w); err == nil && w.O3 != nil {
			runCase(*w.O3)
		}
		return
	}
	for _, c := range o3Corpus() {
		runCase(c)
	}
	g := &o3Gen{r: ctx.Rng.Fork()}
	n := ctx.N(350, 4000)
	for i := 0; i < n; i++ {
		for _, b := range []string{"linux", "panos", "nsx"} {
			runCase(g.gen(b))
		}
	}
}
