package main

// C18 — raw and IPv6 parts are merged completely and in the documented order.
//
// Tie: for all five device types a generated triple (IPv4 file, IPv6 file, raw file) is written
// to disk and `drc EMPTYDEVICE NETSPOC` (drc.Main, in-process) is run on it; with an empty device
// the change script spells out the effective merged target.  The merged lists (per bound ACL /
// chain / vsys / policy), the error class and the warnings are compared with the Lean model
// (nadrv-c18, NA/Model/Merge*.lean).
// Oracle: the merge laws of the property (every entry exactly once, order inside each part kept,
// raw first, APPEND behind the last Netspoc permit and in front of the trailing deny/drop lines,
// unmergeable raw objects reported) are checked directly on the real output; it does not use the
// model of the code.

import (
	"encoding/json"
	"fmt"
	"net/url"
	"os"
	"path/filepath"
	"regexp"
	"sort"
	"strconv"
	"strings"

	. "verifharness/vhlib"

	"github.com/hknutzen/Netspoc-Approve/go/pkg/cisco"
	"github.com/hknutzen/Netspoc-Approve/go/pkg/device"
	"github.com/hknutzen/Netspoc-Approve/go/pkg/deviceconf"
	"github.com/hknutzen/Netspoc-Approve/go/pkg/drc"
)

func main() { Main(map[string]PropFunc{"C18": runC18}) }

// ---------------------------------------------------------------- abstract case

type Line struct {
	ID    int    `json:"id"`
	Kind  string `json:"kind"` // p permit/ACCEPT/allow, d deny/DROP, o other (remark, LOG), 6 "deny ip any6 any6"
	App   bool   `json:"app,omitempty"`
	Known bool   `json:"known"`
}

type Cont struct {
	Name  int    `json:"name"`
	User  bool   `json:"user,omitempty"`
	Lines []Line `json:"lines"`
}

type Anchor struct {
	Key int `json:"key"` // interface*2 + (0 in | 1 out)
	ACL int `json:"acl"`
}

type File struct {
	Present    bool     `json:"present"`
	Raw        bool     `json:"raw,omitempty"`
	UnknownTop bool     `json:"unknownTop,omitempty"`
	Garbage    bool     `json:"garbage,omitempty"` // non-raw: contains commands the parser ignores
	NoCommit   bool     `json:"noCommit,omitempty"`  // Linux: tables are not closed by COMMIT lines (optional for the parser)
	TablesRev  bool     `json:"tablesRev,omitempty"` // Linux: tables written in reverse order (mangle before filter)
	SvcGroups  bool     `json:"svcGroups,omitempty"` // PAN-OS: every vsys with rules also defines a service-group its first rule uses
	Conts      []Cont   `json:"conts"`
	Anchors    []Anchor `json:"anchors"`
}

type Case struct {
	Dev       string `json:"dev"`
	V4        File   `json:"v4"`
	V6        File   `json:"v6"`
	Raw       File   `json:"raw"`
	AnchorsLo bool   `json:"anchorsLo,omitempty"` // ASA raw: access-group lines behind the [APPEND] marker
}

func b2s(b bool) string {
	if b {
		return "1"
	}
	return "0"
}

func (f File) enc() string {
	if !f.Present {
		return "-"
	}
	fl := ""
	if f.Raw {
		fl += "r"
	}
	if f.UnknownTop {
		fl += "u"
	}
	var cs []string
	for _, c := range f.Conts {
		var ls []string
		for _, l := range c.Lines {
			ls = append(ls, fmt.Sprintf("%d.%s.%s.%s", l.ID, l.Kind, b2s(l.App), b2s(l.Known)))
		}
		cs = append(cs, fmt.Sprintf("%d:%s:%s", c.Name, b2s(c.User), strings.Join(ls, ",")))
	}
	var as []string
	for _, a := range f.Anchors {
		as = append(as, fmt.Sprintf("%d>%d", a.Key, a.ACL))
	}
	return fl + "/" + strings.Join(cs, ";") + "/" + strings.Join(as, ",")
}

func (c Case) enc(gen string) string {
	return strings.Join([]string{c.Dev, gen, c.V4.enc(), c.V6.enc(), c.Raw.enc()}, "\t")
}

// ---------------------------------------------------------------- rendering to the real file formats

const nIntf = 3

// stream nonempty: cases per run (each costs about a dozen runs of drc)
const neCap = 1500

var neRuns, neRunsL, neRunsI int

func aclName(n int) string { return fmt.Sprintf("A%d", n) }

func asaLine(name string, l Line, v6 bool) string {
	any := "any4"
	if v6 {
		any = "any6"
	}
	switch l.Kind {
	case "p":
		return fmt.Sprintf("access-list %s extended permit udp %s %s eq %d", name, any, any, l.ID)
	case "d":
		return fmt.Sprintf("access-list %s extended deny udp %s %s eq %d", name, any, any, l.ID)
	case "o":
		return fmt.Sprintf("access-list %s remark r%d", name, l.ID)
	default:
		return fmt.Sprintf("access-list %s extended deny ip any6 any6", name)
	}
}

func asaAnchor(a Anchor) string {
	dir := "in"
	if a.Key%2 == 1 {
		dir = "out"
	}
	return fmt.Sprintf("access-group %s %s interface if%d", aclName(a.ACL), dir, a.Key/2)
}

func renderASA(f File, v6, anchorsLo bool) string {
	var sb strings.Builder
	if f.UnknownTop {
		sb.WriteString("unexpected foo\n")
	}
	if f.Garbage {
		sb.WriteString("hostname fw1\n! comment\n")
	}
	hasApp := false
	for _, c := range f.Conts {
		for _, l := range c.Lines {
			if l.App {
				hasApp = true
			} else {
				sb.WriteString(asaLine(aclName(c.Name), l, v6) + "\n")
			}
		}
	}
	anchors := func() {
		for _, a := range f.Anchors {
			sb.WriteString(asaAnchor(a) + "\n")
		}
	}
	if !anchorsLo || !hasApp {
		anchors()
	}
	if hasApp {
		sb.WriteString("[APPEND]\n")
		for _, c := range f.Conts {
			for _, l := range c.Lines {
				if l.App {
					sb.WriteString(asaLine(aclName(c.Name), l, v6) + "\n")
				}
			}
		}
		if anchorsLo {
			anchors()
		}
	}
	return sb.String()
}

func iosLine(l Line) string {
	switch l.Kind {
	case "p":
		if !l.Known {
			return fmt.Sprintf(" permt udp any any eq %d", l.ID)
		}
		return fmt.Sprintf(" permit udp any any eq %d", l.ID)
	case "d":
		if !l.Known {
			return fmt.Sprintf(" evaluate x%d", l.ID)
		}
		return fmt.Sprintf(" deny udp any any eq %d", l.ID)
	default:
		if !l.Known {
			return fmt.Sprintf(" rmark r%d", l.ID)
		}
		return fmt.Sprintf(" remark r%d", l.ID)
	}
}

func renderIOS(f File, allIntf bool) string {
	var sb strings.Builder
	if f.UnknownTop {
		sb.WriteString("unexpected foo\n")
	}
	if f.Garbage {
		sb.WriteString("hostname r1\n! comment\n")
	}
	hasApp := false
	for _, c := range f.Conts {
		n := 0
		for _, l := range c.Lines {
			if l.App {
				hasApp = true
			} else {
				n++
			}
		}
		if n > 0 || len(c.Lines) == 0 {
			sb.WriteString("ip access-list extended " + aclName(c.Name) + "\n")
			for _, l := range c.Lines {
				if !l.App {
					sb.WriteString(iosLine(l) + "\n")
				}
			}
		}
	}
	// interfaces: anchors grouped by interface in the order of first occurrence
	var order []int
	by := map[int][]Anchor{}
	if allIntf {
		for i := 0; i < nIntf; i++ {
			order = append(order, i)
		}
	}
	for _, a := range f.Anchors {
		i := a.Key / 2
		if _, ok := by[i]; !ok {
			found := false
			for _, o := range order {
				found = found || o == i
			}
			if !found {
				order = append(order, i)
			}
		}
		by[i] = append(by[i], a)
	}
	for _, i := range order {
		fmt.Fprintf(&sb, "interface Ethernet%d\n ip address 10.0.%d.1 255.255.255.0\n", i, i)
		for _, a := range by[i] {
			dir := "in"
			if a.Key%2 == 1 {
				dir = "out"
			}
			fmt.Fprintf(&sb, " ip access-group %s %s\n", aclName(a.ACL), dir)
		}
	}
	if hasApp {
		sb.WriteString("[APPEND]\n")
		for _, c := range f.Conts {
			first := true
			for _, l := range c.Lines {
				if l.App {
					if first {
						sb.WriteString("ip access-list extended " + aclName(c.Name) + "\n")
						first = false
					}
					sb.WriteString(iosLine(l) + "\n")
				}
			}
		}
	}
	return sb.String()
}

var linuxTables = []string{"filter", "mangle"}
var linuxChains = []string{"INPUT", "FORWARD", "OUTPUT", "c1", "c2"}

func linuxTC(n int) (string, string, bool) {
	return linuxTables[(n/5)%2], linuxChains[n%5], n%5 >= 3
}

// linuxNeg: how the source match of the rule with this id is written: 0 plain, 1 `! -s ip` (iptables-save),
// 2 `-s ! ip` (old spelling the parser accepts as well).  A function of the id, so the reader can check that a
// negation is neither lost nor added on the way through parser, merge and output.
func linuxNeg(id int) int {
	switch id % 7 {
	case 3:
		return 1
	case 5:
		return 2
	}
	return 0
}

func linuxRule(chain string, l Line) string {
	tgt := map[string]string{"p": "ACCEPT", "d": "DROP", "o": "LOG", "6": "RETURN"}[l.Kind]
	ip := fmt.Sprintf("10.%d.%d.%d", l.ID/65536+1, l.ID/256%256, l.ID%256)
	rule := ""
	switch linuxNeg(l.ID) {
	case 1:
		rule = fmt.Sprintf("-A %s ! -s %s -j %s", chain, ip, tgt)
	case 2:
		rule = fmt.Sprintf("-A %s -s ! %s -j %s", chain, ip, tgt)
	default:
		rule = fmt.Sprintf("-A %s -s %s -j %s", chain, ip, tgt)
	}
	if l.ID%4 == 1 {
		// comment lines between the rules (iptables-save writes them only at the top; a hand-written raw file has them anywhere)
		rule += fmt.Sprintf("\n# rule %d", l.ID)
	}
	return rule
}

func renderLinux(f File) string {
	var sb strings.Builder
	if f.Garbage {
		sb.WriteString("# comment\nip route add 10.77.0.0/16 via 10.1.2.3\n")
	}
	order := []int{0, 1}
	if f.TablesRev {
		order = []int{1, 0}
	}
	for _, ti := range order {
		t := linuxTables[ti]
		var cs []Cont
		for _, c := range f.Conts {
			if (c.Name/5)%2 == ti {
				cs = append(cs, c)
			}
		}
		if len(cs) == 0 {
			continue
		}
		sb.WriteString("*" + t + "\n")
		for _, c := range cs {
			_, ch, user := linuxTC(c.Name)
			pol := "DROP"
			if user {
				pol = "-"
			}
			sb.WriteString(":" + ch + " " + pol + "\n")
		}
		hasApp := false
		for _, c := range cs {
			_, ch, _ := linuxTC(c.Name)
			for _, l := range c.Lines {
				if l.App {
					hasApp = true
				} else {
					sb.WriteString(linuxRule(ch, l) + "\n")
				}
			}
		}
		if hasApp {
			sb.WriteString("[APPEND]\n")
			for _, c := range cs {
				_, ch, _ := linuxTC(c.Name)
				for _, l := range c.Lines {
					if l.App {
						sb.WriteString(linuxRule(ch, l) + "\n")
					}
				}
			}
		}
		if !f.NoCommit {
			sb.WriteString("COMMIT\n")
		}
	}
	if f.UnknownTop {
		sb.WriteString("unexpected foo\n")
	}
	return sb.String()
}

const panPre = `<config><devices><entry name="localhost.localdomain"><vsys>`
const panPost = `</vsys></entry></devices></config>`

func panGroup(vsys int, tag string) string { return fmt.Sprintf("sg%d_%s", vsys, tag) }

func renderPan(f File, tag string) string {
	var sb strings.Builder
	sb.WriteString(panPre)
	for _, c := range f.Conts {
		fmt.Fprintf(&sb, `<entry name="vsys%d"><rulebase><security><rules>`, c.Name)
		for i, l := range c.Lines {
			act := "drop"
			if l.Kind == "p" {
				act = "allow"
			}
			name := fmt.Sprintf("x%d", l.ID)
			if f.UnknownTop && i == 0 {
				name = fmt.Sprintf("r%d", l.ID)
			}
			app := ""
			if l.App {
				app = "<APPEND/>"
			}
			svc := "any"
			if f.SvcGroups && i == 0 {
				svc = panGroup(c.Name, tag)
			}
			fmt.Fprintf(&sb, `<entry name="%s"><action>%s</action><from><member>z1</member></from><to><member>z2</member></to>`+
				`<source><member>any</member></source><destination><member>any</member></destination>`+
				`<service><member>%s</member></service><application><member>any</member></application>%s</entry>`+"\n",
				name, act, svc, app)
		}
		sb.WriteString(`</rules></security></rulebase>`)
		if f.SvcGroups && len(c.Lines) > 0 {
			port := 8000 + c.Name*3 + strings.Index("46r", tag)
			fmt.Fprintf(&sb, `<service><entry name="tcp %d"><protocol><tcp><port>%d</port></tcp></protocol></entry></service>`+
				`<service-group><entry name="%s"><members><member>tcp %d</member></members></entry></service-group>`,
				port, port, panGroup(c.Name, tag), port)
		}
		sb.WriteString(`</entry>`)
	}
	sb.WriteString(panPost)
	return sb.String()
}

func renderNsx(f File) string {
	type rule map[string]any
	type pol struct {
		Id    string `json:"id"`
		Rules []rule `json:"rules"`
	}
	var ps []pol
	for _, c := range f.Conts {
		p := pol{Id: fmt.Sprintf("Netspoc-v%d", c.Name), Rules: []rule{}}
		for i, l := range c.Lines {
			act := "DROP"
			if l.Kind == "p" {
				act = "ALLOW"
			}
			id := fmt.Sprintf("x%d", l.ID)
			if f.UnknownTop && i == 0 {
				id = fmt.Sprintf("r%d", l.ID)
			}
			p.Rules = append(p.Rules, rule{"id": id, "action": act, "sequence_number": 10 + l.ID%50,
				"source_groups": []string{"ANY"}, "destination_groups": []string{"ANY"}, "services": []string{"ANY"},
				"scope": []string{"/infra/tier-0s/v1"}, "direction": "OUT", "ip_protocol": "IPV4"})
		}
		ps = append(ps, p)
	}
	b, _ := json.Marshal(map[string]any{"policies": ps})
	hdr := ""
	if f.Garbage {
		hdr = "# generated\n"
	}
	return hdr + string(b) + "\n"
}

func (c Case) files() map[string]string {
	fs := map[string]string{}
	var dev string
	put := func(name string, f File, v6 bool) {
		if !f.Present {
			return
		}
		switch c.Dev {
		case "asa":
			fs[name] = renderASA(f, v6, c.AnchorsLo && f.Raw)
		case "ios":
			fs[name] = renderIOS(f, !f.Raw)
		case "linux":
			fs[name] = renderLinux(f)
		case "panos":
			tag := "4"
			if v6 {
				tag = "6"
			} else if f.Raw {
				tag = "r"
			}
			fs[name] = renderPan(f, tag)
		case "nsx":
			fs[name] = renderNsx(f)
		}
	}
	put("spoc", c.V4, false)
	put("ipv6/spoc", c.V6, true)
	put("spoc.raw", c.Raw, false)
	model := map[string]string{"asa": "ASA", "ios": "IOS", "linux": "Linux", "panos": "PAN-OS", "nsx": "NSX"}[c.Dev]
	fs["spoc.info"] = `{"model":"` + model + `"}` + "\n"
	switch c.Dev {
	case "asa":
		for i := 0; i < nIntf+1; i++ {
			dev += fmt.Sprintf("interface Ethernet0/%d\n nameif if%d\n", i, i)
		}
	case "ios":
		for i := 0; i < nIntf+1; i++ {
			dev += fmt.Sprintf("interface Ethernet%d\n ip address 10.0.%d.1 255.255.255.0\n", i, i)
		}
	case "linux":
		dev = ""
	case "panos":
		seen := map[int]bool{}
		dev = panPre
		for _, f := range []File{c.V4, c.V6, c.Raw} {
			for _, ct := range f.Conts {
				if !seen[ct.Name] {
					seen[ct.Name] = true
					dev += fmt.Sprintf(`<entry name="vsys%d"><display-name>netspoc</display-name></entry>`, ct.Name)
				}
			}
		}
		dev += panPost
	case "nsx":
		dev = "{}\n"
	}
	fs["dev"] = dev
	return fs
}

// ---------------------------------------------------------------- running the real code, reading its answer

type outcome struct {
	Err   string           // "" | "unknownCmd 0" | "onlyOnce 3" | "panic 0" | "other: …"
	Lists map[int][]string // Cisco: anchor key -> tokens; others: container name -> tokens
	Warn  []int
	Odd   []string // output lines the reader does not understand
	Groups map[string]bool // PAN-OS: service-groups the change script creates
}

var reNum = regexp.MustCompile(`\d+`)

func nameNum(s string) int {
	// A12 / A12-DRC-0 -> 12
	m := reNum.FindString(s)
	n, _ := strconv.Atoi(m)
	return n
}

func classifyErr(stderr string) string {
	var first string
	for _, l := range strings.Split(stderr, "\n") {
		if strings.HasPrefix(l, "ERROR>>> ") {
			first += strings.TrimPrefix(l, "ERROR>>> ") + " "
		}
	}
	if first == "" {
		return ""
	}
	num := func(re string) string {
		m := regexp.MustCompile(re).FindStringSubmatch(first)
		if m == nil {
			return "?"
		}
		return strconv.Itoa(nameNum(m[1]))
	}
	switch {
	case strings.Contains(first, "Unexpected command"), strings.Contains(first, "Unknown command"),
		strings.Contains(first, "Must not use rule name starting"):
		return "unknownCmd 0"
	case strings.Contains(first, "references unknown"):
		return "unknownRef " + num(`references unknown '[a-z -]+ (\S+)'`)
	case strings.Contains(first, "only once in raw"):
		return "onlyOnce " + num(`Must reference '[a-z -]+ (\S+)' only once`)
	case strings.Contains(first, "Name clash"):
		return "nameClash " + num(`Name clash for '[a-z -]+ (\S+)' from raw`)
	case strings.Contains(first, "Must not redefine chain"):
		return "redefChain *"
	}
	return "other: " + strings.TrimSpace(first)
}

var reWarnUnused = regexp.MustCompile(`^WARNING>>> Ignoring unused '[a-z -]+ (\S+)' in raw`)

func readOutcome(dev, stdout, stderr, panicMsg string) outcome {
	o := outcome{Lists: map[int][]string{}}
	if panicMsg != "" {
		o.Err = "panic 0"
		return o
	}
	if e := classifyErr(stderr); e != "" {
		o.Err = e
		return o
	}
	for _, l := range strings.Split(stderr, "\n") {
		if m := reWarnUnused.FindStringSubmatch(l); m != nil {
			o.Warn = append(o.Warn, nameNum(m[1]))
		} else if strings.Contains(l, "on device is not known by Netspoc") {
			// the device of the harness has one interface more than any file uses
		} else if strings.HasPrefix(l, "WARNING>>>") {
			o.Odd = append(o.Odd, l)
		}
	}
	sort.Ints(o.Warn)
	lines := strings.Split(strings.TrimRight(stdout, "\n"), "\n")
	if stdout == "" {
		lines = nil
	}
	switch dev {
	case "asa":
		acl := map[string][]string{}
		for _, l := range lines {
			w := strings.Fields(l)
			switch {
			case len(w) >= 3 && w[0] == "access-list" && w[2] == "remark":
				acl[w[1]] = append(acl[w[1]], strings.TrimPrefix(w[3], "r"))
			case len(w) >= 4 && w[0] == "access-list" && strings.HasSuffix(l, "deny ip any6 any6"):
				acl[w[1]] = append(acl[w[1]], "any6")
			case len(w) == 9 && w[0] == "access-list" && w[7] == "eq":
				acl[w[1]] = append(acl[w[1]], w[8])
			case len(w) == 5 && w[0] == "access-group":
				i, _ := strconv.Atoi(strings.TrimPrefix(w[4], "if"))
				k := i * 2
				if w[2] == "out" {
					k++
				}
				if _, dup := o.Lists[k]; dup {
					o.Odd = append(o.Odd, "second binding: "+l)
				}
				o.Lists[k] = append([]string{}, acl[w[1]]...)
			default:
				o.Odd = append(o.Odd, l)
			}
		}
	case "ios":
		acl := map[string][]string{}
		cur, intf := "", -1
		for _, l := range lines {
			w := strings.Fields(l)
			switch {
			case len(w) == 4 && w[0] == "ip" && w[1] == "access-list":
				cur, intf = w[3], -1
				acl[cur] = []string{}
			case l == "exit":
				cur = ""
			case len(w) == 2 && w[0] == "interface":
				intf, _ = strconv.Atoi(strings.TrimPrefix(w[1], "Ethernet"))
				cur = ""
			case cur != "" && len(w) == 2 && w[0] == "remark":
				acl[cur] = append(acl[cur], strings.TrimPrefix(w[1], "r"))
			case cur != "" && len(w) == 6 && w[4] == "eq":
				acl[cur] = append(acl[cur], w[5])
			case intf >= 0 && len(w) == 4 && w[1] == "access-group":
				k := intf * 2
				if w[3] == "out" {
					k++
				}
				if _, dup := o.Lists[k]; dup {
					o.Odd = append(o.Odd, "second binding: "+l)
				}
				o.Lists[k] = append([]string{}, acl[w[2]]...)
			case intf >= 0 && len(w) >= 2 && w[0] == "ip" && w[1] == "address":
			default:
				o.Odd = append(o.Odd, l)
			}
		}
	case "linux":
		table := 0
		for _, l := range lines {
			w := strings.Fields(l)
			switch {
			case strings.HasPrefix(l, "iptables differs at"), strings.HasPrefix(l, "ip route add 10.77."):
			case strings.HasPrefix(l, "#"), l == "COMMIT":
			case strings.HasPrefix(l, "*"):
				for ti, t := range linuxTables {
					if l[1:] == t {
						table = ti
					}
				}
			case strings.HasPrefix(l, ":"):
				for ci, c := range linuxChains {
					if w[0][1:] == c {
						o.Lists[table*5+ci] = []string{}
					}
				}
			case (len(w) == 6 || (len(w) == 7 && (w[2] == "!" || w[3] == "!"))) && w[0] == "-A":
				neg := 0
				if len(w) == 7 {
					if w[2] == "!" {
						neg, w = 1, append(append([]string{}, w[:2]...), w[3:]...)
					} else {
						neg, w = 2, append(append([]string{}, w[:3]...), w[4:]...)
					}
				}
				ip := strings.Split(w[3], ".")
				a, _ := strconv.Atoi(ip[1])
				b, _ := strconv.Atoi(ip[2])
				c, _ := strconv.Atoi(ip[3])
				id := (a-1)*65536 + b*256 + c
				if (neg != 0) != (linuxNeg(id) != 0) {
					o.Odd = append(o.Odd, "negation of the source match lost or added: "+l)
				}
				for ci, ch := range linuxChains {
					if w[1] == ch {
						o.Lists[table*5+ci] = append(o.Lists[table*5+ci], strconv.Itoa(id))
					}
				}
			default:
				o.Odd = append(o.Odd, l)
			}
		}
	case "panos":
		re := regexp.MustCompile(`^action=(\w+)&type=config&xpath=.*/vsys/entry\[@name='vsys(\d+)'\]/rulebase/security/rules/entry\[@name='x(\d+)'\]`)
		reObj := regexp.MustCompile(`^action=set&type=config&xpath=.*/vsys/entry\[@name='vsys\d+'\]/(service|service-group)/entry\[@name='([^']+)'\]`)
		o.Groups = map[string]bool{}
		for _, l := range lines {
			u, _ := url.QueryUnescape(l)
			if m := reObj.FindStringSubmatch(u); m != nil {
				if m[1] == "service-group" {
					o.Groups[m[2]] = true
				}
				continue
			}
			m := re.FindStringSubmatch(u)
			if m == nil || m[1] != "set" {
				o.Odd = append(o.Odd, u)
				continue
			}
			v, _ := strconv.Atoi(m[2])
			o.Lists[v] = append(o.Lists[v], m[3])
		}
	case "nsx":
		for i := 0; i+1 < len(lines); i += 2 {
			if !strings.HasPrefix(lines[i], "PUT /policy/api/v1/infra/domains/default/gateway-policies/Netspoc-v") {
				o.Odd = append(o.Odd, lines[i])
				continue
			}
			var p struct {
				Id    string
				Rules []struct{ Id string }
			}
			if err := json.Unmarshal([]byte(lines[i+1]), &p); err != nil {
				o.Odd = append(o.Odd, lines[i+1])
				continue
			}
			n := nameNum(p.Id)
			if _, dup := o.Lists[n]; dup {
				o.Odd = append(o.Odd, "second PUT of "+p.Id)
			}
			o.Lists[n] = []string{}
			for _, r := range p.Rules {
				o.Lists[n] = append(o.Lists[n], strings.TrimPrefix(r.Id, "x"))
			}
		}
		if len(lines)%2 == 1 {
			o.Odd = append(o.Odd, lines[len(lines)-1])
		}
	}
	return o
}

func (o outcome) canon() string {
	if o.Err != "" {
		return "err " + o.Err
	}
	var keys []int
	for k := range o.Lists {
		keys = append(keys, k)
	}
	sort.Ints(keys)
	var ps []string
	for _, k := range keys {
		ps = append(ps, fmt.Sprintf("%d=%s", k, strings.Join(o.Lists[k], ",")))
	}
	var ws []string
	for _, w := range o.Warn {
		ws = append(ws, strconv.Itoa(w))
	}
	s := "ok " + strings.Join(ps, ";") + " W:" + strings.Join(ws, ",")
	if len(o.Odd) > 0 {
		s += " ODD:" + strings.Join(o.Odd, " // ")
	}
	return s
}

// modelCanon turns the driver's answer into the same canonical text.
func modelCanon(c Case, ans string) string {
	if strings.HasPrefix(ans, "err ") {
		if strings.HasPrefix(ans, "err redefChain") {
			return "err redefChain *"
		}
		return ans
	}
	f := strings.Split(ans, "\t")
	if len(f) != 6 || f[0] != "ok" {
		return "MODEL? " + ans
	}
	kind := map[string]string{}
	for _, fl := range []File{c.V4, c.V6, c.Raw} {
		for _, ct := range fl.Conts {
			for _, l := range ct.Lines {
				kind[strconv.Itoa(l.ID)] = l.Kind
			}
		}
	}
	tok := func(ids string) string {
		if ids == "" {
			return ""
		}
		l := strings.Split(ids, ",")
		for i, id := range l {
			if kind[id] == "6" && c.Dev == "asa" {
				l[i] = "any6"
			}
		}
		return strings.Join(l, ",")
	}
	var ps []string
	src := f[2]
	sep := "="
	if c.Dev != "asa" && c.Dev != "ios" {
		src, sep = f[1], ":"
	}
	type kv struct {
		k int
		v string
	}
	var kvs []kv
	if src != "" {
		for _, p := range strings.Split(src, ";") {
			k, v, _ := strings.Cut(p, sep)
			n, _ := strconv.Atoi(k)
			kvs = append(kvs, kv{n, tok(v)})
		}
	}
	sort.SliceStable(kvs, func(i, j int) bool { return kvs[i].k < kvs[j].k })
	for _, e := range kvs {
		if c.Dev == "panos" && e.v == "" {
			continue // a vsys without rules gives no command
		}
		ps = append(ps, fmt.Sprintf("%d=%s", e.k, e.v))
	}
	return "ok " + strings.Join(ps, ";") + " " + f[3]
}

var caseDir string

func resetCaseDir() {
	os.RemoveAll(caseDir)
	os.MkdirAll(filepath.Join(caseDir, "ipv6"), 0755)
}

func runReal(c Case) outcome {
	resetCaseDir()
	WriteFiles(caseDir, c.files())
	old := os.Args
	os.Args = []string{"drc", "-q", filepath.Join(caseDir, "dev"), filepath.Join(caseDir, "spoc")}
	stdout, stderr, _, panicMsg := Captured(drc.Main)
	os.Args = old
	return readOutcome(c.Dev, stdout, stderr, panicMsg)
}

// dumpReal: second, tighter tie for ASA / IOS — the ACL table and the bindings right after loadSpoc
// (hooks device.VerifLoadSpoc, cisco.VerifACLDump), without the diff engine in between.  The files
// of the case are those runReal has written.  "" = loadSpoc ended with an error or abort.
func dumpReal(c Case) string {
	var conf deviceconf.Config
	var err error
	_, _, _, panicMsg := Captured(func() int {
		conf, err = device.VerifLoadSpoc(filepath.Join(caseDir, "spoc"))
		return 0
	})
	if panicMsg != "" || err != nil || conf == nil {
		return ""
	}
	acls, binds := cisco.VerifACLDump(conf)
	tokOf := func(line string) string {
		w := strings.Fields(line)
		switch {
		case strings.HasSuffix(line, "deny ip any6 any6"):
			return "any6"
		case len(w) >= 2 && w[len(w)-2] == "eq":
			return w[len(w)-1]
		case len(w) >= 2 && w[len(w)-2] == "remark":
			return strings.TrimPrefix(w[len(w)-1], "r")
		}
		return "?" + line
	}
	type kv struct {
		k int
		v string
	}
	var as []kv
	for name, lines := range acls {
		var ts []string
		for _, l := range lines {
			ts = append(ts, tokOf(l))
		}
		as = append(as, kv{nameNum(name), strings.Join(ts, ",")})
	}
	sort.Slice(as, func(i, j int) bool { return as[i].k < as[j].k })
	var bs []kv
	for _, b := range binds {
		w := strings.Fields(b[0])
		key := -1
		switch {
		case w[0] == "access-group" && len(w) == 5:
			i, _ := strconv.Atoi(strings.TrimPrefix(w[4], "if"))
			key = i * 2
			if w[2] == "out" {
				key++
			}
		case w[0] == "interface" && len(w) == 7:
			i, _ := strconv.Atoi(strings.TrimPrefix(w[1], "Ethernet"))
			key = i * 2
			if w[6] == "out" {
				key++
			}
		}
		bs = append(bs, kv{key, strconv.Itoa(nameNum(b[1]))})
	}
	sort.SliceStable(bs, func(i, j int) bool { return bs[i].k < bs[j].k })
	var ps, qs []string
	for _, e := range as {
		ps = append(ps, fmt.Sprintf("%d:%s", e.k, e.v))
	}
	for _, e := range bs {
		qs = append(qs, fmt.Sprintf("%d>%s", e.k, e.v))
	}
	return strings.Join(ps, ";") + " B " + strings.Join(qs, ",")
}

// modelDump: the same text from the driver's answer.
func modelDump(c Case, ans string) string {
	f := strings.Split(ans, "\t")
	if len(f) != 6 || f[0] != "ok" {
		return ""
	}
	kind := map[string]string{}
	for _, fl := range []File{c.V4, c.V6, c.Raw} {
		for _, ct := range fl.Conts {
			for _, l := range ct.Lines {
				kind[strconv.Itoa(l.ID)] = l.Kind
			}
		}
	}
	type kv struct {
		k int
		v string
	}
	var as []kv
	if f[1] != "" {
		for _, p := range strings.Split(f[1], ";") {
			k, v, _ := strings.Cut(p, ":")
			n, _ := strconv.Atoi(k)
			var ts []string
			if v != "" {
				for _, id := range strings.Split(v, ",") {
					if kind[id] == "6" && c.Dev == "asa" {
						id = "any6"
					}
					ts = append(ts, id)
				}
			}
			as = append(as, kv{n, strings.Join(ts, ",")})
		}
	}
	sort.Slice(as, func(i, j int) bool { return as[i].k < as[j].k })
	var ps []string
	for _, e := range as {
		ps = append(ps, fmt.Sprintf("%d:%s", e.k, e.v))
	}
	return strings.Join(ps, ";") + " B " + f[4]
}

// ---------------------------------------------------------------- the oracle (property text, no model of the code)

type part struct {
	lines []Line
	ok    bool
}

func contOf(f File, name int) part {
	// Cisco concatenates equally named blocks; the generators never repeat a name in a non-NSX file
	var p part
	for _, c := range f.Conts {
		if c.Name == name {
			p.ok = true
			for _, l := range c.Lines {
				if l.Known {
					p.lines = append(p.lines, l)
				}
			}
		}
	}
	return p
}

func boundBy(f File, key int) (int, bool) {
	for _, a := range f.Anchors {
		if a.Key == key {
			return a.ACL, true
		}
	}
	return 0, false
}

type violation struct {
	pred string // "name" or "name|key=value;key=value": attributes go into the signature of the failure
	what string
}

// withAttrs attaches signature attributes (computed from the INPUT, e.g. what the model of the unchanged code
// predicts for the object that fails) to a predicate name.
func withAttrs(pred string, kv ...string) string { return pred + "|" + strings.Join(kv, ";") }

// sigOf builds the signature of a failure from a predicate with attributes.
func sigOf(pred string, base map[string]any) (map[string]any, string) {
	name, attrs, _ := strings.Cut(pred, "|")
	sig := map[string]any{"pred": name}
	for k, v := range base {
		sig[k] = v
	}
	if attrs != "" {
		for _, kv := range strings.Split(attrs, ";") {
			k, v, _ := strings.Cut(kv, "=")
			switch v {
			case "true":
				sig[k] = true
			case "false":
				sig[k] = false
			default:
				sig[k] = v
			}
		}
	}
	return sig, name
}

// checkList checks the merge laws for one result list against its parts.
// net4, net6: Netspoc entries; raw: entries of the raw file (file order: non-APPEND then APPEND).
func checkList(dev string, res []string, net4, net6, raw []Line, where string) []violation {
	var vs []violation
	pos := map[string][]int{}
	for i, t := range res {
		pos[t] = append(pos[t], i)
	}
	tok := func(l Line) string {
		if l.Kind == "6" && dev == "asa" {
			return "any6"
		}
		return strconv.Itoa(l.ID)
	}
	// every entry exactly once
	want := map[string]int{}
	for _, p := range [][]Line{net4, net6, raw} {
		for _, l := range p {
			want[tok(l)]++
		}
	}
	for t, n := range want {
		if len(pos[t]) != n {
			pred := "entry_lost_or_duplicated"
			vs = append(vs, violation{pred, fmt.Sprintf("%s: entry %s occurs %d times, expected %d", where, t, len(pos[t]), n)})
		}
	}
	for t := range pos {
		if want[t] == 0 {
			vs = append(vs, violation{"foreign_entry", fmt.Sprintf("%s: entry %s belongs to no part", where, t)})
		}
	}
	if len(vs) > 0 {
		return vs
	}
	at := func(l Line) int { return pos[tok(l)][0] }
	uniq := func(l Line) bool { return !(l.Kind == "6" && dev == "asa") }
	ordered := func(p []Line) bool {
		last := -1
		for _, l := range p {
			if !uniq(l) {
				continue
			}
			if at(l) < last {
				return false
			}
			last = at(l)
		}
		return true
	}
	var rawP, rawA []Line
	for _, l := range raw {
		if l.App && dev != "nsx" {
			rawA = append(rawA, l)
		} else {
			rawP = append(rawP, l)
		}
	}
	if !ordered(net4) {
		vs = append(vs, violation{"netspoc_order_changed", where + ": order of the IPv4 part changed"})
	}
	if !ordered(net6) {
		pred := "netspoc_order_changed"
		if dev == "linux" {
			pred = "linux_prepend_reversed" // the IPv6 part is merged like a raw part without [APPEND]
		}
		vs = append(vs, violation{pred, where + ": order of the IPv6 part changed"})
	}
	if !ordered(rawP) {
		pred := "raw_prepend_order_changed"
		if dev == "linux" {
			pred = "linux_prepend_reversed"
		}
		vs = append(vs, violation{pred, where + ": order of the non-APPEND raw entries changed"})
	}
	if !ordered(rawA) {
		pred := "raw_append_order_changed"
		if dev == "linux" {
			pred = "linux_append_part_reordered"
		}
		vs = append(vs, violation{pred, where + ": order of the APPEND raw entries changed"})
	}
	net := append(append([]Line{}, net4...), net6...)
	// the documented ASA exception: a `deny ip any6 any6` that terminates the IPv6 part (or the non-APPEND
	// raw part) is appended, not prepended: it must terminate the merged ACL
	if dev == "asa" {
		last6 := func(p []Line) bool { return len(p) > 0 && p[len(p)-1].Kind == "6" }
		if (last6(net6) || last6(rawP)) && res[len(res)-1] != "any6" {
			vs = append(vs, violation{"any6_exception_not_applied", where + ": the terminating deny ip any6 any6 is not the last line"})
		}
	}
	if dev == "nsx" {
		// all raw entries behind all Netspoc entries
		for _, r := range rawP {
			for _, n := range net {
				if at(r) < at(n) {
					vs = append(vs, violation{"nsx_raw_not_behind_netspoc", where + ": raw rule in front of a Netspoc rule"})
					return vs
				}
			}
		}
		return vs
	}
	// raw first
	for _, r := range rawP {
		if !uniq(r) {
			continue
		}
		for _, n := range net {
			if uniq(n) && at(r) > at(n) {
				vs = append(vs, violation{"raw_not_first", fmt.Sprintf("%s: non-APPEND raw entry %d behind Netspoc entry %d", where, r.ID, n.ID)})
				return vs
			}
		}
	}
	// raw file order as a whole: non-APPEND entries in front of APPEND entries
	for _, p := range rawP {
		if !uniq(p) {
			continue
		}
		for _, a := range rawA {
			if uniq(a) && at(a) < at(p) {
				vs = append(vs, violation{"append_placed_among_prepended_raw_lines",
					fmt.Sprintf("%s: APPEND entry %d in front of non-APPEND raw entry %d", where, a.ID, p.ID)})
				return vs
			}
		}
	}
	// APPEND placement relative to the Netspoc entries (in result order)
	type np struct {
		at       int
		blocking bool // entry that APPEND lines must follow
	}
	var nps []np
	for _, n := range net {
		if !uniq(n) {
			continue
		}
		var blocking bool
		switch dev {
		case "asa", "ios":
			blocking = n.Kind == "p"
		case "linux":
			blocking = n.Kind != "d"
		case "panos":
			blocking = true
		}
		nps = append(nps, np{at(n), blocking})
	}
	sort.Slice(nps, func(i, j int) bool { return nps[i].at < nps[j].at })
	lastBlock := -1
	for _, n := range nps {
		if n.blocking {
			lastBlock = n.at
		}
	}
	for _, a := range rawA {
		if !uniq(a) {
			continue
		}
		if at(a) < lastBlock {
			vs = append(vs, violation{"append_in_front_of_last_permit", fmt.Sprintf("%s: APPEND entry %d in front of the last permitting Netspoc entry", where, a.ID)})
			return vs
		}
		for _, n := range nps {
			if n.at > lastBlock && n.at < at(a) {
				vs = append(vs, violation{"append_behind_trailing_deny", fmt.Sprintf("%s: APPEND entry %d behind a trailing deny/drop Netspoc entry", where, a.ID)})
				return vs
			}
		}
	}
	return vs
}

func hasPermit(ls []Line) bool {
	for _, l := range ls {
		if l.Kind == "p" && l.Known {
			return true
		}
	}
	return false
}

// oracle inspects the real outcome of one case.
// safe6: the driver's value of `safeMerge` for the IPv6 stage, i.e. the hypothesis of the Lean theorem
// cisco_netspoc_lines_kept_partial; its failure classifies F-C18g.
func oracle(c Case, o outcome, safe6 bool) []violation {
	var vs []violation
	cisco := c.Dev == "asa" || c.Dev == "ios"
	if o.Err == "panic 0" {
		pred := "panic_other"
		if cisco {
			for _, ct := range c.Raw.Conts {
				app := false
				for _, l := range ct.Lines {
					app = app || (l.App && l.Known)
				}
				if app {
					pred = "append_no_permit_line_panic"
				}
			}
		}
		return []violation{{pred, "runtime panic instead of a merged configuration or a diagnostic"}}
	}
	// diagnostics, judged from the generator's input alone
	mustFail, surelyFine := expectDiagnostic(c)
	if o.Err != "" {
		if surelyFine {
			return []violation{{"valid_input_rejected", "input without any unmergeable entry ends with: " + o.Err}}
		}
		return nil // a diagnostic was given
	}
	if len(o.Odd) > 0 {
		return nil // handled as disagreement
	}
	if mustFail != "" {
		vs = append(vs, violation{"unmergeable_entry_not_reported", mustFail + ": no error"})
	}
	isWarned := func(n int) bool {
		for _, w := range o.Warn {
			if w == n {
				return true
			}
		}
		return false
	}
	if cisco {
		// raw: unknown sub-commands, objects bound twice, unbound objects
		for _, ct := range c.Raw.Conts {
			for _, l := range ct.Lines {
				if !l.Known && !isWarned(ct.Name) {
					// model_predicts: the line matches no template of `ip access-list extended` (input attribute)
					vs = append(vs, violation{withAttrs("raw_unknown_subcommand_dropped_silently", "model_predicts=true", "line_kind=ios_acl_subcommand_without_template"),
						fmt.Sprintf("raw ACL %d: unknown sub-command %d dropped without error or warning", ct.Name, l.ID)})
				}
			}
			n := 0
			for _, a := range c.Raw.Anchors {
				if a.ACL == ct.Name {
					n++
				}
			}
			if n >= 2 {
				vs = append(vs, violation{"raw_object_bound_twice_not_reported", fmt.Sprintf("raw ACL %d is bound %d times; no error", ct.Name, n)})
			}
			if n == 0 && !isWarned(ct.Name) {
				vs = append(vs, violation{"raw_unbound_object_not_reported", fmt.Sprintf("raw ACL %d is not bound; no warning", ct.Name)})
			}
		}
		// (no return here: the laws are checked on the known lines of every binding anyway)
		// ACL names of IPv4 that the IPv6 file binds at a place IPv4 does not bind (F-C18g): per object
		affected := map[int]bool{}
		for _, a := range c.V6.Anchors {
			if _, ok := boundBy(c.V4, a.Key); !ok && contOf(c.V4, a.ACL).ok {
				affected[a.ACL] = true
			}
		}
		keys := map[int]bool{}
		for _, f := range []File{c.V4, c.V6, c.Raw} {
			for _, a := range f.Anchors {
				keys[a.Key] = true
			}
		}
		for k := range keys {
			var p4, p6, pr part
			n4, ok4 := boundBy(c.V4, k)
			if ok4 {
				p4 = contOf(c.V4, n4)
			}
			n6, ok6 := boundBy(c.V6, k)
			if ok6 {
				p6 = contOf(c.V6, n6)
			}
			if nr, ok := boundBy(c.Raw, k); ok {
				pr = contOf(c.Raw, nr)
			}
			res, bound := o.Lists[k]
			where := fmt.Sprintf("%s ACL bound at %d", c.Dev, k)
			if !bound {
				vs = append(vs, violation{"binding_lost", where + ": no binding in the result"})
				continue
			}
			l := checkList(c.Dev, res, p4.lines, p6.lines, pr.lines, where)
			// classify the one known way of losing IPv4 lines
			for i := range l {
				if l[i].pred == "entry_lost_or_duplicated" || l[i].pred == "foreign_entry" {
					if (ok4 && affected[n4]) || (ok6 && affected[n6]) {
						// this binding shows the ACL whose name is reused; model_predicts = the Lean hypothesis
						// safeMerge of cisco_netspoc_lines_kept_partial fails on this input
						l[i].pred = withAttrs("v6_new_anchor_shares_acl_name_with_v4", "affected_object=true", "model_predicts="+strconv.FormatBool(!safe6))
					}
				}
			}
			vs = append(vs, l...)
		}
		return vs
	}
	if c.Dev == "panos" {
		// objects a part defines and its own rules use must reach the target as well
		for i, f := range []File{c.V4, c.V6, c.Raw} {
			if !f.Present || !f.SvcGroups {
				continue
			}
			for _, ct := range f.Conts {
				if g := panGroup(ct.Name, []string{"4", "6", "r"}[i]); len(ct.Lines) > 0 && !o.Groups[g] {
					vs = append(vs, violation{"panos_service_group_dropped",
						fmt.Sprintf("service-group %s, defined in part %d and used by its rule, is not transferred", g, i)})
				}
			}
		}
	}
	names := map[int]bool{}
	for _, f := range []File{c.V4, c.V6, c.Raw} {
		for _, ct := range f.Conts {
			names[ct.Name] = true
		}
	}
	for n := range names {
		p4, p6, pr := contOf(c.V4, n), contOf(c.V6, n), contOf(c.Raw, n)
		where := fmt.Sprintf("%s container %d", c.Dev, n)
		res, ok := o.Lists[n]
		if !ok {
			if len(p4.lines)+len(p6.lines)+len(pr.lines) == 0 && c.Dev == "panos" {
				continue // a vsys without rules gives no command
			}
			vs = append(vs, violation{"container_lost", where + ": missing in the result"})
			continue
		}
		raw := pr.lines
		if !p4.ok && !p6.ok && c.Dev == "linux" {
			// chain only in raw: taken as it is (file order)
			for i := range raw {
				raw[i].App = false
			}
		}
		vs = append(vs, checkList(c.Dev, res, p4.lines, p6.lines, raw, where)...)
	}
	return vs
}

// expectDiagnostic judges from the generator's input alone (no parser, no model):
// mustFail != "" : the input has an entry of an unmergeable kind that certainly has to be reported by an error;
// surelyFine     : the input has no entry of any unmergeable kind, so no error may come.
func expectDiagnostic(c Case) (mustFail string, surelyFine bool) {
	surelyFine = true
	if c.Raw.Present && c.Raw.UnknownTop {
		return "raw file contains a command / rule name the parser has to reject", false
	}
	names := func(f File) map[int]bool {
		m := map[int]bool{}
		for _, ct := range f.Conts {
			m[ct.Name] = true
		}
		return m
	}
	switch c.Dev {
	case "asa", "ios":
		net := names(c.V4)
		for n := range names(c.V6) {
			net[n] = true
		}
		bound := map[int]int{}
		for _, a := range c.Raw.Anchors {
			if !contOf(c.Raw, a.ACL).ok {
				return fmt.Sprintf("raw binding references undefined ACL %d", a.ACL), false
			}
			bound[a.ACL]++
		}
		for n, k := range bound {
			if k >= 2 {
				return fmt.Sprintf("raw ACL %d is bound %d times", n, k), false
			}
		}
		for n := range names(c.Raw) {
			if net[n] {
				surelyFine = false // shared name: clash or not depends on where it is bound
			}
		}
		bound6 := map[int]int{}
		for _, a := range c.V6.Anchors {
			bound6[a.ACL]++
			if bound6[a.ACL] >= 2 {
				surelyFine = false // an IPv6 ACL bound twice: error or not depends on the kind of binding
			}
		}
	case "linux":
		seen := map[int]bool{}
		for i, f := range []File{c.V4, c.V6, c.Raw} {
			for _, ct := range f.Conts {
				_, _, user := linuxTC(ct.Name)
				if i > 0 && user && seen[ct.Name] && seenTable(c, i, ct.Name) {
					return fmt.Sprintf("user chain %d of part %d is defined by an earlier part", ct.Name, i), false
				}
			}
			for _, ct := range f.Conts {
				seen[ct.Name] = true
			}
		}
	}
	return "", surelyFine
}

// seenTable: some earlier part has the table of chain n.
func seenTable(c Case, part, n int) bool {
	for i, f := range []File{c.V4, c.V6, c.Raw} {
		if i >= part {
			break
		}
		for _, ct := range f.Conts {
			if (ct.Name/5)%2 == (n/5)%2 {
				return true
			}
		}
	}
	return false
}

// v6SharesName: the IPv6 file binds, at an anchor the IPv4 file does not have, an ACL whose name the
// IPv4 file also uses.
func v6SharesName(c Case) bool {
	for _, a := range c.V6.Anchors {
		if _, ok := boundBy(c.V4, a.Key); ok {
			continue
		}
		if contOf(c.V4, a.ACL).ok {
			return true
		}
	}
	return false
}

// ---------------------------------------------------------------- generators

type gen struct {
	rng    *RNG
	nextID int
}

func (g *gen) id() int { g.nextID++; return g.nextID }

func (g *gen) lines(dev string, n int, raw, v6 bool, profile int) []Line {
	var ls []Line
	for i := 0; i < n; i++ {
		k := "p"
		switch r := g.rng.Intn(100); {
		case profile == 1: // no permit at all
			k = "d"
			if r < 20 {
				k = "o"
			}
		case r < 45:
			k = "p"
		case r < 85:
			k = "d"
		default:
			k = "o"
		}
		if dev == "panos" || dev == "nsx" {
			if k == "o" {
				k = "d"
			}
		}
		ls = append(ls, Line{ID: g.id(), Kind: k, Known: true})
	}
	// typical Netspoc shape: permits, then a final deny
	if !raw && profile == 2 && n > 0 {
		for i := range ls {
			ls[i].Kind = "p"
		}
		ls[n-1].Kind = "d"
		if dev == "asa" && v6 {
			ls[n-1].Kind = "6"
		}
	}
	if dev == "asa" && (v6 || raw) && n > 0 && g.rng.Chance(15) {
		ls[g.rng.Intn(n)].Kind = "6"
	}
	if raw && n > 0 {
		// [APPEND] flags: a suffix of the lines (file format), PAN-OS may interleave
		switch r := g.rng.Intn(100); {
		case r < 30:
		case r < 40:
			for i := range ls {
				ls[i].App = true
			}
		default:
			cut := g.rng.Intn(n + 1)
			for i := cut; i < n; i++ {
				ls[i].App = true
			}
		}
		if dev == "panos" && g.rng.Chance(30) {
			for i := range ls {
				ls[i].App = g.rng.Bool()
			}
		}
		if dev == "nsx" {
			for i := range ls {
				ls[i].App = false
			}
		}
		if dev == "ios" && g.rng.Chance(6) {
			ls[g.rng.Intn(n)].Known = false
		}
	}
	return ls
}

func (g *gen) genCisco(dev string) Case {
	c := Case{Dev: dev}
	r := g.rng
	nKeys := nIntf * 2
	// IPv4
	c.V4.Present = r.Chance(88)
	name := 0
	if c.V4.Present {
		c.V4.Garbage = r.Chance(20)
		for k := 0; k < nKeys; k++ {
			if r.Chance(45) {
				name++
				c.V4.Conts = append(c.V4.Conts, Cont{Name: name, Lines: g.lines(dev, 1+r.Intn(4), false, false, r.Intn(4))})
				c.V4.Anchors = append(c.V4.Anchors, Anchor{k, name})
			}
		}
	}
	// IPv6 (ASA mostly)
	p6 := 45
	if dev == "ios" {
		p6 = 12
	}
	c.V6.Present = r.Chance(p6)
	if c.V6.Present {
		for k := 0; k < nKeys; k++ {
			n4, has4 := boundBy(c.V4, k)
			switch {
			case has4 && r.Chance(70):
				// Netspoc uses the same ACL name for the same binding in both files
				c.V6.Conts = append(c.V6.Conts, Cont{Name: n4, Lines: g.lines(dev, 1+r.Intn(3), false, true, 2)})
				c.V6.Anchors = append(c.V6.Anchors, Anchor{k, n4})
			case !has4 && r.Chance(25):
				name++
				nm := name
				if len(c.V4.Conts) > 0 && r.Chance(4) {
					nm = Pick(r, c.V4.Conts).Name // shared name at a new anchor
					if contOf(c.V6, nm).ok {
						nm = name
					}
				}
				c.V6.Conts = append(c.V6.Conts, Cont{Name: nm, Lines: g.lines(dev, 1+r.Intn(3), false, true, r.Intn(3))})
				c.V6.Anchors = append(c.V6.Anchors, Anchor{k, nm})
			}
		}
	}
	// raw
	c.Raw.Present = r.Chance(92)
	c.Raw.Raw = true
	if c.Raw.Present {
		c.AnchorsLo = r.Bool()
		nACL := r.Intn(4)
		if r.Chance(8) {
			nACL = 0
		}
		used := map[int]bool{}
		for i := 0; i < nACL; i++ {
			name++
			nm := name
			if r.Chance(8) && name > 1 {
				nm = 1 + r.Intn(name-1) // name shared with a Netspoc ACL
				if contOf(c.Raw, nm).ok {
					nm = name
				}
			}
			c.Raw.Conts = append(c.Raw.Conts, Cont{Name: nm, Lines: g.lines(dev, 1+r.Intn(5), true, false, r.Intn(3))})
			// bind it: mostly once, at a Netspoc anchor or a new one
			nb := 1
			switch x := r.Intn(100); {
			case x < 8:
				nb = 0
			case x < 16:
				nb = 2
			}
			for j := 0; j < nb; j++ {
				// never two raw bindings at one place (the property says nothing about their mutual order)
				k := r.Intn(nKeys)
				for t := 0; t < nKeys && used[k]; t++ {
					k = (k + 1) % nKeys
				}
				if used[k] {
					break
				}
				used[k] = true
				c.Raw.Anchors = append(c.Raw.Anchors, Anchor{k, nm})
			}
		}
		if r.Chance(3) {
			c.Raw.Anchors = append(c.Raw.Anchors, Anchor{r.Intn(nKeys), 90 + r.Intn(5)}) // unknown ACL
		}
		c.Raw.UnknownTop = r.Chance(3)
		if dev == "ios" {
			sort.SliceStable(c.Raw.Anchors, func(i, j int) bool { return c.Raw.Anchors[i].Key/2 < c.Raw.Anchors[j].Key/2 })
		}
	}
	return c
}

func (g *gen) genConts(dev string) Case {
	c := Case{Dev: dev}
	r := g.rng
	nNames := 4
	if dev == "linux" {
		nNames = 10
	}
	mk := func(f *File, raw, v6 bool, pPresent, pCont int) {
		f.Present = r.Chance(pPresent)
		f.Raw = raw
		if !f.Present {
			return
		}
		f.Garbage = !raw && r.Chance(15)
		for n := 0; n < nNames; n++ {
			if !r.Chance(pCont) {
				continue
			}
			nl := r.Intn(6)
			_, _, user := linuxTC(n)
			ct := Cont{Name: n, Lines: g.lines(dev, nl, raw, v6, r.Intn(4))}
			if dev == "linux" {
				ct.User = user
			}
			if ct.Lines == nil {
				ct.Lines = []Line{}
			}
			f.Conts = append(f.Conts, ct)
			if dev == "nsx" && (raw || v6) && r.Chance(10) {
				// the same policy id a second time
				f.Conts = append(f.Conts, Cont{Name: n, Lines: g.lines(dev, 1+r.Intn(2), raw, v6, 0)})
			}
		}
		if dev == "nsx" {
			Shuffle(r, f.Conts)
		}
		f.UnknownTop = raw && r.Chance(3) && len(f.Conts) > 0 && (dev == "linux" || len(f.Conts[0].Lines) > 0)
		f.SvcGroups = dev == "panos" && r.Chance(30)
		if dev == "linux" {
			// hand-written files often omit COMMIT; tables come in any order
			f.NoCommit = r.Chance(45)
			f.TablesRev = r.Bool()
		}
	}
	pc := 55
	if dev == "linux" {
		pc = 30
	}
	mk(&c.V4, false, false, 88, pc)
	p6 := 35
	if dev == "linux" {
		p6 = 8
	}
	mk(&c.V6, false, true, p6, pc)
	mk(&c.Raw, true, false, 92, pc)
	if dev == "linux" {
		// user chains in raw that Netspoc also defines are an error; keep them rare
		var cs []Cont
		for _, ct := range c.Raw.Conts {
			if ct.User && (contOf(c.V4, ct.Name).ok || contOf(c.V6, ct.Name).ok) && !r.Chance(10) {
				continue
			}
			cs = append(cs, ct)
		}
		c.Raw.Conts = cs
		var cs6 []Cont
		for _, ct := range c.V6.Conts {
			if ct.User && contOf(c.V4, ct.Name).ok {
				continue
			}
			cs6 = append(cs6, ct)
		}
		c.V6.Conts = cs6
	}
	return c
}

func (g *gen) genCase(dev string) Case {
	g.nextID = 0
	if dev == "asa" || dev == "ios" {
		return g.genCisco(dev)
	}
	return g.genConts(dev)
}

// ---------------------------------------------------------------- corpus (the findings of DESIGN.md section 7 first)

func L(id int, kind string, app bool) Line { return Line{ID: id, Kind: kind, App: app, Known: true} }

func corpus() []Case {
	var cs []Case
	for _, dev := range []string{"asa", "ios"} {
		// F-C18a: [APPEND] lines, no permit line at all
		cs = append(cs, Case{Dev: dev,
			V4:  File{Present: true, Conts: []Cont{{Name: 1, Lines: []Line{L(10, "d", false)}}}, Anchors: []Anchor{{0, 1}}},
			Raw: File{Present: true, Raw: true, Conts: []Cont{{Name: 2, Lines: []Line{L(1, "d", false), L(2, "d", true)}}}, Anchors: []Anchor{{0, 2}}}})
		// ACL written completely behind the [APPEND] marker, bound at a new anchor
		cs = append(cs, Case{Dev: dev,
			V4:  File{Present: true, Conts: []Cont{{Name: 1, Lines: []Line{L(10, "p", false), L(11, "d", false)}}}, Anchors: []Anchor{{0, 1}}},
			Raw: File{Present: true, Raw: true, Conts: []Cont{{Name: 2, Lines: []Line{L(1, "p", true), L(2, "d", true)}}}, Anchors: []Anchor{{3, 2}}}})
		// F-C18d: last permit line of the merged list is a raw line
		cs = append(cs, Case{Dev: dev,
			V4:  File{Present: true, Conts: []Cont{{Name: 1, Lines: []Line{L(10, "d", false)}}}, Anchors: []Anchor{{0, 1}}},
			Raw: File{Present: true, Raw: true, Conts: []Cont{{Name: 2, Lines: []Line{L(1, "p", false), L(2, "d", false), L(3, "d", true), L(4, "p", true)}}}, Anchors: []Anchor{{0, 2}}}})
		// the documented example of the tests
		cs = append(cs, Case{Dev: dev,
			V4:  File{Present: true, Conts: []Cont{{Name: 1, Lines: []Line{L(10, "p", false), L(11, "d", false)}}}, Anchors: []Anchor{{0, 1}}},
			Raw: File{Present: true, Raw: true, Conts: []Cont{{Name: 2, Lines: []Line{L(1, "p", false), L(2, "d", true)}}}, Anchors: []Anchor{{0, 2}}}})
		// F-C18e: raw ACL bound at a Netspoc anchor and at a new anchor
		cs = append(cs, Case{Dev: dev,
			V4:  File{Present: true, Conts: []Cont{{Name: 1, Lines: []Line{L(10, "p", false), L(11, "d", false)}}}, Anchors: []Anchor{{0, 1}}},
			Raw: File{Present: true, Raw: true, Conts: []Cont{{Name: 2, Lines: []Line{L(1, "p", false)}}}, Anchors: []Anchor{{0, 2}, {3, 2}}}})
		cs = append(cs, Case{Dev: dev,
			V4:  File{Present: true, Conts: []Cont{{Name: 1, Lines: []Line{L(10, "p", false), L(11, "d", false)}}}, Anchors: []Anchor{{0, 1}}},
			Raw: File{Present: true, Raw: true, Conts: []Cont{{Name: 2, Lines: []Line{L(1, "p", false)}}}, Anchors: []Anchor{{3, 2}, {0, 2}}}})
	}
	// ASA: IPv4 + IPv6 + raw with the any6 exception
	cs = append(cs, Case{Dev: "asa",
		V4:  File{Present: true, Conts: []Cont{{Name: 1, Lines: []Line{L(10, "p", false), L(11, "d", false)}}}, Anchors: []Anchor{{0, 1}}},
		V6:  File{Present: true, Conts: []Cont{{Name: 1, Lines: []Line{L(20, "p", false), L(21, "6", false)}}}, Anchors: []Anchor{{0, 1}}},
		Raw: File{Present: true, Raw: true, Conts: []Cont{{Name: 2, Lines: []Line{L(1, "p", false), L(2, "d", false), L(3, "d", true), L(4, "p", true)}}}, Anchors: []Anchor{{0, 2}}}})
	// IOS: unknown sub-command in a raw ACL
	cs = append(cs, Case{Dev: "ios",
		V4:  File{Present: true, Conts: []Cont{{Name: 1, Lines: []Line{L(10, "p", false), L(11, "d", false)}}}, Anchors: []Anchor{{0, 1}}},
		Raw: File{Present: true, Raw: true, Conts: []Cont{{Name: 2, Lines: []Line{L(1, "p", false), {ID: 2, Kind: "p", Known: false}}}}, Anchors: []Anchor{{0, 2}}}})
	// Linux F-C18b, F-C18c
	cs = append(cs, Case{Dev: "linux",
		V4:  File{Present: true, Conts: []Cont{{Name: 0, Lines: []Line{L(10, "p", false), L(11, "o", false), L(12, "d", false), L(13, "d", false)}}}},
		Raw: File{Present: true, Raw: true, Conts: []Cont{{Name: 0, Lines: []Line{L(1, "p", false), L(2, "d", false), L(3, "o", false)}}}}})
	cs = append(cs, Case{Dev: "linux",
		V4:  File{Present: true, Conts: []Cont{{Name: 0, Lines: []Line{L(10, "p", false), L(12, "d", false)}}}},
		Raw: File{Present: true, Raw: true, Conts: []Cont{{Name: 0, Lines: []Line{L(4, "d", true), L(5, "p", true), L(6, "o", true)}}}}})
	cs = append(cs, Case{Dev: "linux",
		V4:  File{Present: true, Conts: []Cont{{Name: 0, Lines: []Line{L(12, "d", false)}}}},
		Raw: File{Present: true, Raw: true, Conts: []Cont{{Name: 0, Lines: []Line{L(1, "d", false), L(5, "p", true)}}}}})
	// the [APPEND] mark ends with its table, COMMIT or not: raw filter/INPUT has an APPEND rule, raw mangle/INPUT
	// (written behind it, no COMMIT lines) an unmarked rule; both chains exist in Netspoc's file
	for _, rev := range []bool{false, true} {
		cs = append(cs, Case{Dev: "linux",
			V4: File{Present: true, Conts: []Cont{{Name: 0, Lines: []Line{L(10, "p", false), L(11, "d", false)}}, {Name: 5, Lines: []Line{L(12, "p", false), L(13, "d", false)}}}},
			Raw: File{Present: true, Raw: true, NoCommit: true, TablesRev: rev, Conts: []Cont{
				{Name: 0, Lines: []Line{L(1, "p", !rev)}}, {Name: 5, Lines: []Line{L(2, "p", rev)}}}}})
	}
	// PAN-OS, NSX
	cs = append(cs, Case{Dev: "panos",
		V4:  File{Present: true, Conts: []Cont{{Name: 1, Lines: []Line{L(10, "p", false), L(11, "d", false)}}}},
		V6:  File{Present: true, Conts: []Cont{{Name: 1, Lines: []Line{L(20, "p", false)}}}},
		Raw: File{Present: true, Raw: true, Conts: []Cont{{Name: 1, Lines: []Line{L(1, "p", false), L(2, "d", true), L(3, "d", false), L(4, "p", true)}}, {Name: 2, Lines: []Line{L(5, "d", true), L(6, "p", false)}}}}})
	// F-C18h: service-group defined in the raw file and used by a raw rule
	cs = append(cs, Case{Dev: "panos",
		V4:  File{Present: true, Conts: []Cont{{Name: 1, Lines: []Line{L(10, "p", false)}}}},
		Raw: File{Present: true, Raw: true, SvcGroups: true, Conts: []Cont{{Name: 1, Lines: []Line{L(1, "p", false)}}}}})
	cs = append(cs, Case{Dev: "nsx",
		V4:  File{Present: true, Conts: []Cont{{Name: 1, Lines: []Line{L(10, "p", false), L(11, "d", false)}}}},
		V6:  File{Present: true, Conts: []Cont{{Name: 1, Lines: []Line{L(20, "p", false)}}, {Name: 2, Lines: []Line{L(21, "p", false)}}}},
		Raw: File{Present: true, Raw: true, Conts: []Cont{{Name: 2, Lines: []Line{L(1, "p", false)}}, {Name: 1, Lines: []Line{L(2, "d", false), L(3, "d", false)}}, {Name: 3, Lines: []Line{L(4, "d", false)}}}}})
	return cs
}

// ---------------------------------------------------------------- bounded-exhaustive (thorough)

// exhaustive enumerates, for the list-merging core, all Netspoc lists up to length 3 and all raw
// lists of length 1..3 over {permit, deny, other} (PAN-OS: {allow, drop}) with every position of
// the [APPEND] marker.
func exhaustive(dev string, f func(Case)) {
	kinds := []string{"p", "d", "o"}
	if dev == "panos" {
		kinds = []string{"p", "d"}
	}
	var lists func(n int) [][]string
	lists = func(n int) [][]string {
		if n == 0 {
			return [][]string{{}}
		}
		var out [][]string
		for _, l := range lists(n - 1) {
			for _, k := range kinds {
				out = append(out, append(append([]string{}, l...), k))
			}
		}
		return out
	}
	for na := 0; na <= 3; na++ {
		for _, ka := range lists(na) {
			for nb := 1; nb <= 3; nb++ {
				for _, kb := range lists(nb) {
					for cut := 0; cut <= nb; cut++ {
						var a, b []Line
						for i, k := range ka {
							a = append(a, L(10+i, k, false))
						}
						for i, k := range kb {
							b = append(b, L(1+i, k, i >= cut))
						}
						if dev == "asa" || dev == "ios" {
							if na == 0 {
								// ACL only in raw, new anchor
								f(Case{Dev: dev, V4: File{Present: true},
									Raw: File{Present: true, Raw: true, Conts: []Cont{{Name: 2, Lines: b}}, Anchors: []Anchor{{0, 2}}}})
								continue
							}
							f(Case{Dev: dev,
								V4:  File{Present: true, Conts: []Cont{{Name: 1, Lines: a}}, Anchors: []Anchor{{0, 1}}},
								Raw: File{Present: true, Raw: true, Conts: []Cont{{Name: 2, Lines: b}}, Anchors: []Anchor{{0, 2}}}})
						} else {
							if a == nil {
								a = []Line{}
							}
							f(Case{Dev: dev,
								V4:  File{Present: true, Conts: []Cont{{Name: 0, Lines: a}}},
								Raw: File{Present: true, Raw: true, Conts: []Cont{{Name: 0, Lines: b}}}})
						}
					}
				}
			}
		}
	}
}

// ---------------------------------------------------------------- main loop

func runC18(ctx *Ctx) *Result {
	res := NewResult()
	res.Rule = "triples (IPv4 file, IPv6 file, raw file) for ASA, IOS, Linux, PAN-OS, NSX: several ACLs/chains/vsys/policies per file, " +
		"[APPEND] sections, lists without permit lines, empty and absent files, shared names, raw objects bound 0/1/2 times, unknown commands; " +
		"written to disk and run through drc.Main (empty device); corpus first, then seeded random, thorough adds all list pairs up to 3+3 lines. " +
		"non-trivial = the raw file is present and some container receives entries from at least two parts; distinct by the encoded case. " +
		"Stream cisco3: generated ASA/IOS configurations (routes, ACLs with object-groups, crypto maps, dynamic maps, transform sets, group-policies, " +
		"tunnel-groups, usernames, pools, interface subcommands; equal / new / clashing names, unreferenced and twice referenced raw objects) parsed by the real " +
		"parser and merged by the real MergeSpoc; command tables before and after (hooks) compared with the general Lean model; non-trivial = raw table has >= 3 prefixes. " +
		"Stream nonempty (nonempty.go): the clean cases of stream 1 for ASA, Linux, IOS against devices that already hold the same target, the target without its raw / IPv6 file, " +
		"foreign objects under the generated -DRC-n names; ASA scripts executed on a strict specification-side device, views judged by the same laws, second compare must be empty; " +
		"nonempty-groups: generated ASA targets with object-groups in Netspoc and raw part against such devices"
	res.Assumptions = []string{
		"container names are unique within one IPv4/IPv6/raw file (PAN-OS vsys, Linux chains; NSX policies may repeat)",
		"streams 1, cisco3, other3: an empty device (the change script of drc then lists the merged target completely); stream nonempty: devices written by the harness, ASA changes executed by the specification-side device of nonempty.go",
	}
	tmp, err := os.MkdirTemp("", "vh-c18-")
	if err != nil {
		panic(err)
	}
	defer os.RemoveAll(tmp)
	caseDir = filepath.Join(tmp, "case")
	drv := ctx.StartNadrv("c18")
	defer drv.Close()
	genName := "new"
	if os.Getenv("VERIF_C18_GEN") == "old" {
		genName = "old"
		res.Notes = append(res.Notes, "model generation: old (code as found)")
	}

	judged, total := map[string]int{}, map[string]int{}
	runCase := func(c Case) {
		o := runReal(c)
		impl := o.canon()
		ans := drv.Ask(c.enc(genName))
		model := modelCanon(c, ans)
		if c.Dev == "asa" || c.Dev == "ios" {
			if d := dumpReal(c); d != "" {
				res.Count("tie:acl-table-after-loadSpoc")
				if md := modelDump(c, ans); md != d {
					res.Disagree("c18 ACL table after loadSpoc", c, d, md)
				}
			}
		}
		// statistics
		res.Count("dev:" + c.Dev)
		nApp, nNon, nRaw := 0, 0, 0
		for _, ct := range c.Raw.Conts {
			for _, l := range ct.Lines {
				nRaw++
				if l.App {
					nApp++
				} else {
					nNon++
				}
			}
		}
		mixes := false
		if c.Raw.Present {
			if c.Dev == "asa" || c.Dev == "ios" {
				for _, a := range c.Raw.Anchors {
					_, ok4 := boundBy(c.V4, a.Key)
					_, ok6 := boundBy(c.V6, a.Key)
					mixes = mixes || ok4 || ok6
				}
			} else {
				for _, ct := range c.Raw.Conts {
					mixes = mixes || ((contOf(c.V4, ct.Name).ok || contOf(c.V6, ct.Name).ok) && len(ct.Lines) > 0)
				}
			}
		}
		res.Eval(c.enc(""), mixes)
		res.TracesVsImpl++
		switch {
		case o.Err != "":
			res.Count("outcome:" + strings.Fields(o.Err)[0])
		default:
			res.Count("outcome:ok")
		}
		if nApp > 0 {
			res.Count("raw:has-append")
		}
		if nApp > 0 && nNon > 0 {
			res.Count("raw:append+prepend")
		}
		if c.Dev == "linux" && c.Raw.Present {
			tabs := map[int]bool{}
			appTab, laterNon := -1, false
			ord := []int{0, 1}
			if c.Raw.TablesRev {
				ord = []int{1, 0}
			}
			for _, ti := range ord {
				for _, ct := range c.Raw.Conts {
					if (ct.Name/5)%2 != ti {
						continue
					}
					tabs[ti] = true
					for _, l := range ct.Lines {
						if l.App && appTab < 0 {
							appTab = ti
						}
						if !l.App && appTab >= 0 && appTab != ti && !ct.User && (contOf(c.V4, ct.Name).ok || contOf(c.V6, ct.Name).ok) {
							laterNon = true
						}
					}
				}
			}
			if len(tabs) >= 2 {
				res.Count("linux:raw-two-tables")
				if c.Raw.NoCommit {
					res.Count("linux:raw-two-tables-no-commit")
				}
				if c.Raw.NoCommit && laterNon {
					res.Count("linux:append-in-earlier-table-unmarked-rule-in-later-table-no-commit")
				}
			}
		}
		if !c.V4.Present {
			res.Count("v4:absent")
		}
		if c.V6.Present {
			res.Count("v6:present")
		}
		if !c.Raw.Present {
			res.Count("raw:absent")
		}
		if len(o.Warn) > 0 {
			res.Count("warnings:unused")
		}
		res.Count(fmt.Sprintf("raw-lines:%02d", min(nRaw, 12)))
		// branches of the placement rule that the case reaches
		branch := func(netspoc, raw []Line) {
			if len(raw) == 0 {
				return
			}
			app, netPermit := false, false
			for _, l := range raw {
				app = app || (l.App && l.Known)
			}
			for _, l := range netspoc {
				switch c.Dev {
				case "linux":
					netPermit = netPermit || l.Kind != "d"
				default:
					netPermit = netPermit || l.Kind == "p"
				}
			}
			switch {
			case app && len(netspoc) == 0:
				res.Count("branch:append-into-empty-list")
			case app && !netPermit:
				res.Count("branch:append-no-netspoc-permit")
			case app:
				res.Count("branch:append-behind-last-permit")
			}
			for i := len(raw) - 1; i >= 0; i-- {
				if !raw[i].App {
					if raw[i].Kind == "6" && c.Dev == "asa" {
						res.Count("branch:any6-exception")
					}
					break
				}
			}
		}
		if c.Dev == "asa" || c.Dev == "ios" {
			for _, a := range c.Raw.Anchors {
				var net []Line
				matched := false
				if n, ok := boundBy(c.V4, a.Key); ok {
					net, matched = append(net, contOf(c.V4, n).lines...), true
				}
				if n, ok := boundBy(c.V6, a.Key); ok {
					net, matched = append(net, contOf(c.V6, n).lines...), true
				}
				if matched {
					res.Count("branch:raw-binding-known-to-netspoc")
				} else {
					res.Count("branch:raw-binding-new")
				}
				branch(net, contOf(c.Raw, a.ACL).lines)
			}
		} else {
			for _, ct := range c.Raw.Conts {
				p4, p6 := contOf(c.V4, ct.Name), contOf(c.V6, ct.Name)
				if p4.ok || p6.ok {
					res.Count("branch:raw-container-known-to-netspoc")
					branch(append(p4.lines, p6.lines...), contOf(c.Raw, ct.Name).lines)
				} else {
					res.Count("branch:raw-container-new")
				}
			}
		}
		if impl != model {
			res.Disagree("c18 merged target", c, impl, model)
		}
		safe6 := !strings.HasSuffix(ans, "\tS6:0")
		if safe6 != !v6SharesName(c) {
			res.Count("note:safeMerge-differs-from-simple-shared-name-test")
		}
		vs := oracle(c, o, safe6)
		for _, v := range vs {
			sig, name := sigOf(v.pred, map[string]any{"backend": c.Dev})
			res.Count("oracle:" + name)
			res.Fail(sig, v.what, c)
		}
		// stream "nonempty" (nonempty.go): the same merged target against devices that already hold something
		if c.Dev == "asa" && o.Err == "" && len(o.Odd) == 0 && len(vs) == 0 && (neRuns < neCap || ctx.Replay != "") {
			neRuns++
			runNonEmptyASA(c, safe6, res)
		}
		if c.Dev == "ios" && o.Err == "" && len(o.Odd) == 0 && len(vs) == 0 && (neRunsI < neCap || ctx.Replay != "") {
			neRunsI++
			runNonEmptyIOS(c, res)
		}
		if c.Dev == "linux" && o.Err == "" && len(o.Odd) == 0 && len(vs) == 0 && (neRunsL < neCap || ctx.Replay != "") {
			neRunsL++
			runNonEmptyLinux(c, safe6, res)
		}
		if o.Err == "" && len(o.Odd) == 0 {
			judged[c.Dev]++
		}
		total[c.Dev]++
		if len(res.Samples) < 4 && mixes && nApp > 0 {
			res.Sample(map[string]any{"case": c.enc(genName), "impl": impl})
		}
	}

	if ctx.Replay != "" {
		var probe struct {
			G3 *G3Case `json:"g3"`
			O3 *O3Case `json:"o3"`
			NG *NeGroups `json:"neGroups"`
		}
		if err := ReadReplay(ctx.Replay, &probe); err == nil && probe.G3 != nil {
			runCisco3(ctx, res, drv)
			return res
		}
		if probe.O3 != nil {
			runOther3(ctx, res, drv, genName)
			return res
		}
		if probe.NG != nil {
			neGroupsCase(*probe.NG, res)
			return res
		}
		var c Case
		if err := ReadReplay(ctx.Replay, &c); err != nil {
			fmt.Fprintln(os.Stderr, err)
			os.Exit(2)
		}
		if c.Dev == "" {
			runCisco3(ctx, res, drv)
			return res
		}
		runCase(c)
		return res
	}
	if os.Getenv("VERIF_C18_ONLY") == "o3" { // development aid: only the streams of other3.go
		runOther3(ctx, res, drv, genName)
		return res
	}
	for _, c := range corpus() {
		runCase(c)
	}
	g := &gen{rng: ctx.Rng.Fork()}
	devs := []string{"asa", "ios", "linux", "panos", "nsx"}
	n := ctx.N(700, 8000)
	for i := 0; i < n; i++ {
		for _, d := range devs {
			runCase(g.genCase(d))
		}
	}
	// floor: the laws are judged only on cases that end without a diagnostic; most cases must do so
	for _, d := range devs {
		if total[d] > 100 && judged[d]*2 < total[d] {
			res.Disagree("c18 floor: too few cases judged", map[string]any{"backend": d}, fmt.Sprintf("%d of %d cases end with a merged target", judged[d], total[d]), "at least half")
		}
	}
	runCisco3(ctx, res, drv)
	runOther3(ctx, res, drv, genName)
	runNonEmptyGroups(ctx.Rng.Fork(), ctx.N(120, 600), res)
	if ctx.Thorough() {
		for _, d := range []string{"asa", "ios", "linux", "panos"} {
			exhaustive(d, runCase)
		}
		res.Notes = append(res.Notes, "exhaustive: all Netspoc lists of <=3 lines and raw lists of 1..3 lines over {permit,deny,other}, every position of the [APPEND] marker, for ASA, IOS, Linux, PAN-OS")
	}
	return res
}
