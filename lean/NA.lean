import NA.Core.IOUtil
import NA.Props.C13
