import NA.Core.IOUtil
import NA.Drv.All
