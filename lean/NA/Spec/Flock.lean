/-!
# Specification side of C12: advisory locks (`flock(2)`) and Go's `path.Base`

Core Lean only.  This file is independent of the model of the code (`NA/Model/Lock.lean`).

* `Table` — the kernel's flock table restricted to exclusive locks: per lock file (inode; here its
  name inside the one lock directory) at most one holder.  `LOCK_EX|LOCK_NB` succeeds iff the file
  has no holder; a lock disappears when its holder's open file description is closed, which the
  kernel does when the process exits or is killed (`release`).
  TRUSTED (not verified): that Linux implements exactly this.
* `base` — `path.Base` of the Go standard library, transcribed from its source; tied to the real
  function by differential execution in `harness/c12`.
-/
namespace NA.Flock

abbrev Pid := Nat

/-- Holder of the exclusive lock of every lock file. -/
abbrev Table := String → Option Pid

def Table.empty : Table := fun _ => none

/-- `flock(fd, LOCK_EX|LOCK_NB)` can succeed iff nobody holds the file. -/
def Table.free (t : Table) (f : String) : Bool := (t f).isNone

def Table.acquire (t : Table) (f : String) (i : Pid) : Table :=
  fun g => if g = f then some i else t g

/-- All open file descriptions of process `i` are closed (exit, kill, or explicit close). -/
def Table.release (t : Table) (i : Pid) : Table :=
  fun g => if t g = some i then none else t g

@[simp] theorem Table.empty_apply (f : String) : Table.empty f = none := rfl

theorem Table.free_iff (t : Table) (f : String) : t.free f = true ↔ t f = none := by
  unfold Table.free; cases t f <;> simp

@[simp] theorem Table.acquire_same (t : Table) (f : String) (i : Pid) : t.acquire f i f = some i := by
  simp [Table.acquire]

theorem Table.acquire_other (t : Table) (f g : String) (i : Pid) (h : g ≠ f) :
    t.acquire f i g = t g := by
  simp [Table.acquire, h]

theorem Table.release_eq_some (t : Table) (i j : Pid) (g : String) :
    t.release i g = some j ↔ t g = some j ∧ j ≠ i := by
  unfold Table.release
  by_cases h : t g = some i
  · simp [h]; intro hj; exact hj.symm
  · simp [h]; intro hj hji; exact h (hji ▸ hj)

theorem Table.release_of_holder (t : Table) (i : Pid) (g : String) (h : t g = some i) :
    t.release i g = none := by
  simp [Table.release, h]

theorem Table.release_none (t : Table) (i : Pid) (g : String) (h : t g = none) :
    t.release i g = none := by
  simp [Table.release, h]

/-! ## `path.Base` (Go 1.23 `path/path.go`)

```go
func Base(path string) string {
	if path == "" { return "." }
	for len(path) > 0 && path[len(path)-1] == '/' { path = path[0 : len(path)-1] }   // strip trailing slashes
	if i := lastSlash(path); i >= 0 { path = path[i+1:] }                             // last element
	if path == "" { return "/" }                                                       // only slashes
	return path
}
``` -/

def stripTrailing (l : List Char) : List Char := (l.reverse.dropWhile (· == '/')).reverse
def lastElem (l : List Char) : List Char := (l.reverse.takeWhile (· != '/')).reverse

def baseL (l : List Char) : List Char :=
  if l = [] then ['.'] else
    let e := lastElem (stripTrailing l)
    if e = [] then ['/'] else e

def base (s : String) : String := String.ofList (baseL s.toList)

theorem lastElem_stripTrailing_join (dir name : List Char) (hne : name ≠ []) (hs : '/' ∉ name) :
    lastElem (stripTrailing (dir ++ '/' :: name)) = name := by
  have hrev : (dir ++ '/' :: name).reverse = name.reverse ++ '/' :: dir.reverse := by simp
  have hall : ∀ a ∈ name.reverse, (a != '/') = true := by
    intro a ha
    have : a ∈ name := by simpa using ha
    simp; intro h; exact hs (h ▸ this)
  obtain ⟨x, xs, hx⟩ : ∃ x xs, name.reverse = x :: xs := by
    cases h : name.reverse with
    | nil => simp at h; exact absurd h hne
    | cons x xs => exact ⟨x, xs, rfl⟩
  have hx' : (x == '/') = false := by
    have := hall x (by simp [hx]); simpa using this
  have hstrip : stripTrailing (dir ++ '/' :: name) = dir ++ '/' :: name := by
    unfold stripTrailing
    rw [hrev, hx]
    simp [hx']
    have : xs.reverse ++ [x] = name := by
      have := congrArg List.reverse hx; simpa using this.symm
    rw [← this]
  rw [hstrip]
  unfold lastElem
  rw [hrev, List.takeWhile_append_of_pos hall]
  simp

theorem lastElem_stripTrailing_plain (name : List Char) (hne : name ≠ []) (hs : '/' ∉ name) :
    lastElem (stripTrailing name) = name := by
  have hall : ∀ a ∈ name.reverse, (a != '/') = true := by
    intro a ha
    have : a ∈ name := by simpa using ha
    simp; intro h; exact hs (h ▸ this)
  obtain ⟨x, xs, hx⟩ : ∃ x xs, name.reverse = x :: xs := by
    cases h : name.reverse with
    | nil => simp at h; exact absurd h hne
    | cons x xs => exact ⟨x, xs, rfl⟩
  have hx' : (x == '/') = false := by
    have := hall x (by simp [hx]); simpa using this
  have hstrip : stripTrailing name = name := by
    unfold stripTrailing
    rw [hx]
    simp [hx']
    have := congrArg List.reverse hx; simpa using this.symm
  rw [hstrip]
  unfold lastElem
  have : List.takeWhile (fun x => x != '/') name.reverse = name.reverse := by
    have := List.takeWhile_append_of_pos (l₂ := []) hall
    simpa using this
  rw [this]; simp

/-- `path.Base(dir + "/" + name) = name` for a non-empty name without a slash. -/
theorem baseL_join (dir name : List Char) (hne : name ≠ []) (hs : '/' ∉ name) :
    baseL (dir ++ '/' :: name) = name := by
  unfold baseL
  have h1 : dir ++ '/' :: name ≠ [] := by simp
  simp only [h1, if_false, lastElem_stripTrailing_join dir name hne hs, hne]

/-- `path.Base(name) = name` for a non-empty name without a slash. -/
theorem baseL_plain (name : List Char) (hne : name ≠ []) (hs : '/' ∉ name) :
    baseL name = name := by
  unfold baseL
  simp only [hne, if_false, lastElem_stripTrailing_plain name hne hs]

theorem base_join (dir name : String) (hne : name ≠ "") (hs : '/' ∉ name.toList) :
    base (dir ++ "/" ++ name) = name := by
  unfold base
  have hl : name.toList ≠ [] := by
    intro h; apply hne; rw [← String.toList_inj]; simpa using h
  have : (dir ++ "/" ++ name).toList = dir.toList ++ '/' :: name.toList := by
    simp [String.toList_append]
  rw [this, baseL_join _ _ hl hs, String.ofList_toList]

theorem base_plain (name : String) (hne : name ≠ "") (hs : '/' ∉ name.toList) :
    base name = name := by
  unfold base
  have hl : name.toList ≠ [] := by
    intro h; apply hne; rw [← String.toList_inj]; simpa using h
  rw [baseL_plain _ hl hs, String.ofList_toList]

end NA.Flock
