import NA.Spec.Flock
/-!
# C12 (round 3) — every spelling of a device gives the same lock file

`device.SetLock(fname, cfg)` locks `path.Join(path.Join(cfg.BaseDir, "lock"), path.Base(fname))`.
This file characterises `path.Base` (`NA.Flock.baseL`, transcribed in `NA/Spec/Flock.lean`) completely
for ordinary names and models the whole derivation (`lockPath`).

* `SpellsL name s` — `s` is a spelling of the device `name`: anything (empty, or ending in `/`:
  a relative or absolute directory, with `ipv6/`, `./`, `../`, doubled slashes … inside), then the
  name, then any number of trailing slashes.
* `baseL_eq_iff` — for a non-empty name without `/` other than `.`:
  `path.Base s = name` **iff** `s` is a spelling of `name`.  So all spellings of one device share a
  lock file and spellings of different devices never do.
* `lockPath` — the full path, including the three degenerate results of `path.Base` (`.`, `/`, `..`),
  for a clean absolute `basedir`; tied to the real `device.SetLock` by `harness/c12`
  (`fh.Name()` of the file it returns, random and bounded-exhaustive arguments).
Core Lean only.
-/
namespace NA.Flock

def AllSlash (l : List Char) : Prop := ∀ c ∈ l, c = '/'

instance (l : List Char) : Decidable (AllSlash l) := by unfold AllSlash; infer_instance

/-- `s = pre ++ name ++ slashes`, `pre` empty or ending in `/`. -/
def SpellsL (name s : List Char) : Prop :=
  ∃ pre sl, s = pre ++ name ++ sl ∧ AllSlash sl ∧ (pre = [] ∨ ∃ p, pre = p ++ ['/'])

theorem dropWhile_slash_of_all (sl rest : List Char) (h : AllSlash sl) :
    (sl ++ rest).dropWhile (· == '/') = rest.dropWhile (· == '/') := by
  apply List.dropWhile_append_of_pos
  intro a ha; simp [h a ha]

theorem allSlash_reverse (sl : List Char) (h : AllSlash sl) : AllSlash sl.reverse := by
  intro c hc; exact h c (by simpa using hc)

/-- trailing slashes are invisible to `stripTrailing` -/
theorem stripTrailing_append (l sl : List Char) (h : AllSlash sl) :
    stripTrailing (l ++ sl) = stripTrailing l := by
  unfold stripTrailing
  rw [List.reverse_append, dropWhile_slash_of_all _ _ (allSlash_reverse sl h)]

theorem baseL_append_slashes (l sl : List Char) (hl : l ≠ []) (h : AllSlash sl) :
    baseL (l ++ sl) = baseL l := by
  unfold baseL
  have : l ++ sl ≠ [] := by simp [hl]
  simp only [this, hl, if_false, stripTrailing_append l sl h]

/-- **Every spelling gives the name.** -/
theorem baseL_of_spells (name s : List Char) (hne : name ≠ []) (hs : '/' ∉ name) (h : SpellsL name s) :
    baseL s = name := by
  obtain ⟨pre, sl, rfl, hsl, hpre⟩ := h
  have hne' : pre ++ name ≠ [] := by simp [hne]
  rw [baseL_append_slashes _ _ hne' hsl]
  rcases hpre with rfl | ⟨p, rfl⟩
  · simpa using baseL_plain name hne hs
  · have : p ++ ['/'] ++ name = p ++ '/' :: name := by simp
    rw [this]; exact baseL_join p name hne hs

theorem mem_takeWhile_sat (p : Char → Bool) (l : List Char) (c : Char) (h : c ∈ l.takeWhile p) :
    p c = true := by
  induction l with
  | nil => simp at h
  | cons a l ih =>
    simp only [List.takeWhile_cons] at h
    split at h
    · rcases List.mem_cons.1 h with rfl | h'
      · assumption
      · exact ih h'
    · simp at h

/-- what `takeWhile`/`dropWhile` on the reversed list say about the list itself -/
theorem split_trailing (p : Char → Bool) (l : List Char) :
    ∃ front back, l = front ++ back ∧ back.reverse = l.reverse.takeWhile p ∧
      front.reverse = l.reverse.dropWhile p := by
  refine ⟨(l.reverse.dropWhile p).reverse, (l.reverse.takeWhile p).reverse, ?_, by simp, by simp⟩
  have := List.takeWhile_append_dropWhile (p := p) (l := l.reverse)
  have h2 := congrArg List.reverse this
  simp only [List.reverse_append, List.reverse_reverse] at h2
  exact h2.symm

theorem dropWhile_head (p : Char → Bool) (l : List Char) :
    l.dropWhile p = [] ∨ ∃ x xs, l.dropWhile p = x :: xs ∧ p x = false := by
  induction l with
  | nil => left; rfl
  | cons a l ih =>
    by_cases hp : p a = true
    · simp only [List.dropWhile_cons, hp, if_true]; exact ih
    · right; refine ⟨a, l, by simp [hp], by simpa using hp⟩

/-- **Only spellings give the name.** -/
theorem spells_of_baseL (name s : List Char) (hs : '/' ∉ name) (hdot : name ≠ ['.'])
    (h : baseL s = name) : SpellsL name s := by
  unfold baseL at h
  by_cases hnil : s = []
  · simp [hnil] at h; exact absurd h.symm hdot
  · simp only [hnil, if_false] at h
    -- trailing slashes
    obtain ⟨t, sl, hts, hslr, htr⟩ := split_trailing (· == '/') s
    have hstrip : stripTrailing s = t := by
      unfold stripTrailing; rw [← htr]; simp
    have hsl : AllSlash sl := by
      intro c hc
      have : c ∈ s.reverse.takeWhile (· == '/') := by rw [← hslr]; simpa using hc
      have := mem_takeWhile_sat _ _ _ this
      simpa using this
    rw [hstrip] at h
    -- last element
    obtain ⟨pre, e, hpe, her, hprer⟩ := split_trailing (· != '/') t
    have hlast : lastElem t = e := by
      unfold lastElem; rw [← her]; simp
    rw [hlast] at h
    have he : e = name := by
      by_cases hem : e = []
      · simp [hem] at h; exact absurd (h ▸ List.mem_singleton.2 rfl) hs
      · simpa [hem] using h
    subst he
    refine ⟨pre, sl, by rw [hts, hpe], hsl, ?_⟩
    rcases dropWhile_head (· != '/') t.reverse with h0 | ⟨x, xs, hx, hpx⟩
    · left
      have : pre.reverse = [] := by rw [hprer, h0]
      simpa using this
    · right
      have hx' : x = '/' := by simpa using hpx
      refine ⟨xs.reverse, ?_⟩
      have : pre.reverse = x :: xs := by rw [hprer, hx]
      have := congrArg List.reverse this
      simpa [hx'] using this

/-- **The lock name is the last path element, and nothing else**: for an ordinary device name,
`path.Base s = name` iff `s` is a spelling of `name`. -/
theorem baseL_eq_iff (name s : List Char) (hne : name ≠ []) (hs : '/' ∉ name) (hdot : name ≠ ['.']) :
    baseL s = name ↔ SpellsL name s :=
  ⟨spells_of_baseL name s hs hdot, baseL_of_spells name s hne hs⟩

/-! ## Strings, and the whole derivation of `SetLock` -/

/-- `s` is a spelling of the device called `name` -/
def Spells (name s : String) : Prop := SpellsL name.toList s.toList

/-- An ordinary device name: non-empty, no slash, not `.` or `..`. -/
def DeviceName (name : String) : Prop :=
  name ≠ "" ∧ '/' ∉ name.toList ∧ name ≠ "." ∧ name ≠ ".."

instance (name : String) : Decidable (DeviceName name) := by unfold DeviceName; infer_instance

theorem toList_ne_nil (s : String) (h : s ≠ "") : s.toList ≠ [] := by
  intro hl; apply h; rw [← String.toList_inj]; simpa using hl

theorem base_eq_iff (name s : String) (hn : DeviceName name) : base s = name ↔ Spells name s := by
  obtain ⟨hne, hs, hdot, _⟩ := hn
  have hdot' : name.toList ≠ ['.'] := by
    intro h; apply hdot; rw [← String.toList_inj]; simpa using h
  unfold base Spells
  rw [← baseL_eq_iff name.toList s.toList (toList_ne_nil name hne) hs hdot']
  constructor
  · intro h; have := congrArg String.toList h; simpa using this
  · intro h; rw [h, String.ofList_toList]

/-- `path.Join(path.Join(basedir, "lock"), path.Base(arg))` for a clean absolute `basedir` other than
`/`.  `path.Base` returns either one path element or `/`; `path.Join` cleans `.` `..` `/` away. -/
def lockPath (basedir arg : String) : String :=
  let b := base arg
  if b = "." || b = "/" then basedir ++ "/lock"
  else if b = ".." then basedir
  else basedir ++ "/lock/" ++ b

/-- **Same device, same lock** — whatever the spelling: bare name, relative or absolute path of the
code file, the `ipv6/` sub-directory, `./` or `../` components, doubled or trailing slashes. -/
theorem lockPath_of_spelling (basedir name s : String) (hn : DeviceName name) (h : Spells name s) :
    lockPath basedir s = basedir ++ "/lock/" ++ name := by
  have hb := (base_eq_iff name s hn).2 h
  obtain ⟨_, hs, hdot, hdd⟩ := hn
  have hslash : name ≠ "/" := by
    intro h; rw [h] at hs; exact hs (by decide)
  unfold lockPath
  simp [hb, hdot, hdd, hslash]

theorem append_left_cancel (a b c : String) (h : a ++ b = a ++ c) : b = c := by
  have := congrArg String.toList h
  simp only [String.toList_append] at this
  rw [← String.toList_inj]; exact List.append_cancel_left this

/-- **Different devices, different locks**: runs for different devices never exclude each other. -/
theorem lockPath_injective (basedir n1 n2 s1 s2 : String) (h1 : DeviceName n1) (h2 : DeviceName n2)
    (hs1 : Spells n1 s1) (hs2 : Spells n2 s2) (h : lockPath basedir s1 = lockPath basedir s2) : n1 = n2 := by
  rw [lockPath_of_spelling basedir n1 s1 h1 hs1, lockPath_of_spelling basedir n2 s2 h2 hs2] at h
  exact append_left_cancel _ _ _ h

/-- two spellings exclude each other iff they spell the same device -/
theorem same_lock_iff_same_device (basedir n1 n2 s1 s2 : String) (h1 : DeviceName n1) (h2 : DeviceName n2)
    (hs1 : Spells n1 s1) (hs2 : Spells n2 s2) : lockPath basedir s1 = lockPath basedir s2 ↔ n1 = n2 :=
  ⟨lockPath_injective basedir n1 n2 s1 s2 h1 h2 hs1 hs2, fun h => by
    subst h
    rw [lockPath_of_spelling basedir n1 s1 h1 hs1, lockPath_of_spelling basedir n1 s2 h1 hs2]⟩

/-- concrete spellings are spellings: helper to build `Spells` from string pieces -/
theorem spells_intro (name pre sl : String) (hsl : AllSlash sl.toList)
    (hpre : pre = "" ∨ ∃ p : String, pre = p ++ "/") : Spells name (pre ++ name ++ sl) := by
  refine ⟨pre.toList, sl.toList, by simp [String.toList_append], hsl, ?_⟩
  rcases hpre with rfl | ⟨p, rfl⟩
  · left; rfl
  · right; exact ⟨p.toList, by simp [String.toList_append]⟩

end NA.Flock
