/-
Specification side for the PAN-OS properties (C03, and the PAN-OS share of C07, C08, C10).

* decoded configuration of one vsys (`Vsys`): rules, addresses, address-groups, services,
  service-groups.  Everything the planner compares besides names and member lists is an
  opaque canonical string (`hdr` of a rule, `val` of an address or service).
* the command language (`Cmd`): the XML-API requests `set`, `edit`, `delete`, `move` the
  tool sends, one constructor per xpath shape below a vsys.
* the device: a candidate configuration per vsys; `exec` is deliberately strict
  (DESIGN.md section 4): a referenced object must exist, a referenced object cannot be
  deleted, `move … where=before dst` needs both rules, `set` on a member list merges
  (appends what is not yet there), `edit` replaces, `set` of an entry that exists with other
  content is refused as not modelled.
* `equiv`: same rule sequence, addresses / groups / services compared by expanded content.

Independent of the model of the planner.  Core Lean only.
-/
namespace NA.PanOs

structure Rule where
  name : String
  hdr  : String := ""
  src  : List String := []
  dst  : List String := []
  srv  : List String := []
  deriving DecidableEq, Repr, Inhabited

/-- Address or service: name and canonical value. -/
structure Obj where
  name : String
  val  : String
  deriving DecidableEq, Repr, Inhabited

/-- Address-group or service-group. -/
structure Grp where
  name    : String
  members : List String
  deriving DecidableEq, Repr, Inhabited

structure Vsys where
  name    : String := ""
  rules   : List Rule := []
  addrs   : List Obj := []
  groups  : List Grp := []
  svcs    : List Obj := []
  sgroups : List Grp := []
  deriving DecidableEq, Repr, Inhabited

inductive Fld | src | dst | srv
  deriving DecidableEq, Repr, Inhabited

def Rule.get (r : Rule) : Fld → List String
  | .src => r.src | .dst => r.dst | .srv => r.srv

def Rule.set (r : Rule) (f : Fld) (l : List String) : Rule :=
  match f with
  | .src => { r with src := l } | .dst => { r with dst := l } | .srv => { r with srv := l }

/-- One request below `/config/devices/entry[..]/vsys/entry[..]`. -/
inductive Cmd
  | setAddr  (n v : String)                 -- set  address/entry[n]            element = value
  | editAddr (n v : String)                 -- edit address/entry[n]            element = whole entry
  | setGrp   (n : String) (ms : List String)   -- set  address-group/entry[n]/static
  | setSvc   (n v : String)
  | editSvc  (n v : String)
  | setSGrp  (n : String) (ms : List String)   -- set  service-group/entry[n]/members
  | delRule  (n : String)
  | setRule  (r : Rule)                     -- set  rules/entry[r.name]         element = value
  | move     (n dst : String)               -- move rules/entry[n] where=before dst
  | delMem   (n : String) (f : Fld) (m : String)        -- delete rules/entry[n]/f/member[text()=m]
  | addMem   (n : String) (f : Fld) (ms : List String)  -- set    rules/entry[n]/f
  | editList (n : String) (f : Fld) (ms : List String)  -- edit   rules/entry[n]/f
  | delGMem  (g m : String)                 -- delete address-group/entry[g]/static/member[text()=m]
  | delGrp   (n : String)
  | delAddr  (n : String)
  | delSGrp  (n : String)
  | delSvc   (n : String)
  | bad      (why : String)                 -- a request that has none of these shapes
  deriving DecidableEq, Repr, Inhabited

/-! ### List helpers -/

def hasName (names : List String) (n : String) : Bool := names.contains n

/-- `set` on a member list: append every member that is not yet present. -/
def mergeMembers (old new : List String) : List String :=
  new.foldl (fun acc m => if acc.contains m then acc else acc ++ [m]) old

def ruleNames (rs : List Rule) : List String := rs.map (·.name)

def findRule (rs : List Rule) (n : String) : Option Rule := rs.find? (·.name == n)

def insertBefore (dst : String) (r : Rule) : List Rule → List Rule
  | [] => [r]
  | x :: xs => if x.name == dst then r :: x :: xs else x :: insertBefore dst r xs

def modifyRule (rs : List Rule) (n : String) (f : Rule → Rule) : List Rule :=
  rs.map (fun r => if r.name == n then f r else r)

def modifyGrp (gs : List Grp) (n : String) (f : List String → List String) : List Grp :=
  gs.map (fun g => if g.name == n then { g with members := f g.members } else g)

def setVal (os : List Obj) (n v : String) : List Obj :=
  os.map (fun o => if o.name == n then { o with val := v } else o)

/-! ### References -/

/-- Names that resolve outside the vsys (`<shared>`, predefined). -/
abbrev Shared := List String

def addrRefOk (sh : Shared) (v : Vsys) (m : String) : Bool :=
  m == "any" || v.addrs.any (·.name == m) || v.groups.any (·.name == m) || sh.contains m

def srvRefOk (sh : Shared) (v : Vsys) (m : String) : Bool :=
  m == "any" || m == "application-default" || v.svcs.any (·.name == m) ||
    v.sgroups.any (·.name == m) || sh.contains m

def refOk (sh : Shared) (v : Vsys) : Fld → String → Bool
  | .srv => srvRefOk sh v
  | _ => addrRefOk sh v

/-- Is the address / address-group name mentioned by a rule or a group? -/
def addrUsed (v : Vsys) (n : String) : Bool :=
  v.rules.any (fun r => r.src.contains n || r.dst.contains n) ||
    v.groups.any (fun g => g.members.contains n)

def srvUsed (v : Vsys) (n : String) : Bool :=
  v.rules.any (fun r => r.srv.contains n) || v.sgroups.any (fun g => g.members.contains n)

/-! ### Strict execution of one request -/

def exec (sh : Shared) (v : Vsys) : Cmd → Except String Vsys
  | .setAddr n val =>
    match v.addrs.find? (·.name == n) with
    | some o => if o.val == val then .ok v else .error "set-existing-address"
    | none => .ok { v with addrs := v.addrs ++ [⟨n, val⟩] }
  | .editAddr n val =>
    if v.addrs.any (·.name == n) then .ok { v with addrs := setVal v.addrs n val }
    else .error "edit-missing-address"
  | .setSvc n val =>
    match v.svcs.find? (·.name == n) with
    | some o => if o.val == val then .ok v else .error "set-existing-service"
    | none => .ok { v with svcs := v.svcs ++ [⟨n, val⟩] }
  | .editSvc n val =>
    if v.svcs.any (·.name == n) then .ok { v with svcs := setVal v.svcs n val }
    else .error "edit-missing-service"
  | .setGrp n ms =>
    if !ms.all (addrRefOk sh v) then .error "dangling-address-reference"
    else if v.groups.any (·.name == n) then
      .ok { v with groups := modifyGrp v.groups n (fun old => mergeMembers old ms) }
    else .ok { v with groups := v.groups ++ [⟨n, mergeMembers [] ms⟩] }
  | .setSGrp n ms =>
    if !ms.all (srvRefOk sh v) then .error "dangling-service-reference"
    else if v.sgroups.any (·.name == n) then
      .ok { v with sgroups := modifyGrp v.sgroups n (fun old => mergeMembers old ms) }
    else .ok { v with sgroups := v.sgroups ++ [⟨n, mergeMembers [] ms⟩] }
  | .delRule n =>
    if (ruleNames v.rules).contains n then .ok { v with rules := v.rules.filter (·.name != n) }
    else .error "delete-missing-rule"
  | .setRule r =>
    if (ruleNames v.rules).contains r.name then .error "set-existing-rule"
    else if !(r.src.all (addrRefOk sh v) && r.dst.all (addrRefOk sh v)) then
      .error "dangling-address-reference"
    else if !r.srv.all (srvRefOk sh v) then .error "dangling-service-reference"
    else .ok { v with rules := v.rules ++ [r] }
  | .move n dst =>
    match findRule v.rules n with
    | none => .error "move-missing-rule"
    | some r =>
      if n == dst then .error "move-before-itself"
      else if !(ruleNames v.rules).contains dst then .error "move-missing-destination"
      else .ok { v with rules := insertBefore dst r (v.rules.filter (·.name != n)) }
  | .delMem n f m =>
    match findRule v.rules n with
    | none => .error "member-of-missing-rule"
    | some r =>
      if (r.get f).contains m then
        .ok { v with rules := modifyRule v.rules n (fun r => r.set f ((r.get f).filter (· != m))) }
      else .error "delete-missing-member"
  | .addMem n f ms =>
    if !(ruleNames v.rules).contains n then .error "member-of-missing-rule"
    else if !ms.all (refOk sh v f) then .error "dangling-reference"
    else .ok { v with rules := modifyRule v.rules n (fun r => r.set f (mergeMembers (r.get f) ms)) }
  | .editList n f ms =>
    if !(ruleNames v.rules).contains n then .error "member-of-missing-rule"
    else if !ms.all (refOk sh v f) then .error "dangling-reference"
    else .ok { v with rules := modifyRule v.rules n (fun r => r.set f ms) }
  | .delGMem g m =>
    match v.groups.find? (·.name == g) with
    | none => .error "member-of-missing-group"
    | some gr =>
      if gr.members.contains m then
        .ok { v with groups := modifyGrp v.groups g (fun old => old.filter (· != m)) }
      else .error "delete-missing-member"
  | .delGrp n =>
    if !v.groups.any (·.name == n) then .error "delete-missing-group"
    else if addrUsed { v with groups := v.groups.filter (·.name != n) } n then
      .error "delete-referenced-group"
    else .ok { v with groups := v.groups.filter (·.name != n) }
  | .delAddr n =>
    if !v.addrs.any (·.name == n) then .error "delete-missing-address"
    else if addrUsed v n then .error "delete-referenced-address"
    else .ok { v with addrs := v.addrs.filter (·.name != n) }
  | .delSGrp n =>
    if !v.sgroups.any (·.name == n) then .error "delete-missing-service-group"
    else if srvUsed { v with sgroups := v.sgroups.filter (·.name != n) } n then
      .error "delete-referenced-service-group"
    else .ok { v with sgroups := v.sgroups.filter (·.name != n) }
  | .delSvc n =>
    if !v.svcs.any (·.name == n) then .error "delete-missing-service"
    else if srvUsed v n then .error "delete-referenced-service"
    else .ok { v with svcs := v.svcs.filter (·.name != n) }
  | .bad why => .error ("malformed-request " ++ why)

/-- Run a script; stops at the first refused request: `(state reached, number of accepted
requests, reason of the refusal)`. -/
def execAll (sh : Shared) : Vsys → List Cmd → Vsys × Nat × Option String
  | v, [] => (v, 0, none)
  | v, c :: cs =>
    match exec sh v c with
    | .error e => (v, 0, some e)
    | .ok v' => let (w, k, e) := execAll sh v' cs; (w, k + 1, e)

/-! ### Equivalence by expanded content -/

inductive Leaf
  | val (v : String)      -- an address / service defined in the vsys, by value
  | ext (n : String)      -- `any`, `application-default`, shared object: by name
  deriving DecidableEq, Repr

/-- Content of one member of a source / destination list. -/
def expandAddr (v : Vsys) : Nat → String → List Leaf
  | 0, m => [.ext m]
  | fuel + 1, m =>
    match v.groups.find? (·.name == m) with
    | some g => g.members.flatMap (expandAddr v fuel)
    | none =>
      match v.addrs.find? (·.name == m) with
      | some o => [.val o.val]
      | none => [.ext m]

def expandSrv (v : Vsys) : Nat → String → List Leaf
  | 0, m => [.ext m]
  | fuel + 1, m =>
    match v.sgroups.find? (·.name == m) with
    | some g => g.members.flatMap (expandSrv v fuel)
    | none =>
      match v.svcs.find? (·.name == m) with
      | some o => [.val o.val]
      | none => [.ext m]

def addrContent (v : Vsys) (l : List String) : List Leaf :=
  l.flatMap (expandAddr v (v.groups.length + 1))

def srvContent (v : Vsys) (l : List String) : List Leaf :=
  l.flatMap (expandSrv v (v.sgroups.length + 1))

def sameSet (x y : List Leaf) : Bool := x.all (y.contains ·) && y.all (x.contains ·)

/-- One device rule against one target rule (names are irrelevant). -/
def ruleEquiv (dv : Vsys) (dr : Rule) (tv : Vsys) (tr : Rule) : Bool :=
  dr.hdr == tr.hdr &&
    sameSet (addrContent dv dr.src) (addrContent tv tr.src) &&
    sameSet (addrContent dv dr.dst) (addrContent tv tr.dst) &&
    sameSet (srvContent dv dr.srv) (srvContent tv tr.srv)

def rulesEquiv (dv tv : Vsys) : List Rule → List Rule → Bool
  | [], [] => true
  | d :: ds, t :: ts => ruleEquiv dv d tv t && rulesEquiv dv tv ds ts
  | _, _ => false

/-- The device vsys carries the rulebase of the target vsys. -/
def equiv (dev tgt : Vsys) : Bool := rulesEquiv dev tgt dev.rules tgt.rules

/-! ### Well-formedness of a configuration (what the device itself guarantees) -/

def allRefsOk (sh : Shared) (v : Vsys) : Bool :=
  v.rules.all (fun r => r.src.all (addrRefOk sh v) && r.dst.all (addrRefOk sh v) &&
    r.srv.all (srvRefOk sh v)) &&
  v.groups.all (fun g => g.members.all (addrRefOk sh v)) &&
  v.sgroups.all (fun g => g.members.all (srvRefOk sh v))

def nodupB (l : List String) : Bool :=
  match l with
  | [] => true
  | x :: xs => !xs.contains x && nodupB xs

/-- Names are keys: unique per kind; address and address-group share a name space, so do
service and service-group. -/
def namesOk (v : Vsys) : Bool :=
  nodupB (ruleNames v.rules) &&
  nodupB (v.addrs.map (·.name) ++ v.groups.map (·.name)) &&
  nodupB (v.svcs.map (·.name) ++ v.sgroups.map (·.name))

def listsNodup (v : Vsys) : Bool :=
  v.rules.all (fun r => nodupB r.src && nodupB r.dst && nodupB r.srv) &&
  v.groups.all (fun g => nodupB g.members) && v.sgroups.all (fun g => nodupB g.members)

/-- No group is a member of a group (Netspoc generates none; the planner says
"nested groups are not supported"). -/
def noNested (v : Vsys) : Bool :=
  v.groups.all (fun g => g.members.all (fun m => !v.groups.any (·.name == m))) &&
  v.sgroups.all (fun g => g.members.all (fun m => !v.sgroups.any (·.name == m)))

def wellFormed (sh : Shared) (v : Vsys) : Bool :=
  allRefsOk sh v && namesOk v && listsNodup v

/-! ### The whole device: several vsys; a request carries the name of its vsys -/

abbrev Device := List Vsys

def execDev (sh : Shared) (d : Device) (vs : String) (c : Cmd) : Except String Device :=
  match d.find? (·.name == vs) with
  | none => .error "unknown-vsys"
  | some _ =>
    d.mapM (fun v => if v.name == vs then exec sh v c else .ok v)

end NA.PanOs
