import NA.Spec.SessFault
/-!
# Conforming devices and single injected faults (C09)

`mkDev b sh pos kind`: a device that answers every line the way the simulators of the harness do
(a conforming device of backend `b` with login shape `sh`), except that the reply number `pos`
is a fault of the given kind.  Used by the driver (`nadrv-c09`) to predict the real runs of the
fault matrix, and by the counterexample theorems of `NA/Props/C09.lean`.
-/
namespace NA.Spec.C09
open NA.Sess NA.Apply

structure Shape where
  yesno : Bool := false
  enablepw : Bool := false
  pageroff : Bool := false
  width511 : Bool := false
  saveask : Bool := false
  overwrite : Bool := false
  nochanges : Bool := false
  pend : Nat := 0
  realscp : Bool := false   -- Linux: scp is really executed (not the test short-cut)

def linesOf (tr : List Ev) : List String :=
  tr.foldr (fun e acc => match e with | .sent _ ls => ls ++ acc | _ => acc) []

def gotCount (tr : List Ev) : Nat := repliesRead tr

/-- the conforming reply to line `l` (the `g`-th line; `prev` = the line before it) -/
def niceReply (b : Backend) (sh : Shape) (g : Nat) (l prev : String) (polls : Nat) : Reply :=
  let fl (fs : List Flag) (arr : Arr := .full) : Reply := { arr := arr, flags := fs }
  match b with
  | .asa | .ios =>
    if g == 0 then (if sh.yesno then fl [.yesNo] .noPrompt
                    else fl (if b == .asa then [.password, .bannerOk] else [.password]) .noPrompt)
    else if l == "yes" then fl (if b == .asa then [.password, .bannerOk] else [.password]) .noPrompt
    else if l == "<secret>" then
      (if prev == "enable" then fl [.hash] else fl (if b == .ios then [.gt, .bannerOk] else [.gt]) .noPrompt)
    else if l == "enable" then (if sh.enablepw then fl [.password] .noPrompt else fl [.hash])
    else if l == "" then
      (if prev == "write memory" then fl [.okMark, .hash] else fl [.hash, .nameOk])
    else if l == "sh pager" then fl (if sh.pageroff then [.noPager] else [])
    else if l == "sh term" then fl (if sh.width511 then [.w511] else [])
    else if l == "show hostname" then fl [.nameOk]
    else if l == "write term" || l == "sh run" then fl [.cfgGenuine, .cfgParses]
    else if l == "write memory" then
      (if b == .ios && sh.overwrite then fl [.overwrite, .confirm] .noPrompt else fl [.okMark])
    else if l == "reload in 2" || l == "do reload in 2" then
      (if sh.saveask then fl [.saveAsk] .noPrompt else fl [.confirm] .noPrompt)
    else if l == "n" then fl [.confirm] .noPrompt
    else if l == "reload cancel" then fl [.aborted]
    else fl []
  | .linux =>
    if g == 0 then (if sh.yesno then fl [.yesNo] .noPrompt else fl [.hash])
    else if l == "yes" then fl [.hash]
    else if l == "PS1=router#" then fl [.hash]
    else if l == "hostname -s" then fl [.nameOk]
    else if l == "echo $?" then fl [.status0]
    else if l == "which iptables-restore" then fl [.restorePath]
    else if l == "iptables-save" || l == "ip route show" then fl [.cfgGenuine, .cfgParses]
    else fl []
  | .panos =>
    if l == "keygen" then fl [.keyOk]
    else if l == "show ha" then fl [.haActive]
    else if l == "get config" then fl [.cfgGenuine, .cfgParses, .nameOk]
    else if l == "commit" then (if sh.nochanges then fl [.noChanges] else fl [.msgEmpty, .wellFormed])
    else if l == "show jobs" then (if polls < sh.pend then fl [.pend, .wellFormed] else fl [.jobOk, .wellFormed])
    else fl []
  | .nsx => fl [.cfgGenuine, .cfgParses]

def faultReply (b : Backend) (kind : String) (nice : Reply) (g : Nat) : Reply :=
  match kind with
  | "errtext" =>
    if b == .panos then { parses := false }
    else if b == .nsx then { status200 := false }
    else if g == 0 then { out := .text } else { out := .text, flags := [.hash] }
  | "unexpected" => if g == 0 then { out := .text } else { out := .text, flags := [.hash] }
  | "warntext" => { out := .warning, flags := [.hash] }
  | "infotext" => { out := .info, flags := [.hash] }
  | "garbled" => { nice with echoOk := false }
  | "silence" => { arr := .silent }
  -- console: the device stops in the middle of a line and stays connected: nothing the program
  -- waits for ever arrives
  | "stall_partial" => { arr := .silent }
  -- HTTP: status line, headers and half of the body arrive, then nothing more while the
  -- connection stays open: reading the reply never completes
  | "stall_body" => { arr := .silent }
  -- HTTP: an error status without any body
  | "status_nobody" => { status200 := false }
  -- PAN-OS: HTTP 200 and a well-formed <response> whose status is anything but "success"
  -- (unauth, failure, a missing attribute, an unknown word, another letter case; with or
  -- without <msg>): "success" is the ONLY good value
  | "rej_unauth" => { parses := false }
  | "rej_failure" => { parses := false }
  | "rej_nostatus" => { parses := false }
  | "rej_word" => { parses := false }
  | "rej_case" => { parses := false }
  | "rej_error_nomsg" => { parses := false }
  -- NSX: status 200 with a JSON error document (fix cb3c960: rejected where a list is read; the
  -- body of the replies to log-in and change requests is not read)
  | "json_error_200" => { parses := false }
  -- NSX: status 200, valid JSON of another top-level type / `results` of another type: decoding fails
  | "wrong_type" => { parses := false }
  | "results_wrong_type" => { parses := false }
  -- NSX: status 200, a well-formed object that lacks `results`: decodes, is read as an empty list
  -- (F-C09d): everything is as in the conforming reply, only it is not the device's list
  | "no_results" => { nice with flags := nice.flags.erase .cfgGenuine }
  -- NSX: any 4xx / 5xx with a JSON error body
  | "rej_4xx" => { status200 := false }
  | "truncated" =>
    if g == 0 then { arr := .silent }
    else if nice.arr == .noPrompt then nice else { nice with arr := .noPrompt }
  | "close" => { arr := .closed }
  | "httpstatus" => { status200 := false }
  | "malformed" => { parses := false }
  | "jobfail" => { flags := [.wellFormed] }
  -- mixed output of one configuration command: any line that is neither INFO: nor WARNING: makes it a failure
  | "warn_then_err" => { out := .text, flags := [.hash] }
  | "info_then_err" => { out := .text, flags := [.hash] }
  | "err_then_warn" => { out := .text, flags := [.hash] }
  | "warns_then_err" => { out := .text, flags := [.hash] }
  | "warns_only" => { out := .warning, flags := [.hash] }
  | "info_then_warn" => { out := .warning, flags := [.hash] }
  | "jobfail_success" => { flags := [.wellFormed] }        -- job result FAIL whose details mention OK / success
  | "savefail" => { out := .text, flags := [.hash] }       -- multi-line save failure with fragments of a good answer, no [OK]
  | "savefail_ok" => { out := .text, flags := [.okMark, .hash] } -- an error sentence that happens to contain "[OK]"
  | "errsuccess" => { parses := false }                    -- status="error" whose message contains "success"
  | "commitmsg" => { flags := [.wellFormed] }              -- status="success" with a failure message instead of a job
  -- status="success", no message, a <result> without (numeric) job id: by itself the reply looks
  -- like "job enqueued"; that there is no job shows at the poll (mkDev below)
  | "commit_nojob" => { flags := [.msgEmpty, .wellFormed] }
  | "commit_emptyjob" => { flags := [.msgEmpty, .wellFormed] }
  | "commit_textjob" => { flags := [.msgEmpty, .wellFormed] }
  | _ => nice

def showLike (l : String) : Bool :=
  l.startsWith "sh " || l.startsWith "show " || l == "write term" || l.startsWith "uname" || l.startsWith "hostname"
    || l.startsWith "grep" || l == "iptables-save" || l == "ip route show" || l.startsWith "which"

def isScp (l : String) : Bool := l == "scp iptables" || l == "scp routing"

def mkDev (b : Backend) (sh : Shape) (pos : Option Nat) (kind : String) : Dev := fun tr =>
  let http := b == .panos || b == .nsx
  -- console: reply g answers line g (reply 0 is the preamble); HTTP: reply g answers request g+1
  let g := if http then gotCount tr + 1 else gotCount tr
  let ls := linesOf tr
  let l := if g == 0 then "" else ls.getD (g - 1) ""
  -- Linux: the copies of the start-up files are exchanges of their own (not console lines):
  -- `scpfail_<file>` makes that copy fail; console positions count console lines only
  if isScp l then
    (if (kind == "scpfail_iptables" && l == "scp iptables") || (kind == "scpfail_routing" && l == "scp routing")
     then { arr := .closed } else { flags := [] })
  else
  let gc := g - ((ls.take g).filter isScp).length
  let prev := if g < 2 then "" else ls.getD (g - 2) ""
  let polls := ((ls.take (g - 1)).filter (· == "show jobs")).length
  let nice := niceReply b sh gc l prev polls
  -- the bytes `WARNING: …` are a notice in the reply to a configuration command and unexpected
  -- output in place of the output of a show command
  let kind := if kind == "warntext" && showLike l then "unexpected" else kind
  -- the reply to the NSX log-in request has no body (the token is a header): no inside to stall in
  let kind := if kind == "stall_body" && l == "session create" then "-" else kind
  match pos with
  | none => nice
  | some p =>
    if gc == p then faultReply b kind nice gc
    else if gc > p && b == .nsx && kind == "no_results" && l == "groups" && (ls.getD (p - 1) "") != "session create" then
      -- the genuineness mark on the LAST list reply stands for the whole retrieved configuration
      -- (that is where `setPlan` reads it): an earlier list that was not the device's spoils it
      { nice with flags := nice.flags.erase .cfgGenuine }
    else if gc > p && b == .panos && l == "show jobs" && (ls.getD (p - 1) "") == "commit"
        && (kind == "commit_nojob" || kind == "commit_emptyjob" || kind == "commit_textjob") then
      -- the commit was answered with status="success" but without a (numeric) job id: that reply
      -- is well-formed by itself; the device rejects the poll for a job that does not exist
      { parses := false }
    else if gc > p && !http then
      (if kind == "silence" || kind == "truncated" || kind == "stall_partial" then { arr := .silent }
       else if kind == "close" then { arr := .closed } else nice)
    else nice

end NA.Spec.C09
