import NA.Spec.PanOs
/-
The effect of a request on the ORDER of the security rules of a vsys, as a function on the list
of rule names (`applyOrd`), and the projection of the command language onto it (`ordOf`).
`Proofs/C03Spec.lean` shows that `exec` refines it.  Specification side; core Lean only.
-/
namespace NA.PanOs

inductive OrdOp
  | del (n : String)        -- delete rules/entry[n]
  | app (n : String)        -- set rules/entry[n]: a new rule is appended as last element
  | mv (n d : String)       -- move rules/entry[n] where=before dst=d
  deriving DecidableEq, Repr

def insertBeforeName (d n : String) : List String → List String
  | [] => [n]
  | x :: xs => if x == d then n :: x :: xs else x :: insertBeforeName d n xs

/-- `none`: the device refuses the request (rule missing, name taken, destination missing). -/
def applyOrd (l : List String) : OrdOp → Option (List String)
  | .del n => if l.contains n then some (l.filter (· != n)) else none
  | .app n => if l.contains n then none else some (l ++ [n])
  | .mv n d =>
    if !l.contains n then none
    else if n == d then none
    else if !l.contains d then none
    else some (insertBeforeName d n (l.filter (· != n)))

def runOrd (l : List String) : List OrdOp → Option (List String)
  | [] => some l
  | o :: os => (applyOrd l o).bind (fun l' => runOrd l' os)

def ordOf : Cmd → Option OrdOp
  | .delRule n => some (.del n)
  | .setRule r => some (.app r.name)
  | .move n d => some (.mv n d)
  | _ => none

end NA.PanOs
