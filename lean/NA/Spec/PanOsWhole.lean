import NA.Spec.PanOs
/-
C03 round 3: the decidable fragment the whole-vsys theorems are proved on, and the execution of
a whole plan of `GetChanges` on a device with several vsys.  Used by the theorems
(`NA/Proofs/C03Whole.lean` ff.) and by the driver, which reports for every generated pair
whether it lies in the fragment and executes the real requests with `execDevAll`.
Core Lean only.
-/
namespace NA.PanOs

/-- The decidable hypothesis of the whole-vsys theorems: no address-groups, no service-groups,
names are keys, no member twice in a source / destination list, every name the target uses is
`any` / `application-default`, a shared object or defined by the target, and the device vsys does
not define an object under a reserved or shared name. -/
def PlainPair (sh : Shared) (a b : Vsys) : Prop :=
  a.groups = [] ∧ b.groups = [] ∧ a.sgroups = [] ∧ b.sgroups = [] ∧
  (ruleNames a.rules).Nodup ∧ (ruleNames b.rules).Nodup ∧
  (a.addrs.map (·.name)).Nodup ∧ (b.addrs.map (·.name)).Nodup ∧
  (a.svcs.map (·.name)).Nodup ∧ (b.svcs.map (·.name)).Nodup ∧
  (∀ r ∈ a.rules, r.src.Nodup ∧ r.dst.Nodup) ∧ (∀ r ∈ b.rules, r.src.Nodup ∧ r.dst.Nodup) ∧
  (∀ r ∈ b.rules, (∀ x ∈ r.src ++ r.dst, x = "any" ∨ x ∈ sh ∨ x ∈ b.addrs.map (·.name)) ∧
    (∀ x ∈ r.srv, x = "any" ∨ x = "application-default" ∨ x ∈ sh ∨ x ∈ b.svcs.map (·.name))) ∧
  (∀ x ∈ a.addrs.map (·.name), x ≠ "any" ∧ x ∉ sh) ∧
  (∀ x ∈ a.svcs.map (·.name), x ≠ "any" ∧ x ≠ "application-default" ∧ x ∉ sh)

set_option synthInstance.maxSize 2048 in
instance (sh : Shared) (a b : Vsys) : Decidable (PlainPair sh a b) := by
  unfold PlainPair; infer_instance

/-- The target does not define an object under a reserved or shared name (needed only for
resuming and for idempotence: such an object would be transferred and would then shadow the
shared one). -/
def TgtNames (sh : Shared) (b : Vsys) : Prop :=
  (∀ x ∈ b.addrs.map (·.name), x ≠ "any" ∧ x ∉ sh) ∧
  (∀ x ∈ b.svcs.map (·.name), x ≠ "any" ∧ x ≠ "application-default" ∧ x ∉ sh)

instance (sh : Shared) (b : Vsys) : Decidable (TgtNames sh b) := by unfold TgtNames; infer_instance

/-- No service twice in a service list. -/
def SrvNodup (v : Vsys) : Prop := ∀ r ∈ v.rules, r.srv.Nodup

instance (v : Vsys) : Decidable (SrvNodup v) := by unfold SrvNodup; infer_instance

/-- Execute the requests of one vsys on the device, stopping at the first refusal. -/
def execDevCmds (sh : Shared) (d : Device) (vs : String) : List Cmd → Except String Device
  | [] => .ok d
  | c :: cs =>
    match execDev sh d vs c with
    | .error e => .error e
    | .ok d' => execDevCmds sh d' vs cs

/-- Execute a plan of `GetChanges` (`planDevice`: per vsys name its requests) on the device. -/
def execDevAll (sh : Shared) (d : Device) : List (String × List Cmd) → Except String Device
  | [] => .ok d
  | p :: ps =>
    match execDevCmds sh d p.1 p.2 with
    | .error e => .error e
    | .ok d' => execDevAll sh d' ps

/-! ### Equivalence modulo what a header element means (the oracle's equivalence)

`hdr` is the canonical XML of everything `rulesPair.Equal` compares besides the three lists; the
planner compares it as text.  What the rulebase MEANS is coarser: an element that is absent
means the same as the element with PAN-OS's default content.  `equiv` (text) implies `equivSem`
(`equivBy_of_equiv`), so the theorems, which give `equiv`, also give `equivSem`; the oracle judges
the real requests with `equivSem`, so a planner that pairs an absent `<rule-type>` with
`interzone` is caught, one that re-creates a rule to spell out a default is not blamed. -/

/-- Elements that mean the same as their absence. -/
def hdrDefaults : List String :=
  ["<rule-type>universal</rule-type>", "<disabled>no</disabled>", "<log-start>no</log-start>",
   "<log-end>yes</log-end>", "<negate-source>no</negate-source>",
   "<negate-destination>no</negate-destination>"]

def hdrSem (h : String) : String := hdrDefaults.foldl (fun s d => s.replace d "") h

def ruleEquivBy (f : String → String) (dv : Vsys) (dr : Rule) (tv : Vsys) (tr : Rule) : Bool :=
  f dr.hdr == f tr.hdr &&
    sameSet (addrContent dv dr.src) (addrContent tv tr.src) &&
    sameSet (addrContent dv dr.dst) (addrContent tv tr.dst) &&
    sameSet (srvContent dv dr.srv) (srvContent tv tr.srv)

def rulesEquivBy (f : String → String) (dv tv : Vsys) : List Rule → List Rule → Bool
  | [], [] => true
  | d :: ds, t :: ts => ruleEquivBy f dv d tv t && rulesEquivBy f dv tv ds ts
  | _, _ => false

def equivBy (f : String → String) (dev tgt : Vsys) : Bool := rulesEquivBy f dev tgt dev.rules tgt.rules

/-- The device vsys means what the target vsys means. -/
def equivSem (dev tgt : Vsys) : Bool := equivBy hdrSem dev tgt

theorem rulesEquivBy_of (f : String → String) (dv tv : Vsys) : ∀ (ds ts : List Rule),
    rulesEquiv dv tv ds ts = true → rulesEquivBy f dv tv ds ts = true := by
  intro ds
  induction ds with
  | nil => intro ts h; cases ts <;> simp_all [rulesEquiv, rulesEquivBy]
  | cons d ds ih =>
    intro ts h
    cases ts with
    | nil => simp [rulesEquiv] at h
    | cons t ts =>
      simp only [rulesEquiv, Bool.and_eq_true] at h
      simp only [rulesEquivBy, Bool.and_eq_true]
      refine ⟨?_, ih ts h.2⟩
      have h1 := h.1
      simp only [ruleEquiv, Bool.and_eq_true, beq_iff_eq] at h1
      simp only [ruleEquivBy, Bool.and_eq_true, beq_iff_eq]
      exact ⟨⟨⟨by rw [h1.1.1.1], h1.1.1.2⟩, h1.1.2⟩, h1.2⟩

/-- Equal header text is equal meaning. -/
theorem equivBy_of_equiv (f : String → String) (dev tgt : Vsys) (h : equiv dev tgt = true) :
    equivBy f dev tgt = true := rulesEquivBy_of f dev tgt _ _ h

/-! ### Nothing is left behind

A completed approve leaves no object in the vsys that nothing mentions: the planner removes, as its
last block of requests, every address, address-group, service and service-group of the device that
the target's rules do not need.  (Equivalence alone does not see such objects.) -/

/-- Names of the objects of `v` that no rule and no group of `v` mentions. -/
def unreferenced (v : Vsys) : List String :=
  ((v.addrs.map (·.name)) ++ (v.groups.map (·.name))).filter (fun n => !addrUsed v n) ++
    ((v.svcs.map (·.name)) ++ (v.sgroups.map (·.name))).filter (fun n => !srvUsed v n)

end NA.PanOs
