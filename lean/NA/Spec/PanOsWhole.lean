import NA.Spec.PanOs
/-
C03 round 3: the decidable fragment the whole-vsys theorems are proved on, and the execution of
a whole plan of `GetChanges` on a device with several vsys.  Used by the theorems
(`NA/Proofs/C03Whole.lean` ff.) and by the driver, which reports for every generated pair
whether it lies in the fragment and executes the real requests with `execDevAll`.
Core Lean only.
-/
namespace NA.PanOs

/-- The decidable hypothesis of the whole-vsys theorems: no address-groups, no service-groups,
names are keys, no member twice in a source / destination list, every name the target uses is
`any` / `application-default`, a shared object or defined by the target, and the device vsys does
not define an object under a reserved or shared name. -/
def PlainPair (sh : Shared) (a b : Vsys) : Prop :=
  a.groups = [] ∧ b.groups = [] ∧ a.sgroups = [] ∧ b.sgroups = [] ∧
  (ruleNames a.rules).Nodup ∧ (ruleNames b.rules).Nodup ∧
  (a.addrs.map (·.name)).Nodup ∧ (b.addrs.map (·.name)).Nodup ∧
  (a.svcs.map (·.name)).Nodup ∧ (b.svcs.map (·.name)).Nodup ∧
  (∀ r ∈ a.rules, r.src.Nodup ∧ r.dst.Nodup) ∧ (∀ r ∈ b.rules, r.src.Nodup ∧ r.dst.Nodup) ∧
  (∀ r ∈ b.rules, (∀ x ∈ r.src ++ r.dst, x = "any" ∨ x ∈ sh ∨ x ∈ b.addrs.map (·.name)) ∧
    (∀ x ∈ r.srv, x = "any" ∨ x = "application-default" ∨ x ∈ sh ∨ x ∈ b.svcs.map (·.name))) ∧
  (∀ x ∈ a.addrs.map (·.name), x ≠ "any" ∧ x ∉ sh) ∧
  (∀ x ∈ a.svcs.map (·.name), x ≠ "any" ∧ x ≠ "application-default" ∧ x ∉ sh)

set_option synthInstance.maxSize 2048 in
instance (sh : Shared) (a b : Vsys) : Decidable (PlainPair sh a b) := by
  unfold PlainPair; infer_instance

/-- The target does not define an object under a reserved or shared name (needed only for
resuming and for idempotence: such an object would be transferred and would then shadow the
shared one). -/
def TgtNames (sh : Shared) (b : Vsys) : Prop :=
  (∀ x ∈ b.addrs.map (·.name), x ≠ "any" ∧ x ∉ sh) ∧
  (∀ x ∈ b.svcs.map (·.name), x ≠ "any" ∧ x ≠ "application-default" ∧ x ∉ sh)

instance (sh : Shared) (b : Vsys) : Decidable (TgtNames sh b) := by unfold TgtNames; infer_instance

/-- No service twice in a service list. -/
def SrvNodup (v : Vsys) : Prop := ∀ r ∈ v.rules, r.srv.Nodup

instance (v : Vsys) : Decidable (SrvNodup v) := by unfold SrvNodup; infer_instance

/-- Execute the requests of one vsys on the device, stopping at the first refusal. -/
def execDevCmds (sh : Shared) (d : Device) (vs : String) : List Cmd → Except String Device
  | [] => .ok d
  | c :: cs =>
    match execDev sh d vs c with
    | .error e => .error e
    | .ok d' => execDevCmds sh d' vs cs

/-- Execute a plan of `GetChanges` (`planDevice`: per vsys name its requests) on the device. -/
def execDevAll (sh : Shared) (d : Device) : List (String × List Cmd) → Except String Device
  | [] => .ok d
  | p :: ps =>
    match execDevCmds sh d p.1 p.2 with
    | .error e => .error e
    | .ok d' => execDevAll sh d' ps

end NA.PanOs
