import NA.Model.LinuxStr
/-!
# Meaning of one iptables rule line, read from its TEXT (specification)

Independent of the model of `parsePairs`/`normalizeIPTables`: the words of a rule (user spelling or
`iptables-save` spelling) are read into a list of matches/targets `(key, negated, canonical value)`.
Two rule lines mean the same iff these lists are equal.  Used by the oracle of the `neg-pairs` stream:
pairs of rules that differ only in a negation (must be reported as a change) or only in a spelling
that does not change the meaning — default bounds `0:` / `:65535` of a port range, leading zeros,
`/32`, protocol name or number, order of a state set, default mark mask (must NOT be reported).
-/
namespace NA.Linux.Spec
open NA.Linux

structure SemOpt where
  key : Str
  neg : Bool
  val : Str
  deriving DecidableEq, Repr

def readDec (x : Str) : Option Nat :=
  if x.isEmpty || !x.all isDigit then none else some (x.foldl (fun n c => n * 10 + (c.toNat - 48)) 0)

/-- A port or port range as the closed interval it denotes: `80` = 80:80, `:1023` = 0:1023, `1024:` = 1024:65535. -/
def semPorts (v : Str) : Option Str :=
  match splitChar v ':' with
  | [p] => (readDec p).map fun n => natToStr n ++ [':'] ++ natToStr n
  | [lo, hi] => do
    let l ← if lo.isEmpty then some 0 else readDec lo
    let h ← if hi.isEmpty then some 65535 else readDec hi
    some (natToStr l ++ [':'] ++ natToStr h)
  | _ => none

/-- Address with prefix length; no length = /32. -/
def semAddr (v : Str) : Option Str :=
  match splitChar v '/' with
  | [ip] => some (ip ++ s "/32")
  | [ip, len] => (readDec len).map fun n => ip ++ ['/'] ++ natToStr n
  | _ => none

/-- Protocol: names in lower case; the two protocols some hosts print by number. -/
def semProto (v : Str) : Str :=
  let v := lower v
  if v = s "vrrp" then s "112" else if v = s "ipv6-icmp" then s "58" else v

/-- A state set: order and repetition are irrelevant. -/
def semState (v : Str) : Str := joinWith [','] (sortStrs (splitChar v ',')).eraseDups

def readNum (x : Str) : Option Nat :=
  let x := lower x
  match cutPrefix x (s "0x") with
  | some h => if h.isEmpty then none else h.foldlM (fun n c => (digitVal c).bind fun d => if d < 16 then some (n * 16 + d) else none) 0
  | none => readDec x

/-- `--set-mark V` = `--set-xmark V/0xffffffff` = `--set-mark V/0xffffffff` (whole mark replaced).
With another mask the two options differ; they are kept apart. -/
def semMark (key v : Str) : Option (Str × Str) :=
  match splitChar v '/' with
  | [val] => (readNum val).map fun n => (s "mark", natToStr n)
  | [val, mask] => do
    let n ← readNum val
    let m ← readNum mask
    if m = 0xffffffff then some (s "mark", natToStr n) else some (key, natToStr n ++ ['/'] ++ natToStr m)
  | _ => none

def isKey (w : Str) : Bool := match w with | '-' :: _ => true | _ => false

/-- Read the words of a rule: `[!] key [!] args…`.  `-m NAME` only loads a match module: no meaning of its own. -/
def semWords : Nat → List Str → Option (List SemOpt)
  | 0, _ => none
  | _, [] => some []
  | fuel + 1, ws =>
    let (n1, ws) := match ws with | ['!'] :: r => (true, r) | _ => (false, ws)
    match ws with
    | [] => none
    | k :: r =>
      if !isKey k then none else
      let (n2, r) := match r with | ['!'] :: r' => (true, r') | _ => (false, r)
      let args := r.takeWhile fun w => !(isKey w) && w != ['!']
      let rest := r.dropWhile fun w => !(isKey w) && w != ['!']
      if n1 && n2 then none else
      let neg := n1 || n2
      let v := joinWith [' '] args
      let one : Option (List SemOpt) :=
        if k = s "-m" then some []
        else if k = s "-s" ∨ k = s "-d" then (semAddr v).map fun x => [⟨k, neg, x⟩]
        else if k = s "-p" then some [⟨k, neg, semProto v⟩]
        else if k = s "--sport" ∨ k = s "--dport" then (semPorts v).map fun x => [⟨k, neg, x⟩]
        else if k = s "--state" then some [⟨k, neg, semState v⟩]
        else if k = s "--set-mark" ∨ k = s "--set-xmark" then (semMark k v).map fun (k', x) => [⟨k', neg, x⟩]
        else some [⟨k, neg, v⟩]
      match one, semWords fuel rest with
      | some a, some b => some (a ++ b)
      | _, _ => none

def semLe (a b : SemOpt) : Bool := strLe a.key b.key

/-- The meaning of a rule line (matches are a conjunction: their order is irrelevant). -/
def semRule (line : Str) : Option (List SemOpt) :=
  let ws := fields line
  (semWords (ws.length + 1) ws).map (isort semLe)

/-- "eq" / "ne" / "unreadable". -/
def semCompare (a b : Str) : Str :=
  match semRule a, semRule b with
  | some x, some y => if x = y then s "eq" else s "ne"
  | _, _ => s "unreadable"

example : semCompare (s "-p tcp -m tcp ! --dport 1024:65535 -j ACCEPT") (s "-p tcp --dport 1024: -j ACCEPT") = s "ne" := by decide
example : semCompare (s "-p tcp -m tcp ! --dport 1024:65535 -j ACCEPT") (s "-p TCP --dport ! 1024: -j ACCEPT") = s "eq" := by decide
example : semCompare (s "-p tcp -m tcp ! --dport 0:1023 -j ACCEPT") (s "-p tcp ! --dport :1023 -j ACCEPT") = s "eq" := by decide
example : semCompare (s "! -s 10.1.1.1/32 -j DROP") (s "-s 10.1.1.1 -j DROP") = s "ne" := by decide
example : semCompare (s "-j MARK --set-xmark 0x10/0xffffffff") (s "-j MARK --set-mark 16") = s "eq" := by decide

end NA.Linux.Spec
