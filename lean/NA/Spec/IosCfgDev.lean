import NA.Model.IosEngine
/-!
# Strict specification-side IOS device for fragment F2 (Lean port of harness/ioscfg/dev.go)

A command that a real IOS would refuse is rejected: `ip access-group` of an access list that does not
exist, `no ip access-group` of something that is not bound there, `no ip access-list extended` of a
bound or missing list, an entry number that is in use, a duplicate entry (modulo the log attribute;
remarks may repeat), `no N` / `no <entry>` that hits nothing, entry commands outside an ACL sub-mode,
`ip access-group` outside an interface sub-mode, `exit` outside a sub-mode, resequence of a missing
list, a route that exists / does not exist, `interface` of an unknown interface.  Top-level commands
leave the sub-mode.

Independent of how the engine computes its script; it shares only the syntax of change lines
(`NA.F2.Chg`).  The harness executes the REAL script on dev.go (harness/f2/dev.go, a copy of
harness/ioscfg/dev.go) and this executor on the model's script and compares verdict and final state
on every case.
-/
namespace NA.IosDev2
open NA.F2
open NA.Acl (Act)

structure DIntf where
  name : String
  vrf  : String := ""
  inB  : Option Name := none
  outB : Option Name := none
  deriving DecidableEq, Repr, Inhabited

abbrev Entries := List (Nat × ALine)

structure Dev where
  intfs  : List DIntf := []
  acls   : List (Name × Entries) := []
  routes : List String := []
  mode   : Option Mode := none
  deriving Repr, Inhabited

def lastBind (bs : List Bind) (dir : String) : Option Name :=
  (bs.reverse.find? fun b => b.dir == dir).map (·.acl)

def numberFrom (ls : List ALine) : Entries :=
  (List.range ls.length).zip ls |>.map fun p => (10 * (p.1 + 1), p.2)

def ofConfig (c : Config) : Dev :=
  { intfs := c.intfs.map fun i => ⟨i.name, i.vrf, lastBind i.binds "in", lastBind i.binds "out"⟩,
    acls := c.acls.map fun a => (a.1, numberFrom a.2),
    routes := c.routes.map (·.text) }

def hasAcl (d : Dev) (n : Name) : Bool := d.acls.any (·.1 == n)
def entriesOf (d : Dev) (n : Name) : Entries := (d.acls.lookup n).getD []
def aclBound (d : Dev) (n : Name) : Bool := d.intfs.any fun i => i.inB == some n || i.outB == some n
def hasIntf (d : Dev) (n : String) : Bool := d.intfs.any (·.name == n)

def setAcl (d : Dev) (n : Name) (es : Entries) : Dev :=
  { d with acls := d.acls.map fun p => if p.1 == n then (n, es) else p }

/-- Two entries collide: same text modulo `log`; remark lines may repeat. -/
def collides (x l : ALine) : Bool := l.act != .remark && x.nolog == l.nolog

def insertNum : Entries → Nat → ALine → Entries
  | [], n, l => [(n, l)]
  | (m, x) :: s, n, l => if n < m then (n, l) :: (m, x) :: s else (m, x) :: insertNum s n l

def eraseFirst (p : Nat × ALine → Bool) : Entries → Entries
  | [] => []
  | e :: s => if p e then s else e :: eraseFirst p s

/-- An entry added by a command is stored as it was typed. -/
def typed (l : ALine) : ALine := { l with orig := l.text }

/-- Entry commands inside `ip access-list extended NAME`. -/
def execEntry (es : Entries) : Chg → Except String Entries
  | .noNum n =>
    if es.any (·.1 == n) then .ok (eraseFirst (·.1 == n) es) else .error "no entry with that number"
  | .numEntry n l =>
    if es.any (·.1 == n) then .error "sequence number already used"
    else if es.any (fun e => collides e.2 l) then .error "already contains this entry"
    else .ok (insertNum es n (typed l))
  | .noEntry l =>
    if es.any (·.2.orig == l.orig) then .ok (eraseFirst (·.2.orig == l.orig) es) else .error "entry to delete not there"
  | .entry l =>
    if es.any (fun e => collides e.2 l) then .error "already contains this entry"
    else .ok (es ++ [((es.getLast?.map (·.1)).getD 0 + 10, typed l)])
  | .move dn an l =>
    if es.any (·.1 == dn) then
      let es1 := eraseFirst (·.1 == dn) es
      if es1.any (·.1 == an) then .error "sequence number already used"
      else if es1.any (fun e => collides e.2 l) then .error "already contains this entry"
      else .ok (insertNum es1 an (typed l))
    else .error "no entry with that number"
  | _ => .error "not an entry command"

def isEntryCmd : Chg → Bool
  | .noNum _ | .numEntry _ _ | .noEntry _ | .entry _ | .move _ _ _ => true
  | _ => false

def isBindCmd : Chg → Bool
  | .bind _ _ | .noBind _ _ => true
  | _ => false

def setSlot (d : Dev) (intf dir : String) (v : Option Name) : Dev :=
  { d with intfs := d.intfs.map fun i =>
      if i.name == intf then (if dir == "out" then { i with outB := v } else { i with inB := v }) else i }

def slotOf (d : Dev) (intf dir : String) : Option Name :=
  match d.intfs.find? (·.name == intf) with
  | some i => if dir == "out" then i.outB else i.inB
  | none => none

def reseq (es : Entries) (start step : Nat) : Entries :=
  (List.range es.length).zip es |>.map fun p => (start + p.1 * step, p.2.2)

/-- Top-level commands (the sub-mode is left). -/
def execTop (d : Dev) : Chg → Except String Dev
  | .reseq n s t =>
    if hasAcl d n then .ok (setAcl { d with mode := none } n (reseq (entriesOf d n) s t))
    else .error "resequence: access-list does not exist"
  | .aclMode n =>
    .ok { d with acls := if hasAcl d n then d.acls else d.acls ++ [(n, [])], mode := some (.acl n) }
  | .noAcl n =>
    if !hasAcl d n then .error "access-list does not exist"
    else if aclBound d n then .error "access-list is still bound to an interface"
    else .ok { d with acls := d.acls.filter (fun p => !(p.1 == n)), mode := none }
  | .intfMode n =>
    if hasIntf d n then .ok { d with mode := some (.intf n) } else .error "interface does not exist"
  | .route r =>
    if d.routes.contains r then .error "route exists" else .ok { d with routes := d.routes ++ [r], mode := none }
  | .noRoute r =>
    if d.routes.contains r then .ok { d with routes := d.routes.filter (· != r), mode := none }
    else .error "route does not exist"
  | .replRoute o n =>
    if !d.routes.contains o then .error "route does not exist"
    else
      let rs := d.routes.filter (· != o)
      if rs.contains n then .error "route exists" else .ok { d with routes := rs ++ [n], mode := none }
  | _ => .error "command outside the modelled fragment"

def exec1 (d : Dev) (c : Chg) : Except String Dev :=
  match c with
  | .exit => if d.mode.isNone then .error "exit outside of a sub-mode" else .ok { d with mode := none }
  | .bad => .error "invalid command"
  | _ =>
    if isEntryCmd c then
      match d.mode with
      | some (.acl n) =>
        match execEntry (entriesOf d n) c with
        | .ok es => .ok (setAcl d n es)
        | .error e => .error e
      | _ => .error "sub-command outside its mode"
    else if isBindCmd c then
      match d.mode, c with
      | some (.intf i), .bind a dir =>
        if hasAcl d a then .ok (setSlot d i dir (some a)) else .error "access-list does not exist"
      | some (.intf i), .noBind a dir =>
        if slotOf d i dir == some a then .ok (setSlot d i dir none) else .error "not bound there"
      | _, _ => .error "sub-command outside its mode"
    else execTop d c

/-- Execute a script; stops at the first rejected command (index, reason). -/
def runFrom : Nat → Dev → List Chg → Dev × Option (Nat × String)
  | _, d, [] => (d, none)
  | k, d, c :: cs =>
    match exec1 d c with
    | .ok d' => runFrom (k + 1) d' cs
    | .error e => (d, some (k, e))

def run (d : Dev) (cs : List Chg) : Dev × Option (Nat × String) := runFrom 0 d cs

/-- `some d'` iff every command is accepted. -/
def exec (d : Dev) (cs : List Chg) : Option Dev :=
  cs.foldlM (fun d c => match exec1 d c with | .ok d' => some d' | .error _ => none) d

/-! ## Configuration mode of the device, syntactically (C08: sub-commands inside their parent's mode) -/

/-- The device's mode after a command: the last mode line, `exit` and every other top-level command
leave the sub-mode, sub-commands keep it. -/
def trackMode (dm : Option Mode) : Chg → Option Mode
  | .exit => none
  | .aclMode n => some (.acl n)
  | .intfMode n => some (.intf n)
  | c => if isEntryCmd c || isBindCmd c then dm else none

/-- A list of commands annotated with the parent each sub-command was emitted for: every
sub-command arrives while the device is in its parent's mode, `exit` only inside a sub-mode. -/
def inModes : Option Mode → List (Option Mode × Chg) → Bool
  | _, [] => true
  | dm, (par, c) :: rest =>
    (match par with
     | some p => dm == some p
     | none => true) &&
    (c != .exit || dm.isSome) && inModes (trackMode dm c) rest

/-! ## Mode-free semantics of emission events -/

def strip (d : Dev) : Dev := { d with mode := none }

def ensureAcl (d : Dev) (n : Name) : Dev := if hasAcl d n then d else { d with acls := d.acls ++ [(n, [])] }

def toOpt {α : Type} : Except String α → Option α
  | .ok a => some a
  | .error _ => none

/-- What an event does to the device, whatever mode the device is in. -/
def evRun (d : Dev) : Ev → Option Dev
  | .top c => (toOpt (execTop d c)).map strip
  | .openAcl n => some (strip (ensureAcl d n))
  | .sub (.acl n) c =>
    if isEntryCmd c then (toOpt (execEntry (entriesOf (ensureAcl d n) n) c)).map fun es => strip (setAcl (ensureAcl d n) n es)
    else none
  | .sub (.intf i) c =>
    if !hasIntf d i then none else
    match c with
    | .bind a dir => if hasAcl d a then some (strip (setSlot d i dir (some a))) else none
    | .noBind a dir => if slotOf d i dir == some a then some (strip (setSlot d i dir none)) else none
    | _ => none
  | .reset => some (strip d)
  | .exitTop c => (toOpt (execTop d c)).map strip

def evsRun (d : Dev) (evs : List Ev) : Option Dev := evs.foldlM evRun d

/-! ## State dump (compared with dev.go on every case) -/

def dump (d : Dev) : String :=
  String.join (d.intfs.map fun i => "[" ++ i.name ++ " vrf=" ++ i.vrf ++ " in=" ++ i.inB.getD "" ++ " out=" ++ i.outB.getD "" ++ "]") ++
  String.join (d.acls.map fun a => "{" ++ a.1 ++ String.join (a.2.map fun e => "/" ++ toString e.1 ++ " " ++ e.2.orig) ++ "}") ++
  "<" ++ "/".intercalate d.routes ++ ">"

/-! ## Block canonical form (what "equivalent to the target" means for one ACL) -/

/-- Remarks dropped, maximal runs of equal action, each run as sorted list of texts without `log`. -/
def blocks : List ALine → List (Act × List String)
  | [] => []
  | l :: ls =>
    if l.act == .remark then blocks ls else
    match blocks ls with
    | (a, ks) :: rest => if a == l.act then (a, NA.F1.insertS l.nolog ks) :: rest else (l.act, [l.nolog]) :: (a, ks) :: rest
    | [] => [(l.act, [l.nolog])]

def blockEquivL (x y : List ALine) : Bool := blocks x == blocks y

def linesOf (d : Dev) (n : Name) : List ALine := (entriesOf d n).map (·.2)


/-- The blocks of an ACL: remark lines dropped, maximal runs of equal action, each run as the list of
its lines modulo `log`, in order. -/
def blockList : List ALine → List (Act × List String)
  | [] => []
  | l :: ls =>
    if l.act == .remark then blockList ls else
    match blockList ls with
    | (a, ks) :: rest => if a == l.act then (a, l.nolog :: ks) :: rest else (l.act, [l.nolog]) :: (a, ks) :: rest
    | [] => [(l.act, [l.nolog])]

/-- Same sequence of actions, and block by block the same lines up to order. -/
inductive BlocksPerm : List (Act × List String) → List (Act × List String) → Prop
  | nil : BlocksPerm [] []
  | cons (a : Act) {ks ks' : List String} {r r' : List (Act × List String)} :
      ks.Perm ks' → BlocksPerm r r' → BlocksPerm ((a, ks) :: r) ((a, ks') :: r')

/-- Two ACLs filter identically whatever the lines mean: they differ only in the order of the lines
inside runs of equal action, in the `log` attribute, and in remark lines. -/
def BlockEquivA (x y : List ALine) : Prop := BlocksPerm (blockList x) (blockList y)

/-- The device state as the configuration a further compare reads: the interfaces of `a0` (address,
VRF, shutdown, inspect are never changed) with the bindings of `d`, the access lists of `d`, the
routes of `d` with the parsed attributes of the route of `refs` that has the same text (a line that
is not in `refs` — impossible after commands of the engine — is read without attributes). -/
def reconf (a0 : Config) (refs : List Route) (d : Dev) : Config :=
  { intfs := a0.intfs.map fun i =>
      { i with binds := (match slotOf d i.name "in" with | some a => [⟨a, "in"⟩] | none => []) ++
                        (match slotOf d i.name "out" with | some a => [⟨a, "out"⟩] | none => []) },
    acls := d.acls.map fun a => (a.1, a.2.map (·.2)),
    routes := d.routes.map fun t => (refs.find? fun r => r.text == t).getD ⟨t, "", "", 0⟩ }

/-- The device state as a configuration to compare again (route-free examples: routes carry no
parsed destination here). -/
def toConfig (d : Dev) : Config :=
  { intfs := d.intfs.map fun i =>
      { name := i.name, vrf := i.vrf, addr := "x",
        binds := (match i.inB with | some a => [⟨a, "in"⟩] | none => []) ++
                 (match i.outB with | some a => [⟨a, "out"⟩] | none => []) },
    acls := d.acls.map fun a => (a.1, a.2.map (·.2)),
    routes := [] }

end NA.IosDev2
