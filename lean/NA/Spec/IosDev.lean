/-!
# Specification side of C15: the IOS device as seen on the wire, and the guard monitor

Core Lean only; independent of the model of `ios/device.go`.

* `Device` — an arbitrary device under the fast-device timing (one `Send` ↦ bytes appended to the
  pending stream).
* `simDevice` — the scripted device the harness runs against the real code (same reply texts as
  `go/testdata/ios_simul.t`), with a reload banner injected per change line in one of the four
  forms the device is known to produce (`replyFor`).
* `Guard` — a monitor over the ordered transcript of lines the device receives: which lines arm
  and disarm the reload guard, and the two violations C15 forbids (a change line while no reload
  is pending, `write memory` while one is pending).  It is used as the oracle on transcripts of
  the real code and as the specification the model's traces are proved against.
-/
namespace NA.Ios

abbrev Str := List Char

def lit (s : String) : Str := s.toList

/-- `strings.Split(s, "\n")`. -/
def splitOnNL : Str → List Str
  | [] => [[]]
  | c :: s =>
    match splitOnNL s with
    | [] => [[c]]      -- unreachable
    | l :: ls => if c == '\n' then [] :: l :: ls else (c :: l) :: ls

/-- A device under the fast-device timing: one `Send` (a data packet; a joined line contains a
line feed) is answered by bytes that are appended to the pending stream. Arbitrary state. -/
structure Device (σ : Type) where
  step : σ → Str → σ × Str

/-- Lines the device receives: every `Send` split at line feeds. -/
def linesOf (t : List Str) : List Str := t.flatMap splitOnNL

/-! ## vocabulary -/

def reloadCmd : Str := lit "reload in 2"
def doReloadCmd : Str := lit "do reload in 2"
def cancelCmd : Str := lit "reload cancel"
def writeCmd : Str := lit "write memory"
def confCmd : Str := lit "configure terminal"
def endCmd : Str := lit "end"

def prepCmds : List Str :=
  [confCmd, lit "no logging console", lit "line vty 0 15",
   lit "logging synchronous level all", lit "ip subnet-zero", lit "ip classless", endCmd]

def isReloadIn (l : Str) : Bool := l == reloadCmd || l == doReloadCmd

/-- Lines with a meaning of their own for the guard. -/
def reserved (l : Str) : Bool := isReloadIn l || l == cancelCmd || l == writeCmd

/-- Lines of the fixed dialogue that are neither reserved nor a change. -/
def plainVocab (l : Str) : Bool := l.isEmpty || l == lit "n" || prepCmds.contains l

/-- A change line: anything outside the fixed dialogue. -/
def isChange (l : Str) : Bool := !reserved l && !plainVocab l

/-! ## the guard monitor -/

structure Guard where
  /-- a reload is scheduled on the device (confirmed, not cancelled) -/
  pending : Bool := false
  /-- `reload in` was requested and waits for its confirmation -/
  asked : Bool := false
  /-- a change line was received while no reload was pending, or `write memory` while one was -/
  violated : Bool := false
  /-- number of change lines seen -/
  changes : Nat := 0
  deriving DecidableEq, Repr

def Guard.step (g : Guard) (l : Str) : Guard :=
  if isReloadIn l then { g with asked := true }
  else if l == cancelCmd then { g with pending := false, asked := false }
  else if l == writeCmd then { g with violated := g.violated || g.pending, asked := false }
  else if l.isEmpty then (if g.asked then { g with pending := true, asked := false } else g)
  else if l == lit "n" then g
  else if plainVocab l then { g with asked := false }
  else { g with violated := g.violated || !g.pending, asked := false, changes := g.changes + 1 }

def Guard.run (ls : List Str) : Guard := ls.foldl Guard.step {}

/-- No change outside the guard, no `write memory` inside it. -/
def guardOK (ls : List Str) : Bool := !(Guard.run ls).violated
/-- A reload is left scheduled at the end of the transcript. -/
def pendingAfter (ls : List Str) : Bool := (Guard.run ls).pending
/-- Number of `do reload in 2` lines. -/
def rearms (ls : List Str) : Nat := (ls.filter (· == doReloadCmd)).length

/-! ## the scripted device -/

inductive Form where
  | none
  /-- before the echo, followed by a fresh prompt; `pad` extra empty lines in front -/
  | before (pad : Nat)
  /-- inside the echo at an offset -/
  | inside (off : Nat)
  /-- after the output, followed by a fresh prompt -/
  | afterPrompt (pad : Nat)
  /-- after the output, no fresh prompt -/
  | after
  /-- after the COMPLETE last line of echo/output (its line feed included), `pre` extra empty lines
  before the banner (3 + `pre` line feeds in front of BEL), `post` empty lines between the banner and
  the prompt (`post = 0`: the prompt follows the banner directly), no fresh prompt -/
  | afterLine (pre post : Nat)
  deriving DecidableEq, Repr

structure Behav where
  out : Str := []
  form : Form := .none
  msg : Str := []
  deriving DecidableEq, Repr

def prompt : Str := lit "router#"

/-- The banner as the device prints it (exact bytes of `ios_simul.t`, `\r` removed). -/
def bannerText (msg : Str) : Str := lit "\n\n\n\x07***\n***" ++ msg ++ lit "\n***\n"

def nls (n : Nat) : Str := List.replicate n '\n'

/-- `strings.TrimSuffix(s, "\n")`. -/
def dropLastNL (s : Str) : Str :=
  match s.reverse with
  | '\n' :: r => r.reverse
  | _ => s

/-- What the device sends in answer to one change line. -/
def replyFor (cmd : Str) (b : Behav) : Str :=
  match b.form with
  | .none => cmd ++ ['\n'] ++ b.out ++ prompt
  | .before pad => nls pad ++ bannerText b.msg ++ ['\n'] ++ prompt ++ cmd ++ ['\n'] ++ b.out ++ prompt
  | .inside off => cmd.take off ++ bannerText b.msg ++ cmd.drop off ++ ['\n'] ++ b.out ++ prompt
  | .afterPrompt pad =>
      dropLastNL (cmd ++ ['\n'] ++ b.out) ++ nls pad ++ bannerText b.msg ++ ['\n'] ++ prompt ++ ['\n'] ++ prompt
  | .after => dropLastNL (cmd ++ ['\n'] ++ b.out) ++ bannerText b.msg ++ ['\n'] ++ prompt
  | .afterLine pre post => cmd ++ ['\n'] ++ b.out ++ nls pre ++ bannerText b.msg ++ nls post ++ prompt

def reloadParts (withDo : Bool) : List Str :=
  [(if withDo then lit "do " else []) ++
     lit "reload in 2\n\nSystem configuration has been modified. Save? [yes/no]: ",
   lit "Reload reason: Reload Command\nProceed with reload? [confirm]",
   prompt]

/-- Standard replies (split at the places where the device reads one more line). -/
def stdReply (l : Str) : Option (List Str) :=
  if l == confCmd then
    some [lit "configure terminal\nEnter configuration commands, one per line.  End with CNTL/Z.\n" ++ prompt]
  else if l == reloadCmd then some (reloadParts false)
  else if l == doReloadCmd then some (reloadParts true)
  else if l == cancelCmd then some [lit "reload cancel\n\n\n***\n*** --- SHUTDOWN ABORTED ---\n***\n" ++ prompt]
  else if l == writeCmd then
    some [lit "write memory\nBuilding configuration...\n  Compressed configuration from 106098 bytes to 30504 bytes[OK]\n" ++ prompt]
  else none

/-- the same exchange on a device that does not ask `Save? [yes/no]` (configuration unmodified) -/
def reloadPartsNA (withDo : Bool) : List Str :=
  [(if withDo then lit "do " else []) ++ lit "reload in 2\nProceed with reload? [confirm]", prompt]

/-- Standard replies of the two dialogue variants: `noAsk = true` — `reload in 2` is answered
directly with `Proceed with reload? [confirm]`. -/
def stdReplyV (noAsk : Bool) (l : Str) : Option (List Str) :=
  if noAsk && l == reloadCmd then some (reloadPartsNA false)
  else if noAsk && l == doReloadCmd then some (reloadPartsNA true)
  else stdReply l

structure SimSt where
  /-- rest of the reply in progress: the device reads one line per part -/
  parts : List Str := []
  /-- behaviours of the change lines still to come -/
  queue : List Behav := []
  /-- occurrences of lines with a scripted (fault) reply -/
  occ : List (Str × Nat) := []
  deriving Repr

def occOf (occ : List (Str × Nat)) (l : Str) : Nat :=
  match occ.find? (·.1 == l) with
  | some (_, n) => n
  | none => 0

def occInc (occ : List (Str × Nat)) (l : Str) : List (Str × Nat) :=
  (l, occOf occ l + 1) :: occ.filter (·.1 != l)

/-- One line. `special`: scripted replies (fault injection), per line text and occurrence, the
last one repeats. -/
def simLine (special : List (Str × List (List Str))) (noAsk : Bool) (st : SimSt) (l : Str) : SimSt × Str :=
  match st.parts with
  | p :: ps => ({ st with parts := ps }, l ++ ['\n'] ++ p)
  | [] =>
    let start (st : SimSt) (r : List Str) : SimSt × Str :=
      match r with
      | [] => (st, [])
      | h :: t => ({ st with parts := t }, h)
    match special.find? (·.1 == l) with
    | some (_, rs) =>
      let k := occOf st.occ l
      start { st with occ := occInc st.occ l } (rs.getD (min k (rs.length - 1)) [])
    | none =>
      match stdReplyV noAsk l with
      | some r => start st r
      | none =>
        if isChange l then
          match st.queue with
          | b :: q => ({ st with queue := q }, replyFor l b)
          | [] => (st, replyFor l {})
        else (st, l ++ ['\n'] ++ prompt)

def simLines (special : List (Str × List (List Str))) (noAsk : Bool) (st : SimSt) : List Str → SimSt × Str
  | [] => (st, [])
  | l :: ls =>
    let (st1, o1) := simLine special noAsk st l
    let (st2, o2) := simLines special noAsk st1 ls
    (st2, o1 ++ o2)

/-- The scripted device: all lines of one `Send` are answered at once. `noAsk` selects the dialogue
variant of the reload exchange (with / without the `Save? [yes/no]` question). -/
def simDevice (special : List (Str × List (List Str))) (noAsk : Bool) : Device SimSt where
  step st s := simLines special noAsk st (splitOnNL s)

/-! ## banners on the fixed dialogue

The property speaks of the echo of ANY command.  While a reload is scheduled the session also
sends the second `configure terminal`, the deferred `end` and `reload cancel`; `wideDevice` lets a
banner ride on each of them (same four forms, applied to the line's standard answer).  The device
is "armed" from the moment it has received `reload in 2` (the marker is kept in the otherwise
unused `occ` field); before that — the seven preparation commands — and on the lines it passes
through unchanged (changes, the re-arm dialogue, empty commands, `write memory`) it is
`simDevice [] na`.  Banners on the confirmation lines of the reload dialogue are expressed with the
scripted answers (`special`) of `simDevice`. -/

def confOut : Str := lit "Enter configuration commands, one per line.  End with CNTL/Z.\n"
def cancelOut : Str := lit "\n\n***\n*** --- SHUTDOWN ABORTED ---\n***\n"

/-- the output part of the standard answer to a fixed line -/
def stdOutOf (l : Str) : Str :=
  if l == confCmd then confOut else if l == cancelCmd then cancelOut else []

/-- the fixed lines a banner may ride on -/
def isKey (l : Str) : Bool := l == confCmd || l == endCmd || l == cancelCmd

def armedMark : List (Str × Nat) := [(reloadCmd, 1)]

def wideDevice (na : Bool) (fb : Str → Option Behav) : Device SimSt where
  step st s :=
    let r := (simDevice [] na).step st s
    if s == reloadCmd then ({ r.1 with occ := armedMark }, r.2)
    else if st.occ == armedMark && isKey s then
      match fb s with
      | some b => (r.1, replyFor s { b with out := stdOutOf s })
      | none => r
    else r

end NA.Ios
