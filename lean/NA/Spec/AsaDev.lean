import NA.Model.AsaEngine
/-!
# Strict specification-side ASA device for fragment F1 (Lean port of harness/asacfg/dev.go)

A command that a real ASA would refuse is rejected: missing referenced object-group, deleting a
referenced object-group or a bound access-list, wrong `line N`, duplicate ACE (modulo the log
attribute), member commands outside an object-group sub-mode, duplicate/missing members, a second
route to the same destination, `exit` outside a sub-mode.
Independent of how the engine computes its script; it only shares the syntax of change lines
(`NA.F1.Chg`).  The harness executes the REAL script on dev.go and this file's executor on the
model's script and compares the final views on every case.
-/
namespace NA.AsaDev
open NA.F1

structure Dev where
  intfs  : List Name := []
  groups : List (Name × List String) := []
  acls   : List (Name × List RLine) := []
  binds  : List ((String × Name) × Name) := []     -- (direction, interface) ↦ access-list
  routes : List String := []
  mode   : Option Name := none                      -- object-group whose sub-mode is open
  deriving DecidableEq, Repr, Inhabited

def ofConfig (c : Config) : Dev :=
  { intfs := c.intfs, groups := c.groups,
    acls := c.acls.map fun a => (a.1, a.2.map resolveA),
    binds := c.binds.map fun b => ((b.dir, b.intf), b.acl),
    routes := c.routes.map (·.text) }

def hasGroup (d : Dev) (g : Name) : Bool := d.groups.any (·.1 == g)
def hasAcl (d : Dev) (a : Name) : Bool := d.acls.any (·.1 == a)
def groupReferenced (d : Dev) (g : Name) : Bool := d.acls.any fun a => a.2.any fun l => l.names.contains g
def aclBound (d : Dev) (a : Name) : Bool := d.binds.any (·.2 == a)
def linesOf (d : Dev) (a : Name) : List RLine := (d.acls.lookup a).getD []
def membersOf (d : Dev) (g : Name) : List String := (d.groups.lookup g).getD []

def setAssoc {κ β : Type} [BEq κ] (m : List (κ × β)) (k : κ) (v : β) : List (κ × β) :=
  if m.any (·.1 == k) then m.map fun p => if p.1 == k then (k, v) else p else m ++ [(k, v)]

def delAssoc {κ β : Type} [BEq κ] (m : List (κ × β)) (k : κ) : List (κ × β) := m.filter fun p => !(p.1 == k)

/-- The characters in front of the `k`-th blank. -/
def upToBlank : Nat → List Char → List Char
  | _, [] => []
  | 0, _ => []
  | k + 1, c :: cs => if c == ' ' then (if k == 0 then [] else c :: upToBlank k cs) else c :: upToBlank (k + 1) cs

/-- Destination of a route text `INTF IP MASK GW`: the first three words (structural, so that concrete
configurations can be evaluated by the kernel). -/
def routeDst (r : String) : List Char := upToBlank 3 r.toList

def exec1 (d : Dev) : Chg → Except String Dev
  | .exit => if d.mode.isNone then .error "exit outside of a sub-mode" else .ok { d with mode := none }
  | .mem m =>
    match d.mode with
    | none => .error "sub-command outside object-group mode"
    | some g =>
      if (membersOf d g).contains m then .error "member already in group"
      else .ok { d with groups := setAssoc d.groups g (membersOf d g ++ [m]) }
  | .noMem m =>
    match d.mode with
    | none => .error "sub-command outside object-group mode"
    | some g =>
      if !(membersOf d g).contains m then .error "member to remove not in group"
      else .ok { d with groups := setAssoc d.groups g ((membersOf d g).filter (· != m)) }
  | .grp n =>
    .ok { d with groups := if hasGroup d n then d.groups else d.groups ++ [(n, [])], mode := some n }
  | .noGrp n =>
    if !hasGroup d n then .error "object-group does not exist"
    else if groupReferenced d n then .error "object-group is still referenced"
    else .ok { d with groups := delAssoc d.groups n, mode := none }
  | .clearAcl n =>
    if !hasAcl d n then .error "access-list does not exist"
    else if aclBound d n then .error "access-list is still bound"
    else .ok { d with acls := delAssoc d.acls n, mode := none }
  | .acl n line l =>
    let ls := linesOf d n
    if !(l.names.all (hasGroup d)) then .error "referenced object-group does not exist"
    else if ls.any (fun x => x.mkey == l.mkey) then .error "access-list already contains this entry"
    else
      match line with
      | none => .ok { d with acls := setAssoc d.acls n (ls ++ [l]), mode := none }
      | some k =>
        if k < 1 || k > ls.length + 1 then .error "line out of range"
        else .ok { d with acls := setAssoc d.acls n (ls.insertIdx (k - 1) l), mode := none }
  | .noAcl n k l =>
    let ls := linesOf d n
    if k < 1 || ls[k - 1]? != some l then .error "line N is not that entry"
    else
      let ls' := ls.eraseIdx (k - 1)
      if ls'.isEmpty then
        if aclBound d n then .error "last line of bound access-list deleted"
        else .ok { d with acls := delAssoc d.acls n, mode := none }
      else .ok { d with acls := setAssoc d.acls n ls', mode := none }
  | .join a b =>
    match exec1 d a with
    | .ok d' => exec1 d' b
    | .error e => .error e
  | .bind b =>
    if !hasAcl d b.acl then .error "access-group: access-list does not exist"
    else if !d.intfs.contains b.intf then .error "access-group: interface does not exist"
    else .ok { d with binds := setAssoc d.binds (b.dir, b.intf) b.acl, mode := none }
  | .noBind b =>
    if d.binds.lookup (b.dir, b.intf) != some b.acl then .error "access-group not bound there"
    else .ok { d with binds := delAssoc d.binds (b.dir, b.intf), mode := none }
  | .route r =>
    if d.routes.any (fun x => routeDst x == routeDst r) then .error "route to identical destination exists"
    else .ok { d with routes := d.routes ++ [r], mode := none }
  | .noRoute r =>
    if !d.routes.contains r then .error "route does not exist"
    else .ok { d with routes := d.routes.filter (· != r), mode := none }
  | .bad => .error "corrupted command"

/-- Execute a script; stops at the first rejected command (index, reason). -/
def runFrom : Nat → Dev → List Chg → Dev × Option (Nat × String)
  | _, d, [] => (d, none)
  | k, d, c :: cs =>
    match exec1 d c with
    | .ok d' => runFrom (k + 1) d' cs
    | .error e => (d, some (k, e))

def run (d : Dev) (cs : List Chg) : Dev × Option (Nat × String) := runFrom 0 d cs

/-- `some d'` iff every command is accepted. -/
def exec (d : Dev) (cs : List Chg) : Option Dev :=
  cs.foldlM (fun d c => match exec1 d c with | .ok d' => some d' | .error _ => none) d

/-! ## Equivalence view -/

/-- A line with its groups expanded to sorted member sets. -/
def expand (d : Dev) (l : RLine) : String :=
  substRefs l.body (l.names.map fun g => "{" ++ ",".intercalate (sortS (membersOf d g)) ++ "}")

/-- What the target specifies: per binding the expanded ACL, and the routes as a set. -/
def view (d : Dev) (bindings : List (String × Name)) (withRoutes : Bool) : String :=
  let bs := bindings.map fun k =>
    "[" ++ k.1 ++ " " ++ k.2 ++ "]" ++
      String.join (((d.binds.lookup k).map (linesOf d)).getD [] |>.map fun l => "/" ++ expand d l)
  String.join bs ++ (if withRoutes then "[routes]" ++ String.join ((sortS d.routes).map ("/" ++ ·)) else "")

/-- Generated objects that nothing uses. -/
def leftovers (d : Dev) : List String :=
  ((d.groups.map (·.1)).filter fun g => isTagged g && !groupReferenced d g).map ("object-group " ++ ·) ++
  ((d.acls.map (·.1)).filter fun a => isTagged a && !aclBound d a).map ("access-list " ++ ·)



/-! ## Order of object creation and use (C08, syntactic part) -/

/-- Object-groups that exist after a command, given those that exist before. -/
def defStep (defd : List Name) : Chg → List Name
  | .grp n => if defd.contains n then defd else n :: defd
  | .noGrp n => defd.filter (· != n)
  | .join a b => defStep (defStep defd a) b
  | _ => defd

/-- Every object-group referenced by an added access-list line exists. -/
def usesDefined (defd : List Name) : Chg → Bool
  | .acl _ _ l => l.names.all defd.contains
  | .join a b => usesDefined defd a && usesDefined (defStep defd a) b
  | _ => true

def defAfter (defd : List Name) (cs : List Chg) : List Name := cs.foldl defStep defd

/-- In the script every object-group is created before the first access-list line that references it
(and is not removed before a later use). -/
def createdBeforeUse (defd : List Name) : List Chg → Bool
  | [] => true
  | c :: cs => usesDefined defd c && createdBeforeUse (defStep defd c) cs

/-- Commands that add an access-list line. -/
def addsLine : Chg → Bool
  | .acl .. => true
  | .join a b => addsLine a || addsLine b
  | _ => false

/-- Commands that remove an object (`no object-group`, `clear configure access-list`). -/
def removesObject : Chg → Bool
  | .noGrp _ => true
  | .clearAcl _ => true
  | .join a b => removesObject a || removesObject b
  | _ => false

end NA.AsaDev

namespace NA.AsaDev
open NA.F1

/-- The device state as a configuration to compare again (routes carry no parsed destination here;
used for route-free examples). -/
def toConfig (d : Dev) : Config :=
  { intfs := d.intfs, groups := d.groups,
    acls := d.acls.map fun a => (a.1, a.2.map fun l => (⟨l.body, l.nolog, l.names⟩ : Line)),
    binds := d.binds.map fun b => ⟨b.2, b.1.1, b.1.2⟩,
    routes := d.routes.map fun r => ⟨r, r, 0⟩ }

end NA.AsaDev
