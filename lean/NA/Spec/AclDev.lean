import NA.Model.AclPlan
/-
Specification side for ACL line changes: strict device semantics of the ASA `line N` commands
and of IOS numbered entries, block equivalence, and the step-safety predicate of C14.
Independent of how the planner computes its script (it only shares the `Op`/`IOp` syntax).
-/
namespace NA.Acl

/-! ## ASA device: an ACL is a list of lines; positions are 0-based here (`line N` = N-1). -/

def asaExec1 (s : List Line) : Op → Option (List Line)
  | .add pos l =>
    if pos ≤ s.length && !(s.any fun x => x.mkey == l.mkey) then some (s.insertIdx pos l) else none
  | .del pos l =>
    if s[pos]? == some l then some (s.eraseIdx pos) else none
  | .move dp a ap b =>
    if s[dp]? == some a then
      let s1 := s.eraseIdx dp
      if ap ≤ s1.length && !(s1.any fun x => x.mkey == b.mkey) then some (s1.insertIdx ap b) else none
    else none
  | .bad => none

/-- All intermediate states (after each command); `none` as soon as the device rejects one. -/
def asaTrace : List Line → List Op → Option (List (List Line))
  | _, [] => some []
  | s, op :: ops => do
    let s' ← asaExec1 s op
    let rest ← asaTrace s' ops
    pure (s' :: rest)

def asaExec (s : List Line) (ops : List Op) : Option (List Line) := ops.foldlM asaExec1 s

/-! ## IOS device: entries carry sequence numbers; the ACL is ordered by number. -/

abbrev IosAcl := List (Nat × Line)

def iosReseq (s : IosAcl) (start step : Nat) : IosAcl :=
  (List.range s.length).zip s |>.map fun (i, e) => (start + i * step, e.2)

def iosInsert : IosAcl → Nat → Line → IosAcl
  | [], n, l => [(n, l)]
  | (m, x) :: s, n, l => if n < m then (n, l) :: (m, x) :: s else (m, x) :: iosInsert s n l

def iosAdd (s : IosAcl) (n : Nat) (l : Line) : Option IosAcl :=
  if (s.any fun e => e.1 == n) || (s.any fun e => e.2.mkey == l.mkey) then none else some (iosInsert s n l)

def iosDel (s : IosAcl) (n : Nat) : Option IosAcl :=
  if s.any fun e => e.1 == n then some (s.filter fun e => e.1 != n) else none

def iosExec1 (s : IosAcl) : IOp → Option IosAcl
  | .add n l => iosAdd s n l
  | .del n => iosDel s n
  | .move dn an l => (iosDel s dn).bind fun s1 => iosAdd s1 an l
  | .delText l =>
    if s.any fun e => e.2 == l then some (s.filter fun e => e.2 != l) else none
  | .append l =>
    if s.any fun e => e.2.mkey == l.mkey then none
    else some (s ++ [((s.getLast?.map (·.1)).getD 0 + 10, l)])
  | .bad => none

def iosTrace : IosAcl → List IOp → Option (List IosAcl)
  | _, [] => some []
  | s, op :: ops => do
    let s' ← iosExec1 s op
    let rest ← iosTrace s' ops
    pure (s' :: rest)

def iosLines (s : IosAcl) : List Line := s.map (·.2)

/-! ## Block equivalence (C02): order inside a maximal run of equal action is irrelevant. -/

def insertSorted (x : Nat) : List Nat → List Nat
  | [] => [x]
  | y :: ys => if x ≤ y then x :: y :: ys else y :: insertSorted x ys
def sortNat (l : List Nat) : List Nat := l.foldr insertSorted []

/-- Consecutive non-remark lines grouped by action; each block as sorted list of `mkey`s
(the `log` attribute does not take part in filtering). -/
def actionBlocks : List Line → List (Bool × List Nat)
  | [] => []
  | l :: ls =>
    if l.remark then actionBlocks ls else
    match actionBlocks ls with
    | (p, ks) :: rest => if p == l.permit then (p, insertSorted l.mkey ks) :: rest else (l.permit, [l.mkey]) :: (p, ks) :: rest
    | [] => [(l.permit, [l.mkey])]

def blockEquiv (x y : List Line) : Bool :=
  actionBlocks x == actionBlocks y &&
    sortNat ((x.filter (·.remark)).map (·.key)) == sortNat ((y.filter (·.remark)).map (·.key))

/-! ## Step safety (C14) -/

/-- Packets `< u` on which old and new agree but `s` gives another verdict. -/
def badPackets (u : Nat) (old new s : List Line) : List Nat :=
  (List.range u).filter fun p => eval old p == eval new p && eval s p != eval old p

end NA.Acl
