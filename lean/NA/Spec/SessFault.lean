import NA.Model.ApplyTop
/-!
# Specification side of C09: what a device-side failure is, and the trace predicates

Independent of the session programs: only the event alphabet (`Ev`, `Reply`, `Role`) is shared.

`Reply.out` is relative to what a conforming device prints for the command: `.text` means
"error text or unexpected output".
-/
namespace NA.Spec.C09
open NA.Sess NA.Apply

def specialPrompt (f : Flag) : Bool :=
  f == .password || f == .yesNo || f == .confirm || f == .saveAsk || f == .aborted || f == .hash || f == .gt

/-- the reply reaches the point the client may legitimately wait for -/
def promptArrives (r : Reply) : Bool :=
  r.arr == .full || (r.arr == .noPrompt && r.flags.any specialPrompt)

def Backend.isConsole : Backend → Bool
  | .asa | .ios | .linux => true
  | _ => false

/-- a save step is answered by a confirmation, an intermediate question, or "still pending" -/
def saveContent (r : Reply) : Bool :=
  r.flags.any fun f => f == .okMark || f == .overwrite || f == .openFailed || f == .pend || f == .jobOk
    || f == .noChanges || f == .msgEmpty

/-- The body of an HTTP reply is part of the contract except for NSX's 200 replies to its
session-creation and change requests (the API defines success there by the status code). -/
def bodyMatters (b : Backend) (ρ : Role) : Bool := !(b == .nsx && (ρ == .change || ρ == .login))

/-- net/http replays a GET (and nothing else) when a reused connection is closed before any
byte of the reply: such a close is not seen by the code. -/
def replayed (b : Backend) (ρ : Role) (r : Reply) : Bool :=
  r.arr == .closed && (b == .panos || (b == .nsx && ρ == .read))

/-- **Device-side failure as the property states it**: the device stops answering, closes,
garbles the echo, prints error text or unexpected output, answers with an HTTP error status or
a malformed body, reports a non-zero exit status, or does not confirm the save. -/
def badFull (b : Backend) (ρ : Role) (r : Reply) : Bool :=
  !promptArrives r || (!Backend.isConsole b && (!r.status200 || (!r.parses && bodyMatters b ρ)))
  -- NSX: a list request answered by a well-formed document that is not the list of the device
  -- (no `results`): in place of the configuration, like error text on a console
  || (b == .nsx && ρ == .read && !r.flags.contains .cfgGenuine)
  || (Backend.isConsole b && (!r.echoOk || r.out == .text))
  || (ρ == .probe && promptArrives r && !r.flags.contains .status0)
  || (ρ == .save && b != .linux && promptArrives r && !saveContent r)

/-- The part of `badFull` for which the property is proved: everything except error text,
unexpected output or a garbled echo in the reply to a command whose output the code does not
inspect (login, set-up and show commands, configuration retrieval, save output besides the
confirmation), except a connection close that net/http hides by replaying the request, and except
an NSX list document without `results`.
The complement is the class of findings F-C09a / F-C09b / F-C09c / F-C09d. -/
def badChecked (b : Backend) (ρ : Role) (r : Reply) : Bool :=
  (!promptArrives r && !replayed b ρ r)
  || (!Backend.isConsole b && promptArrives r && (!r.status200 || (!r.parses && bodyMatters b ρ)))
  || (Backend.isConsole b && (ρ == .change) && (!r.echoOk || r.out == .text))
  || (ρ == .probe && promptArrives r && ((Backend.isConsole b && !r.echoOk) || !r.flags.contains .status0))
  || (ρ == .save && b != .linux && promptArrives r && !saveContent r)

theorem badChecked_imp_badFull (b : Backend) (ρ : Role) (r : Reply) :
    badChecked b ρ r = true → badFull b ρ r = true := by
  unfold badChecked badFull
  cases b <;> cases ρ <;> simp [Backend.isConsole, bodyMatters] <;> grind

def isBadGot (bad : Role → Reply → Bool) : Ev → Bool
  | .got ρ r => bad ρ r
  | _ => false

/-- a change command or a save step is put on the wire / a start-up file is copied -/
def isChangeOrSave : Ev → Bool
  | .sent .change _ => true
  | .sent .save _ => true
  | .sent .probe _ => false
  | .scp _ => true
  | _ => false

def faulted (bad : Role → Reply → Bool) (tr : List Ev) : Bool := tr.any (isBadGot bad)

/-- `safeFrom bad f tr`: scanning `tr` with "a failure has been seen" = `f`, no change command
or save follows a failure. -/
def safeFrom (bad : Role → Reply → Bool) : Bool → List Ev → Bool
  | _, [] => true
  | f, e :: t => !(f && isChangeOrSave e) && safeFrom bad (f || isBadGot bad e) t

/-- **no_change_after_fault ∧ no_save_after_fault** as a trace predicate. -/
def safe (bad : Role → Reply → Bool) (tr : List Ev) : Bool := safeFrom bad false tr

/-- the same, spelled out: whenever the trace splits around a bad reply, nothing after it
is a change command or a save -/
def NoChangeAfterFault (bad : Role → Reply → Bool) (tr : List Ev) : Prop :=
  ∀ pre post ρ r, tr = pre ++ .got ρ r :: post → bad ρ r = true → ∀ e ∈ post, isChangeOrSave e = false

def changeSends : List Ev → List (List String)
  | [] => []
  | .sent .change ls :: t => ls :: changeSends t
  | _ :: t => changeSends t

/-- the device confirmed the save / commit -/
def saveConfirmed (tr : List Ev) : Bool :=
  tr.any fun e => match e with
    | .got .save r => r.flags.contains .okMark || r.flags.contains .jobOk || r.flags.contains .noChanges
    | _ => false

end NA.Spec.C09
