import NA.Model.Gate
/-
Specification side of C06 / C11 (independent of the programs that model the Go code; it shares
only the vocabulary `Out`, `Reply`, `Dev`, `Cfg` with them).

* which requests are configuration-changing (`kind`): one of the computed changes, a save or
  commit, or anything that is not in the per-backend allow-list of read-only / login /
  session-setting requests.  The only configuration-mode block on the allow-list is ASA's
  `configure terminal` / `terminal width 511` / `end` (classified as a session setting, as the
  statement of C11 does);
* what it means for a device to report a wrong hostname, to lack the managed-by marker, to be
  a non-active HA member (`WrongHost`, `MarkerNever`, `LinuxNoMarker`, `PanNoMarker`, `HaPassive`).
-/
namespace NA.Gate.Spec
open NA.Gate

inductive Kind | login | read | session | change | save
  deriving DecidableEq, Repr

def readLits : Backend → List String
  | .asa => ["yes", "enable", "", "sh pager", "terminal pager 0", "sh term", "sh ver", "show hostname",
             "write term", "exit"]
  | .ios => ["yes", "enable", "", "term len 0", "term width 512", "sh ver", "sh run", "exit"]
  | .linux => ["yes", "PS1=router#", "uname -r", "uname -m", "hostname -s", "iptables-save",
               "ip route show", "echo $?", "which iptables-restore"]
  | .panos => ["type=keygen",
               "type=op&cmd=<show><high-availability><state/></high-availability></show>",
               "type=config&action=get&xpath=/config/devices"]
  | .nsx => ["POST /api/session/create",
             "GET /policy/api/v1/infra/domains/default/gateway-policies"]

def sessionLits : Backend → List String
  | .asa => ["configure terminal", "terminal width 511", "end"]
  | _ => []

def saveLits : Backend → List String
  | .asa | .ios => ["write memory"]
  | _ => []

/-- read-only requests with a run-time argument, by their literal prefix -/
def readPrefixes : Backend → List String
  | .linux => ["grep '"]
  | .panos => ["type=op&cmd=<show><jobs><id>"]
  | .nsx => ["GET /policy/api/v1/infra/domains/default/gateway-policies/",
             "GET /policy/api/v1/infra/services?cursor=",
             "GET /policy/api/v1/infra/domains/default/groups?cursor="]
  | _ => []

def savePrefixes : Backend → List String
  | .panos => ["type=commit&action=partial&cmd="]
  | _ => []

def kind (b : Backend) : Out → Kind
  | .connect | .wait | .pass => .login
  | .plan _ => .change
  | .lit s =>
    if s ∈ readLits b then .read else if s ∈ sessionLits b then .session
    else if s ∈ saveLits b then .save else .change
  | .litArg p _ =>
    if p ∈ readPrefixes b then .read else if p ∈ savePrefixes b then .save else .change

/-- neither configuration-changing nor a save/commit -/
def harmless (b : Backend) (o : Out) : Bool :=
  match kind b o with
  | .change | .save => false
  | _ => true

/-- The trace contains no configuration-changing request and no save/commit. -/
def NoChange (b : Backend) (tr : List Out) : Prop := ∀ o ∈ tr, harmless b o = true

instance (b : Backend) (tr : List Out) : Decidable (NoChange b tr) := by
  unfold NoChange; exact inferInstance

/-! ### the interlock conditions, as properties of the device -/

def hostQuery : Backend → Option Out
  | .asa => some (.lit "show hostname")
  | .ios => some (.lit "")
  | .linux => some (.lit "hostname -s")
  | .panos => some (.lit "type=config&action=get&xpath=/config/devices")
  | .nsx => none

/-- the text of a reply (a reply that is no text counts as the empty text) -/
def replyText : Reply → List Char
  | .text s => s.toList
  | _ => []

/-- The reply reports hostname `name` (what the answer to the hostname query means on each
platform: the output line, the prompt without `#`, the `<hostname>` element). -/
def hostIs (b : Backend) (r : Reply) (name : String) : Bool :=
  match b, r with
  | .asa, r | .linux, r => trimSuffixL (replyText r) ['\n'] == name.toList
  | .ios, r => trimSuffixL (trimSpaceL (replyText r)) ['#'] == name.toList
  | .panos, .conf h _ => h == name
  | _, _ => false

/-- The device never reports one of the expected names, whatever was sent before. -/
def WrongHost (b : Backend) (names : List String) (dev : Dev) : Prop :=
  ∀ q, hostQuery b = some q → ∀ hist n, n ∈ names → hostIs b (dev hist q) n = false

/-- ASA / IOS: the configured banner regexp matches no concatenation of texts the device ever
sends (the code searches the concatenated output of the login dialogue). -/
def MarkerNever (dev : Dev) (r : Rx) : Prop :=
  ∀ l : List String, (∀ s ∈ l, ∃ hist o, dev hist o = .text s) → r.search (String.join l).toList = false

def linuxMarkerQuery (cfg : Cfg) : Out := .litArg "grep '" cfg.bannerSrc

/-- Linux: `grep '<checkbanner>' /etc/issue` never prints anything. -/
def LinuxNoMarker (cfg : Cfg) (dev : Dev) : Prop :=
  ∀ hist s, dev hist (linuxMarkerQuery cfg) = .text s → s = ""

def panConfQuery : Out := .lit "type=config&action=get&xpath=/config/devices"
def panHaQuery : Out := .lit "type=op&cmd=<show><high-availability><state/></high-availability></show>"

/-- PAN-OS marker: the word `netspoc`, in any case, somewhere in the display-name. -/
def vsysMarked (displayName : String) : Bool := infixL (lowerL displayName.toList) "netspoc".toList

/-- PAN-OS: whenever the device shows its configuration, some vsys that Netspoc manages has no
`netspoc` in its display-name. -/
def PanNoMarker (cfg : Cfg) (dev : Dev) : Prop :=
  ∀ hist h vs, dev hist panConfQuery = .conf h vs →
    ∃ v ∈ vs, v.1 ∈ cfg.targetVsys ∧ vsysMarked v.2 = false

/-! ### Linux: what `grep '<re>' /etc/issue` prints on a host whose /etc/issue is `issue` -/

def splitLines : List Char → List (List Char)
  | [] => [[]]
  | c :: cs =>
    match splitLines cs with
    | [] => [[]]
    | l :: ls => if c == '\n' then [] :: l :: ls else (c :: l) :: ls

/-- the matching lines, each followed by a newline -/
def grepOut (r : Rx) (issue : List Char) : List Char :=
  ((splitLines issue).filter fun l => !l.isEmpty && r.search l).flatMap fun l => l ++ ['\n']

/-- A Linux host with this /etc/issue: it answers the grep query with the matching lines. -/
def LinuxIssue (cfg : Cfg) (r : Rx) (dev : Dev) (issue : String) : Prop :=
  ∀ hist, ∃ s, dev hist (linuxMarkerQuery cfg) = .text s ∧ s.toList = grepOut r issue.toList

/-- HA state that permits configuration: HA disabled, or the active / active-primary member. -/
def haActive : Reply → Bool
  | .ha e m s => e != "yes" || (m == "Active-Passive" && s == "active")
                  || (m == "Active-Active" && s == "active-primary")
  | _ => false

/-- PAN-OS: the device never claims to be the active member. -/
def HaPassive (dev : Dev) : Prop := ∀ hist, haActive (dev hist panHaQuery) = false

end NA.Gate.Spec
