import NA.Model.LinuxStr
/-
Specification side of C05 (device semantics and kernel spelling).  Core only; independent of the
model of the code (`NA/Model/Linux.lean`); it shares only the string helpers.

* routes: the kernel table is a set of (destination, prefix length, next hop); `ip route add`
  fails if the entry exists, `ip route del` fails if it does not; the commands of one packet
  (`del … \N add …`) are one step.
* iptables: `iptables-restore FILE` replaces, atomically per `COMMIT`, every table NAMED IN THE FILE by
  the file's chains, policies and rules; tables not named stay as they are (man iptables-restore:
  without `--noflush` the previous contents "of the respective table" are flushed).  A rule must
  belong to a declared chain.
* `iptables-save` spelling of a rule (`kernelWords`) over a grammar of rules built from the options
  in the repository's test data; `userWords` is the same rule as a Netspoc or raw file may spell it.
-/
namespace NA.Linux.Spec
open NA.Linux

/-! ## routes -/

abbrev RKey := Str × Int × Str
abbrev RTable := List RKey

inductive RCmd
  | add (k : RKey)
  | del (k : RKey)
  deriving DecidableEq, Repr

def stepCmd (t : RTable) : RCmd → Option RTable
  | .add k => if k ∈ t then none else some (t ++ [k])
  | .del k => if k ∈ t then some (t.filter (· ≠ k)) else none

/-- The commands of one packet. -/
def execLine : RTable → List RCmd → Option RTable
  | t, [] => some t
  | t, c :: cs => match stepCmd t c with
    | some t' => execLine t' cs
    | none => none

/-- All states after each line (the last one is the final table); none if a command fails. -/
def execTrace : RTable → List (List RCmd) → Option (List RTable)
  | _, [] => some []
  | t, l :: ls => match execLine t l with
    | some t' => (execTrace t' ls).map (t' :: ·)
    | none => none

def execScript : RTable → List (List RCmd) → Option RTable
  | t, [] => some t
  | t, l :: ls => match execLine t l with
    | some t' => execScript t' ls
    | none => none

def dstOf (k : RKey) : Str × Int := (k.1, k.2.1)

/-- Destination `d` has a route in `t`. -/
def covered (t : RTable) (d : Str × Int) : Bool := t.any (fun k => dstOf k == d)

/-! ### which addresses a destination covers (for the step-safety oracle of C14) -/

/-- dotted quad → number -/
def ipNum (x : Str) : Option Nat :=
  match (splitChar x '.').mapM (fun w => if w.all isDigit && !w.isEmpty then some (w.foldl (fun n c => n * 10 + (c.toNat - 48)) 0) else none) with
  | some [a, b, c, d] => if a < 256 && b < 256 && c < 256 && d < 256 then some (((a * 256 + b) * 256 + c) * 256 + d) else none
  | _ => none

/-- Destination `d` (network address, prefix length) covers address `x`. -/
def coversAddr (d : Str × Int) (x : Nat) : Bool :=
  match ipNum d.1 with
  | some n => let sh := 32 - d.2.toNat; (n >>> sh) == (x >>> sh)
  | none => false

/-- Some route of the table covers `x` (the kernel then forwards by the longest such prefix). -/
def routedAddr (t : RTable) (x : Nat) : Bool := t.any fun k => coversAddr (dstOf k) x

/-- A small universe of addresses around the destinations of a table: first, last, the one before and behind. -/
def addrUniverse (t : RTable) : List Nat :=
  (t.flatMap fun k => match ipNum k.1 with
    | some n => let sz := 2 ^ (32 - k.2.1.toNat); [n, n + sz - 1, n + sz, n - 1, n + sz / 2]
    | none => []).eraseDups

/-- At most one next hop per destination. -/
def oneHopPerDst (t : RTable) : Prop := ∀ k1 ∈ t, ∀ k2 ∈ t, dstOf k1 = dstOf k2 → k1 = k2

/-- The stricter kernel: `ip route add` also fails if ANY route to the destination exists
(same table, metric and tos — which is all that Netspoc-Approve accepts). -/
def stepCmdK (t : RTable) : RCmd → Option RTable
  | .add k => if covered t (dstOf k) then none else some (t ++ [k])
  | .del k => if k ∈ t then some (t.filter (· ≠ k)) else none

/-- Under `stepCmdK` a packet `del; add` is executed command by command as well. -/
def execLineK : RTable → List RCmd → Option RTable
  | t, [] => some t
  | t, c :: cs => match stepCmdK t c with
    | some t' => execLineK t' cs
    | none => none

def execScriptK : RTable → List (List RCmd) → Option RTable
  | t, [] => some t
  | t, l :: ls => match execLineK t l with
    | some t' => execScriptK t' ls
    | none => none

/-- Reading a destination as `ip` does: `default`, `a.b.c.d` (a host), `a.b.c.d/len`. -/
def readDst (w : Str) : Option (Str × Int) :=
  if w = s "default" then some (s "0.0.0.0", 0)
  else match cutChar w '/' with
    | (a, b, true) => if b.all isDigit && !b.isEmpty then some (a, Int.ofNat (b.foldl (fun n c => n * 10 + (c.toNat - 48)) 0)) else none
    | _ => some (w, 32)

/-- One command `ip route add|del DST via HOP [dev IF]`. -/
def readRouteCmd (x : Str) : Option RCmd :=
  match fields x with
  | i :: r :: op :: d :: v :: h :: rest =>
    if i = s "ip" ∧ r = s "route" ∧ v = s "via" ∧ (rest = [] ∨ (rest.length = 2 ∧ rest.head? = some (s "dev"))) then
      match readDst d with
      | some (ip, l) =>
        if op = s "add" then some (.add (ip, l, h)) else if op = s "del" then some (.del (ip, l, h)) else none
      | none => none
    else none
  | _ => none

/-- One line of the change script as `ShowChanges` prints it (`first\N second`). -/
def readRouteLine (x : Str) : Option (List RCmd) :=
  let rec split : Str → Str → List Str
    | [], cur => [cur.reverse]
    | '\\' :: 'N' :: ' ' :: r, cur => cur.reverse :: split r []
    | c :: r, cur => split r (c :: cur)
  (split x []).mapM readRouteCmd

/-- How `ip route show` prints an entry (the harness prefixes `ip route add `). -/
def routeShow (k : RKey) (dev : Option Str) : Str :=
  let d : Str := if k.2.1 = 32 then k.1 else if k.1 = s "0.0.0.0" ∧ k.2.1 = 0 then s "default"
    else k.1 ++ ['/'] ++ (toString k.2.1).toList
  d ++ s " via " ++ k.2.2 ++ (match dev with | some i => s " dev " ++ i | none => [])

/-! ## iptables-restore -/

/-- A line of a restore file. -/
inductive RLn
  | table (name : Str)
  | chain (name policy : Str)
  | rule (chain : Str) (text : Str)
  | commit
  deriving DecidableEq, Repr

structure KChain where
  name : Str
  policy : Str
  rules : List Str          -- rule texts in order
  deriving DecidableEq, Repr

structure KTable where
  name : Str
  chains : List KChain
  deriving DecidableEq, Repr

/-- The kernel's rule sets: at most one entry per table name. -/
abbrev KState := List KTable

def addRule (cs : List KChain) (c : Str) (text : Str) : Option (List KChain) :=
  match cs with
  | [] => none
  | k :: ks => if k.name = c then some ({ k with rules := k.rules ++ [text] } :: ks)
               else (addRule ks c text).map (k :: ·)

/-- Lines of one table up to COMMIT: (chains so far) → result and remaining lines. -/
def loadTable : List RLn → List KChain → Option (List KChain × List RLn)
  | [], _ => none                                   -- missing COMMIT
  | .commit :: rest, cs => some (cs, rest)
  | .chain n p :: rest, cs =>
    if cs.any (·.name = n) then none else loadTable rest (cs ++ [{ name := n, policy := p, rules := [] }])
  | .rule c t :: rest, cs => match addRule cs c t with
    | some cs' => loadTable rest cs'
    | none => none                                  -- rule for an undeclared chain
  | .table _ :: _, _ => none                        -- new table before COMMIT

def replaceTable (st : KState) (t : KTable) : KState :=
  if st.any (·.name = t.name) then st.map (fun x => if x.name = t.name then t else x) else st ++ [t]

/-- `iptables-restore`: fuel = number of lines. -/
def restoreAux : Nat → KState → List RLn → Option KState
  | _, st, [] => some st
  | 0, _, _ :: _ => none
  | fuel + 1, st, .table n :: rest =>
    match loadTable rest [] with
    | some (cs, rest') => restoreAux fuel (replaceTable st { name := n, chains := cs }) rest'
    | none => none
  | _, _, _ :: _ => none                             -- chain, rule or COMMIT outside a table

def restore (st : KState) (f : List RLn) : Option KState := restoreAux f.length st f

def KState.get (st : KState) (t : Str) : Option KTable := st.find? (·.name = t)
def KTable.get (t : KTable) (c : Str) : Option KChain := t.chains.find? (·.name = c)

/-! ## the grammar of rules and its two spellings -/

inductive Proto
  | tcp | udp | icmp | vrrp | ipv6icmp
  | num (n : Str)            -- any other protocol, by number; printed as a number by the kernel
  deriving DecidableEq, Repr

inductive St | invalid | new | related | established | untracked
  deriving DecidableEq, Repr

def St.name : St → Str
  | .invalid => s "INVALID" | .new => s "NEW" | .related => s "RELATED"
  | .established => s "ESTABLISHED" | .untracked => s "UNTRACKED"

/-- The order in which the state match prints its set. -/
def kernelStateOrder : List St := [.invalid, .new, .related, .established, .untracked]

inductive Ports
  | one (p : Str)
  | range (lo hi : Str)
  deriving DecidableEq, Repr

/-- Where the user puts a negation: `! -s X` or `-s ! X` (the kernel prints the first form). -/
inductive Neg | no | before | after
  deriving DecidableEq, Repr

def Neg.isNeg : Neg → Bool
  | .no => false | _ => true

/-- One option of a rule: semantic content plus spelling hints (fields named `h…`). -/
inductive AOpt
  | src (neg : Neg) (ip len : Str) (hSlash32 : Bool)
  | dst (neg : Neg) (ip len : Str) (hSlash32 : Bool)
  | inIf (neg : Neg) (name : Str)
  | proto (neg : Neg) (p : Proto) (hUpper hNum : Bool)
  | sport (ps : Ports) (hZeros : Nat) (hOpen : Bool)
  | dport (ps : Ports) (hZeros : Nat) (hOpen : Bool)
  | syn (neg : Bool) (hFlags : Bool)
  | icmpType (t : Str)
  | mExplicit (name : Str)
  | state (l : List St)
  | jump (t : Str)
  | goto (t : Str)
  | logLevel (lvl : Str) (hDebug : Bool)
  /-- `MARK`: value and mask as the kernel holds them (lower case hex digits); the user's text `hVal`
  behind `--set-mark` (`hXmark = false`) or `--set-xmark` -/
  | setMark (hex mask : Str) (hXmark : Bool) (hVal : Str)
  | toSource (ip : Str)
  deriving DecidableEq, Repr

abbrev ARule := List AOpt

/-- One option as words: negation placement, key, arguments. -/
structure OptW where
  neg : Neg
  key : Str
  args : List Str
  deriving DecidableEq, Repr

def OptW.words (o : OptW) : List Str :=
  match o.neg with
  | .no => o.key :: o.args
  | .before => ['!'] :: o.key :: o.args
  | .after => o.key :: ['!'] :: o.args

/-- The value the option denotes: negation mark followed by the arguments. -/
def OptW.value (o : OptW) : Str := (if o.neg.isNeg then ['!'] else []) ++ joinWith [' '] o.args

def upperC (c : Char) : Char := if 'a' ≤ c ∧ c ≤ 'z' then Char.ofNat (c.toNat - 32) else c

def Proto.kname (names : Bool) : Proto → Str
  | .tcp => s "tcp" | .udp => s "udp" | .icmp => s "icmp"
  | .vrrp => if names then s "vrrp" else s "112"
  | .ipv6icmp => if names then s "ipv6-icmp" else s "58"
  | .num n => n

def Proto.uname (p : Proto) (upper num : Bool) : Str :=
  let n := p.kname (!num)
  if upper then n.map upperC else n

def zeros (n : Nat) : Str := List.replicate n '0'

def Ports.user : Ports → Nat → Bool → Str
  | .one p, z, _ => zeros z ++ p
  | .range lo hi, z, opn =>
    (if opn && lo = ['0'] then [] else zeros z ++ lo) ++ [':'] ++ (if opn && hi = s "65535" then [] else hi)

def Ports.kernel : Ports → Str
  | .one p => p
  | .range lo hi => lo ++ [':'] ++ hi

def synFlags : List Str := [s "FIN,SYN,RST,ACK", s "SYN"]

def b2neg (b : Bool) : Neg := if b then .before else .no

/-- The user's spelling of an option. -/
def AOpt.user : AOpt → OptW
  | .src n ip len h => ⟨n, s "-s", [if len = s "32" ∧ !h then ip else ip ++ ['/'] ++ len]⟩
  | .dst n ip len h => ⟨n, s "-d", [if len = s "32" ∧ !h then ip else ip ++ ['/'] ++ len]⟩
  | .inIf n name => ⟨n, s "-i", [name]⟩
  | .proto n p u num => ⟨n, s "-p", [p.uname u num]⟩
  | .sport ps z o => ⟨.no, s "--sport", [ps.user z o]⟩
  | .dport ps z o => ⟨.no, s "--dport", [ps.user z o]⟩
  | .syn n f => if f then ⟨b2neg n, s "--tcp-flags", synFlags⟩ else ⟨b2neg n, s "--syn", []⟩
  | .icmpType t => ⟨.no, s "--icmp-type", [t]⟩
  | .mExplicit name => ⟨.no, s "-m", [name]⟩
  | .state l => ⟨.no, s "--state", [joinWith [','] (l.map St.name)]⟩
  | .jump t => ⟨.no, s "-j", [t]⟩
  | .goto t => ⟨.no, s "-g", [t]⟩
  | .logLevel lvl d => ⟨.no, s "--log-level", [if d ∧ lvl = s "7" then s "debug" else lvl]⟩
  | .setMark _ _ x v => ⟨.no, if x then s "--set-xmark" else s "--set-mark", [v]⟩
  | .toSource ip => ⟨.no, s "--to-source", [ip]⟩

/-- Parameters of the device's iptables: does it print names for protocols 112 and 58
(`getprotobynumber` finds them in /etc/protocols) or numbers. -/
structure KCfg where
  protoNames : Bool := true
  deriving DecidableEq, Repr

/-- The kernel's spelling of an option (negation always in front of the key). -/
def AOpt.kernel (cfg : KCfg) : AOpt → OptW
  | .src n ip len _ => ⟨b2neg n.isNeg, s "-s", [ip ++ ['/'] ++ len]⟩
  | .dst n ip len _ => ⟨b2neg n.isNeg, s "-d", [ip ++ ['/'] ++ len]⟩
  | .inIf n name => ⟨b2neg n.isNeg, s "-i", [name]⟩
  | .proto n p _ _ => ⟨b2neg n.isNeg, s "-p", [p.kname cfg.protoNames]⟩
  | .sport ps _ _ => ⟨.no, s "--sport", [ps.kernel]⟩
  | .dport ps _ _ => ⟨.no, s "--dport", [ps.kernel]⟩
  | .syn n _ => ⟨b2neg n, s "--tcp-flags", synFlags⟩
  | .icmpType t => ⟨.no, s "--icmp-type", [t]⟩
  | .mExplicit name => ⟨.no, s "-m", [lower name]⟩
  | .state l => ⟨.no, s "--state", [joinWith [','] ((kernelStateOrder.filter (· ∈ l)).map St.name)]⟩
  | .jump t => ⟨.no, s "-j", [t]⟩
  | .goto t => ⟨.no, s "-g", [t]⟩
  | .logLevel lvl _ => ⟨.no, s "--log-level", [lvl]⟩
  | .setMark hex mask _ _ => ⟨.no, s "--set-xmark", [s "0x" ++ hex ++ s "/0x" ++ mask]⟩
  | .toSource ip => ⟨.no, s "--to-source", [ip]⟩

/-- Position of an option in the kernel's printing order. -/
def AOpt.rank : AOpt → Nat
  | .src .. => 0 | .dst .. => 1 | .inIf .. => 2 | .proto .. => 3
  | .mExplicit .. => 5 | .sport .. => 6 | .dport .. => 7 | .syn .. => 8 | .icmpType .. => 9
  | .state .. => 10 | .jump .. => 20 | .goto .. => 20 | .logLevel .. => 21 | .setMark .. => 21 | .toSource .. => 21

/-- Is this a protocol match option (the kernel loads and prints `-m <proto>` for it)? -/
def AOpt.isProtoMatch : AOpt → Bool
  | .sport .. | .dport .. | .syn .. | .icmpType .. => true
  | _ => false

/-- The (un-negated) protocol of the rule, in kernel spelling. -/
def protoOf (cfg : KCfg) : ARule → Option Str
  | [] => none
  | .proto .no p _ _ :: _ => some (p.kname cfg.protoNames)
  | _ :: r => protoOf cfg r

/-- Head options (`-s -d -i -p`) are printed first, in that order. -/
def AOpt.isHead : AOpt → Bool
  | .src .. | .dst .. | .inIf .. | .proto .. => true
  | _ => false

/-- Target and target options are printed last. -/
def AOpt.isTarget : AOpt → Bool
  | .jump .. | .goto .. | .logLevel .. | .setMark .. | .toSource .. => true
  | _ => false

/-- `-m <name>` naming the rule's own protocol. -/
def isPM (pn : Option Str) : AOpt → Bool
  | .mExplicit n => some (lower n) == pn
  | _ => false

/-- Options that belong to the protocol match. -/
def inPG (pn : Option Str) (o : AOpt) : Bool := o.isProtoMatch || isPM pn o

/-- Options of the other matches (`-m state --state …`). -/
def inOG (pn : Option Str) (o : AOpt) : Bool := !o.isHead && !o.isTarget && !inPG pn o

def byRank (l : List AOpt) : List AOpt := isort (fun a b => decide (a.rank ≤ b.rank)) l

/-- The protocol match and its options: `-m <proto>` is printed once if anything loaded the match. -/
def protoGroup (pn : Option Str) (loaded : Bool) (pOpts : List OptW) : List OptW :=
  match pn with
  | some p => if loaded then ⟨.no, s "-m", [p]⟩ :: pOpts else pOpts
  | none => pOpts

/-- The kernel's option list.  Head options in fixed order; then the matches in the order in which
the user's line loaded them, each followed by its own options: the protocol match (loaded by an
explicit `-m <proto>` or implicitly by the first port, flag or icmp-type option; printed once as
`-m <proto>`) and the other matches (`-m state --state …`); then target and target options. -/
def kernelOpts (cfg : KCfg) (r : ARule) : List OptW :=
  let pn := protoOf cfg r
  let head := (byRank (r.filter AOpt.isHead)).map (AOpt.kernel cfg)
  let pOpts := (byRank (r.filter AOpt.isProtoMatch)).map (AOpt.kernel cfg)
  let pGroup := protoGroup pn (r.any (inPG pn)) pOpts
  let oGroup := (r.filter (inOG pn)).map (AOpt.kernel cfg)
  let tgt := (byRank (r.filter AOpt.isTarget)).map (AOpt.kernel cfg)
  let pFirst := r.findIdx (inPG pn) ≤ r.findIdx (inOG pn)
  head ++ (if pFirst then pGroup ++ oGroup else oGroup ++ pGroup) ++ tgt

def userOpts (r : ARule) : List OptW := r.map AOpt.user

/-- The words of the rule behind `-A chain`. -/
def userWords (r : ARule) : List Str := (userOpts r).flatMap OptW.words
def kernelWords (cfg : KCfg) (r : ARule) : List Str := (kernelOpts cfg r).flatMap OptW.words

def ruleText (chain : Str) (ws : List Str) : Str := joinWith [' '] (s "-A" :: chain :: ws)

/-! ### well-formedness of grammar elements (decidable; checked on every generated rule) -/

def canonNum (d : Str) : Bool := !d.isEmpty && d.all isDigit && (d == ['0'] || d.head? != some '0')

/-- A plain argument token: non-empty, no white space, does not look like a key or a negation. -/
def plainTok (w : Str) : Bool :=
  !w.isEmpty && !w.any isSpace && w.head? != some '-' && w != ['!'] && w.head? != some '!'

def ipTok (w : Str) : Bool := plainTok w && w.all (fun c => isDigit c || c == '.')

def Ports.wf : Ports → Bool
  | .one p => canonNum p
  | .range lo hi => canonNum lo && canonNum hi && lo != hi && !(lo == ['0'] && hi == s "65535")

def markNorm (v : Str) : Option Int :=
  let v := lower v
  parseInt32 ((cutSuffix v (s "/0xffffffff")).getD v)

def AOpt.wf : AOpt → Bool
  | .src _ ip len _ | .dst _ ip len _ => ipTok ip && canonNum len
  | .inIf _ name => plainTok name
  | .proto n p _ hNum =>
    (match p with
     | .num d => canonNum d && !hNum && !([s "1", s "6", s "17", s "58", s "112"].contains d)   -- those have names
     | .vrrp | .ipv6icmp => !n.isNeg | _ => !hNum)
  | .sport ps _ _ | .dport ps _ _ => ps.wf
  | .syn _ _ => true
  | .icmpType t => plainTok t && t.all (fun c => isDigit c || c == '/')
  | .mExplicit name => name = s "state" || lower name = s "tcp" || lower name = s "udp" || lower name = s "icmp"
  | .state l => !l.isEmpty && decide l.Nodup
  | .jump t | .goto t => plainTok t
  | .logLevel lvl _ => canonNum lvl
  | .setMark hex mask x v =>
    -- only the default mask is inside the grammar: with another mask the kernel prints
    -- `--set-xmark v/m`, which the code neither renames nor rewrites (F-C05k)
    plainTok v && hex.all (fun c => isDigit c || ('a' ≤ c && c ≤ 'f')) &&
    (markNorm v).isSome && markNorm v == markNorm (s "0x" ++ hex ++ s "/0xffffffff") &&
    (!x || (let (_, m, f) := cutChar v '/'; !f || lower m == s "0xffffffff")) &&
    mask == s "ffffffff"
  | .toSource ip => ipTok ip

def nodupKeys (l : List OptW) : Bool := decide (l.map (·.key)).Nodup

/-- A rule of the grammar: every option well formed and no option key repeated in either
spelling (the pair map of the code keeps only the last value of a key). -/
def ARule.wf (cfg : KCfg) (r : ARule) : Bool :=
  r.all AOpt.wf && nodupKeys (userOpts r) && nodupKeys (kernelOpts cfg r)

/-- The meaning of one option: what the kernel holds for it — its key and value in the kernel's
(canonical) spelling; for `MARK` the value as a NUMBER (`0xf` and `0x0f` are the same mark) and the mask. -/
def semEntry (cfg : KCfg) : AOpt → Str × Str
  | .setMark hex mask _ _ =>
    let t := s "0x" ++ hex ++ s "/0x" ++ mask
    (s "--set-xmark", match markNorm t with | some n => intToStr n | none => t)
  | a => ((a.kernel cfg).key, (a.kernel cfg).value)

/-- The meaning of a rule: the set of its options' meanings — its match set and its target.
A `-m <proto>` that only names the rule's own protocol matches nothing by itself and is left out. -/
def semEntries (cfg : KCfg) (r : ARule) : List (Str × Str) :=
  (r.filter fun a => !isPM (protoOf cfg r) a).map (semEntry cfg)

/-- Two rules are equivalent: the same set of option meanings. -/
def semEqRule (cfg : KCfg) (r1 r2 : ARule) : Bool :=
  (semEntries cfg r1).all (· ∈ semEntries cfg r2) && (semEntries cfg r2).all (· ∈ semEntries cfg r1)

end NA.Linux.Spec
