/-
Specification side for the NSX backend (C04, NSX share of C07/C08/C10): the data an NSX-T
manager holds for the fragment Netspoc manages, a STRICT executor of the policy REST verbs on
an object store keyed by id, and the decidable predicates of the direct oracle
(equivalence, left-overs, frame, scope).  Core Lean only; independent of the model of the
planner (`NA/Model/NsxDiff.lean`), which only shares the data types declared here.

Strictness (deliberate, see DESIGN.md section 4):
* PUT creates; a PUT on an existing object is rejected (the manager demands the current
  `_revision` for an update and the planner never sends one for objects it believes new);
* PATCH / POST / DELETE need the object; a group or service that a rule still refers to
  cannot be deleted; a rule may only refer to groups and services that exist;
* `?action=remove` needs every address to be present, `?action=add` every address to be absent;
* an IP address expression never becomes empty (ASSUMPTION about the manager: `ip_addresses` of an
  `IPAddressExpression` has `minItems: 1` in the NSX-T policy API; a PUT / PATCH with an empty list
  and a `?action=remove` that would remove the last address are refused).
-/
namespace NA.Nsx

/-! ### Strings -/

def hasPrefix (p s : String) : Bool := p.toList.isPrefixOf s.toList

/-- `strings.CutPrefix`. -/
def cutPrefix (p s : String) : Option String :=
  if hasPrefix p s then some (String.ofList (s.toList.drop p.toList.length)) else none

def netspoc : String := "Netspoc"
def gpp : String := "/infra/domains/default/groups/"
def spp : String := "/infra/services/"
def groupPath (id : String) : String := gpp ++ id
def servicePath (id : String) : String := spp ++ id
def groupRef (p : String) : Option String := cutPrefix gpp p
def serviceRef (p : String) : Option String := cutPrefix spp p
def managed (id : String) : Bool := hasPrefix netspoc id

/-- JSON text without insignificant white space (what `json.Compact` / marshalling of an embedded
`json.RawMessage` produces): two inline `service_entries` values are the same definition iff
their compact forms agree. -/
def compactJSON (s : String) : String :=
  let rec go : List Char → Bool → Bool → List Char → List Char
    | [], _, _, acc => acc.reverse
    | c :: rest, inStr, esc, acc =>
      if inStr then
        if esc then go rest true false (c :: acc)
        else if c == '\\' then go rest true true (c :: acc)
        else if c == '"' then go rest false false (c :: acc)
        else go rest true false (c :: acc)
      else if c == ' ' || c == '\t' || c == '\n' || c == '\r' then go rest false false acc
      else if c == '"' then go rest true false (c :: acc)
      else go rest false false (c :: acc)
  String.ofList (go s.toList false false [])

/-- Stable insertion sort (kernel-reducible, so that examples can be decided). -/
def insertBy {α : Type} (le : α → α → Bool) (x : α) : List α → List α
  | [] => [x]
  | y :: ys => if le x y then x :: y :: ys else y :: insertBy le x ys

def isort {α : Type} (le : α → α → Bool) : List α → List α
  | [] => []
  | x :: xs => insertBy le x (isort le xs)

theorem insertBy_perm {α : Type} (le : α → α → Bool) (x : α) (l : List α) : (insertBy le x l).Perm (x :: l) := by
  induction l with
  | nil => exact List.Perm.refl _
  | cons y ys ih =>
    simp only [insertBy]
    by_cases h : le x y = true
    · simp [h]
    · simp only [h, Bool.false_eq_true, if_false]
      exact (List.Perm.cons y ih).trans (List.Perm.swap x y ys)

theorem isort_perm {α : Type} (le : α → α → Bool) (l : List α) : (isort le l).Perm l := by
  induction l with
  | nil => exact List.Perm.refl _
  | cons x xs ih => exact (insertBy_perm le x _).trans (List.Perm.cons x ih)

/-! ### Objects -/

/-- Everything `Equal`/`sortRules` look at besides service and the two group lists,
in the order `sortRules` compares. -/
structure Attrs where
  direction : String := "OUT"
  seq : Int := 0
  action : String := "ALLOW"
  logged : Bool := false
  tag : String := ""
  disabled : Bool := false
  dstExcl : Bool := false
  srcExcl : Bool := false
  svcEntries : String := ""
  ipProto : String := ""
  profiles : List String := []
  scope : List String := []
  deriving DecidableEq, Repr, Inhabited

structure Rule where
  id : String
  attrs : Attrs := {}
  service : String := "ANY"
  src : String := "ANY"
  dst : String := "ANY"
  rev : Nat := 0
  deriving DecidableEq, Repr, Inhabited

structure Group where
  id : String
  exprId : String := "id"
  rtype : String := "IPAddressExpression"
  addrs : List String := []
  deriving DecidableEq, Repr, Inhabited

structure Service where
  id : String
  defn : String := ""
  deriving DecidableEq, Repr, Inhabited

structure Policy where
  id : String
  rules : List Rule := []
  deriving DecidableEq, Repr, Inhabited

/-- A configuration: what a Netspoc file describes, what `LoadDevice` returns, and (with the
unmanaged objects included) the object store of the manager. -/
structure Config where
  policies : List Policy := []
  groups : List Group := []
  services : List Service := []
  deriving DecidableEq, Repr, Inhabited

abbrev Store := Config

/-- The REST calls of the fragment.  Bodies are kept structured; the harness parses the JSON
the real code emits into this form. -/
inductive Call
  | putService (id defn : String)
  | patchService (id defn : String)
  | deleteService (id : String)
  | putGroup (id exprId rtype : String) (addrs : List String)
  | postAddrs (gid exprId : String) (add : Bool) (addrs : List String)
  | patchExpr (gid exprId rtype : String) (addrs : List String)
  | deleteGroup (id : String)
  | putPolicy (id : String) (rules : List Rule)
  | deletePolicy (id : String)
  | putRule (pid rid : String) (r : Rule)
  | patchRule (pid rid : String) (r : Rule)
  | deleteRule (pid rid : String)
  deriving DecidableEq, Repr, Inhabited

/-- The object id a call addresses (the id in its URL; rules live inside their policy). -/
def Call.target : Call → String
  | .putService id _ | .patchService id _ | .deleteService id => id
  | .putGroup id _ _ _ | .postAddrs id _ _ _ | .patchExpr id _ _ _ | .deleteGroup id => id
  | .putPolicy id _ | .deletePolicy id => id
  | .putRule pid _ _ | .patchRule pid _ _ | .deleteRule pid _ => pid

/-! ### Store access -/

def findGroup (gs : List Group) (id : String) : Option Group := gs.find? (·.id == id)
def findService (ss : List Service) (id : String) : Option Service := ss.find? (·.id == id)
def findPolicy (ps : List Policy) (id : String) : Option Policy := ps.find? (·.id == id)
def findRule (rs : List Rule) (id : String) : Option Rule := rs.find? (·.id == id)

def hasGroup (S : Store) (id : String) : Bool := S.groups.any (·.id == id)
def hasService (S : Store) (id : String) : Bool := S.services.any (·.id == id)
def hasPolicy (S : Store) (id : String) : Bool := S.policies.any (·.id == id)

def epOk (S : Store) (p : String) : Bool :=
  match groupRef p with
  | some x => hasGroup S x
  | none => true

def svcOk (S : Store) (p : String) : Bool :=
  match serviceRef p with
  | some x => hasService S x
  | none => true

/-- Every group and service a rule refers to exists. -/
def refsOk (S : Store) (r : Rule) : Bool := epOk S r.src && epOk S r.dst && svcOk S r.service

def ruleUsesGroup (id : String) (r : Rule) : Bool := r.src == groupPath id || r.dst == groupPath id
def groupUsed (S : Store) (id : String) : Bool := S.policies.any (·.rules.any (ruleUsesGroup id))
def serviceUsed (S : Store) (id : String) : Bool :=
  S.policies.any (·.rules.any (·.service == servicePath id))

def idsNodup (ids : List String) : Bool :=
  match ids with
  | [] => true
  | x :: rest => !rest.contains x && idsNodup rest

/-! ### The strict executor -/

def setRules (ps : List Policy) (pid : String) (f : List Rule → List Rule) : List Policy :=
  ps.map fun p => if p.id == pid then { p with rules := f p.rules } else p

def setGroupAddrs (gs : List Group) (gid : String) (f : Group → Group) : List Group :=
  gs.map fun g => if g.id == gid then f g else g

def exec (S : Store) : Call → Except String Store
  | .putService id d =>
    if hasService S id then .error s!"PUT of existing service {id}"
    else .ok { S with services := S.services ++ [⟨id, d⟩] }
  | .patchService id d =>
    if !hasService S id then .error s!"PATCH of missing service {id}"
    else .ok { S with services := S.services.map fun s => if s.id == id then ⟨id, d⟩ else s }
  | .deleteService id =>
    if !hasService S id then .error s!"DELETE of missing service {id}"
    else if serviceUsed S id then .error s!"DELETE of referenced service {id}"
    else .ok { S with services := S.services.filter (·.id != id) }
  | .putGroup id e t addrs =>
    if hasGroup S id then .error s!"PUT of existing group {id}"
    else if addrs.isEmpty then .error s!"PUT of group {id} with an empty expression"
    else .ok { S with groups := S.groups ++ [⟨id, e, t, addrs⟩] }
  | .postAddrs gid e add addrs =>
    match findGroup S.groups gid with
    | none => .error s!"POST to missing group {gid}"
    | some g =>
      if g.exprId != e then .error s!"POST to missing expression {gid}/{e}"
      else if add then
        if addrs.any (g.addrs.contains ·) then .error s!"POST add of present address to {gid}"
        else .ok { S with groups := setGroupAddrs S.groups gid fun g => { g with addrs := g.addrs ++ addrs } }
      else
        if !addrs.all (g.addrs.contains ·) then .error s!"POST remove of absent address from {gid}"
        else if (g.addrs.filter (!addrs.contains ·)).isEmpty then
          .error s!"POST remove would leave the expression of {gid} empty"
        else .ok { S with groups := setGroupAddrs S.groups gid fun g =>
                    { g with addrs := g.addrs.filter (!addrs.contains ·) } }
  | .patchExpr gid e t addrs =>
    match findGroup S.groups gid with
    | none => .error s!"PATCH of missing group {gid}"
    | some g =>
      if g.exprId != e then .error s!"PATCH of missing expression {gid}/{e}"
      else if addrs.isEmpty then .error s!"PATCH of {gid} with an empty expression"
      else .ok { S with groups := setGroupAddrs S.groups gid fun g => { g with rtype := t, addrs := addrs } }
  | .deleteGroup id =>
    if !hasGroup S id then .error s!"DELETE of missing group {id}"
    else if groupUsed S id then .error s!"DELETE of referenced group {id}"
    else .ok { S with groups := S.groups.filter (·.id != id) }
  | .putPolicy id rules =>
    if hasPolicy S id then .error s!"PUT of existing policy {id}"
    else if !idsNodup (rules.map (·.id)) then .error s!"PUT of policy {id} with duplicate rule ids"
    else match rules.find? (!refsOk S ·) with
      | some r => .error s!"PUT of policy {id}: rule {r.id} refers to a missing object"
      | none => .ok { S with policies := S.policies ++ [⟨id, rules⟩] }
  | .deletePolicy id =>
    if !hasPolicy S id then .error s!"DELETE of missing policy {id}"
    else .ok { S with policies := S.policies.filter (·.id != id) }
  | .putRule pid rid r =>
    match findPolicy S.policies pid with
    | none => .error s!"PUT of rule in missing policy {pid}"
    | some p =>
      if p.rules.any (·.id == rid) then .error s!"PUT of existing rule {pid}/{rid}"
      else if !refsOk S r then .error s!"PUT of rule {pid}/{rid} referring to a missing object"
      else .ok { S with policies := setRules S.policies pid fun rs => rs ++ [{ r with id := rid, rev := 0 }] }
  | .patchRule pid rid r =>
    match findPolicy S.policies pid with
    | none => .error s!"PATCH of rule in missing policy {pid}"
    | some p =>
      if !p.rules.any (·.id == rid) then .error s!"PATCH of missing rule {pid}/{rid}"
      else if !refsOk S r then .error s!"PATCH of rule {pid}/{rid} referring to a missing object"
      else .ok { S with policies := setRules S.policies pid fun rs =>
                  rs.map fun x => if x.id == rid then { r with id := rid, rev := x.rev + 1 } else x }
  | .deleteRule pid rid =>
    match findPolicy S.policies pid with
    | none => .error s!"DELETE of rule in missing policy {pid}"
    | some p =>
      if !p.rules.any (·.id == rid) then .error s!"DELETE of missing rule {pid}/{rid}"
      else .ok { S with policies := setRules S.policies pid fun rs => rs.filter (·.id != rid) }

/-- Execute a script; on the first rejected call report its index, the reason and the state
reached before it. -/
def execAll (S : Store) : List Call → Nat → Except (Nat × String × Store) Store
  | [], _ => .ok S
  | c :: cs, i =>
    match exec S c with
    | .ok S' => execAll S' cs (i + 1)
    | .error e => .error (i, e, S)

/-- Plain fold used by the theorems: `none` as soon as a call is rejected. -/
def run (S : Store) : List Call → Option Store
  | [] => some S
  | c :: cs =>
    match exec S c with
    | .ok S' => run S' cs
    | .error _ => none

/-! ### Well-formed stores -/

def policyWF (S : Store) (p : Policy) : Bool :=
  idsNodup (p.rules.map (·.id)) && p.rules.all (refsOk S)

/-- Unique ids per kind, unique rule ids per policy, no dangling reference. -/
def storeWF (S : Store) : Bool :=
  idsNodup (S.policies.map (·.id)) && idsNodup (S.groups.map (·.id)) &&
  idsNodup (S.services.map (·.id)) && S.policies.all (policyWF S)

/-! ### What `LoadDevice` sees: only objects whose id carries the prefix -/

def load (S : Store) : Config :=
  { policies := S.policies.filter (managed ·.id)
    groups := S.groups.filter (managed ·.id)
    services := S.services.filter (managed ·.id) }

/-- The manager answers a listing in pages (`cursor`); `n = 0` means one page. -/
def pages {α : Type} (n : Nat) (l : List α) : List (List α) :=
  if n = 0 then [l] else
    let rec go : Nat → List α → List (List α)
      | 0, _ => []
      | fuel + 1, l => if l.length ≤ n then [l] else l.take n :: go fuel (l.drop n)
    go (l.length + 1) l

/-- `LoadDevice` with paged listings (`getRawJSON`): every page is filtered on the prefix, the
results are concatenated; the policies are listed once and fetched one by one. -/
def loadPaged (n : Nat) (S : Store) : Config :=
  { policies := S.policies.filter (managed ·.id)
    groups := (pages n S.groups).flatMap (·.filter (managed ·.id))
    services := (pages n S.services).flatMap (·.filter (managed ·.id)) }

def unmanagedPart (S : Store) : Config :=
  { policies := S.policies.filter (!managed ·.id)
    groups := S.groups.filter (!managed ·.id)
    services := S.services.filter (!managed ·.id) }

/-- C07 for NSX: the unmanaged part is untouched. -/
def frameB (S S' : Store) : Bool := unmanagedPart S == unmanagedPart S'

/-- C07 for NSX, on the script: every call addresses an object whose id carries the prefix. -/
def scopeB (cs : List Call) : Bool := cs.all (managed ·.target)

/-! ### Equivalence with the target (decidable oracle) -/

/-- Last definition wins (the planner's `groupMap`). -/
def findGroupLast (gs : List Group) (id : String) : Option Group := findGroup gs.reverse id

def canonAddrs (l : List String) : List String :=
  (isort (fun a b => decide (a ≤ b)) l).eraseDups

/-- What a source/destination entry denotes: a managed group is its address set,
anything else (address, `ANY`, group outside Netspoc's scope) its text. -/
inductive EP
  | name (s : String)
  | set (l : List String)
  deriving DecidableEq, Repr, Inhabited

def resolveEP (gs : List Group) (p : String) : EP :=
  match groupRef p with
  | some x =>
    if managed x then
      match findGroupLast gs x with
      | some g => .set (canonAddrs g.addrs)
      | none => .name p
    else .name p
  | none => .name p

/-- A managed service is compared by name and definition (first definition wins, as in
`addNewServices`), anything else by name. -/
def resolveSvc (ss : List Service) (p : String) : String × Option String :=
  match serviceRef p with
  | some x => if managed x then (p, (findService ss x).map (·.defn)) else (p, none)
  | none => (p, none)

structure RRule where
  attrs : Attrs
  service : String × Option String
  src : EP
  dst : EP
  deriving DecidableEq, Repr, Inhabited

/-- Attributes with the inline service entries in compact form. -/
def compactAttrs (a : Attrs) : Attrs := { a with svcEntries := compactJSON a.svcEntries }

def resolveRule (C : Config) (r : Rule) : RRule :=
  ⟨compactAttrs r.attrs, resolveSvc C.services r.service, resolveEP C.groups r.src, resolveEP C.groups r.dst⟩

def rulesOf (C : Config) (pid : String) : List Rule :=
  match findPolicy C.policies pid with
  | some p => p.rules
  | none => []

/-- The rules of policy `pid` agree as multisets of resolved rules. -/
def policyEquivB (S : Store) (T : Config) (pid : String) : Bool :=
  hasPolicy S pid && ((rulesOf S pid).map (resolveRule S)).isPerm ((rulesOf T pid).map (resolveRule T))

/-- The manager carries exactly the target's policies (among the managed ones) with
equivalent rules. -/
def convergedB (S : Store) (T : Config) : Bool :=
  T.policies.all (fun p => policyEquivB S T p.id) &&
  S.policies.all (fun p => !managed p.id || T.policies.any (·.id == p.id))

/-- Every target service is on the manager with the target's definition and no managed
service is left that the target does not define. -/
def servicesB (S : Store) (T : Config) : Bool :=
  T.services.all (fun t => (findService S.services t.id).map (·.defn) ==
      (findService T.services t.id).map (·.defn)) &&
  S.services.all (fun s => !managed s.id || T.services.any (·.id == s.id))

/-- No managed group is left that no rule of a target policy uses. -/
def noLeftoverGroupB (S : Store) (T : Config) : Bool :=
  S.groups.all fun g => !managed g.id ||
    S.policies.any (fun p => T.policies.any (·.id == p.id) && p.rules.any (ruleUsesGroup g.id))


/-! ### The same notions as propositions (what the theorems state)

`convergedB`, `servicesB`, `noLeftoverGroupB` above are the decision procedures the oracle runs;
the theorems are stated with the propositions below (address lists compared by membership, rule
lists up to permutation). -/

inductive Forall2 {α β : Type} (R : α → β → Prop) : List α → List β → Prop
  | nil : Forall2 R [] []
  | cons {a b l m} : R a b → Forall2 R l m → Forall2 R (a :: l) (b :: m)

/-- The managed group of the target an entry of a target rule refers to, if any. -/
def targetGroup (GT : List Group) (p : String) : Option Group :=
  match groupRef p with
  | some x => if managed x then findGroupLast GT x else none
  | none => none

/-- An entry of a rule on the manager is equivalent to an entry of a target rule: a managed
target group is matched by a managed group on the manager with the same address set, anything else by
the same text. -/
def EPEquiv (GS GT : List Group) (pS pT : String) : Prop :=
  match targetGroup GT pT with
  | some gt => ∃ n g, pS = groupPath n ∧ managed n = true ∧ findGroup GS n = some g ∧ ∀ x, x ∈ g.addrs ↔ x ∈ gt.addrs
  | none => pS = pT

def RuleEquiv (S : Store) (T : Config) (rS rT : Rule) : Prop :=
  compactAttrs rS.attrs = compactAttrs rT.attrs ∧ rS.service = rT.service ∧
  EPEquiv S.groups T.groups rS.src rT.src ∧ EPEquiv S.groups T.groups rS.dst rT.dst

/-- The manager's policy `pid` carries, in some order, one equivalent rule per target rule. -/
def PolicyEquiv (S : Store) (T : Config) (pid : String) (tr : List Rule) : Prop :=
  ∃ p L, findPolicy S.policies pid = some p ∧ p.rules.Perm L ∧ Forall2 (RuleEquiv S T) L tr

def Converged (S : Store) (T : Config) : Prop :=
  (∀ pb ∈ T.policies, PolicyEquiv S T pb.id pb.rules) ∧
  (∀ p ∈ S.policies, managed p.id = true → ∃ pb ∈ T.policies, pb.id = p.id)

def ServicesConverged (S : Store) (T : Config) : Prop :=
  (∀ t ∈ T.services, (findService S.services t.id).map (·.defn) = (findService T.services t.id).map (·.defn)) ∧
  (∀ s ∈ S.services, managed s.id = true → ∃ t ∈ T.services, t.id = s.id)

def NoLeftoverGroup (S : Store) (T : Config) : Prop :=
  ∀ g ∈ S.groups, managed g.id = true →
    ∃ p ∈ S.policies, (∃ pb ∈ T.policies, pb.id = p.id) ∧ ∃ r ∈ p.rules, ruleUsesGroup g.id r = true

end NA.Nsx
