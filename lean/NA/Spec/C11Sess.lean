import NA.Spec.SessDevice
/-!
# Specification side of C11 over the session model of C09

`NA/Model/Sess.lean` + `NA/Model/Apply*.lean` (read-only here) model the whole run of
`device.ApproveOrCompare` against `Dev := List Ev → Reply`, an arbitrary function of the whole
history: any answer at any point, any number of faults.  This file only says what a compare run
may put on the wire — independent of the session programs:

* `allowedLines b`: the finite vocabulary of a compare run of backend `b` — the login dialogue
  (host-key answer, password, `enable`, the empty line that fetches the prompt), the show / GET
  commands, the terminal settings (on ASA the one configuration-mode block
  `configure terminal` / `terminal width 511` / `end`), `exit`;
* `sentAllowed b e`: event `e` is harmless — a packet whose role is not `change`, `probe` or
  `save` and whose lines are all in the vocabulary; never a copy of a start-up file;
* `answerDev l d`: the device that gives the answers of the list `l` in order (and `d` for ever
  after) — "an answer sequence".
-/
namespace NA.Spec.C11
open NA.Sess NA.Apply

/-- What a compare run may send, by backend (vocabulary of the session model: the PAN-OS / NSX
requests are named as `harness/c09` and `harness/c11` canonicalise them). -/
-- `policy` = `GET …/gateway-policies/<id>`, the rules of one Netspoc gateway policy (a read; the
-- session model has it in the part of `LoadDevice` that its assumptions make unreachable)
def allowedLines : Backend → List String
  | .asa => ["yes", "<secret>", "enable", "", "sh pager", "terminal pager 0", "sh term",
             "configure terminal", "terminal width 511", "end",
             "sh ver", "show hostname", "write term", "exit"]
  | .ios => ["yes", "<secret>", "enable", "", "term len 0", "term width 512", "sh ver", "sh run", "exit"]
  | .linux => ["yes", "<secret>", "PS1=router#", "uname -r", "uname -m", "hostname -s",
               "grep 'NetSPoC' /etc/issue", "iptables-save", "ip route show"]
  | .panos => ["keygen", "show ha", "get config"]
  | .nsx => ["session create", "gateway-policies", "policy", "services", "groups"]

/-- configuration-mode lines: only ASA has any, and only the terminal-width block -/
def configModeLines : Backend → List String
  | .asa => ["configure terminal", "terminal width 511", "end"]
  | _ => []

def allowedRole : Role → Bool
  | .login | .setup | .read | .cleanup => true
  | .change | .probe | .save => false

/-- the event is something a compare run may do -/
def sentAllowed (b : Backend) : Ev → Bool
  | .sent ρ ls => allowedRole ρ && ls.all (allowedLines b).contains
  | .scp _ => false
  | _ => true

/-- **the property as a predicate on the trace of a run** -/
def ReadOnlyTrace (b : Backend) (tr : List Ev) : Prop := ∀ e ∈ tr, sentAllowed b e = true

instance (b : Backend) (tr : List Ev) : Decidable (ReadOnlyTrace b tr) := by
  unfold ReadOnlyTrace; exact inferInstance

/-- the lines put on the wire, in order -/
def sentLines (tr : List Ev) : List String := NA.Spec.C09.linesOf tr

/-- The device that answers with the elements of `l`, one per reply read, and with `d` once the
list is used up. -/
def answerDev (l : List Reply) (d : Reply := {}) : Dev := fun tr => l.getD (repliesRead tr) d

/-! ### configuration mode

Where the dialogue is with respect to configuration mode, as a function of the lines sent so far:
`out`side; `conf` = `configure terminal` was the last line; `width` = `terminal width 511` was
sent in configuration mode; `bad` = anything else was sent while in configuration mode
(absorbing).  "The only configuration-mode command compare may send is the ASA terminal-width
session setting" = the dialogue never gets `bad`, i.e. `configure terminal` is followed by
`terminal width 511` and then `end`, or by nothing at all (the run was aborted). -/

inductive Blk | out | conf | width | bad
  deriving DecidableEq, Repr, Inhabited

def Blk.step : Blk → String → Blk
  | .out, l => if l == "configure terminal" then .conf else .out
  | .conf, l => if l == "terminal width 511" then .width else .bad
  | .width, l => if l == "end" then .out else .bad
  | .bad, _ => .bad

def stepLines (q : Blk) (ls : List String) : Blk := ls.foldl Blk.step q

def blkOf (tr : List Ev) : Blk := stepLines .out (sentLines tr)

/-- nothing but the terminal-width setting was ever sent in configuration mode -/
def ConfigBlockOk (tr : List Ev) : Prop := blkOf tr ≠ .bad

/-- the commands of the change script, flattened -/
def scriptLines (plan : List (List String)) : List String := plan.flatten

end NA.Spec.C11
