import NA.Model.GateDrv
import NA.Core.IOUtil
/-! Driver for C06 (and the session part of C11): one scenario per line → the model's run
(trace of requests, exit status, diagnostic).  Protocol: see NA/Model/GateDrv.lean. -/
def main (_ : List String) : IO UInt32 := do
  NA.IOUtil.eachLine NA.Gate.Drv.answer
  return 0
