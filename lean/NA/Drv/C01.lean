import NA.Model.AsaEngine
import NA.Spec.AsaDev
import NA.Proofs.F1Check
import NA.Core.IOUtil
/-!
Driver `nadrv-c01`: the ASA diff engine on fragment F1 (NA/Model/AsaEngine.lean) and the strict
specification-side device (NA/Spec/AsaDev.lean).

Input: one case per line, tab separated `key=value` fields
  ai  device interfaces (nameif), `,`
  ag / bg  groups   `name:m1,m2;name:…`           (members without `network-object `)
  aa / ba  ACLs     `name#body~nolog~r1,r2#…;…`   (body split at the `$REF` placeholders, parts joined by `^`)
  ab / bb  bindings `acl dir intf,…`
  ar / br  routes   `text~dst~sortKey,…`
  sa  Myers scripts of ACL pairs    `aName>bName:lowA,highA,lowB,highB/…;…`
  sg  Myers scripts of group pairs  (same; on the sorted member lists)
Output: tab separated
  rej=1                         checkASAInterfaces fails
  rej=0 valid=… wf=… k1=… k2=… iso=… script=l1|l2|…  hits=h:n,…  exec=ok|rejected@k:why  final=<view>  left=<left-over objects>
-/
namespace NA.Drv.C01
open NA.F1 NA.IOUtil
open NA.Acl (Range)

def splitOnNE (s : String) (sep : String) : List String := if s.isEmpty then [] else s.splitOn sep

def parseGroups (s : String) : List (Name × List String) :=
  (splitOnNE s ";").map fun g =>
    match g.splitOn ":" with
    | [n, ms] => (n, splitOnNE ms ",")
    | _ => (g, [])

def parseLine (s : String) : Line :=
  match s.splitOn "~" with
  | [b, nl, rs] => ⟨b.splitOn "^", nl.splitOn "^", splitOnNE rs ","⟩
  | _ => ⟨[s], [s], []⟩

def parseAcls (s : String) : List (Name × List Line) :=
  (splitOnNE s ";").map fun a =>
    match a.splitOn "#" with
    | n :: ls => (n, ls.map parseLine)
    | [] => ("", [])

def parseBinds (s : String) : List Bind :=
  (splitOnNE s ",").map fun b =>
    match b.splitOn " " with
    | [a, d, i] => ⟨a, d, i⟩
    | _ => ⟨b, "", ""⟩

def parseRoutes (s : String) : List Route :=
  (splitOnNE s ",").map fun r =>
    match r.splitOn "~" with
    | [t, d, k] => ⟨t, d, k.toNat?.getD 0⟩
    | _ => ⟨r, r, 0⟩

def parseRange (s : String) : Option Range :=
  match (splitComma s).mapM String.toNat? with
  | some [a, b, c, d] => some ⟨a, b, c, d⟩
  | _ => none

def parseScripts (s : String) : List ((Name × Name) × List Range) :=
  (splitOnNE s ";").filterMap fun e =>
    match e.splitOn ":" with
    | [k, rs] =>
      match k.splitOn ">" with
      | [a, b] => some ((a, b), (splitOnNE rs "/").filterMap parseRange)
      | _ => none
    | _ => none

def fieldsOf (line : String) : List (String × String) :=
  (splitTab line).map fun f =>
    match f.splitOn "=" with
    | k :: rest => (k, "=".intercalate rest)
    | [] => ("", "")

def get (fs : List (String × String)) (k : String) : String := (fs.lookup k).getD ""

/-- A script is valid for the key lists `a`, `b` (contiguous, in bounds, equal ranges equal). -/
def validScript (a b : List String) (rs : List Range) : Bool :=
  let all := a ++ b
  let enc := fun (l : List String) => l.map fun s => ({ key := all.idxOf s, mkey := 0, permit := true } : NA.Acl.Line)
  (NA.Acl.cellsOf (enc a) (enc b) rs).isSome

/-- No member is both deleted and inserted (holds for the optimal script of two sorted duplicate-free lists). -/
def disjointEdit (a b : List String) (rs : List Range) : Bool :=
  let dels := rs.flatMap fun r => if r.isDelete then slice a r.lowA r.highA else []
  let inss := rs.flatMap fun r => if !r.isDelete && r.isInsert then slice b r.lowB r.highB else []
  !(dels.any inss.contains)

def countHits (hs : List String) : String :=
  let keys := (sortS hs).eraseDups
  ",".intercalate (keys.map fun k => k ++ ":" ++ toString (hs.filter (· == k)).length)

def answer (line : String) : String :=
  let fs := fieldsOf line
  let a : Config := { intfs := splitOnNE (get fs "ai") ",", groups := parseGroups (get fs "ag"),
                      acls := parseAcls (get fs "aa"), binds := parseBinds (get fs "ab"), routes := parseRoutes (get fs "ar") }
  let b : Config := { groups := parseGroups (get fs "bg"), acls := parseAcls (get fs "ba"),
                      binds := parseBinds (get fs "bb"), routes := parseRoutes (get fs "br") }
  let sc : Scripts := { acl := parseScripts (get fs "sa"), grp := parseScripts (get fs "sg") }
  let e : Env := ⟨a, b, sc⟩
  let key := fun (l : Line) => "$REF".intercalate l.body
  let validA := sc.acl.all fun p => validScript ((e.aLines p.1.1).map key) ((e.bLines p.1.2).map key) p.2
  let validG := sc.grp.all fun p =>
    validScript (e.aMembers p.1.1) (e.bMembers p.1.2) p.2 && disjointEdit (e.aMembers p.1.1) (e.bMembers p.1.2) p.2
  match engine a b sc with
  | none => "rej=1"
  | some r =>
    let lines := showChanges r.script
    let ex := NA.AsaDev.run (NA.AsaDev.ofConfig a) r.script
    let exec := match ex.2 with
      | none => "ok"
      | some (k, why) => s!"rejected@{k}:{why}"
    "\t".intercalate [
      "rej=0",
      "valid=" ++ (if validA && validG then "1" else if validA then "G" else "A"),
      -- static hypotheses of the convergence theorems (NA.F1.WF, RefsClosedA, RefsClosedB)
      "wf=" ++ (if wfB e && refsClosedA e && refsClosedB e then "1" else "0"),
      -- hypothesis of the end-to-end theorem `asa_F1_converges_partial` (class K1)
      "k1=" ++ (if k1Check a b sc then "1" else "0"),
      -- hypothesis of `asa_F1_converges`, `asa_F1_unchanged_only_if_equivalent`, `asa_F1_resume_partial` (class K2)
      "k2=" ++ (if k2Check a b sc then "1" else "0:" ++ k2Why a b sc),
      -- hypothesis of `asa_F1_iso_quiet` / second half of `asa_F1_idempotent_partial` (class ISO, static)
      "iso=" ++ (if isoCheck a b sc then "1" else "0:" ++ isoWhy a b sc),
      -- phase shape of the route commands (hypotheses of NA.Route.routes_covered, proved in asa_routes_covered_every_step)
      "rshape=" ++ (if !routesInputOK a b then "-" else if routeShapeCheck a b r.script then "1" else "0"),
      "script=" ++ "|".intercalate lines,
      "hits=" ++ countHits r.hits,
      "exec=" ++ exec,
      "final=" ++ NA.AsaDev.view ex.1 (b.binds.map fun x => (x.dir, x.intf)) (!b.routes.isEmpty),
      "left=" ++ ",".intercalate (NA.AsaDev.leftovers ex.1)]

end NA.Drv.C01

def main (_ : List String) : IO UInt32 := do
  NA.IOUtil.eachLine NA.Drv.C01.answer
  return 0
