import NA.Model.MaskXml
import NA.Model.MaskSsh
import NA.Core.IOUtil
/-! Driver for C17.  One case per line, fields separated by TAB, every string argument hex encoded
(two lower-case hex digits per byte; byte `b` becomes `Char.ofNat b`).

  pass  S            -> hex (maskPass S)
  key   S            -> hex (maskKey S)
  esc   S            -> hex (queryEscape S)
  unesc S            -> hex (queryUnescape S) | ERR
  xmlkey BODY        -> ok:hex(key) | err:hex(error text; syntax errors: class only) | unsupported
  dolog S            -> hex (doLog S)
  enc   K1 V1 K2 V2… -> hex (valuesEncode [(K1,V1),…])
  keygen ADDR USER PASS KIND A B  -> model of getAPIKey, see `NA.Mask.keygen`
  prefixget LOGPREFIX PREFIX URI KIND A B -> model of httpPrefixGetLog
  panos / nsx / ssh / doapprove   -> whole-run sink models, see `NA.Mask` in MaskSinks.lean
-/
namespace NA.Drv.C17
open NA.Mask NA.IOUtil

def hexNib (c : Char) : Option Nat :=
  if '0' ≤ c ∧ c ≤ '9' then some (c.toNat - 48)
  else if 'a' ≤ c ∧ c ≤ 'f' then some (c.toNat - 87)
  else none

def unhexL : List Char → Option Str
  | [] => some []
  | a :: b :: r => do
    let x ← hexNib a
    let y ← hexNib b
    let t ← unhexL r
    pure (Char.ofNat (16 * x + y) :: t)
  | _ => none

def unhex (s : String) : Option Str := if s == "-" then some [] else unhexL s.toList

def nib (n : Nat) : Char := "0123456789abcdef".toList.getD n '?'

def hex (s : Str) : String :=
  if s.isEmpty then "-" else
  String.ofList (s.flatMap fun c => if c.toNat < 256 then [nib (c.toNat / 16), nib (c.toNat % 16)] else ['?', '?'])

def hexLines (ls : List Str) : String := ",".intercalate (ls.map hex)

def pairs : List Str → Option (List (Str × Str))
  | [] => some []
  | k :: v :: r => (pairs r).map ((k, v) :: ·)
  | _ => none

def parseReply (kind : String) (a b : Str) : Option Reply :=
  match kind with
  | "terr" => some (.terr a)
  | "status" => (String.ofList a).toNat?.map fun n => .status n b
  | "ok" => some (.ok a)
  | "fail" => some (.fail a b)
  | "trunc" => some (.trunc a b)
  | _ => none

def showSinks (s : Sinks) : String :=
  s!"login={hexLines s.login}\tconfig={hexLines s.config}\tchange={hexLines s.change}\trunlog={hexLines s.runlog}"

/-- replies: `kind:hexA:hexB` separated by `;` -/
def parseReplies (s : String) : Option (List Reply) :=
  if s == "-" then some [] else
  (s.splitOn ";").mapM fun r =>
    match r.splitOn ":" with
    | [k, a, b] => do
      let a ← unhex a
      let b ← unhex b
      parseReply k a b
    | _ => none

def parseReqs (s : String) : Option (List Req) :=
  if s == "-" then some [] else
  (s.splitOn ";").mapM fun r =>
    match r.splitOn ":" with
    | [lg, uri, wrap] => do
      let uri ← unhex uri
      let wrap ← unhex wrap
      let lg ← match lg with | "login" => some Log.login | "config" => some Log.config | "change" => some Log.change | _ => none
      pure { log := lg, uri := uri, wrap := wrap }
    | _ => none

def unhexList (s : String) : Option (List Str) :=
  if s == "-" then some [] else (s.splitOn ",").mapM unhex

def parseDev (s : String) : Option DevType :=
  match s with
  | "asa" => some .asa
  | "ios" => some .ios
  | "linux" => some .linux
  | _ => none

/-- segments: `f:hex` (complete) / `p:hex` (what had arrived when goexpect gave up), comma separated -/
def parseSegs (s : String) : Option (List Seg) :=
  if s == "-" then some [] else
  (s.splitOn ",").mapM fun x =>
    match x.splitOn ":" with
    | ["f", h] => (unhex h).map Seg.full
    | ["p", h] => (unhex h).map Seg.part
    | _ => none

/-- tail: `hexsend:hexseg` or `hexsend:~` (no segment followed), comma separated -/
def parseTail (s : String) : Option (List (Str × Option Str)) :=
  if s == "-" then some [] else
  (s.splitOn ",").mapM fun x =>
    match x.splitOn ":" with
    | [c, "~"] => (unhex c).map fun c => (c, none)
    | [c, g] => do
      let c ← unhex c
      let g ← unhex g
      pure (c, some g)
    | _ => none

def parseNsxLogin (s : String) : Option NsxLogin :=
  match s.splitOn ":" with
  | ["terr", m, _] => (unhex m).map .terr
  | ["resp", st, code] => do
    let st ← unhex st
    let code ← unhex code
    let n ← (String.ofList code).toNat?
    pure (.resp st n)
  | _ => none

/-- requests: `op:method:path:log:before,before:after,after` separated by `;` -/
def parseNsxReqs (s : String) : Option (List NsxReq) :=
  if s == "-" then some [] else
  (s.splitOn ";").mapM fun r =>
    match r.splitOn ":" with
    | [op, method, path, lg, before, after] => do
      let op ← unhex op
      let method ← unhex method
      let path ← unhex path
      let before ← unhexList before
      let after ← unhexList after
      let lg ← match lg with | "login" => some Log.login | "config" => some Log.config | "change" => some Log.change | _ => none
      pure { op := op, method := method, path := path, log := lg, before := before, after := after }
    | _ => none

def answer (line : String) : String :=
  match splitTab line with
  | cmd :: args =>
    match args.mapM unhex with
    | none =>
      -- commands with structured (non-hex) arguments
      match cmd, args with
      | "panos", [addr, user, pass, name, ip, kg, key, reqs, reps] =>
        match unhex addr, unhex user, unhex pass, unhex name, unhex ip, parseReplies kg, unhex key, parseReqs reqs, parseReplies reps with
        | some addr, some user, some pass, some name, some ip, some [kg], some key, some reqs, some reps =>
          showSinks (panosRun addr user pass name ip kg key reqs reps)
        | _, _, _, _, _, _, _, _, _ => "bad-input"
      | "sshsess", [dev, pass, host, banner, errText, segs, applies, reads, errLines] =>
        match parseDev dev, unhex pass, unhex host, unhex banner, unhex errText, parseSegs segs, unhexList reads, unhex errLines with
        | some dt, some pass, some host, some banner, some errText, some segs, some reads, some errLines =>
          -- the modelled phase consumes segments and predicts sends; whatever the device read beyond
          -- them is the tail (commands of the change script), paired with the segments that followed
          let o := run pass errText (loadProg dt host banner) [] segs
          let tailReads := reads.drop (sendsOf o.ops).length
          let tailReads := if errLines.isEmpty && tailReads.getLast? == some "exit".toList then tailReads.dropLast else tailReads
          let segText : Seg → Str := fun g => match g with | .full x => x | .part x => x
          let rec pair : List Str → List Seg → List (Str × Option Str)
            | [], _ => []
            | c :: cs, [] => (c, none) :: pair cs []
            | c :: cs, g :: gs => (c, some (segText g)) :: pair cs gs
          let ops := sessionOps (loadProg dt host banner) pass errText segs (applies == "1") (pair tailReads o.rest) errLines
          -- the chunk-level echoing device that reproduces the same chunks: an element echoes iff its
          -- chunk starts with the line the device had just received
          let rec edev : List Op → Str → EDev
            | [], _ => []
            | .send c :: r, _ => edev r c
            | .expect c :: r, last =>
              let n := crlf2lf c
              let sp := n.takeWhile (· == ' ')
              let rest := n.dropWhile (· == ' ')
              (if (last ++ ['\n']).isPrefixOf rest then (sp, rest.drop (last.length + 1), true) else ([], n, false)) :: edev r []
            | _ :: r, last => edev r last
          -- … over the whole session when it ran to its end: login program followed by the change
          -- script (the lines the device read beyond the modelled sends), every command answered
          let whole := o.finished && errLines.isEmpty && tailReads.length ≤ o.rest.length
          let full := if whole then ops else o.ops
          let dev := edev full []
          let prog := if whole then sessionProg dt host banner (applies == "1") tailReads else loadProg dt host banner
          let opsE := runE pass prog [] dev
          let flat (l : List Str) : Str := (l.map crlf2lf).flatten
          let same := !o.finished ||
            (flat (sshRun opsE).login == flat (sshRun full).login && flat (sshRun opsE).config == flat (sshRun full).config &&
              flat (sshRun opsE).change == flat (sshRun full).change &&
              sendsOf opsE == (if whole then sendsOf (o.ops ++ tailPairs (pair tailReads o.rest)) else sendsOf o.ops))
          let b (x : Bool) : Str := if x then ['1'] else ['0']
          s!"sends={hexLines (sendsOf ops)}\tfinished={hexLines [b o.finished]}\techoModel={hexLines [b same]}\twhole={hexLines [b whole]}\tnoecho={hexLines [b (noEchoAtPasswordPrompt dev)]}\t{showSinks (sshRun ops)}"
        | _, _, _, _, _, _, _, _ => "bad-input"
      | "nsx", [pre, user, pass, token, cookie, name, login, reqs, reps] =>
        match unhex pre, unhex user, unhex pass, unhex token, unhex cookie, unhex name, parseNsxLogin login,
            parseNsxReqs reqs, parseReplies reps with
        | some pre, some user, some pass, some token, some cookie, some name, some login, some reqs, some reps =>
          showSinks (nsxRun pre user pass token cookie name login reqs reps)
        | _, _, _, _, _, _, _, _, _ => "bad-input"
      | _, _ => "bad-input"
    | some as =>
      match cmd, as with
      | "pass", [s] => hex (maskPass s)
      | "key", [s] => hex (maskKey s)
      | "esc", [s] => hex (queryEscape s)
      | "unesc", [s] => match queryUnescape s with | some r => hex r | none => "ERR"
      | "dolog", [s] => hex (doLog s)
      | "quote", [s] => hex (goQuote s)
      | "enc", kvs => match pairs kvs with | some l => hex (valuesEncode l) | none => "bad-input"
      | "keygen", [addr, user, pass, kind, a, b] =>
        match parseReply (String.ofList kind) a b with
        | some r =>
          let o := keygen addr user pass r
          s!"log={hexLines o.1}\terr={match o.2 with | some e => hex e | none => "none"}"
        | none => "bad-input"
      | "prefixget", [logPre, pre, uri, kind, a, b] =>
        match parseReply (String.ofList kind) a b with
        | some r =>
          let o := prefixGet logPre pre uri r
          s!"log={hexLines o.1}\terr={match o.2 with | some e => hex e | none => "none"}"
        | none => "bad-input"
      | "nsxlogin", [pre, user, pass, status] => hexLines (nsxLoginLog pre user pass status)
      | "sshlog", outs => hex (sshLog outs)
      | "xmlkey", [body] =>
        match parseAPIKeyM body with
        | .ok k => "ok:" ++ hex k
        | .unsupported => "unsupported"
        | r => "err:" ++ hex ((r.errText).getD [])
      | _, _ => "bad-input"
  | [] => "bad-input"

end NA.Drv.C17

def main (_ : List String) : IO UInt32 := do
  NA.IOUtil.eachLine NA.Drv.C17.answer
  return 0
