import NA.Model.Lock
import NA.Spec.FlockPath
import NA.Core.IOUtil
/-! Driver for C12 (core only): executes the lock model.
One request per line, fields separated by TAB:

* `base<TAB>STRING`                     → `path.Base` of the model (`NA.Flock.base`)
* `lock<TAB>BASEDIR<TAB>ARG`            → the lock file `device.SetLock(ARG)` derives (`NA.Flock.lockPath`)
* `run<TAB>SPECS<TAB>SCHEDULE`          → outcome of that schedule
* `reach<TAB>SPECS<TAB>KILLABLE`        → all outcome vectors reachable by any interleaving
                                           (KILLABLE: comma separated pids that may be killed)

SPECS: invocations separated by `|`, each `d:ARG` (drc ARG) or `a:ARG` (do-approve … ARG).
SCHEDULE: comma separated macro actions, `X<pid>`:
  `s` one step, `f` one failing step, `k` SIGKILL, `g` finaliser, `r` the child (ssh) of the process ends,
  `c` that child reaches its `exec`, `F` run until the child has been forked but has NOT reached `exec`
  (in all other macros the child execs right after the fork),
  `X<10*pid+k>` run the process and take its k-th (0-based) conditional early return,
  `L` run until the flock step has been executed (or the process ended),
  `S` run until the device session has begun (or the process ended),
  `P` run until the device session is over (history RES:/END: and the status file still to be written),
  `R` run to the end.
Outcome: `procs=<v0>,<v1>,…;dev=<pids>;hist=<file>[<pid:tag,…>]…;status=<pids>` where `<vi>` is made of
`W` (acquired the lock at some time), `L` (a flock failed), `K` (killed), then the exit code or `*`;
`dev` lists the pids of the device sessions in order of their beginning, `hist` the history lines
(START/POLICY/END) in file order, `status` the pids that wrote the status file, in order. -/
namespace NA.Drv.C12
open NA.Lock NA.LockSkel NA.IOUtil NA.Flock

def parseSpec (s : String) : Option Spec :=
  match s.splitOn ":" with
  | k :: rest =>
    let arg := ":".intercalate rest
    if rest.isEmpty then none
    else if k == "d" then some ⟨.drc, arg⟩
    else if k == "a" then some ⟨.doApprove, arg⟩
    else none
  | _ => none

/-- one step of process `i`; the child it forks for its device session reaches `exec` at once
(`autoExec`), as it does in every run that is not disturbed in the fork window -/
def step1 (w : World) (i : Pid) (autoExec : Bool) : World :=
  let forks := spawns (w.procs i) && (w.procs i).st == .running
  let w' := exec w (.step i)
  if forks && autoExec then exec w' (.cexec i) else w'

def stepsUntil (w : World) (i : Pid) (stop : Proc → List Ev → Bool) (autoExec : Bool := true) : Nat → World
  | 0 => w
  | fuel + 1 =>
    let p := w.procs i
    if p.st != .running || stop p w.trace then w
    else stepsUntil (step1 w i autoExec) i stop autoExec fuel

def pastFlock (i : Pid) (_ : Proc) (tr : List Ev) : Bool := tr.any fun e => e.pid == i && e.step == .flock
def afterSession (i : Pid) (_ : Proc) (tr : List Ev) : Bool := tr.any fun e => e.pid == i && e.step == .devEnd
def inSession (i : Pid) (_ : Proc) (tr : List Ev) : Bool := tr.any fun e => e.pid == i && e.step == .devBegin

/-- run process `i`, passing conditional returns, and take the `k`-th one -/
def earlyExit (w : World) (i : Pid) (k : Nat) : Nat → World
  | 0 => w
  | fuel + 1 =>
    let p := w.procs i
    if p.st != .running then w
    else match p.prog with
      | .mayExit _ :: _ =>
        if k == 0 then exec w (.fail i) else earlyExit (exec w (.step i)) i (k - 1) fuel
      | _ => earlyExit (step1 w i true) i k fuel

def applyMacro (w : World) (c : Char) (i : Pid) : Option World :=
  match c with
  | 'r' => some (exec w (.reap i))
  | 'c' => some (exec w (.cexec i))
  | 'F' => some (stepsUntil w i (inSession i) false 200)
  | 'X' => some (earlyExit w (i / 10) (i % 10) 200)
  | 's' => some (step1 w i true)
  | 'f' => some (exec w (.fail i))
  | 'k' => some (exec w (.kill i))
  | 'g' => some (exec w (.gc i))
  | 'L' => some (stepsUntil w i (pastFlock i) true 200)
  | 'S' => some (stepsUntil w i (inSession i) true 200)
  | 'P' => some (stepsUntil w i (afterSession i) true 200)
  | 'R' => some (stepsUntil w i (fun _ _ => false) true 200)
  | _ => none

def parseMacro (s : String) : Option (Char × Pid) :=
  match s.toList with
  | c :: ds => (String.ofList ds).toNat?.map fun n => (c, n)
  | [] => none

def procVec (w : World) (n : Nat) : String :=
  let one (i : Nat) : String :=
    let p := w.procs i
    (if p.everHeld then "W" else "") ++ (if p.lost then "L" else "") ++
    (match p.st with | .killed => "K*" | .exited c => toString c | .running => "*")
  ",".intercalate ((List.range n).map one)

def tagName (t : String) : String := (t.replace "\"" "").replace ":" ""

def dedupAdj : List Nat → List Nat
  | a :: b :: rest => if a == b then dedupAdj (b :: rest) else a :: dedupAdj (b :: rest)
  | l => l

def insertSorted (s : String) : List String → List String
  | [] => [s]
  | a :: rest => if s ≤ a then s :: a :: rest else a :: insertSorted s rest

def outcome (w : World) (n : Nat) : String :=
  let tr := w.trace.reverse
  let dev := tr.filterMap fun e => if e.step == .devBegin then some (toString e.pid) else none
  let hs := tr.filterMap fun e =>
    match e.step with
    | .hist t => if tagName t == "RES" then none else some (e.file, s!"{e.pid}:{tagName t}")
    | _ => none
  let files := (hs.map (·.1)).foldl (fun acc f => if acc.contains f then acc else insertSorted f acc) []
  let hist := files.map fun f => f ++ "[" ++ joinComma ((hs.filter (·.1 == f)).map (·.2)) ++ "]"
  let st := dedupAdj (tr.filterMap fun e => if e.step == .status then some e.pid else none)
  s!"procs={procVec w n};dev={joinComma dev};hist={String.join hist};status={joinComma (st.map toString)}"

def parseSpecs (s : String) : Option (List Spec) := (splitBar s).mapM parseSpec

def runSchedule (specs : List Spec) (sched : String) : Option World :=
  (splitComma sched).foldlM (init := mkWorld specs) fun w m => do
    let (c, i) ← parseMacro m
    applyMacro w c i

/-- All outcome vectors over interleavings of the macro steps L, S, R of every process, with
optional kills of the listed processes at any point. `stage i` = how many macros process i has done. -/
partial def reach (n : Nat) (killable : List Nat) (w : World) (stage : List Nat) (killed : List Nat)
    (acc : List String) : List String :=
  let running := (List.range n).filter fun i => (w.procs i).st == .running
  if running.isEmpty then
    let v := procVec w n
    if acc.contains v then acc else v :: acc
  else
    running.foldl (init := acc) fun acc i =>
      let st := stage.getD i 0
      let c := if st == 0 then 'L' else if st == 1 then 'S' else 'R'
      let w' := (applyMacro w c i).getD w
      let acc := reach n killable w' (stage.set i (st + 1)) killed acc
      if killable.contains i && !killed.contains i then
        reach n killable (exec w (.kill i)) stage (i :: killed) acc
      else acc

def answer (line : String) : String :=
  match splitTab line with
  | ["base", s] => NA.Flock.base s
  | ["base"] => NA.Flock.base ""
  | ["lock", basedir, arg] => NA.Flock.lockPath basedir arg
  | ["lock", basedir] => NA.Flock.lockPath basedir ""
  | ["run", specs, sched] =>
    match parseSpecs specs with
    | none => "bad-specs"
    | some sp =>
      match runSchedule sp sched with
      | none => "bad-schedule"
      | some w => outcome w sp.length
  | ["reach", specs, kills] =>
    match parseSpecs specs, natList kills with
    | some sp, some ks =>
      let vs := reach sp.length ks (mkWorld sp) (List.replicate sp.length 0) [] []
      " ".intercalate (vs.foldl (fun acc v => insertSorted v acc) [])
    | _, _ => "bad-input"
  | _ => "bad-request"

end NA.Drv.C12

def main (_ : List String) : IO UInt32 := do
  NA.IOUtil.eachLine NA.Drv.C12.answer
  return 0
