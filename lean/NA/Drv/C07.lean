import NA.Model.DeleteUnused
import NA.Core.IOUtil
/-! Driver for C07 (Cisco clean-up): runs the model of `deleteUnused` on one command table per line.
Input : entries separated by ';', each `id kind tagged clear cmds`; cmds separated by '+', each
        `<needed><toDelete>|<refs, comma separated>|<subs separated by '&', each <needed>:<refs>>`
Output: the change commands joined by ';' (`-` if none), or `NEVER-ENDS`. -/
namespace NA.Drv.C07
open NA.DelUnused NA.IOUtil

def bit (s : String) : Option Bool := match s with | "0" => some false | "1" => some true | _ => none

def parseSub (s : String) : Option Sub :=
  match s.splitOn ":" with
  | [n, r] => do pure ⟨← bit n, ← natList r⟩
  | _ => none

def parseCmd (s : String) : Option Cmd :=
  match s.splitOn "|" with
  | [bits, refs, subs] => do
    let (n, t) ← match bits.toList with
      | [a, b] => do pure (← bit (String.singleton a), ← bit (String.singleton b))
      | _ => none
    let ss ← (if subs.isEmpty then [] else subs.splitOn "&").mapM parseSub
    pure ⟨n, t, ← natList refs, ss⟩
  | _ => none

def parseObj (s : String) : Option Obj :=
  match s.splitOn " " with
  | [i, k, t, c, cmds] => do
    let cs ← (if cmds.isEmpty then [] else cmds.splitOn "+").mapM parseCmd
    pure ⟨← i.toNat?, ← k.toNat?, ← bit t, ← bit c, cs⟩
  | _ => none

def answer (line : String) : String :=
  match (if line.isEmpty then [] else line.splitOn ";").mapM parseObj with
  | none => "bad-input"
  | some w =>
    match deleteUnused w with
    | none => "NEVER-ENDS"
    | some [] => "-"
    | some cs => ";".intercalate cs

end NA.Drv.C07

def main : IO Unit := NA.IOUtil.eachLine NA.Drv.C07.answer
