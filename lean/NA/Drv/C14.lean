import NA.Spec.AclDev
import NA.Core.IOUtil
import NA.Props.AsaSafe
import NA.Props.IosSafe
/-!
Driver for the ACL line planners (serves C14, and the ACL streams of C01/C02/C08/C10).

Input  (tab separated): backend(asa|ios)  U  a-lines  b-lines  ranges  impl-ops
  line   : key:mkey:act:mask   (act ∈ p,d,r), lines separated by `|`
  range  : lowA,highA,lowB,highB, separated by `|`
  ops    : ASA `A pos key` `D pos key` `M dpos akey apos bkey`;
           IOS `A num key` `D num` `M dnum anum key` `T key` `P key`; `X` = bad; separated by `|`; `-` = not given
Output (tab separated key=value): valid norm model agree  and for impl/model scripts:
  <who>.exec=ok|rejected@k  <who>.final=equal|blockequiv|differs  <who>.risk=none|k:p:pred
-/
namespace NA.Drv.C14
open NA.Acl NA.IOUtil

def parseLine (s : String) : Option Line :=
  match s.splitOn ":" with
  | [k, mk, a, m] => do
    let k ← k.toNat?; let mk ← mk.toNat?; let m ← m.toNat?
    match a with
    | "p" => some { key := k, mkey := mk, permit := true, mask := m }
    | "d" => some { key := k, mkey := mk, permit := false, mask := m }
    | "r" => some { key := k, mkey := mk, permit := false, remark := true, mask := 0 }
    | _ => none
  | _ => none

def parseRange (s : String) : Option Range :=
  match (splitComma s).mapM String.toNat? with
  | some [a, b, c, d] => some ⟨a, b, c, d⟩
  | _ => none

def findLine (ls : List Line) (k : Nat) : Line := (ls.find? (·.key == k)).getD { key := k, mkey := k, permit := false }

def parseAsaOp (ls : List Line) (s : String) : Option Op :=
  match s.splitOn " " with
  | ["A", p, k] => do some (.add (← p.toNat?) (findLine ls (← k.toNat?)))
  | ["D", p, k] => do some (.del (← p.toNat?) (findLine ls (← k.toNat?)))
  | ["M", dp, ak, ap, bk] => do
    some (.move (← dp.toNat?) (findLine ls (← ak.toNat?)) (← ap.toNat?) (findLine ls (← bk.toNat?)))
  | ["X"] => some .bad
  | _ => none

def parseIosOp (ls : List Line) (s : String) : Option IOp :=
  match s.splitOn " " with
  | ["A", n, k] => do some (.add (← n.toNat?) (findLine ls (← k.toNat?)))
  | ["D", n] => do some (.del (← n.toNat?))
  | ["M", dn, an, k] => do some (.move (← dn.toNat?) (← an.toNat?) (findLine ls (← k.toNat?)))
  | ["T", k] => do some (.delText (findLine ls (← k.toNat?)))
  | ["P", k] => do some (.append (findLine ls (← k.toNat?)))
  | ["X"] => some .bad
  | _ => none

def showAsaOp : Op → String
  | .add p l => s!"A {p} {l.key}"
  | .del p l => s!"D {p} {l.key}"
  | .move dp a ap b => s!"M {dp} {a.key} {ap} {b.key}"
  | .bad => "X"

def showIosOp : IOp → String
  | .add n l => s!"A {n} {l.key}"
  | .del n => s!"D {n}"
  | .move dn an l => s!"M {dn} {an} {l.key}"
  | .delText l => s!"T {l.key}"
  | .append l => s!"P {l.key}"
  | .bad => "X"

/-- Classify an unsafe step for the known-findings filter (F-C14 / F-C14b). -/
def classifyAsa (b : List Line) (before after : List Line) (op : Op) (later : List Op) (p : Nat) : String :=
  match op with
  | .move dp _ ap _ =>
    -- the line that now decides the packet
    let hit := after.find? (·.hits p)
    let pendingGone := match hit with
      | some h => !(b.any (·.key == h.key)) || later.any (fun o => match o with
          | .move _ a _ _ => a.key == h.key | .del _ a => a.key == h.key | _ => false)
      | none => false
    if dp < ap + 1 && dp ≤ ap && pendingGone then "move_down_across_pending_opposite_delete"
    else if pendingGone then "move_across_pending_delete_other" else "move_other"
  | .add .. => "add" | .del .. => "del" | .bad => "bad"
  |> fun s => if before.length == 0 then s else s

def classifyIos (b : List Line) (after : List Line) (op : IOp) (later : List IOp) (p : Nat)
    (numOf : Line → Option Nat) : String :=
  match op with
  | .move dn an _ =>
    let hit := after.find? (·.hits p)
    let pendingGone := match hit with
      | some h => !(b.any (·.key == h.key)) || later.any (fun o => match o with
          | .move d _ _ => some d == numOf h | .del d => some d == numOf h | _ => false)
      | none => false
    if dn < an && pendingGone then "move_down_across_pending_opposite_delete"
    else if pendingGone then "move_across_pending_delete_other" else "move_other"
  | .delText _ | .append _ => "ios_no_common_line_delete_all_first"
  | .add .. => "add" | .del .. => "del" | .bad => "bad"

def oracleAsa (u : Nat) (a b : List Line) (ops : List Op) : String :=
  -- execute step by step
  let rec go (s : List Line) (ops : List Op) (k : Nat) (uns : Option String) : String × List Line × Option String :=
    match ops with
    | [] => ("ok", s, uns)
    | op :: rest =>
      match asaExec1 s op with
      | none => (s!"rejected@{k}", s, uns)
      | some s' =>
        let uns := match uns with
          | some x => some x
          | none => match badPackets u a b s' with
            | p :: _ => some s!"{k}:{p}:{classifyAsa b s s' op rest p}"
            | [] => none
        go s' rest (k + 1) uns
  let (ex, fin, un) := go a ops 0 none
  let final := if fin == b then "equal" else if blockEquiv fin b then "blockequiv" else "differs"
  let keys (l : List Line) := joinComma (l.map fun x => toString x.key)
  let states := match asaTrace a ops with
    | some ss => ";".intercalate (ss.map keys)
    | none => ""
  s!"exec={ex}\tfinal={final}\trisk={un.getD "none"}\tfinalkeys={keys fin}\tstates={states}"

def oracleIos (u : Nat) (a b : List Line) (ops : List IOp) : String :=
  let s0 : IosAcl := iosReseq (a.map fun l => (0, l)) 10000 10000
  let rec go (s : IosAcl) (ops : List IOp) (k : Nat) (uns : Option String) : String × IosAcl × Option String :=
    match ops with
    | [] => ("ok", s, uns)
    | op :: rest =>
      match iosExec1 s op with
      | none => (s!"rejected@{k}", s, uns)
      | some s' =>
        let uns := match uns with
          | some x => some x
          | none => match badPackets u a b (iosLines s') with
            | p :: _ => some s!"{k}:{p}:{classifyIos b (iosLines s') op rest p (fun l => (s'.find? (·.2 == l)).map (·.1))}"
            | [] => none
        go s' rest (k + 1) uns
  let (ex, fin, un) := go s0 ops 0 none
  let fl := iosLines fin
  let final := if fl == b then "equal" else if blockEquiv fl b then "blockequiv" else "differs"
  let keys (l : List Line) := joinComma (l.map fun x => toString x.key)
  let states := match iosTrace s0 ops with
    | some ss => ";".intercalate (ss.map fun s => keys (iosLines s))
    | none => ""
  s!"exec={ex}\tfinal={final}\trisk={un.getD "none"}\tfinalkeys={keys fl}\tstates={states}"

/-- The decidable hypotheses of `asa_steps_safe_partial`, evaluated on the case: when all hold, the theorem
says every state of the model's script is safe (the harness reports a contradiction if the real script,
equal to the model's, shows a risk). -/
def asaSafeClass (M : List Cell) : String :=
  let nd := decide ((olds M).map (·.mkey)).Nodup && decide ((news M).map (·.mkey)).Nodup
  let nc := NoCross M
  let ms := MoveSem M
  let nm := NoMoves M
  let b (x : Bool) := if x then "1" else "0"
  s!"safe.nodup={b nd}\tsafe.nocross={b nc}\tsafe.movesem={b ms}\tsafe.nomoves={b nm}\tsafe.hyp={b (nd && nc && ms)}"

/-- The decidable hypotheses of `ios_steps_safe_partial`. -/
def iosSafeClass (M : List Cell) : String :=
  let nd := decide ((olds M).map (·.mkey)).Nodup && decide ((news M).map (·.mkey)).Nodup
  let both := M.any fun c => c.old && c.new
  let shape := noJunk M && runsShortB M
  let nc := NA.IosSafe.NoCrossIos M
  let ms := MoveSem M
  let nr := M.all fun c => !c.line.remark
  let wf := (delIdx M).all fun i => (addIdx M).all fun j =>
    !((M.getD i default).line.mkey == (M.getD j default).line.mkey) ||
      decide (LineEqv (M.getD i default).line (M.getD j default).line)
  let b (x : Bool) := if x then "1" else "0"
  s!"safe.nodup={b nd}\tsafe.both={b both}\tsafe.nocross={b nc}\tsafe.movesem={b ms}\tsafe.noremark={b nr}\tsafe.wf={b wf}\tsafe.hyp={b (nd && both && shape && nc && ms && nr && wf)}"

def prefixFields (pre : String) (s : String) : String :=
  "\t".intercalate ((s.splitOn "\t").map fun f => pre ++ f)

def answer (line : String) : String :=
  match splitTab line with
  | [backend, u, al, bl, rl, il] =>
    match u.toNat?, (splitBar al).mapM parseLine, (splitBar bl).mapM parseLine, (splitBar rl).mapM parseRange with
    | some u, some a, some b, some rs =>
      match cellsOf a b rs with
      | none => "valid=0"
      | some M =>
        let norm := if normalised M then "1" else "0"
        let all := a ++ b
        if backend == "asa" then
          let model := planASA M
          let ms := joinBar (model.map showAsaOp)
          let implOps := if il == "-" then none else (splitBar il).mapM (parseAsaOp all)
          let agree := if il == "-" then "na" else if il == ms then "1" else "0"
          let io := match implOps with
            | some ops => prefixFields "impl." (oracleAsa u a b ops)
            | none => "impl.exec=na"
          s!"valid=1\tnorm={norm}\tmodel={ms}\tagree={agree}\t{asaSafeClass M}\t{io}\t{prefixFields "model." (oracleAsa u a b model)}"
        else if backend == "ios" then
          let model := planIOS M
          let ms := joinBar (model.map showIosOp)
          let implOps := if il == "-" then none else (splitBar il).mapM (parseIosOp all)
          let agree := if il == "-" then "na" else if il == ms then "1" else "0"
          let io := match implOps with
            | some ops => prefixFields "impl." (oracleIos u a b ops)
            | none => "impl.exec=na"
          let rs := if (planIOS' M).2 then "1" else "0"
          s!"valid=1\tnorm={norm}\tmodel={ms}\tagree={agree}\tremarkSuppr={rs}\t{iosSafeClass M}\t{io}\t{prefixFields "model." (oracleIos u a b model)}"
        else "bad-backend"
    | _, _, _, _ => "bad-input"
  | _ => "bad-input"

end NA.Drv.C14

def main (_ : List String) : IO UInt32 := do
  NA.IOUtil.eachLine NA.Drv.C14.answer
  return 0
