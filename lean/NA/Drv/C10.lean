import NA.Core.IOUtil
/-! Driver stub for C10 (not built yet): echoes its input. -/
def main (_ : List String) : IO UInt32 := do
  NA.IOUtil.eachLine id
  return 0
