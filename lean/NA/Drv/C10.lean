import NA.Core.IOUtil
import NA.Model.CryptoMapDev
import NA.Proofs.VpnGraphFinal
import NA.Proofs.VpnGraphRefs
import NA.Proofs.VpnGraphStable
import NA.Model.VpnGraphCertDev
/-!
Driver `nadrv-c10`: the crypto map models of `NA.Vpn` on one case per line.

* `E<TAB>ai=…<TAB>ats=…<TAB>am=…<TAB>ab=…<TAB>bts=…<TAB>bm=…<TAB>bb=…` → `ok<TAB>line|line|…<TAB>acc+conv|acc|rej<TAB>line|…` (the change
  list of `NA.Vpn.engine`, whether `NA.Vpn.applyAll` accepts it, the change list of a second run on the result) or `abort`.
* `M<TAB>cmd#cmd#…<TAB>cmd#cmd#…` (device commands, target commands; `cmd` = `id~name~seq~key~peer`)
  → `ok<TAB>call;call;…` with `call` = `aIds>bId:name:seq,…` (the calls of `f` in `matchCryptoMap`) or `abort`.

Field syntax: lists of objects separated by `;`, fields by `~`, commands of one crypto map by `#`
(first element: `NAME~drc`), references by `,`; `peer` = `S:<ip>` / `D:<name>` / empty.
-/
open NA.IOUtil NA.Vpn

def splitNE (s : String) (sep : String) : List String := if s.isEmpty then [] else s.splitOn sep

def parsePeer (s : String) : Option Peer :=
  if s.startsWith "S:" then some (.static (s.drop 2).toString)
  else if s.startsWith "D:" then some (.dyn (s.drop 2).toString)
  else none

def parseInt (s : String) : Int := s.toInt?.getD 0

/-- `id~seq~key~orig~peer~refs~attr` -/
def parseCmd (name : String) (s : String) : Cmd × String :=
  match s.splitOn "~" with
  | [id, seq, key, orig, peer, refs, attr] =>
    ({ id := id.toNat?.getD 0, name := name, seq := parseInt seq, key := key, attr := attr, body := key.splitOn "$REF",
       refs := splitNE refs ",", peer := parsePeer peer }, orig)
  | _ => ({ name := name, seq := 0, key := "?" }, "?")

def parseMap (s : String) : String × Bool × List (Cmd × String) :=
  match s.splitOn "#" with
  | hd :: cmds =>
    match hd.splitOn "~" with
    | [name, drc] => (name, drc == "1", cmds.map (parseCmd name))
    | _ => ("?", false, [])
  | [] => ("?", false, [])

def parseTS (s : String) : String × String × Bool :=
  match s.splitOn "~" with
  | [n, c, d] => (n, c, d == "1")
  | [n, c] => (n, c, false)
  | _ => ("?", "?", false)

def parseBind (s : String) : String × String :=
  match s.splitOn "~" with
  | [m, i] => (m, i)
  | _ => ("?", "?")

def field (fs : List String) (k : String) : String :=
  match fs.find? (fun f => f.startsWith (k ++ "=")) with
  | some f => (f.drop (k.length + 1)).toString
  | none => ""

def runEngine (fs : List String) : String :=
  let a : Config := { intfs := splitNE (field fs "ai") ",", ts := (splitNE (field fs "ats") ";").map parseTS,
                      maps := (splitNE (field fs "am") ";").map parseMap, binds := (splitNE (field fs "ab") ";").map parseBind }
  let b : Config := { ts := (splitNE (field fs "bts") ";").map parseTS,
                      maps := (splitNE (field fs "bm") ";").map parseMap, binds := (splitNE (field fs "bb") ";").map parseBind }
  match engine a b with
  | some cs =>
    -- the model's script on the Lean device, and the second run on the result
    let second := match applyAll a cs with
      | some a1 => (if viewOn (managedIntfs b) a1 == viewOn (managedIntfs b) b then "acc+conv\t" else "acc\t") ++ (match script a1 b with
        | some ls => "|".intercalate ls
        | none => "abort")
      | none => "rej\t"
    "ok\t" ++ "|".intercalate (cs.map Chg.render) ++ "\t" ++ second
  | none => "abort"

/-- `id~name~seq~key~peer` -/
def parseMCmd (s : String) : Cmd :=
  match s.splitOn "~" with
  | [id, name, seq, key, peer] => { id := id.toNat?.getD 0, name := name, seq := parseInt seq, key := key, peer := parsePeer peer }
  | _ => { name := "?", seq := 0, key := "?" }

def showCall (c : Call) : String :=
  ",".intercalate (c.a.map fun x => toString x.id) ++ ">" ++
    ",".intercalate (c.b.map fun x => toString x.id ++ ":" ++ x.name ++ ":" ++ toString x.seq)

def runMatch (a b : String) : String :=
  match matchCryptoMap ((splitNE a "#").map parseMCmd) ((splitNE b "#").map parseMCmd) with
  | some calls => "ok\t" ++ ";".intercalate (calls.map showCall)
  | none => "abort"

/-! ### op G: named object graphs (`NA.Vpn.G`) — objects separated by \x01, fields by \x02, lines by \x03,
sections by \x04 (`head \x05 mode \x05 subs`), sub-commands by \x06 (`key \x07 orig \x07 refkind \x07 refname`) -/

def parseKind (s : String) : G.Kind :=
  if s == "acl" then .acl else if s == "gp" then .gp else if s == "pool" then .pool
  else if s == "tg" then .tg else if s == "user" then .user else if s == "certmap" then .certmap else .aaa

def parseGSub (s : String) : G.Sub :=
  match s.splitOn "\x07" with
  | [key, orig, rk, rn] => { key := key, body := key.splitOn "$REF", orig := orig,
                             ref := if rk.isEmpty then none else some (parseKind rk, rn) }
  | _ => { key := "?" }

def parseGSec (s : String) : G.Sec :=
  match s.splitOn "\x05" with
  | [head, mode, subs] => { head := head, mode := mode == "1", subs := (splitNE subs "\x06").map parseGSub }
  | _ => { head := "?" }

def parseGObj (s : String) : G.Obj :=
  match s.splitOn "\x02" with
  | [k, n, d, anc, ls, secs] =>
    { kind := parseKind k, name := n, drc := (d == "1"), anchor := (anc == "1"),
      lines := splitNE ls "\x03", secs := (splitNE secs "\x04").map parseGSec }
  | _ => { kind := .aaa, name := "?" }

def runGraph (fs : List String) : String :=
  let a := (splitNE (field fs "a") "\x01").map parseGObj
  let b := (splitNE (field fs "b") "\x01").map parseGObj
  match G.run a b with
  | some st =>
    if st.outside then "outside" else
    -- the model's script on the Lean device: accepted? equivalent to the target? unmanaged objects untouched? second run?
    let tail := match G.execAll { objs := a } st.out with
      | some d =>
        "acc" ++ (if G.view d.objs == G.view b then "+conv" else "") ++
          (if G.frame a d.objs == G.frame a a then "+frame" else "") ++
          -- the hypotheses of `graph_converges_partial` (second compare empty, result well-formed) and its conclusion
          (if G.wfB d.objs b && G.wf2B d.objs b && G.engine d.objs b == some [] then "+stable" else "") ++
          (if (d.objs.filter (fun (o : G.Obj) => o.anchor)).all (fun o => G.eqv G.fuel d.objs b o.id o.id) &&
              (b.filter (fun (o : G.Obj) => o.anchor)).all (fun o => d.objs.any fun x => x.anchor && x.id == o.id) then "+eqv" else "") ++ "\t" ++
          (match G.script d.objs b with
           | some ls => "|".intercalate ls
           | none => "abort")
      | none => "rej\t"
    -- the decidable hypotheses of the C07 theorems with R = everything the device's anchors reach
    let hyp := (if G.closedB (G.managedSet a) a && G.anchorsB (G.managedSet a) a && G.kindByKeyB a b then "+hyp" else "") ++
      (if G.wfB a b && G.kindByKeyB a b then "+wf" else "") ++ (if G.wfB a b && G.wf2B a b then "+wf2" else "") ++
      (if (G.Ranked.decB a && G.Ranked.decB b) then "+ranked" else "")
    "ok\t" ++ "|".intercalate (st.out.map G.Chg.render) ++ "\t" ++ tail.replace "\t" (hyp ++ "\t")
  | none => "abort"

/-! ### op H: fragment G plus certificate maps and their bindings — rules separated by \x01, fields `cm \x02 seq \x02 tg`
(`cm` empty = default-group); `wa` / `wb` = `-` if there is no toplevel webvpn -/

def parseRule (s : String) : G.Rule :=
  match s.splitOn "\x02" with
  | [cm, seq, tg] => { cm := if cm.isEmpty then none else some cm, seq := seq, tg := tg }
  | _ => { tg := "?" }

def parseWeb (s : String) : Option (List G.Rule) := if s == "-" then none else some ((splitNE s "\x01").map parseRule)

def runCert (fs : List String) : String :=
  let a : G.Cfg := { objs := (splitNE (field fs "a") "\x01").map parseGObj, tgmap := (splitNE (field fs "ta") "\x01").map parseRule,
                     web := parseWeb (field fs "wa") }
  let b : G.Cfg := { objs := (splitNE (field fs "b") "\x01").map parseGObj, tgmap := (splitNE (field fs "tb") "\x01").map parseRule,
                     web := parseWeb (field fs "wb") }
  match G.runH a b with
  | some h =>
    if h.outside then "outside" else
    let cs := h.all
    let tail := match G.execAllH (G.HDev.ofCfg a) cs with
      | some x =>
        "acc" ++ (if G.viewH x.cfg == G.viewH b then "+conv" else "") ++
          (if G.frameH a x.d.objs == G.frameH a a.objs then "+frame" else "") ++ "\t" ++
          (match G.scriptH x.cfg b with
           | some ls => "|".intercalate ls
           | none => "abort")
      | none => "rej\t"
    "ok\t" ++ "|".intercalate (cs.map G.Cmd2.render) ++ "\t" ++ tail
  | none => "abort"

def answer (line : String) : String :=
  match line.splitOn "\t" with
  | "E" :: fs => runEngine fs
  | "G" :: fs => runGraph fs
  | "H" :: fs => runCert fs
  | ["M", a, b] => runMatch a b
  | _ => "bad-input"

def main (_ : List String) : IO UInt32 := do
  eachLine answer
  return 0
