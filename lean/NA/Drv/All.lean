import NA.Core.IOUtil
import NA.Drv.C13
/-! Dispatch table of driver sub-commands; one entry per model / executor / oracle. -/
namespace NA.Drv
def echo (_ : List String) : IO UInt32 := do
  NA.IOUtil.eachLine id
  return 0
def table : List (String × (List String → IO UInt32)) := [
  ("echo", echo),
  ("c13", NA.Drv.C13.run)
]
end NA.Drv
