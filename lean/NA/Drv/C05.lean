import NA.Spec.LinuxNeg
import NA.Model.Linux
import NA.Spec.LinuxOracle
import NA.Proofs.C05Final
import NA.Core.IOUtil
/-! Driver for C05.  One case per line; fields separated by U+001E, lines inside a field by U+001F.

* `cmp␞DEV␞SPOC`      model of `drc -q DEV SPOC` →
                      `OK␞route lines␞candidate iptables lines␞rest of the script` or `ERR␞message`
* `dev␞IPTSAVE␞IPROUTESHOW␞SPOC`   model of the device path (`LoadDevice` text handling + `GetChanges`): same answer format
* `rexec␞DEVROUTES␞CMDS␞TGTLINES`   specification side: execute single `ip route` commands (␟-separated) on the kernel
                      table → `ok|fail␞route show lines afterwards␞converged(0|1)␞routes in DEVROUTES encoding`
* `norm␞k␟v␟k␟v…`     model of `normalizeIPTables` → pairs sorted by key `k␟v␟…`
* `pairs␞RULESET`     model of `parseIPTables`: `table␟chain␟i␟k=v,k=v…` records joined by ␞ (sorted), or `ERR␞…`
* `mk␞names␞DEVROUTES␞DEVRS␞TGTRS`   specification side: what the device prints (`ip route show` lines with
                      `ip route add ` in front, `iptables-save` text) and the target's iptables text →
                      `OK␞device text␞target iptables text␞wf(0|1)␞reasons`
* `oracle␞names␞DEVROUTES␞DEVRS␞TGTROUTELINES␞TGTRS␞STDOUT`   execute the printed script on the device semantics →
                      `verdict(ok|fail)␞pred␞detail␞device text afterwards`
  routes: `ip␟plen␟hop␟dev` records joined by `;`-free U+001D; rule sets: lines `T name`, `C name policy`,
  `R chain opt;opt…` joined by ␟ (option encoding: see `parseOpt`).
-/
namespace NA.Drv.C05
open NA.Linux

def FS : Char := '\x1e'
def LS : Char := '\x1f'

def unl (x : Str) : Str := x.map fun c => if c == LS then '\n' else c
def nl (x : Str) : Str := x.map fun c => if c == '\n' then LS else c
def joinLS (l : List Str) : Str := joinWith [LS] l
def joinFS (l : List Str) : Str := joinWith [FS] l

def showPairs (p : Pairs) : Str :=
  let ks := sortStrs (keysA p)
  joinWith [','] (ks.map fun k => k ++ ['='] ++ (getA k p).getD [])

open NA.Linux.Spec in
def parseNeg (x : Str) : Neg := if x = s "b" then .before else if x = s "a" then .after else .no

def splitOn1 (x : Str) (c : Char) : List Str := if x.isEmpty then [] else splitChar x c

def toNat (x : Str) : Nat := x.foldl (fun n c => n * 10 + (c.toNat - 48)) 0
def isT (x : Str) : Bool := x = s "1"

open NA.Linux.Spec in
def parseProto (x : Str) : Proto :=
  if x = s "tcp" then .tcp else if x = s "udp" then .udp else if x = s "icmp" then .icmp
  else if x = s "vrrp" then .vrrp else if x = s "ipv6icmp" then .ipv6icmp else .num (x.drop 1)

open NA.Linux.Spec in
def parseSt (c : Char) : Option St :=
  if c == 'I' then some .invalid else if c == 'N' then some .new else if c == 'R' then some .related
  else if c == 'E' then some .established else if c == 'U' then some .untracked else none

open NA.Linux.Spec in
/-- `s~neg~ip~len~h`, `d~…`, `i~neg~name`, `p~neg~proto~upper~num`, `sp~(1|r)~lo~hi~zeros~open`, `dp~…`,
`syn~neg~flags`, `it~t`, `m~name`, `st~LETTERS`, `j~t`, `g~t`, `ll~lvl~debug`, `mk~hex~mask~x~val`, `ts~ip`. -/
def parseOpt (x : Str) : Option AOpt :=
  match splitChar x '~' with
  | [k, a, b, c, d] =>
    if k = s "s" then some (.src (parseNeg a) b c (isT d))
    else if k = s "d" then some (.dst (parseNeg a) b c (isT d))
    else if k = s "p" then some (.proto (parseNeg a) (parseProto b) (isT c) (isT d))
    else if k = s "mk" then some (.setMark a b (isT c) d)
    else none
  | [k, a, b, c, d, e] =>
    let ps : Ports := if a = s "1" then .one b else .range b c
    if k = s "sp" then some (.sport ps (toNat d) (isT e))
    else if k = s "dp" then some (.dport ps (toNat d) (isT e))
    else none
  | [k, a, b] =>
    if k = s "i" then some (.inIf (parseNeg a) b)
    else if k = s "syn" then some (.syn (isT a) (isT b))
    else if k = s "ll" then some (.logLevel a (isT b))
    else none
  | [k, a] =>
    if k = s "it" then some (.icmpType a)
    else if k = s "m" then some (.mExplicit a)
    else if k = s "st" then some (.state (a.filterMap parseSt))
    else if k = s "j" then some (.jump a)
    else if k = s "g" then some (.goto a)
    else if k = s "ts" then some (.toSource a)
    else none
  | _ => none

open NA.Linux.Spec in
def parseRS (x : Str) : Option AState :=
  let lines := splitOn1 x LS
  let rec go : List Str → AState → Option AState
    | [], acc => some acc
    | l :: ls, acc =>
      match l with
      | 'T' :: ' ' :: n => go ls (acc ++ [{ name := n, chains := [] }])
      | 'C' :: ' ' :: r =>
        match splitChar r ' ', acc.reverse with
        | [n, p], t :: ts => go ls ((t :: ts).tail.reverse ++ [{ t with chains := t.chains ++ [{ name := n, policy := p, rules := [] }] }])
        | _, _ => none
      | 'R' :: ' ' :: r =>
        match cutChar r ' ', acc.reverse with
        | (c, os, _), t :: ts =>
          match (splitOn1 os ';').mapM parseOpt with
          | some rule =>
            let cs := t.chains.map fun ch => if ch.name = c then { ch with rules := ch.rules ++ [rule] } else ch
            go ls (ts.reverse ++ [{ t with chains := cs }])
          | none => none
        | _, _ => none
      | _ => none
  go lines []

def GS : Char := '\x1d'

open NA.Linux.Spec in
def parseDevRoutes (x : Str) : List (Spec.RKey × Option Str) :=
  (splitOn1 x GS).filterMap fun r => match splitChar r LS with
    | [ip, pl, hop, dev] => some ((ip, Int.ofNat (toNat pl), hop), if dev.isEmpty then none else some dev)
    | _ => none

open NA.Linux.Spec in
def devText (cfg : KCfg) (routes : List (Spec.RKey × Option Str)) (rs : AState) : List Str :=
  routes.map (fun (k, d) => s "ip route add " ++ routeShow k d) ++ (if rs.isEmpty then [] else saveText cfg rs)

open NA.Linux.Spec in
def specAnswer (fs : List Str) : Option Str :=
  match fs with
  | [c, dr, cmds, tgt] =>
    if c = s "rexec" then do
      let devR := parseDevRoutes dr
      let cl ← (splitOn1 cmds LS).mapM readRouteCmd
      let tgtK := ((splitOn1 tgt LS).filterMap readRouteCmd).filterMap fun c => match c with | .add k => some k | _ => none
      match execLine (devR.map (·.1)) cl with
      | none => some (joinFS [s "fail", [], s "0"])
      | some t =>
        let newR := t.map fun k => (k, (devR.find? (·.1 = k)).bind (·.2))
        let enc := newR.map fun (k, d) => joinLS [k.1, (toString k.2.1).toList, k.2.2, d.getD []]
        some (joinFS [s "ok", joinLS (newR.map fun (k, d) => routeShow k d),
          if sameSet t tgtK && noDup t then s "1" else s "0", joinWith [GS] enc])
    else none
  | [c, names, dr, drs, trs] =>
    if c = s "mk" then do
      let cfg : KCfg := { protoNames := isT names }
      let d ← parseRS drs
      let t ← parseRS trs
      -- a target is inside the proved class iff every rule satisfies the hypotheses of
      -- `kernel_roundtrip_partial` (NA.C05.RuleOK, decidable); otherwise name the reason
      let rules := t.flatMap fun tb => tb.chains.flatMap (·.rules)
      let whyOf (r : ARule) : List Str :=
        if decide (NA.C05.RuleOK cfg r) then []
        else if r.any (fun o => match o with | .setMark _ m _ _ => m != s "ffffffff" | _ => false) then [s "mark_with_mask"]
        else if !(decide ((userOpts r).map fun o => (NA.C05.pkv o).1).Nodup &&
                  decide ((kernelOpts cfg r).map fun o => (NA.C05.pkv o).1).Nodup) then [s "repeated_option_key"]
        else [s "option_outside_grammar"]
      let why := (rules.flatMap whyOf).eraseDups
      -- where: `table:chain:index:reason` for every rule of the target outside the class (index as in the diff line)
      let viol := t.flatMap fun tb => tb.chains.flatMap fun ch =>
        ((List.range ch.rules.length).zip ch.rules).flatMap fun (i, r) =>
          (whyOf r).map fun w => tb.name ++ [':'] ++ ch.name ++ [':'] ++ natToStr i ++ [':'] ++ w
      some (joinFS [s "OK", joinLS (devText cfg (parseDevRoutes dr) d), joinLS (userText t),
        if why.isEmpty then s "1" else s "0", joinWith [','] why, joinWith [','] viol])
    else none
  | [c, trl, trs, interp, iptFile, rtFile] =>
    if c = s "boot" then do
      let t ← parseRS trs
      some (joinFS [s "boot", bootIptOracle t interp (splitOn1 iptFile LS), bootRouteOracle (splitOn1 trl LS) (splitOn1 rtFile LS)])
    else none
  | [c, names, dr, drs, trl, trs, out] =>
    if c = s "oracle" then do
      let cfg : KCfg := { protoNames := isT names }
      let d ← parseRS drs
      let t ← parseRS trs
      let devR := parseDevRoutes dr
      let outLines := splitOn1 out LS
      let rOut := outLines.takeWhile (fun l => hasPrefix l (s "ip route "))
      let iOut := outLines.dropWhile (fun l => hasPrefix l (s "ip route "))
      let iOut := match iOut with
        | h :: _ :: _ :: file => h :: file     -- drop `#!/sbin/iptables-restore` and `# Generated by NetSPoC`
        | other => other
      let v1 := routeOracle (devR.map (·.1)) (splitOn1 trl LS) rOut
      let v2 := iptOracle cfg d t iOut
      let v := if !v1.ok then v1 else v2
      -- the device afterwards: routes keep their `dev` attribute where they survive
      let newR := v1.routes.map fun k => (k, (devR.find? (·.1 = k)).bind (·.2))
      some (joinFS [if v1.ok && v2.ok then s "ok" else s "fail", v.pred, v.detail,
        joinLS (devText cfg newR v2.ipt), if v1.ok then [] else v1.pred, if v2.ok then [] else v2.pred, v2.note])
    else none
  | _ => none

def answer (line : String) : String :=
  let fs := splitChar line.toList FS
  Str.toS <| match fs with
  | [c, ipt, ro, spoc] =>
    if c = s "dev" then
      match compareDevice (unl ipt) (unl ro) (unl spoc) with
      | .error e => joinFS [s "ERR", nl e]
      | .ok ch =>
        let (r, c, rest) := ch.show
        joinFS [s "OK", joinLS r, joinLS c, joinLS rest]
    else (specAnswer fs).getD (s "bad-input")
  | [c, dev, spoc] =>
    if c = s "cmp" then
      match compareFiles (unl dev) (unl spoc) with
      | .error e => joinFS [s "ERR", nl e]
      | .ok ch =>
        let (r, c, rest) := ch.show
        joinFS [s "OK", joinLS r, joinLS c, joinLS rest]
    else if c = s "sem" then NA.Linux.Spec.semCompare dev spoc
    else s "bad-input"
  | [c, arg] =>
    if c = s "norm" then
      let l := if arg.isEmpty then [] else splitChar arg LS
      let rec mk : List Str → Pairs → Pairs
        | k :: v :: r, acc => mk r (setA k v acc)
        | _, acc => acc
      let p := normalize (mk l [])
      joinLS ((sortStrs (keysA p)).flatMap fun k => [k, (getA k p).getD []])
    else if c = s "pairs" then
      match parseIPTables (splitChar (unl arg) '\n') with
      | .error e => joinFS [s "ERR", nl e]
      | .ok tb =>
        let recs := (sortStrs (keysA tb)).flatMap fun t =>
          let cm := (getA t tb).getD []
          (sortStrs (keysA cm)).flatMap fun c =>
            let ch := (getA c cm).getD default
            (List.range ch.rules.length).map fun i =>
              joinLS [t, c, natToStr i, showPairs ((ch.rules.getD i default).pairs)]
        joinFS (s "OK" :: recs)
    else s "bad-input"
  | _ => (specAnswer fs).getD (s "bad-input")

end NA.Drv.C05

def main (_ : List String) : IO UInt32 := do
  NA.IOUtil.eachLine NA.Drv.C05.answer
  return 0
