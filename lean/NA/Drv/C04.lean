import NA.Core.IOUtil
import NA.Model.NsxWire
import NA.Model.NsxAccept
import NA.Model.NsxSvc
/-!
Driver for C04 (and the NSX share of C07/C08/C10).  One case per line, TAB separated:

  plan  S V4 V6 RAW        model of the planner on the store S (the load filter is applied here) and the
                           three Netspoc files  → `OK calls |needed| |nod|` / `ERR msg` (checkRaw) / `ABORT msg`
  run   S T CALLS P        strict execution of CALLS (the REAL code's calls) on the object store S, oracle
                           predicates against the merged target T → `status final verdicts [prefix states…]`
                           (P = 1: also the store after every prefix)
  class S T                the decidable side conditions (hypotheses of the theorems / finding signatures)
  load  N S                what LoadDevice keeps of S when listings come in pages of N (`loadPaged`)
  svc   ENTRIES            byte form of a service_entries list as MarshalJSON writes it (`render`); entries GS separated,
                           fields US separated: id kind l4 src dst icmp type code num; optional: `-` absent, `=…` present
  myers ALEN BLEN BITS     the Myers port on a 0/1 matrix (row major) → ranges, validity, identity-on-equal
-/
namespace NA.Drv.C04
open NA.Nsx NA.Nsx.Wire NA.IOUtil

def encRanges (rs : List Range) : String :=
  ";".intercalate (rs.map fun r => s!"{r.lowA},{r.highA},{r.lowB},{r.highB}")

def flag (k : String) (b : Bool) : String := s!"{k}={b2s b}"

def verdicts (S0 S : Store) (T : Config) (cs : List Call) : String :=
  " ".intercalate [flag "conv" (convergedB S T), flag "svc" (servicesB S T), flag "grp" (noLeftoverGroupB S T),
    flag "frame" (frameB S0 S), flag "scope" (scopeB cs), flag "wf" (storeWF S),
    flag "nonempty" ((load S).groups.all (!·.addrs.isEmpty))]

/-- Objects a finding is attributed to, computed from the INPUT alone (same notions as the flags
`unmanagedIndep`, `compactT`, `distinctT`): managed groups (`g:ID`) / services (`s:ID`) that a rule of a
policy outside Netspoc's scope refers to; target rules whose inline service entries are not compact JSON;
target groups that share their address set with another target group. -/
def unmRefs (S : Store) : List String :=
  S.policies.flatMap fun p => if managed p.id then [] else p.rules.flatMap fun r =>
    let ep (x : String) : List String :=
      match groupRef x with
      | some x => if managed x then [s!"g:{x}"] else []
      | none => []
    ep r.src ++ ep r.dst ++
      match serviceRef r.service with
      | some x => if managed x then [s!"s:{x}"] else []
      | none => []

def spacedRules (T : Config) : List String :=
  T.policies.flatMap fun p => p.rules.filterMap fun r =>
    if compactJSON r.attrs.svcEntries == r.attrs.svcEntries then none else some s!"{p.id}/{r.id}"

def twinGroups (T : Config) : List String :=
  T.groups.filterMap fun g1 =>
    if T.groups.any fun g2 => g1.id != g2.id &&
        g1.addrs.all (g2.addrs.contains ·) && g2.addrs.all (g1.addrs.contains ·) then some g1.id else none

def decOptStrs (s : String) : Option (Option (List String)) :=
  if s == "-" then some none
  else if s.startsWith "=" then some (some (commaL (s.drop 1).toString))
  else none

def decOptInt (s : String) : Option (Option Int) :=
  if s == "-" then some none
  else if s.startsWith "=" then (s.drop 1).toString.toInt?.map some
  else none

def decSvcEntry (s : String) : Option SvcEntry :=
  match s.splitOn US with
  | [id, kind, l4, src, dst, icmp, ty, code, num] =>
    match (match kind with | "l4" => some SvcKind.l4 | "icmp" => some .icmp | "ipproto" => some .ipproto | _ => none),
      decOptStrs src, decOptStrs dst, decOptInt ty, decOptInt code, num.toInt? with
    | some k, some src, some dst, some ty, some code, some n =>
      some { id := id, kind := k, l4Proto := l4, src := src, dst := dst, icmpProto := icmp, icmpType := ty, icmpCode := code, protoNum := n }
    | _, _, _, _, _, _ => none
  | _ => none

def answer (line : String) : String :=
  match splitTab line with
  | ["plan", s, v4, v6, raw] =>
    match decConfig s, decConfig v4, decConfig v6, decConfig raw with
    | some S, some v4, some v6, some raw =>
      match loadSpoc v4 v6 raw with
      | .error e => s!"ERR\t{e}"
      | .ok T =>
        let p := plan myers (load S) T
        match p.abort with
        | some m => s!"ABORT\t{m}"
        | none => s!"OK\t{encCalls p.calls}\t{p.needed.length}\t{p.nod.length}"
    | _, _, _, _ => "bad-input"
  | ["run", s, t, cs, pfx] =>
    match decConfig s, decConfig t, decCalls cs with
    | some S, some T, some cs =>
      let (status, final) : String × Store :=
        match execAll S cs 0 with
        | .ok S' => ("ok", S')
        | .error (i, e, S') => (s!"fail:{i}:{e}", S')
      let states : List String :=
        if pfx == "1" then
          let rec go (S : Store) (cs : List Call) (acc : List String) : List String :=
            match cs with
            | [] => (encConfig S :: acc).reverse
            | c :: rest =>
              match exec S c with
              | .ok S' => go S' rest (encConfig S :: acc)
              | .error _ => (encConfig S :: acc).reverse
          go S cs []
        else []
      "\t".intercalate ([status, encConfig final, verdicts S final T cs] ++ states)
    | _, _, _ => "bad-input"
  | ["class", s, t] =>
    match decConfig s, decConfig t with
    | some S, some T =>
      " ".intercalate [flag "storeWF" (storeWF S), flag "addrsNodup" (addrsNodup S), flag "targetWF" (targetWF T),
        flag "policyIds" (policyIdsManaged T), flag "extRefs" (extRefsOK S T), flag "unmanagedIndep" (unmanagedIndep S),
        flag "idsOK" (idsOK (load S) T), flag "sortTies" (sortTies T), flag "accepted" (accepted S T),
        flag "compactS" (rulesCompact (load S)), flag "compactT" (rulesCompact T),
        flag "distinctT" (distinctContent T.groups), flag "idemOK" (idemOK S T),
        "unmRefs=" ++ ",".intercalate (unmRefs S), "spacedRules=" ++ ",".intercalate (spacedRules T),
        "twinGroups=" ++ ",".intercalate (twinGroups T)]
    | _, _ => "bad-input"
  | ["load", n, s] =>
    match n.toNat?, decConfig s with
    | some n, some S =>
      let L := loadPaged n S
      "\t".intercalate [",".intercalate (L.policies.map fun p => p.id ++ ":" ++ ";".intercalate (p.rules.map (·.id))),
        ",".intercalate (L.groups.map (·.id)), ",".intercalate (L.services.map (·.id))]
    | _, _ => "bad-input"
  | ["svc", es] =>
    match (splitL GS es).mapM decSvcEntry with
    | some l => (if l.all (fun e => decide e.WF) then "WF" else "NOTWF") ++ "\t" ++ render l
    | none => "bad-input"
  | ["myers", a, b, bits] =>
    match a.toNat?, b.toNat? with
    | some aLen, some bLen =>
      let m := bits.toList.toArray
      let eq (i j : Nat) : Bool := m.getD (i * bLen + j) '0' == '1'
      let rs := myers aLen bLen eq
      -- `IdOnEqual`: same lengths and an all-ones diagonal must give the single pairing range
      let diag := aLen == bLen && (List.range aLen).all fun i => eq i i
      let idOk := !diag || rs == [⟨0, aLen, 0, aLen⟩]
      s!"{encRanges rs}\t{b2s (validScript aLen bLen eq rs)}\t{b2s idOk}"
    | _, _ => "bad-input"
  | _ => "bad-input"

end NA.Drv.C04

def main (_ : List String) : IO UInt32 := do
  NA.IOUtil.eachLine NA.Drv.C04.answer
  return 0
