import NA.Model.MapSitesDeep
import NA.Core.IOUtil
/-! Driver for C16: runs the models of the repaired loops (`…Fixed`, fold over the entries sorted
by key) on one case per line.  Fields are separated by TAB, entries by `|`, parts of an entry by `;`.

* `fg  TYP  TARGET  name;needed;typ;elems|…`   → name of the group taken over, or `none`
      (`findGroupFixed strLe`; elems / TARGET are comma separated numbers)
* `peer  seq;peer|…`  (empty peer = entry without peer)
      → `abort SEQ` or `peer=seq,…` for the peers in order of first appearance in the input (`peerMapFixed`)
* `first  key;msg|…`  (empty msg = none)          → first message in ascending key order, or `none` (`firstAbortFixed strLe`)
* `first2  prefix;name;msg|…`                     → the same for keys (prefix, name), lexicographic (`firstErrorFixed (lexLe strLe strLe)`)
* `opt  k;v|…  k;v|…`   (options of rule a, of rule b) → `k;v;v2` of the first differing option, or `none` (`firstOptionFixed strLe`)
* `free  i,j,…`   (indexes of NAME-DRC-<i> occupied on the device for one name and one command kind)
      → the index `setName` of generateNamesForTransfer takes (`firstFree`)
* `log  key;msg|…`                                → messages in ascending key order joined by `|` (`infoLogFixed strLe`)
-/
namespace NA.Drv.C16
open NA.C16 NA.PermFold NA.IOUtil

def parts (s : String) : List String := s.splitOn ";"

def parseGroup (s : String) : Option (String × Group) :=
  match parts s with
  | [name, needed, typ, elems] => do
    let t ← typ.toNat?
    let es ← natList elems
    pure (name, ⟨needed == "1", t, es⟩)
  | _ => none

def optStr (s : String) : Option String := if s.isEmpty then none else some s

def dedup (l : List String) : List String :=
  l.foldl (fun acc x => if acc.contains x then acc else acc ++ [x]) []

def answer (line : String) : String :=
  match splitTab line with
  | ["fg", typ, target, entries] =>
    match typ.toNat?, natList target, (splitBar entries).mapM parseGroup with
    | some t, some tg, some es => (findGroupFixed strLe t tg es).getD "none"
    | _, _, _ => "bad-input"
  | ["peer", entries] =>
    let es? := (splitBar entries).mapM fun e => match parts e with
      | [seq, peer] => seq.toNat?.map fun n => (n, optStr peer)
      | _ => none
    match es? with
    | none => "bad-input"
    | some es =>
      match peerMapFixed es with
      | .error n => s!"abort {n}"
      | .ok m =>
        let peers := dedup (es.filterMap Prod.snd)
        joinComma (peers.map fun p => s!"{p}={(m p).getD 0}")
  | ["first", entries] =>
    let es? := (splitBar entries).mapM fun e => match parts e with
      | [k, msg] => some (k, optStr msg)
      | _ => none
    match es? with
    | none => "bad-input"
    | some es => (firstAbortFixed strLe es).getD "none"
  | ["first2", entries] =>
    let es? := (splitBar entries).mapM fun e => match parts e with
      | [p, n, msg] => some ((p, n), optStr msg)
      | _ => none
    match es? with
    | none => "bad-input"
    | some es => (firstErrorFixed (lexLe strLe strLe) es).getD "none"
  | ["opt", a, b] =>
    let kv := fun (s : String) => (splitBar s).mapM fun e => match parts e with
      | [k, v] => some (k, v)
      | _ => none
    match kv a, kv b with
    | some ea, some eb =>
      let bf := fun k => ((eb.find? fun e => e.1 == k).map Prod.snd).getD ""
      match firstOptionFixed strLe bf ea with
      | none => "none"
      | some (k, v, v2) => s!"{k};{v};{v2}"
    | _, _ => "bad-input"
  | ["free", used] =>
    match natList used with
    | some l => toString (firstFree l)
    | none => "bad-input"
  | ["log", entries] =>
    let es? := (splitBar entries).mapM fun e => match parts e with
      | [k, msg] => some (k, optStr msg)
      | _ => none
    match es? with
    | none => "bad-input"
    | some es => joinBar (infoLogFixed strLe es)
  | _ => "bad-input"

end NA.Drv.C16

def main (_ : List String) : IO UInt32 := do
  NA.IOUtil.eachLine NA.Drv.C16.answer
  return 0
