import NA.Model.PanOs
import NA.Core.IOUtil
import NA.Spec.PanOsWhole
import NA.Model.PanOsGrpPair
/-!
Driver for C03 (and the PAN-OS share of C07, C08, C10).  One request per line, fields separated
by TAB; every string is percent-encoded (safe: letters, digits, `_ . -`; the empty string is `~`).

* `PLAN  devA devB shared A B scripts` — model of `GetChanges` on decoded device `A` and target `B`
  (each a `!`-joined list of vsys `name|rules|addrs|groups|svcs|sgroups`, entries `;`-joined,
  fields `:`-joined, lists `,`-joined).  `scripts`: the real rule edit scripts per vsys
  (`name=l.h.l.h,…` joined by `!`), validated and compared with the port.
  Answer: `ok|err  commands-or-message  flags`.
* `EXEC  shared V cmds T` — strict execution of `cmds` on vsys `V`; `T` = target vsys.
  Answer: `accepted=<k> err=<reason|-> equiv=<0|1> wf=<0|1>  <vsys reached>`; `equiv` is `equivSem`: header
  elements with PAN-OS's default content count as absent (absent `<rule-type>` = `universal`, …).
* `DEVEXEC shared A groups` — `execDevAll`: the whole plan (`name|cmds` joined by `!`) on the whole device `A`;
  answer: `ok  <device reached>` or `err  <reason>`.
* `PREDICT shared A B` — what the model of the unchanged planner does on the vsys pair: plan, strict execution,
  second plan; answer `n= accepted= err= equiv= mismatch= wf= sgdropref= shape1= shape2=  <refused request>  <plan>  <second plan>`
  (`shape`: three bits — only requests on lists mixing a group with other members / only re-sent changed service-groups / only these two kinds).
* `MYERS n m bits` — the port of `myers.Diff` on an equality matrix; answer: ranges.
PLAN flags per targeted pair also say whether the pair lies in the fragment of the whole-vsys theorems
(`plain`, `tnames`, `srvnd`, `grp`: `PlainPair`, `TgtNames`, `SrvNodup`, `GrpPair`).
-/
namespace NA.Drv.C03
open NA.PanOs

/-! ### percent coding -/

def hexVal (c : Char) : Option Nat :=
  if '0' ≤ c && c ≤ '9' then some (c.toNat - '0'.toNat)
  else if 'A' ≤ c && c ≤ 'F' then some (c.toNat - 'A'.toNat + 10)
  else if 'a' ≤ c && c ≤ 'f' then some (c.toNat - 'a'.toNat + 10)
  else none

def decodeBytes : List Char → ByteArray → ByteArray
  | [], acc => acc
  | '%' :: h :: l :: rest, acc =>
    match hexVal h, hexVal l with
    | some x, some y => decodeBytes rest (acc.push (UInt8.ofNat (16 * x + y)))
    | _, _ => decodeBytes rest acc
  | c :: rest, acc => decodeBytes rest (acc.push (UInt8.ofNat c.toNat))

def dec (s : String) : String :=
  if s == "~" then "" else
  match String.fromUTF8? (decodeBytes s.toList ByteArray.empty) with
  | some r => r
  | none => s

def hexDigit (n : Nat) : Char :=
  if n < 10 then Char.ofNat ('0'.toNat + n) else Char.ofNat ('A'.toNat + n - 10)

def enc (s : String) : String :=
  if s.isEmpty then "~" else
  String.ofList (s.toUTF8.toList.flatMap (fun b =>
    let c := Char.ofNat b.toNat
    if c.isAlphanum || c == '_' || c == '.' || c == '-' then [c]
    else ['%', hexDigit (b.toNat / 16), hexDigit (b.toNat % 16)]))

def splitNE (s : String) (sep : String) : List String := if s.isEmpty then [] else s.splitOn sep

def decList (s : String) : List String := (splitNE s ",").map dec
def encList (l : List String) : String := ",".intercalate (l.map enc)

/-! ### configuration codec -/

def parseRule (s : String) : Option Rule :=
  match s.splitOn ":" with
  | [n, h, a, b, c] => some ⟨dec n, dec h, decList a, decList b, decList c⟩
  | _ => none

def parseObj (s : String) : Option Obj :=
  match s.splitOn ":" with
  | [n, v] => some ⟨dec n, dec v⟩
  | _ => none

def parseGrp (s : String) : Option Grp :=
  match s.splitOn ":" with
  | [n, ms] => some ⟨dec n, decList ms⟩
  | _ => none

def parseVsys (s : String) : Option Vsys :=
  match s.splitOn "|" with
  | [n, rs, as, gs, ss, sgs] => do
    let rules ← (splitNE rs ";").mapM parseRule
    let addrs ← (splitNE as ";").mapM parseObj
    let groups ← (splitNE gs ";").mapM parseGrp
    let svcs ← (splitNE ss ";").mapM parseObj
    let sgroups ← (splitNE sgs ";").mapM parseGrp
    pure { name := dec n, rules, addrs, groups, svcs, sgroups }
  | _ => none

def parseDevice (s : String) : Option (List Vsys) := (splitNE s "!").mapM parseVsys

def showRule (r : Rule) : String :=
  s!"{enc r.name}:{enc r.hdr}:{encList r.src}:{encList r.dst}:{encList r.srv}"
def showObj (o : Obj) : String := s!"{enc o.name}:{enc o.val}"
def showGrp (g : Grp) : String := s!"{enc g.name}:{encList g.members}"
def showVsys (v : Vsys) : String :=
  "|".intercalate [enc v.name, ";".intercalate (v.rules.map showRule), ";".intercalate (v.addrs.map showObj),
    ";".intercalate (v.groups.map showGrp), ";".intercalate (v.svcs.map showObj),
    ";".intercalate (v.sgroups.map showGrp)]

/-! ### command codec -/

def showFld : Fld → String | .src => "src" | .dst => "dst" | .srv => "srv"
def parseFld : String → Option Fld
  | "src" => some .src | "dst" => some .dst | "srv" => some .srv | _ => none

def showCmd : Cmd → String
  | .setAddr n v => s!"setaddr:{enc n}:{enc v}"
  | .editAddr n v => s!"editaddr:{enc n}:{enc v}"
  | .setGrp n ms => s!"setgrp:{enc n}:{encList ms}"
  | .setSvc n v => s!"setsvc:{enc n}:{enc v}"
  | .editSvc n v => s!"editsvc:{enc n}:{enc v}"
  | .setSGrp n ms => s!"setsgrp:{enc n}:{encList ms}"
  | .delRule n => s!"delrule:{enc n}"
  | .setRule r => s!"setrule:{showRule r}"
  | .move n d => s!"move:{enc n}:{enc d}"
  | .delMem n f m => s!"delmem:{enc n}:{showFld f}:{enc m}"
  | .addMem n f ms => s!"addmem:{enc n}:{showFld f}:{encList ms}"
  | .editList n f ms => s!"editlist:{enc n}:{showFld f}:{encList ms}"
  | .delGMem g m => s!"delgmem:{enc g}:{enc m}"
  | .delGrp n => s!"delgrp:{enc n}"
  | .delAddr n => s!"deladdr:{enc n}"
  | .delSGrp n => s!"delsgrp:{enc n}"
  | .delSvc n => s!"delsvc:{enc n}"
  | .bad w => s!"bad:{enc w}"

def parseCmd (s : String) : Cmd :=
  match s.splitOn ":" with
  | ["setaddr", n, v] => .setAddr (dec n) (dec v)
  | ["editaddr", n, v] => .editAddr (dec n) (dec v)
  | ["setgrp", n, ms] => .setGrp (dec n) (decList ms)
  | ["setsvc", n, v] => .setSvc (dec n) (dec v)
  | ["editsvc", n, v] => .editSvc (dec n) (dec v)
  | ["setsgrp", n, ms] => .setSGrp (dec n) (decList ms)
  | ["delrule", n] => .delRule (dec n)
  | ["setrule", n, h, a, b, c] => .setRule ⟨dec n, dec h, decList a, decList b, decList c⟩
  | ["move", n, d] => .move (dec n) (dec d)
  | ["delmem", n, f, m] => match parseFld f with | some f => .delMem (dec n) f (dec m) | none => .bad s
  | ["addmem", n, f, ms] => match parseFld f with | some f => .addMem (dec n) f (decList ms) | none => .bad s
  | ["editlist", n, f, ms] => match parseFld f with | some f => .editList (dec n) f (decList ms) | none => .bad s
  | ["delgmem", g, m] => .delGMem (dec g) (dec m)
  | ["delgrp", n] => .delGrp (dec n)
  | ["deladdr", n] => .delAddr (dec n)
  | ["delsgrp", n] => .delSGrp (dec n)
  | ["delsvc", n] => .delSvc (dec n)
  | ["bad", w] => .bad (dec w)
  | _ => .bad s

def showCmds (cs : List Cmd) : String := ";".intercalate (cs.map showCmd)
def parseCmds (s : String) : List Cmd := (splitNE s ";").map parseCmd

def showRanges (rs : List Range) : String :=
  ",".intercalate (rs.map (fun r => s!"{r.lowA}.{r.highA}.{r.lowB}.{r.highB}"))

def parseRanges (s : String) : Option (List Range) :=
  (splitNE s ",").mapM (fun t =>
    match (t.splitOn ".").mapM String.toNat? with
    | some [a, b, c, d] => some ⟨a, b, c, d⟩
    | _ => none)

def b2s (b : Bool) : String := if b then "1" else "0"

/-! ### PLAN -/

/-- Same-named service-group on both sides whose member lists differ (class of F-C03a). -/
def sgroupChanged (a b : Vsys) : Bool :=
  b.sgroups.any (fun gb => a.sgroups.any (fun ga => ga.name == gb.name && ga.members != gb.members))

/-- Target names that collide after `genUniq*Names` (class of F-C03c; repaired). -/
def uniqClash (a b : Vsys) : Bool :=
  !nodupB (uniqNames (ruleNames a.rules) (ruleNames b.rules)) ||
  !nodupB (groupNamesFor a b)

/-- A source / destination list with more than one member one of which is an address-group
(class of F-C03d). -/
def hasMixedList (v : Vsys) : Bool :=
  v.rules.any (fun r => [r.src, r.dst].any (fun l =>
    l.length > 1 && l.any (fun m => v.groups.any (·.name == m))))

def pairFlags (sh : Shared) (a b : Vsys) : String :=
  s!"wfA={b2s (wellFormed sh a)},wfB={b2s (wellFormed sh b)},nestA={b2s (!noNested a)},nestB={b2s (!noNested b)}," ++
  s!"sgchg={b2s (sgroupChanged a b)},uniq={b2s (uniqClash a b)},mixed={b2s (hasMixedList a || hasMixedList b)}," ++
  s!"plain={b2s (decide (PlainPair sh a b))},tnames={b2s (decide (TgtNames sh b))}," ++
  s!"srvnd={b2s (decide (SrvNodup a) && decide (SrvNodup b))},grp={b2s (decide (GrpPair sh a b))}"

def checkScripts (dev tgt : List Vsys) (s : String) : String :=
  let items := splitNE s "!"
  let res := items.map (fun it =>
    match it.splitOn "=" with
    | [n, rs] =>
      match parseRanges rs, vsysMap dev (dec n), vsysMap tgt (dec n) with
      | some rs, some a0, some b0 =>
        let a := sortVsys a0
        let b := sortVsys b0
        let eq := fun i j => ruleEqual a b (a.rules.getD i default) (b.rules.getD j default)
        if !(validScript eq a.rules.length b.rules.length rs && normalised rs) then "invalid"
        else if myersDiff a.rules.length b.rules.length eq != rs then "portdiff"
        else "ok"
      | _, _, _ => "unparsed"
    | _ => "unparsed")
  match res.find? (· != "ok") with
  | some r => r
  | none => "ok"

def answerPlan (devA devB shared a b scripts : String) : String :=
  match parseDevice a, parseDevice b with
  | some dev, some tgt =>
    let sh := decList shared
    let flags := " ".intercalate (dev.filterMap (fun v1 =>
      (vsysMap tgt v1.name).map (fun v2 => s!"{enc v1.name}:{pairFlags sh v1 v2}")))
    let sc := checkScripts dev tgt scripts
    match planDevice myersDiff (dec devA) (dec devB) dev tgt with
    | .error e => s!"err\t{e}\tscript={sc} {flags}"
    | .ok l =>
      let body := "!".intercalate (l.map (fun (n, cs) => s!"{enc n}|{showCmds cs}"))
      s!"ok\t{body}\tscript={sc} {flags}"
  | _, _ => "bad-input"

/-! ### EXEC -/

/-- Where the first difference between the device rules and the target rules lies. -/
def mismatch (dv tv : Vsys) : List Rule → List Rule → String
  | [], [] => "none"
  | d :: ds, t :: ts =>
    if hdrSem d.hdr != hdrSem t.hdr then "hdr"
    else if !sameSet (addrContent dv d.src) (addrContent tv t.src) then "src"
    else if !sameSet (addrContent dv d.dst) (addrContent tv t.dst) then "dst"
    else if !sameSet (srvContent dv d.srv) (srvContent tv t.srv) then "srv"
    else mismatch dv tv ds ts
  | _, _ => "len"

def answerExec (shared v cmds t : String) : String :=
  match parseVsys v with
  | none => "bad-input"
  | some v0 =>
    let sh := decList shared
    let (w, k, e) := execAll sh v0 (parseCmds cmds)
    let (eqv, mm) := match parseVsys t with
      | some tv => (b2s (equivSem w tv), mismatch w tv w.rules tv.rules)
      | none => ("-", "-")
    s!"accepted={k} err={(e.map enc).getD "-"} equiv={eqv} mismatch={mm} wf={b2s (wellFormed sh w)} unref={",".intercalate ((unreferenced w).map enc)}\t{showVsys w}"

/-! ### PREDICT: what the model of the unchanged planner does on a pair

The harness judges the REAL requests; a failure is only excused as a known finding if the model of
the unchanged code predicts exactly this failure on exactly this input (`model_predicts`), and if
the failure has the shape of the finding, computed here from the input. -/

/-- A list with several members one of which is an address-group of `v`. -/
def mixedList (v : Vsys) (l : List String) : Bool :=
  l.length > 1 && l.any (fun m => v.groups.any (·.name == m))

/-- The request changes the source / destination of a rule of `v` whose list mixes a group with
other members (class of F-C03e). -/
def onMixedField (v : Vsys) : Cmd → Bool
  | .delMem n f _ | .addMem n f _ | .editList n f _ =>
    f != .srv && (match findRule v.rules n with
      | some r => mixedList v (r.get f)
      | none => false)
  | _ => false

/-- Same-named service-groups of device and target whose members differ: (name, members only the
device has). -/
def sgroupDropped (a b : Vsys) : List (String × List String) :=
  b.sgroups.filterMap (fun gb =>
    match a.sgroups.find? (·.name == gb.name) with
    | some ga => if ga.members != gb.members then some (gb.name, ga.members.filter (fun m => !gb.members.contains m)) else none
    | none => none)

/-- The request re-sends the members of a same-named service-group whose members differ (class of F-C03a). -/
def onChangedSGroup (a b : Vsys) : Cmd → Bool
  | .setSGrp g _ => (sgroupDropped a b).any (·.1 == g)
  | _ => false

/-- The request removes a service that only the device's version of such a group holds. -/
def dropsSGroupMember (a b : Vsys) : Cmd → Bool
  | .delSvc x => (sgroupDropped a b).any (fun p => p.2.contains x)
  | _ => false

/-- Members a member-list request brings in. -/
def addedBy' : Cmd → List String
  | .addMem _ _ ms => ms
  | .editList _ _ ms => ms
  | _ => []

/-- Names a request on a member list of a rule involves: what the list holds now and what the
request brings in. -/
def fieldNames (v : Vsys) : Cmd → Option (List String)
  | .delMem n f m => if f != .srv then (findRule v.rules n).map (fun r => m :: r.get f) else none
  | .addMem n f ms => if f != .srv then (findRule v.rules n).map (fun r => ms ++ r.get f) else none
  | .editList n f ms => if f != .srv then (findRule v.rules n).map (fun r => ms ++ r.get f) else none
  | _ => none

/-- The requests of plan `p` that are confined to the lists of `v` mixing a group with other
members and to what hangs on them (class of F-C03e): a request on a mixed list; a request on an
address-group that stands in a mixed list (or is put into one); a request on a list that names
such a group — which makes the other groups it names hang on the mixed lists too.  Per request:
is it confined?  And: is there a request on a mixed list at all? -/
def mixedClosure (v : Vsys) (p : List Cmd) : List Bool × Bool :=
  let isG := fun (m : String) => v.groups.any (·.name == m) || p.any (fun c => match c with
    | .setGrp g _ => g == m | _ => false)
  let seed := ((v.rules.flatMap (fun r => [r.src, r.dst])).filter (mixedList v)).flatten ++
    p.flatMap (fun c => if onMixedField v c then (fieldNames v c).getD [] else [])
  let step := fun (gs : List String) =>
    p.foldl (fun gs c =>
      match fieldNames v c with
      | some ns => if ns.any (fun m => isG m && gs.contains m) then gs ++ ns.filter isG else gs
      | none => gs) gs
  let gs := (List.range (p.length + 1)).foldl (fun gs _ => step gs) (seed.filter isG)
  let ok := fun (c : Cmd) =>
    onMixedField v c ||
    (match c with
     | .setGrp g _ | .delGMem g _ | .delGrp g => gs.contains g
     | _ => false) ||
    (match fieldNames v c with
     | some ns => ns.any (fun m => isG m && gs.contains m)
     | none => false)
  (p.map ok, p.any (onMixedField v) || !(seed.filter isG).isEmpty)

def answerPredict (shared a b : String) : String :=
  match parseVsys a, parseVsys b with
  | some va, some vb =>
    let sh := decList shared
    let cmds := planVsys myersDiff va vb
    let (w, k, e) := execAll sh va cmds
    let eqv := equivSem w vb
    let refused := (cmds[k]?).map (fun c => (showCmd c, dropsSGroupMember va vb c))
    let p2 := if k == cmds.length && eqv then planVsys myersDiff w vb else []
    let p2s := if k == cmds.length && eqv then showCmds p2 else "-"
    -- shape of a plan `p` for device state `v`: only requests on mixed lists / only re-sent changed
    -- service-groups / only these two kinds with at least one of the first
    let shape := fun (v : Vsys) (p : List Cmd) =>
      let (mix, mixAny) := mixedClosure v p
      let rem := fun (c : Cmd) => match c with
        | .delSvc _ | .delAddr _ | .delGrp _ | .delSGrp _ => true
        | _ => false
      let sgc := fun c => onChangedSGroup va vb c || dropsSGroupMember va vb c || rem c
      let sg := !p.isEmpty && p.all sgc && p.any (onChangedSGroup va vb)
      let both := !p.isEmpty && mixAny && (p.zip mix).all (fun (c, ok) => ok || sgc c)
      s!"{b2s (!p.isEmpty && mix.all id)}{b2s sg}{b2s both}"
    -- what the model's own run leaves behind, and whether all of it is of the class of F-C03h: services
    -- that a TARGET service-group names while the device has a group of that name
    let unref := unreferenced w
    let unrefSg := !unref.isEmpty && unref.all (fun n => w.svcs.any (·.name == n) &&
      vb.sgroups.any (fun gb => gb.members.contains n && va.sgroups.any (·.name == gb.name)))
    s!"n={cmds.length} accepted={k} err={(e.map enc).getD "-"} equiv={b2s eqv} mismatch={mismatch w vb w.rules vb.rules} " ++
    s!"unref={",".intercalate (unref.map enc)} unrefsg={b2s unrefSg} " ++
    s!"wf={b2s (wellFormed sh w)} sgdropref={b2s ((refused.map (·.2)).getD false)} shape1={shape va cmds} shape2={shape w p2}" ++
    s!"\t{(refused.map (·.1)).getD "-"}\t{showCmds cmds}\t{p2s}"
  | _, _ => "bad-input"

/-! ### DEVEXEC: a whole plan of `GetChanges` on the whole device -/

def parseGroups (s : String) : List (String × List Cmd) :=
  (splitNE s "!").filterMap (fun it =>
    match it.splitOn "|" with
    | [n, cs] => some (dec n, parseCmds cs)
    | _ => none)

def answerDevExec (shared dev groups : String) : String :=
  match parseDevice dev with
  | none => "bad-input"
  | some d =>
    match execDevAll (decList shared) d (parseGroups groups) with
    | .error e => s!"err\t{enc e}"
    | .ok d' => s!"ok\t{"!".intercalate (d'.map showVsys)}"

/-! ### MYERS -/

def answerMyers (n m bits : String) : String :=
  match n.toNat?, m.toNat? with
  | some n, some m =>
    let arr := bits.toList.toArray
    let eq := fun i j => arr.getD (i * m + j) '0' == '1'
    let rs := myersDiff n m eq
    let diag := n == m && (List.range n).all (fun i => eq i i)
    let ident := if diag then b2s (rs == [⟨0, n, 0, n⟩]) else "-"
    s!"{showRanges rs}\tvalid={b2s (validScript eq n m rs)} norm={b2s (normalised rs)} ident={ident}"
  | _, _ => "bad-input"

def answer (line : String) : String :=
  match line.splitOn "\t" with
  | ["PLAN", devA, devB, sh, a, b, sc] => answerPlan devA devB sh a b sc
  | ["EXEC", sh, v, cmds, t] => answerExec sh v cmds t
  | ["DEVEXEC", sh, dev, groups] => answerDevExec sh dev groups
  | ["PREDICT", sh, a, b] => answerPredict sh a b
  | ["MYERS", n, m, bits] => answerMyers n m bits
  | _ => "bad-request"

end NA.Drv.C03

def main (_ : List String) : IO UInt32 := do
  NA.IOUtil.eachLine NA.Drv.C03.answer
  return 0
