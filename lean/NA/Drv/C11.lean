import NA.Model.GateDrv
import NA.Model.C11SessDrv
import NA.Core.IOUtil
/-! Driver for C11: same protocol and model as nadrv-c06 (NA/Model/GateDrv.lean) — the harness
`c06 -prop C11` asks for `compare` runs, with and without injected faults —, plus the lines
`SESS …` / `VOCAB …` of `harness/c11` (NA/Model/C11SessDrv.lean): the session model of C09 in
compare mode and the specification's vocabulary. -/
def main (_ : List String) : IO UInt32 := do
  NA.IOUtil.eachLine fun l =>
    if NA.C11.SessDrv.isMine l then NA.C11.SessDrv.answer l else NA.Gate.Drv.answer l
  return 0
