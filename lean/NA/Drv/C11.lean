import NA.Model.GateDrv
import NA.Core.IOUtil
/-! Driver for C11: same protocol and model as nadrv-c06 (NA/Model/GateDrv.lean); the harness
asks for `compare` runs, with and without injected faults. -/
def main (_ : List String) : IO UInt32 := do
  NA.IOUtil.eachLine NA.Gate.Drv.answer
  return 0
