import NA.Proofs.C15Dec
import NA.Model.IosRemoveBanner
import NA.Model.IosTiming
import NA.Model.IosLogin
import NA.Core.IOUtil
/-! Driver for C15 (core only). One case per line, fields separated by TAB; inside a field the
characters `\ LF TAB CR BEL | ; = ,` are written `\\ \n \t \r \a \p \s \e \c`.

* `find <s>`                                  → `none` or `<pre> TAB <msg> TAB <post>`   (bannerRe)
* `strip <fixedIgnored> <active> <out> <pend>` → `<ok|abort…> TAB <out'> TAB <need> TAB <pend'>`  (stripReloadBanner)
* `rmbanner <data>` → removeBanner;  `bstart <line>` → delimiter of a banner start line or `none`
* `getout <pend>` / `waithash <pend>` → GetOutput / WaitShort("[#] ?$") on the whole stream: `<ok|abort…> TAB <out> TAB <rest>`
* `chunks <p|h> <buf> <chunks |>` → expectChunks: `<consumed> TAB <rest> TAB <#pieces left>` or `none`
* `dialog <fixed> <noAsk> <late> <changes |> <behavs |> <specials |> <fixedLines |>` →   (fixedLines: `<line>=<behav>` for
  `configure terminal`, `end`, `reload cancel`: banner on that fixed line, wideDevice)   (late: second prompt of a two-prompt answer arrives with the next answer)   (noAsk: device does not ask `Save? [yes/no]`)
      `R=<result> TAB T=<lines |> TAB W=<cmd,line |> TAB G=<guardOK>,<pendingAfter>,<rearms>,<changes>
       TAB H=<Chg.cleanB of all>,<Chg.noProbeFirstB of all>,<specOk>` (hypotheses of the banner theorems)
  behav = `<form>,<msg>,<out>` with form `N`, `A<pad>`, `B<off>`, `C<pad>`, `D`, `E<pre>.<post>`;
  special = `<line>=<reply>;<reply>…`, a reply containing `<!>` where the device reads a line.
* `login <pass> <greeting> <parts |>` → LoginEnable against `echoDev parts`: `R=<result> TAB T=<lines |> TAB P=<head>,<tail> TAB L=<left in the buffer>` -/
namespace NA.Drv.C15
open NA.Ios NA.IOUtil

def unesc : List Char → List Char
  | '\\' :: c :: r =>
    (match c with
     | 'n' => '\n' | 't' => '\t' | 'r' => '\r' | 'a' => '\x07' | 'p' => '|' | 's' => ';'
     | 'e' => '=' | 'c' => ',' | x => x) :: unesc r
  | c :: r => c :: unesc r
  | [] => []

def escC (c : Char) : List Char :=
  match c with
  | '\\' => ['\\', '\\'] | '\n' => ['\\', 'n'] | '\t' => ['\\', 't'] | '\r' => ['\\', 'r']
  | '\x07' => ['\\', 'a'] | '|' => ['\\', 'p'] | ';' => ['\\', 's'] | '=' => ['\\', 'e']
  | ',' => ['\\', 'c'] | x => [x]

def esc (s : Str) : String := String.ofList (s.flatMap escC)
def un (s : String) : Str := unesc s.toList

def splitList (s : String) (sep : String) : List String := if s.isEmpty then [] else s.splitOn sep

def b2s (b : Bool) : String := if b then "1" else "0"

def showAbort : Abort → String
  | .timeout p => s!"timeout:{esc p.toList}"
  | .missingPrompt s => s!"missingPrompt:{esc s}"
  | .unexpectedEcho c s => s!"unexpectedEcho:{esc c}:{esc s}"
  | .unexpectedOutput c o => s!"unexpectedOutput:{esc c}:{esc o}"
  | .writeMemUnexpected o => s!"writeMemUnexpected:{esc o}"
  | .writeMemGiveUp => "writeMemGiveUp"
  | .loginFailed e => if e then "loginFailed:enable" else "loginFailed:login"
  | .indexPanic => "indexPanic"

def showRes {α} : Res α → String
  | .ok _ => "ok"
  | .abort e => "abort:" ++ showAbort e

def parseForm (s : String) : Option Form :=
  match s.toList with
  | ['N'] => some .none
  | ['D'] => some .after
  | 'A' :: r => (String.ofList r).toNat?.map Form.before
  | 'B' :: r => (String.ofList r).toNat?.map Form.inside
  | 'C' :: r => (String.ofList r).toNat?.map Form.afterPrompt
  | 'E' :: r =>
    match (String.ofList r).splitOn "." with
    | [a, b] => do
      let pre ← a.toNat?
      let post ← b.toNat?
      pure (Form.afterLine pre post)
    | _ => none
  | _ => none

def parseBehav (s : String) : Option Behav :=
  match s.splitOn "," with
  | [f, m, o] => (parseForm f).map fun fm => { form := fm, msg := un m, out := un o }
  | _ => none

/-- split a reply text at `<!>` -/
def splitMarker : Str → List Str
  | [] => [[]]
  | '<' :: '!' :: '>' :: r => [] :: splitMarker r
  | c :: r =>
    match splitMarker r with
    | [] => [[c]]
    | h :: t => (c :: h) :: t

def parseSpecial (s : String) : Option (Str × List (List Str)) :=
  match s.splitOn "=" with
  | [l, rs] => some (un l, (splitList rs ";").map fun r => splitMarker (un r))
  | _ => none

def joinBarS (l : List Str) : String := "|".intercalate (l.map esc)

/-- pair the changes with the behaviours of their lines -/
def mkChgs : List Str → List Behav → Option (List Chg)
  | [], _ => some []
  | c :: cs, bs =>
    match splitOnNL c, bs with
    | [l], b :: bs' => (mkChgs cs bs').map (Chg.one l b :: ·)
    | [l1, l2], b1 :: b2 :: bs' => (mkChgs cs bs').map (Chg.two l1 l2 b1 b2 :: ·)
    | _, _ => none

def dummyDev : Device Unit := { step := fun _ _ => ((), []) }

def answer (line : String) : String :=
  match line.splitOn "\t" with
  | ["find", s] =>
    match bannerFind (un s) with
    | none => "none"
    | some (p, m, r) => s!"{esc p}\t{esc m}\t{esc r}"
  | ["strip", act, out, pend] =>
    let st : St Unit := { dev := (), pend := un pend, reloadActive := act == "1" }
    match stripReloadBanner (σ := Unit) (un out) st with
    | (.ok (o, need), st') => s!"ok\t{esc o}\t{b2s need}\t{esc st'.pend}"
    | (.abort e, st') => s!"abort:{showAbort e}\t\t0\t{esc st'.pend}"
  | ["rmbanner", d] => esc (removeBanner (un d))
  | ["bstart", l] =>
    match bannerStart (un l) with
    | none => "none"
    | some c => esc [c]
  | ["getout", pend] =>
    -- GetOutput on the whole stream (fast device); real side: the same bytes arriving in pieces
    let st : St Unit := { dev := (), pend := un pend }
    match getOutput (σ := Unit) st with
    | (.ok o, st') => s!"ok\t{esc o}\t{esc st'.pend}"
    | (.abort e, st') => s!"abort:{showAbort e}\t\t{esc st'.pend}"
  | ["waithash", pend] =>
    let st : St Unit := { dev := (), pend := un pend }
    match waitHashEnd (σ := Unit) st with
    | (.ok o, st') => s!"ok\t{esc o}\t{esc st'.pend}"
    | (.abort e, st') => s!"abort:{showAbort e}\t\t{esc st'.pend}"
  | ["chunks", kind, buf, cks] =>
    let m := if kind == "h" then hashEnd else promptEnd
    match expectChunks m (un buf) ((splitList cks "|").map un) with
    | none => "none"
    | some (a, r, cs) => s!"{esc a}\t{esc r}\t{cs.length}"
  | ["dialog", fx, na, late, cs, bs, sp, fixedS] =>
    let fixedL : List (Str × Behav) := (splitList fixedS "|").filterMap fun e =>
      match e.splitOn "=" with
      | [l, b] => (parseBehav b).map fun bb => (un l, bb)
      | _ => none
    let fb : Str → Option Behav := fun l => (fixedL.find? (·.1 == l)).map (·.2)
    match (splitList bs "|").mapM parseBehav, (splitList sp "|").mapM parseSpecial with
    | some behavs, some specials =>
      let changes := (splitList cs "|").map un
      let st : St SimSt := { dev := { queue := behavs } }
      let (r, tr, wr) :=
        if late == "1" then
          let (r, st') := applyCommands (lateDevice (simDevice specials (na == "1"))) (fx == "1") changes
            { dev := (({ queue := behavs } : SimSt), []) }
          (r, st'.trace, st'.warns)
        else if !fixedL.isEmpty && specials.isEmpty then
          -- banners on the fixed lines: the widened device of NA/Spec/IosDev.lean
          let (r, st') := applyCommands (wideDevice (na == "1") fb) (fx == "1") changes st
          (r, st'.trace, st'.warns)
        else
          let (r, st') := applyCommands (simDevice specials (na == "1")) (fx == "1") changes st
          (r, st'.trace, st'.warns)
      let ls := linesOf tr
      let g := Guard.run ls
      let ws := "|".intercalate (wr.map fun (c, l) => esc c ++ "," ++ esc l)
      let hyp := match mkChgs changes behavs with
        | some gs => s!"{b2s (gs.all Chg.cleanB)},{b2s (gs.all Chg.noProbeFirstB)},{b2s (specOk gs)}"
        | none => "0,0,0"
      s!"R={showRes r}\tT={joinBarS ls}\tW={ws}\tG={b2s (guardOK ls)},{b2s g.pending},{rearms ls},{g.changes}\tH={hyp}"
    | _, _ => "bad-input"
  | ["login", pass, greeting, parts] =>
    -- LoginEnable against the preamble of the scripted device: greeting, then one part per line read
    let (r, st') := loginEnable (echoDev ((splitList parts "|").map un)) (un pass) { dev := 0, pend := un greeting }
    match r with
    | .ok v => s!"R=ok\tT={"|".intercalate (st'.trace.map esc)}\tP={esc v.head},{esc v.tail}\tL={esc st'.pend}"
    | .abort e => s!"R=abort:{showAbort e}\tT={"|".intercalate (st'.trace.map esc)}\tP=\tL={esc st'.pend}"
  | ["monitor", ls] =>
    let l := (splitList ls "|").map un
    let g := Guard.run l
    s!"G={b2s (guardOK l)},{b2s g.pending},{rearms l},{g.changes}"
  | _ => "bad-input"

end NA.Drv.C15

def main (_ : List String) : IO UInt32 := do
  NA.IOUtil.eachLine NA.Drv.C15.answer
  return 0
