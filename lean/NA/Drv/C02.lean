import NA.Model.IosEngine
import NA.Model.IosEngineHyp
import NA.Model.IosEngineRoutes
import NA.Spec.IosCfgDev
import NA.Core.IOUtil
/-!
Driver `nadrv-c02`: the IOS diff engine on fragment F2 (NA/Model/IosEngine.lean) and the strict
specification-side device (NA/Spec/IosCfgDev.lean).

Input: one case per line, tab separated `key=value` fields
  ai / bi  interfaces `name~vrf~addr~shut~inspect~acl dir^acl dir;…`
  aa / ba  ACLs       `name#text~nolog~orig~act#…;…`            (act: p|d|r)
  ar / br  routes     `text~vrf~dst~sortKey;…`
  sa       Myers scripts of ACL pairs `aName>bName:lowA,highA,lowB,highB/…;…`
  xs       (optional) a script to execute on the strict device instead of the model's: not used
Output: tab separated
  rej=0|1  valid=…  msgs=m1|m2  script=l1|l2|…  hits=h:n,…  exec=ok|rejected@k:why  final=<dump>
  wf=0|1   the decidable hypothesis `NA.F2.wfB` of the end-to-end theorem `ios_F2_converges_partial`
  settled=0|1 settledwhy=…   `NA.F2.settledB` (ios_F2_quiet)
  routekeys=0|1 routeshape=0|1 routecmds=N   `NA.Route.phaseA`/`phaseB` on the route commands of the script
-/
namespace NA.Drv.C02
open NA.F2 NA.IOUtil
open NA.Acl (Range Act)

def splitOnNE (s : String) (sep : String) : List String := if s.isEmpty then [] else s.splitOn sep

def parseAct (s : String) : Act := if s == "p" then .permit else if s == "d" then .deny else .remark

def parseBinds (s : String) : List Bind :=
  (splitOnNE s "^").map fun b =>
    match b.splitOn " " with
    | [a, d] => ⟨a, d⟩
    | _ => ⟨b, ""⟩

def parseIntfs (s : String) : List Intf :=
  (splitOnNE s ";").map fun i =>
    match i.splitOn "~" with
    | [n, v, a, sh, ins, bs] => ⟨n, v, a, sh == "1", ins == "1", parseBinds bs⟩
    | _ => { name := i }

def parseALine (s : String) : ALine :=
  match s.splitOn "~" with
  | [t, nl, o, a] => ⟨t, nl, o, parseAct a⟩
  | _ => ⟨s, s, s, .remark⟩

def parseAcls (s : String) : List (Name × List ALine) :=
  (splitOnNE s ";").map fun a =>
    match a.splitOn "#" with
    | n :: ls => (n, ls.map parseALine)
    | [] => ("", [])

def parseRoutes (s : String) : List Route :=
  (splitOnNE s ";").map fun r =>
    match r.splitOn "~" with
    | [t, v, d, k] => ⟨t, v, d, k.toNat?.getD 0⟩
    | _ => ⟨r, "", r, 0⟩

def parseRange (s : String) : Option Range :=
  match (splitComma s).mapM String.toNat? with
  | some [a, b, c, d] => some ⟨a, b, c, d⟩
  | _ => none

def parseScripts (s : String) : List ((Name × Name) × List Range) :=
  (splitOnNE s ";").filterMap fun e =>
    match e.splitOn ":" with
    | [k, rs] =>
      match k.splitOn ">" with
      | [a, b] => some ((a, b), (splitOnNE rs "/").filterMap parseRange)
      | _ => none
    | _ => none

def fieldsOf (line : String) : List (String × String) :=
  (splitTab line).map fun f =>
    match f.splitOn "=" with
    | k :: rest => (k, "=".intercalate rest)
    | [] => ("", "")

def get (fs : List (String × String)) (k : String) : String := (fs.lookup k).getD ""

def countHits (hs : List String) : String :=
  let keys := (NA.F1.sortS hs).eraseDups
  ",".intercalate (keys.map fun k => k ++ ":" ++ toString (hs.filter (· == k)).length)

/-- Every script the engine used is a valid script for its pair. -/
def usedScriptsValid (r : Result) : Bool :=
  r.acts.all fun
    | .edit _ al bl rs => al.isEmpty || (pairCells al bl rs).isSome
    | _ => true

/-- Device access lists in which the line planner suppressed a move next to (or of) a remark line in
this run (ghost flag of `planIOS'`, per edited ACL): F-C02r can only show there. -/
def suppressedAcls (r : Result) : List Name :=
  r.acts.filterMap fun
    | .edit aN al bl rs =>
      if al.isEmpty then none else
      match pairCells al bl rs with
      | some M => if (M.any fun c => c.old && c.new) && (NA.Acl.planIOS' M).2 then some aN else none
      | none => none
    | _ => none

/-- What the model of the unchanged engine predicts for this input: the slots `intf:dir` of the target
whose access list, after the model's script on the strict device, is not block-equivalent to the target's
(or not bound / bound although the target does not bind it). -/
def predictedNotConverged (b : Config) (d : NA.IosDev2.Dev) : List String :=
  b.intfs.flatMap fun bi =>
    ["in", "out"].filterMap fun dir =>
      match bi.binds.find? (·.dir == dir), NA.IosDev2.slotOf d bi.name dir with
      | some bd, some n =>
        if NA.IosDev2.blockEquivL (NA.IosDev2.linesOf d n) (b.lines bd.acl) then none else some (bi.name ++ ":" ++ dir)
      | none, none => none
      | _, _ => some (bi.name ++ ":" ++ dir)

/-- … and whether the route lines of the VRFs for which the target specifies routes are the target's. -/
def predictedRoutesConverged (a b : Config) (d : NA.IosDev2.Dev) : Bool :=
  let refs := a.routes ++ b.routes
  let vrfOf := fun t => ((refs.find? fun r => r.text == t).map (·.vrf)).getD "?"
  let managed := d.routes.filter fun t => (b.routes.map (·.vrf)).contains (vrfOf t)
  managed.all (fun t => (b.routes.map (·.text)).contains t) && (b.routes.map (·.text)).all fun t => managed.contains t

def answer (line : String) : String :=
  let fs := fieldsOf line
  let a : Config := { intfs := parseIntfs (get fs "ai"), acls := parseAcls (get fs "aa"), routes := parseRoutes (get fs "ar") }
  let b : Config := { intfs := parseIntfs (get fs "bi"), acls := parseAcls (get fs "ba"), routes := parseRoutes (get fs "br") }
  let sc : Scripts := { acl := parseScripts (get fs "sa") }
  let r := engine a b sc
  if !r.ok then
    "\t".intercalate ["rej=1", "msgs=" ++ "|".intercalate r.msgs, "hits=" ++ countHits r.hits]
  else
    let ex := NA.IosDev2.run (NA.IosDev2.ofConfig a) r.script
    let exec := match ex.2 with
      | none => "ok"
      | some (k, why) => s!"rejected@{k}:{why}"
    "\t".intercalate [
      "rej=0",
      "valid=" ++ (if usedScriptsValid r then "1" else "0"),
      "msgs=" ++ "|".intercalate r.msgs,
      "script=" ++ "|".intercalate (showChanges r.script),
      "hits=" ++ countHits r.hits,
      "exec=" ++ exec,
      -- hypothesis of the end-to-end theorem `ios_F2_converges_partial` (NA.F2.wfB)
      "wf=" ++ (if wfB a b sc then "1" else "0"),
      "wfwhy=" ++ wfWhy a b sc,
      -- hypothesis of `ios_F2_quiet`: the device is statically settled
      "settled=" ++ (if settledB a b sc then "1" else "0"),
      "settledwhy=" ++ settledWhy a b sc,
      -- hypotheses of `NA.Route.routes_covered` on the route commands of the script (`ios_route_plan_phases`)
      "routekeys=" ++ (if routeKeysOK a b then "1" else "0"),
      "routeshape=" ++ (if routeShape a b r.script then "1" else "0"),
      "routecmds=" ++ toString (r.script.flatMap chgRouteOp).length,
      -- per-object prediction of the model (for the signatures of known finding F-C02r)
      "suppracls=" ++ ",".intercalate (suppressedAcls r),
      -- `ios_F2_idempotent_exact`: suppressed moves of this run; compared pairs that are equal line by line / get the identity script
      "nosuppr=" ++ (if noSupprRun r then "1" else "0"),
      "nosupprB=" ++ (if noSupprB a b sc then "1" else "0"),
      "cmppairs=" ++ toString (cmpPairs (alignVRFs a b {}).2 b).length,
      "eqpairs=" ++ toString ((cmpPairs (alignVRFs a b {}).2 b).filter fun p => linesEqB (a.lines p.1) (b.lines p.2)).length,
      "idpairs=" ++ toString ((cmpPairs (alignVRFs a b {}).2 b).filter fun p => identityOn (a.lines p.1) (b.lines p.2) (NA.F1.lookupD sc.acl p)).length,
      -- IdentityDiffer on the real library: equal lists get the identity script
      "iddiffer=" ++ (if (cmpPairs (alignVRFs a b {}).2 b).all (fun p => !linesEqB (a.lines p.1) (b.lines p.2) ||
          identityOn (a.lines p.1) (b.lines p.2) (NA.F1.lookupD sc.acl p)) then "1" else "0"),
      "notconv=" ++ (if ex.2.isSome then "?" else ",".intercalate (predictedNotConverged b ex.1)),
      "routesconv=" ++ (if ex.2.isSome then "?" else if predictedRoutesConverged a b ex.1 then "1" else "0"),
      "final=" ++ NA.IosDev2.dump ex.1]

end NA.Drv.C02

def main (_ : List String) : IO UInt32 := do
  NA.IOUtil.eachLine NA.Drv.C02.answer
  return 0
