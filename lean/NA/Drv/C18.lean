import NA.Model.MergeConf
import NA.Model.MergeCisco
import NA.Model.MergeOther
import NA.Core.IOUtil
/-! Driver for C18: one `loadSpoc` case per line on the model.

Input  (TAB separated): `dev  gen  v4  v6  raw`
  dev  = asa | ios | linux | panos | nsx        gen = old | new
  file = `-` (absent)  or  `flags/conts/anchors`
         flags   : letters `r` (raw file), `u` (contains a top-level command the raw parser rejects)
         conts   : `name:user:lines` joined by `;`   user = 0|1, lines = `id.kind.app.known` joined by `,`
                   kind = p|d|o|6   app, known = 0|1
         anchors : `key>acl` joined by `,`
Output: `err <kind> <n>`  or
        `ok <TAB> name:id,id,…;… <TAB> key=id,id,…;…  (Cisco: ACL bound by each anchor, sorted by key) <TAB> W:n,n,… <TAB> key>acl,… <TAB> S6:0|1` -/
namespace NA.Drv.C18
open NA.C18 NA.IOUtil

def splitOnNE (s : String) (sep : String) : List String := if s.isEmpty then [] else s.splitOn sep

def parseKind : String → Option Kind
  | "p" => some .permit | "d" => some .deny | "o" => some .other | "6" => some .any6 | _ => none

def parseBool : String → Option Bool
  | "0" => some false | "1" => some true | _ => none

def parseLine (s : String) : Option SrcLine :=
  match s.splitOn "." with
  | [i, k, a, kn] => do
    let id ← i.toNat?
    let kind ← parseKind k
    let app ← parseBool a
    let known ← parseBool kn
    pure { e := { id, kind, app }, known }
  | _ => none

def parseCont (s : String) : Option Cont :=
  match s.splitOn ":" with
  | [n, u, ls] => do
    let name ← n.toNat?
    let user ← parseBool u
    let lines ← (splitOnNE ls ",").mapM parseLine
    pure { name, user, lines }
  | _ => none

def parseAnchor (s : String) : Option Anchor :=
  match s.splitOn ">" with
  | [k, a] => do pure { key := ← k.toNat?, acl := ← a.toNat? }
  | _ => none

def parseFile (s : String) : Option File :=
  if s == "-" then some {} else
  match s.splitOn "/" with
  | [fl, cs, as] => do
    let conts ← (splitOnNE cs ";").mapM parseCont
    let anchors ← (splitOnNE as ",").mapM parseAnchor
    pure { isRaw := fl.contains 'r', unknownTop := fl.contains 'u', conts, anchors }
  | _ => none

def parseDev : String → Option Dev
  | "asa" => some .asa | "ios" => some .ios | "linux" => some .linux | "panos" => some .panos
  | "nsx" => some .nsx | _ => none

def showErr : Err → String
  | .unknownCmd => "err unknownCmd 0"
  | .unknownRef n => s!"err unknownRef {n}"
  | .onlyOnce n => s!"err onlyOnce {n}"
  | .nameClash n => s!"err nameClash {n}"
  | .redefChain n => s!"err redefChain {n}"
  | .panic => "err panic 0"

def ids (l : List Entry) : String := joinComma (l.map (fun e => toString e.id))

def insertSorted (x : Nat × String) : List (Nat × String) → List (Nat × String)
  | [] => [x]
  | y :: ys => if x.1 ≤ y.1 then x :: y :: ys else y :: insertSorted x ys

def showResult (r : Result) : String :=
  let conts := ";".intercalate (r.conf.conts.map (fun c => s!"{c.1}:{ids c.2.2}"))
  let bound := r.conf.anchors.map (fun k => (k.key, ids (((r.conf.conts.get? k.acl).map (·.2)).getD [])))
  let bound := bound.foldl (fun acc x => insertSorted x acc) []
  let bs := ";".intercalate (bound.map (fun x => s!"{x.1}={x.2}"))
  let ws := r.warn.foldl (fun acc x => insertSorted (x, "") acc) []
  let anch := r.conf.anchors.foldl (fun acc k => insertSorted (k.key, toString k.acl) acc) []
  let an := joinComma (anch.map (fun x => s!"{x.1}>{x.2}"))
  s!"ok\t{conts}\t{bs}\tW:{joinComma (ws.map (fun x => toString x.1))}\t{an}"

def answer (line : String) : String :=
  match line.splitOn "\t" with
  | [d, g, f4, f6, fr] =>
    match parseDev d, parseFile f4, parseFile f6, parseFile fr with
    | some dev, some v4, some v6, some raw =>
      let gen := if g == "old" then Gen.old else Gen.new
      -- hypothesis of `cisco_netspoc_lines_kept_partial` for the IPv6 stage (classifies F-C18g)
      let s6 := match dev with
        | .asa | .ios => safeMerge dev gen (v4.toConf dev) v6
        | _ => true
      match loadSpoc dev gen v4 v6 raw with
      | .ok r => showResult r ++ (if s6 then "\tS6:1" else "\tS6:0")
      | .error e => showErr e
    | _, _, _, _ => "bad-input"
  | _ => "bad-input"

/-! ### Op `cisco3`: the general model of cisco MergeSpoc on dumped command tables

Input : `cisco3 <TAB> v4 <TAB> v6 <TAB> raw`; a table is a list of records joined by U+001C, a record has the
        fields (joined by U+001D) `T|S, prefix, key, typPrefix, parsed, name, seq, flags, refs`;
        `S` records are the subcommands of the preceding `T` record; flags = append, anchor, simple as 0/1;
        refs = `refPrefix U+001F name` joined by U+001E.
Output: `ok <TAB> table <TAB> warnings joined by U+001E` (prefixes and names sorted) or `err <kind> <args>`. -/
namespace G
open NA.C18.G

def fs : String := "\x1c"
def gs : String := "\x1d"
def rs : String := "\x1e"
def us : String := "\x1f"

structure Rec9 where
  top : Bool
  pfx : String
  key : String
  cmd : Cmd

def parseRefs (s : String) : List String × List String :=
  let items := if s.isEmpty then [] else s.splitOn rs
  let pairs := items.map (fun it => match it.splitOn us with
    | [p, n] => (p, n)
    | _ => ("?", it))
  (pairs.map (·.2), pairs.map (·.1))

def parseRec (s : String) : Option Rec9 :=
  match s.splitOn gs with
  | [k, pfx, key, tp, parsed, name, seq, flags, refs] =>
    let (ref, refPrefix) := parseRefs refs
    let fl := flags.toList
    some { top := k == "T", pfx, key,
           cmd := { typPrefix := tp, parsed, name, seq := seq.toNat?.getD 0, ref, refPrefix,
                    app := fl.getD 0 '0' == '1', anchor := fl.getD 1 '0' == '1', simple := fl.getD 2 '0' == '1' } }
  | _ => none

def toSub (c : Cmd) : Sub :=
  { parsed := c.parsed, name := c.name, seq := c.seq, ref := c.ref, refPrefix := c.refPrefix, app := c.app }

/-- Records (in dump order) to a table; commands of one key keep their order. -/
def buildTbl (recs : List Rec9) : Tbl :=
  let step := fun (acc : Tbl × Option (String × String)) (r : Rec9) =>
    let (t, cur) := acc
    if r.top then
      (t.set r.pfx r.key (t.get r.pfx r.key ++ [r.cmd]), some (r.pfx, r.key))
    else match cur with
      | none => (t, cur)
      | some (p, k) =>
        let l := t.get p k
        match l.getLast? with
        | none => (t, cur)
        | some last => (t.set p k (l.dropLast ++ [{ last with sub := last.sub ++ [toSub r.cmd] }]), cur)
  (recs.foldl step ([], none)).1

def parseTbl (s : String) : Option Tbl :=
  if s.isEmpty then some [] else ((s.splitOn fs).mapM parseRec).map buildTbl

def b2c (b : Bool) : String := if b then "1" else "0"

def encRefs (ref refPrefix : List String) : String :=
  rs.intercalate ((ref.zip (refPrefix ++ List.replicate ref.length "?")).map (fun p => p.2 ++ us ++ p.1))

def encTbl (t : Tbl) : String :=
  let recs := t.keys.flatMap (fun k =>
    (t.get k.1 k.2).flatMap (fun c =>
      gs.intercalate ["T", k.1, k.2, c.parsed, c.name, toString c.seq, b2c c.app, encRefs c.ref c.refPrefix] ::
      c.sub.map (fun s => gs.intercalate ["S", "", "", s.parsed, s.name, toString s.seq, b2c s.app, encRefs s.ref s.refPrefix])))
  fs.intercalate recs

def showErr : NA.C18.G.Err → String
  | .onlyOnce p n => s!"err onlyOnce {p}{us}{n}"
  | .nameClash p n => s!"err nameClash {p}{us}{n}"
  | .notSupported p => s!"err notSupported {p}"
  | .missingPeer n q => s!"err missingPeer {n}{us}{q}"
  | .panic => "err panic"
  | .depth => "err depth"
  | .unmodelled => "err unmodelled"

def answer (f4 f6 fr : String) : String :=
  match parseTbl f4, parseTbl f6, parseTbl fr with
  | some v4, some v6, some raw =>
    match loadSpoc v4 v6 raw with
    | .ok (t, w) => s!"ok\t{encTbl t}\t{rs.intercalate w}"
    | .error e => showErr e
  | _, _, _ => "bad-input"

end G

/-! ### Ops `linux3`, `panos3`, `nsx3`: ports of the other backends (NA/Model/MergeOther.lean)

Separators as for `cisco3` (U+001C > U+001D > U+001E > U+001F).
`linux3 gen v4 v6 raw`: file = `routes(1E) 1C lines(1E)`, line = `T 1F name | C 1F name 1F policy | S | A 1F chain 1F text 1F target | P | M | O`,
                        `-` = file absent.  Answer `ok TAB routes(1E) 1C tables(1E) 1C chain…`, chain = `table 1D name 1D policy 1D rules(1E)`, rule = `text 1F target 1F app`.
`panos3 gen c4 c6 craw`: conf = `hasEntry 1C devName 1C vsys…`, vsys = `name 1D rules 1D addresses 1D address-groups 1D services 1D service-groups` (lists 1E, items `name 1F val|app`).
`nsx3 c4 c6 craw`      : conf = `policies(1C) 1D groups(1E) 1D services(1E)`, policy = `id 1F rule 1F rule…`. -/
namespace O
open NA.C18

def fs : String := "\x1c"
def gs : String := "\x1d"
def rs : String := "\x1e"
def us : String := "\x1f"
def splitNE (s sep : String) : List String := if s.isEmpty then [] else s.splitOn sep
def b2c (b : Bool) : String := if b then "1" else "0"
def parseGen (g : String) : Gen2 := if g == "old" then .old else .new

-- Linux
def parseLine (s : String) : Option L.Line :=
  match s.splitOn us with
  | ["T", n] => some (.table n)
  | ["C", n, p] => some (.chain n p)
  | ["S"] => some .chainShort
  | ["A", c, t, j] => some (.rule c t j)
  | ["P"] => some .append
  | ["M"] => some .commit
  | ["O"] => some .other
  | _ => none

def parseLFile (s : String) : Option (List String × List L.Line) :=
  if s == "-" then some ([], []) else
  match s.splitOn fs with
  | [r, l] => ((splitNE l rs).mapM parseLine).map (fun ls => (splitNE r rs, ls))
  | _ => none

def showLErr : L.Err → String
  | .redefChain t c => s!"err redefChain {t}{us}{c}"
  | .dupTable t => s!"err dupTable {t}"
  | .dupChain c => s!"err dupChain {c}"
  | .noPolicy c => s!"err noPolicy {c}"
  | .outside => "err outside"
  | .unknownCmd => "err unknownCmd"

def encLConf (c : L.Conf) : String :=
  fs.intercalate ([rs.intercalate c.routes, rs.intercalate c.tables] ++
    c.chains.map (fun ch => gs.intercalate [ch.table, ch.name, ch.policy,
      rs.intercalate (ch.rules.map (fun r => us.intercalate [r.text, r.target, b2c r.app]))]))

def linux3 (g f4 f6 fr : String) : String :=
  match parseLFile f4, parseLFile f6, parseLFile fr with
  | some (r4, l4), some (r6, l6), some (rr, lr) =>
    let gen := parseGen g
    let res : Except L.Err L.Conf := do
      let c4 ← (L.parseLines gen l4).map (L.toConf r4)
      let c6 ← (L.parseLines gen l6).map (L.toConf r6)
      let c ← L.mergeConf c4 c6
      let cr ← (L.parseLines gen lr).map (L.toConf rr)
      L.mergeConf c cr
    match res with
    | .ok c => "ok\t" ++ encLConf c
    | .error e => showLErr e
  | _, _, _ => "bad-input"

-- PAN-OS
def parseObjs (s : String) : List P.Obj :=
  (splitNE s rs).map (fun it => match it.splitOn us with
    | [n, v] => { name := n, val := v }
    | _ => { name := it })

def parseVsys (s : String) : Option P.Vsys :=
  match s.splitOn gs with
  | [n, ru, ad, ag, sv, sg] =>
    some { name := n
           rules := (splitNE ru rs).map (fun it => match it.splitOn us with
             | [rn, a] => { name := rn, app := a == "1" }
             | _ => { name := it })
           addresses := parseObjs ad, addressGroups := parseObjs ag, services := parseObjs sv, serviceGroups := parseObjs sg }
  | _ => none

def parsePConf (s : String) : Option P.Conf :=
  if s == "-" then some {} else
  match s.splitOn fs with
  | e :: dn :: vs => (vs.mapM parseVsys).map (fun l => { hasEntry := e == "1", devName := dn, vsys := l })
  | _ => none

def encObjs (l : List P.Obj) : String := rs.intercalate (l.map (fun o => o.name ++ us ++ o.val))

def encPConf (c : P.Conf) : String :=
  fs.intercalate ([b2c c.hasEntry, c.devName] ++ c.vsys.map (fun v => gs.intercalate
    [v.name, rs.intercalate (v.rules.map (fun r => r.name ++ us ++ b2c r.app)),
     encObjs v.addresses, encObjs v.addressGroups, encObjs v.services, encObjs v.serviceGroups]))

def showPErr : P.Err → String
  | .reservedName r => s!"err reservedName {r}"
  | .devName a b => s!"err devName {a}{us}{b}"
  | .clash t n v => s!"err clash {t}{us}{n}{us}{v}"

def panos3 (g c4 c6 cr : String) : String :=
  match parsePConf c4, parsePConf c6, parsePConf cr with
  | some p4, some p6, some pr =>
    let gen := parseGen g
    let res : Except P.Err P.Conf := do
      let c ← P.mergeSpoc gen p4 p6
      if let some e := P.checkRaw pr then throw e
      P.mergeSpoc gen c pr
    match res with
    | .ok c => "ok\t" ++ encPConf c
    | .error e => showPErr e
  | _, _, _ => "bad-input"

-- NSX
def parseNConf (s : String) : Option N.Conf :=
  if s == "-" then some {} else
  match s.splitOn gs with
  | [ps, gr, sv] =>
    some { policies := (splitNE ps fs).map (fun it => match it.splitOn us with
             | i :: rules => { id := i, rules := rules }
             | [] => { id := "" })
           groups := splitNE gr rs, services := splitNE sv rs }
  | _ => none

def encNConf (c : N.Conf) : String :=
  gs.intercalate [fs.intercalate (c.policies.map (fun p => us.intercalate (p.id :: p.rules))),
    rs.intercalate c.groups, rs.intercalate c.services]

def showNErr : N.Err → String
  | .reservedRule r => s!"err reservedRule {r}"
  | .groupPrefix g => s!"err groupPrefix {g}"
  | .reservedGroup g => s!"err reservedGroup {g}"
  | .servicePrefix s => s!"err servicePrefix {s}"

def nsx3 (c4 c6 cr : String) : String :=
  match parseNConf c4, parseNConf c6, parseNConf cr with
  | some n4, some n6, some nr =>
    match N.checkRaw nr with
    | some e => showNErr e
    | none => "ok\t" ++ encNConf (N.mergeSpoc (N.mergeSpoc n4 n6) nr)
  | _, _, _ => "bad-input"

end O

def answerAny (line : String) : String :=
  match line.splitOn "\t" with
  | ["cisco3", f4, f6, fr] => G.answer f4 f6 fr
  | ["linux3", g, f4, f6, fr] => O.linux3 g f4 f6 fr
  | ["panos3", g, f4, f6, fr] => O.panos3 g f4 f6 fr
  | ["nsx3", f4, f6, fr] => O.nsx3 f4 f6 fr
  | _ => answer line

end NA.Drv.C18

def main (_ : List String) : IO UInt32 := do
  NA.IOUtil.eachLine NA.Drv.C18.answerAny
  return 0
