import NA.Model.MergeConf
import NA.Core.IOUtil
/-! Driver for C18: one `loadSpoc` case per line on the model.

Input  (TAB separated): `dev  gen  v4  v6  raw`
  dev  = asa | ios | linux | panos | nsx        gen = old | new
  file = `-` (absent)  or  `flags/conts/anchors`
         flags   : letters `r` (raw file), `u` (contains a top-level command the raw parser rejects)
         conts   : `name:user:lines` joined by `;`   user = 0|1, lines = `id.kind.app.known` joined by `,`
                   kind = p|d|o|6   app, known = 0|1
         anchors : `key>acl` joined by `,`
Output: `err <kind> <n>`  or
        `ok <TAB> name:id,id,…;… <TAB> key=id,id,…;…  (Cisco: ACL bound by each anchor, sorted by key) <TAB> W:n,n,… <TAB> key>acl,… <TAB> S6:0|1` -/
namespace NA.Drv.C18
open NA.C18 NA.IOUtil

def splitOnNE (s : String) (sep : String) : List String := if s.isEmpty then [] else s.splitOn sep

def parseKind : String → Option Kind
  | "p" => some .permit | "d" => some .deny | "o" => some .other | "6" => some .any6 | _ => none

def parseBool : String → Option Bool
  | "0" => some false | "1" => some true | _ => none

def parseLine (s : String) : Option SrcLine :=
  match s.splitOn "." with
  | [i, k, a, kn] => do
    let id ← i.toNat?
    let kind ← parseKind k
    let app ← parseBool a
    let known ← parseBool kn
    pure { e := { id, kind, app }, known }
  | _ => none

def parseCont (s : String) : Option Cont :=
  match s.splitOn ":" with
  | [n, u, ls] => do
    let name ← n.toNat?
    let user ← parseBool u
    let lines ← (splitOnNE ls ",").mapM parseLine
    pure { name, user, lines }
  | _ => none

def parseAnchor (s : String) : Option Anchor :=
  match s.splitOn ">" with
  | [k, a] => do pure { key := ← k.toNat?, acl := ← a.toNat? }
  | _ => none

def parseFile (s : String) : Option File :=
  if s == "-" then some {} else
  match s.splitOn "/" with
  | [fl, cs, as] => do
    let conts ← (splitOnNE cs ";").mapM parseCont
    let anchors ← (splitOnNE as ",").mapM parseAnchor
    pure { isRaw := fl.contains 'r', unknownTop := fl.contains 'u', conts, anchors }
  | _ => none

def parseDev : String → Option Dev
  | "asa" => some .asa | "ios" => some .ios | "linux" => some .linux | "panos" => some .panos
  | "nsx" => some .nsx | _ => none

def showErr : Err → String
  | .unknownCmd => "err unknownCmd 0"
  | .unknownRef n => s!"err unknownRef {n}"
  | .onlyOnce n => s!"err onlyOnce {n}"
  | .nameClash n => s!"err nameClash {n}"
  | .redefChain n => s!"err redefChain {n}"
  | .panic => "err panic 0"

def ids (l : List Entry) : String := joinComma (l.map (fun e => toString e.id))

def insertSorted (x : Nat × String) : List (Nat × String) → List (Nat × String)
  | [] => [x]
  | y :: ys => if x.1 ≤ y.1 then x :: y :: ys else y :: insertSorted x ys

def showResult (r : Result) : String :=
  let conts := ";".intercalate (r.conf.conts.map (fun c => s!"{c.1}:{ids c.2.2}"))
  let bound := r.conf.anchors.map (fun k => (k.key, ids (((r.conf.conts.get? k.acl).map (·.2)).getD [])))
  let bound := bound.foldl (fun acc x => insertSorted x acc) []
  let bs := ";".intercalate (bound.map (fun x => s!"{x.1}={x.2}"))
  let ws := r.warn.foldl (fun acc x => insertSorted (x, "") acc) []
  let anch := r.conf.anchors.foldl (fun acc k => insertSorted (k.key, toString k.acl) acc) []
  let an := joinComma (anch.map (fun x => s!"{x.1}>{x.2}"))
  s!"ok\t{conts}\t{bs}\tW:{joinComma (ws.map (fun x => toString x.1))}\t{an}"

def answer (line : String) : String :=
  match line.splitOn "\t" with
  | [d, g, f4, f6, fr] =>
    match parseDev d, parseFile f4, parseFile f6, parseFile fr with
    | some dev, some v4, some v6, some raw =>
      let gen := if g == "old" then Gen.old else Gen.new
      -- hypothesis of `cisco_netspoc_lines_kept_partial` for the IPv6 stage (classifies F-C18g)
      let s6 := match dev with
        | .asa | .ios => safeMerge dev gen (v4.toConf dev) v6
        | _ => true
      match loadSpoc dev gen v4 v6 raw with
      | .ok r => showResult r ++ (if s6 then "\tS6:1" else "\tS6:0")
      | .error e => showErr e
    | _, _, _, _ => "bad-input"
  | _ => "bad-input"

end NA.Drv.C18

def main (_ : List String) : IO UInt32 := do
  NA.IOUtil.eachLine NA.Drv.C18.answer
  return 0
