import NA.Model.MergeConf
import NA.Model.MergeCisco
import NA.Core.IOUtil
/-! Driver for C18: one `loadSpoc` case per line on the model.

Input  (TAB separated): `dev  gen  v4  v6  raw`
  dev  = asa | ios | linux | panos | nsx        gen = old | new
  file = `-` (absent)  or  `flags/conts/anchors`
         flags   : letters `r` (raw file), `u` (contains a top-level command the raw parser rejects)
         conts   : `name:user:lines` joined by `;`   user = 0|1, lines = `id.kind.app.known` joined by `,`
                   kind = p|d|o|6   app, known = 0|1
         anchors : `key>acl` joined by `,`
Output: `err <kind> <n>`  or
        `ok <TAB> name:id,id,…;… <TAB> key=id,id,…;…  (Cisco: ACL bound by each anchor, sorted by key) <TAB> W:n,n,… <TAB> key>acl,… <TAB> S6:0|1` -/
namespace NA.Drv.C18
open NA.C18 NA.IOUtil

def splitOnNE (s : String) (sep : String) : List String := if s.isEmpty then [] else s.splitOn sep

def parseKind : String → Option Kind
  | "p" => some .permit | "d" => some .deny | "o" => some .other | "6" => some .any6 | _ => none

def parseBool : String → Option Bool
  | "0" => some false | "1" => some true | _ => none

def parseLine (s : String) : Option SrcLine :=
  match s.splitOn "." with
  | [i, k, a, kn] => do
    let id ← i.toNat?
    let kind ← parseKind k
    let app ← parseBool a
    let known ← parseBool kn
    pure { e := { id, kind, app }, known }
  | _ => none

def parseCont (s : String) : Option Cont :=
  match s.splitOn ":" with
  | [n, u, ls] => do
    let name ← n.toNat?
    let user ← parseBool u
    let lines ← (splitOnNE ls ",").mapM parseLine
    pure { name, user, lines }
  | _ => none

def parseAnchor (s : String) : Option Anchor :=
  match s.splitOn ">" with
  | [k, a] => do pure { key := ← k.toNat?, acl := ← a.toNat? }
  | _ => none

def parseFile (s : String) : Option File :=
  if s == "-" then some {} else
  match s.splitOn "/" with
  | [fl, cs, as] => do
    let conts ← (splitOnNE cs ";").mapM parseCont
    let anchors ← (splitOnNE as ",").mapM parseAnchor
    pure { isRaw := fl.contains 'r', unknownTop := fl.contains 'u', conts, anchors }
  | _ => none

def parseDev : String → Option Dev
  | "asa" => some .asa | "ios" => some .ios | "linux" => some .linux | "panos" => some .panos
  | "nsx" => some .nsx | _ => none

def showErr : Err → String
  | .unknownCmd => "err unknownCmd 0"
  | .unknownRef n => s!"err unknownRef {n}"
  | .onlyOnce n => s!"err onlyOnce {n}"
  | .nameClash n => s!"err nameClash {n}"
  | .redefChain n => s!"err redefChain {n}"
  | .panic => "err panic 0"

def ids (l : List Entry) : String := joinComma (l.map (fun e => toString e.id))

def insertSorted (x : Nat × String) : List (Nat × String) → List (Nat × String)
  | [] => [x]
  | y :: ys => if x.1 ≤ y.1 then x :: y :: ys else y :: insertSorted x ys

def showResult (r : Result) : String :=
  let conts := ";".intercalate (r.conf.conts.map (fun c => s!"{c.1}:{ids c.2.2}"))
  let bound := r.conf.anchors.map (fun k => (k.key, ids (((r.conf.conts.get? k.acl).map (·.2)).getD [])))
  let bound := bound.foldl (fun acc x => insertSorted x acc) []
  let bs := ";".intercalate (bound.map (fun x => s!"{x.1}={x.2}"))
  let ws := r.warn.foldl (fun acc x => insertSorted (x, "") acc) []
  let anch := r.conf.anchors.foldl (fun acc k => insertSorted (k.key, toString k.acl) acc) []
  let an := joinComma (anch.map (fun x => s!"{x.1}>{x.2}"))
  s!"ok\t{conts}\t{bs}\tW:{joinComma (ws.map (fun x => toString x.1))}\t{an}"

def answer (line : String) : String :=
  match line.splitOn "\t" with
  | [d, g, f4, f6, fr] =>
    match parseDev d, parseFile f4, parseFile f6, parseFile fr with
    | some dev, some v4, some v6, some raw =>
      let gen := if g == "old" then Gen.old else Gen.new
      -- hypothesis of `cisco_netspoc_lines_kept_partial` for the IPv6 stage (classifies F-C18g)
      let s6 := match dev with
        | .asa | .ios => safeMerge dev gen (v4.toConf dev) v6
        | _ => true
      match loadSpoc dev gen v4 v6 raw with
      | .ok r => showResult r ++ (if s6 then "\tS6:1" else "\tS6:0")
      | .error e => showErr e
    | _, _, _, _ => "bad-input"
  | _ => "bad-input"

/-! ### Op `cisco3`: the general model of cisco MergeSpoc on dumped command tables

Input : `cisco3 <TAB> v4 <TAB> v6 <TAB> raw`; a table is a list of records joined by U+001C, a record has the
        fields (joined by U+001D) `T|S, prefix, key, typPrefix, parsed, name, seq, flags, refs`;
        `S` records are the subcommands of the preceding `T` record; flags = append, anchor, simple as 0/1;
        refs = `refPrefix U+001F name` joined by U+001E.
Output: `ok <TAB> table <TAB> warnings joined by U+001E` (prefixes and names sorted) or `err <kind> <args>`. -/
namespace G
open NA.C18.G

def fs : String := "\x1c"
def gs : String := "\x1d"
def rs : String := "\x1e"
def us : String := "\x1f"

structure Rec9 where
  top : Bool
  pfx : String
  key : String
  cmd : Cmd

def parseRefs (s : String) : List String × List String :=
  let items := if s.isEmpty then [] else s.splitOn rs
  let pairs := items.map (fun it => match it.splitOn us with
    | [p, n] => (p, n)
    | _ => ("?", it))
  (pairs.map (·.2), pairs.map (·.1))

def parseRec (s : String) : Option Rec9 :=
  match s.splitOn gs with
  | [k, pfx, key, tp, parsed, name, seq, flags, refs] =>
    let (ref, refPrefix) := parseRefs refs
    let fl := flags.toList
    some { top := k == "T", pfx, key,
           cmd := { typPrefix := tp, parsed, name, seq := seq.toNat?.getD 0, ref, refPrefix,
                    app := fl.getD 0 '0' == '1', anchor := fl.getD 1 '0' == '1', simple := fl.getD 2 '0' == '1' } }
  | _ => none

def toSub (c : Cmd) : Sub :=
  { parsed := c.parsed, name := c.name, seq := c.seq, ref := c.ref, refPrefix := c.refPrefix, app := c.app }

/-- Records (in dump order) to a table; commands of one key keep their order. -/
def buildTbl (recs : List Rec9) : Tbl :=
  let step := fun (acc : Tbl × Option (String × String)) (r : Rec9) =>
    let (t, cur) := acc
    if r.top then
      (t.set r.pfx r.key (t.get r.pfx r.key ++ [r.cmd]), some (r.pfx, r.key))
    else match cur with
      | none => (t, cur)
      | some (p, k) =>
        let l := t.get p k
        match l.getLast? with
        | none => (t, cur)
        | some last => (t.set p k (l.dropLast ++ [{ last with sub := last.sub ++ [toSub r.cmd] }]), cur)
  (recs.foldl step ([], none)).1

def parseTbl (s : String) : Option Tbl :=
  if s.isEmpty then some [] else ((s.splitOn fs).mapM parseRec).map buildTbl

def b2c (b : Bool) : String := if b then "1" else "0"

def encRefs (ref refPrefix : List String) : String :=
  rs.intercalate ((ref.zip (refPrefix ++ List.replicate ref.length "?")).map (fun p => p.2 ++ us ++ p.1))

def encTbl (t : Tbl) : String :=
  let recs := t.keys.flatMap (fun k =>
    (t.get k.1 k.2).flatMap (fun c =>
      gs.intercalate ["T", k.1, k.2, c.parsed, c.name, toString c.seq, b2c c.app, encRefs c.ref c.refPrefix] ::
      c.sub.map (fun s => gs.intercalate ["S", "", "", s.parsed, s.name, toString s.seq, b2c s.app, encRefs s.ref s.refPrefix])))
  fs.intercalate recs

def showErr : NA.C18.G.Err → String
  | .onlyOnce p n => s!"err onlyOnce {p}{us}{n}"
  | .nameClash p n => s!"err nameClash {p}{us}{n}"
  | .notSupported p => s!"err notSupported {p}"
  | .missingPeer n q => s!"err missingPeer {n}{us}{q}"
  | .panic => "err panic"
  | .depth => "err depth"
  | .unmodelled => "err unmodelled"

def answer (f4 f6 fr : String) : String :=
  match parseTbl f4, parseTbl f6, parseTbl fr with
  | some v4, some v6, some raw =>
    match loadSpoc v4 v6 raw with
    | .ok (t, w) => s!"ok\t{encTbl t}\t{rs.intercalate w}"
    | .error e => showErr e
  | _, _, _ => "bad-input"

end G

def answerAny (line : String) : String :=
  match line.splitOn "\t" with
  | ["cisco3", f4, f6, fr] => G.answer f4 f6 fr
  | _ => answer line

end NA.Drv.C18

def main (_ : List String) : IO UInt32 := do
  NA.IOUtil.eachLine NA.Drv.C18.answerAny
  return 0
