import NA.Proofs.C13
import NA.Core.IOUtil
/-! Driver for C13: replays one history per input line on the model.
Input : events separated by ';', each `kind:arg:dt`
        kinds: np (arg = six comma separated content ids), ok, fail, cmp, cmperr, drift (arg = code),
               bz (arg = policy), rm (arg = policy), dmg
Output: per event `A=<res>/<policy>/<time> C=<res>/<policy>/<time> L=<0|1>` joined by ';',
        then ` | needs=<0|1> clean=<0|1> safe=<0|1> hazardAtFail=<0|1> obs=<..>`. -/
namespace NA.Drv.C13
open NA.C13 NA.IOUtil

def parseEvent (s : String) : Option (Event × Nat) := do
  match s.splitOn ":" with
  | [k, a, d] =>
    let dt ← d.toNat?
    let ev ← match k with
      | "np" => (natList a).map Event.newPolicy
      | "ok" => some .approveOk
      | "fail" => some .approveFailed
      | "cmp" => some .compare
      | "cmperr" => some .compareErr
      | "drift" => (natList a).map Event.drift
      | "bz" => a.toNat?.map Event.bzip
      | "rm" => a.toNat?.map Event.remove
      | "dmg" => some .damage
      | _ => none
    pure (ev, dt)
  | _ => none

def showAction (a : Action) : String := s!"{a.result.toString}/{a.policy}/{a.time}"
def b2s (b : Bool) : String := if b then "1" else "0"
def showObs : Obs → String
  | .nothing => "nothing"
  | .differs => "differs"
  | .carries c p => s!"carries[{joinComma (c.map toString)}]@{p}"

def answer (line : String) : String :=
  match (splitBar (line.replace ";" "|")).mapM parseEvent with
  | none => "bad-input"
  | some es =>
    let rec go (es : List (Event × Nat)) (w : World) (cl : Bool) (hz : Bool) (db : String) (acc : List String) :
        World × Bool × Bool × String × List String :=
      match es with
      | [] => (w, cl, hz, db, acc.reverse)
      | e :: rest =>
        let hz' := hz || (e.1 == .approveFailed && hazard w)
        let cl' := cleanStep w cl e
        let db' := if conclusive e.1 && w.cur != 0 then "none" else if dirty w e.1 then
          (match e.1 with | .approveFailed => "fail" | .compareErr => "cmperr" | _ => "dmg") else db
        let w' := step w e
        let onDisk := match w'.obs with | .carries _ p => !(w'.removed.contains p) | _ => true
        go rest w' cl' hz' db' (s!"A={showAction w'.st.approve} C={showAction w'.st.compare} L={b2s w'.listed} @needs={b2s w'.needsApprove},clean={b2s cl'},hz={b2s hz'},db={db'},ne={b2s (w'.curCode != zeros)},od={b2s onDisk}" :: acc)
    let (w, cl, hz, db, outs) := go es {} true false "none" []
    ";".intercalate outs ++
      s!" | needs={b2s w.needsApprove} clean={b2s cl} safe={b2s (failSafeB es {})} hazardAtFail={b2s hz} obs={showObs w.obs} dirtyBy={db} curnonempty={b2s (w.curCode != zeros)}"

end NA.Drv.C13

def main (_ : List String) : IO UInt32 := do
  NA.IOUtil.eachLine NA.Drv.C13.answer
  return 0
