import NA.Model.Cursor
import NA.Model.CursorLinux
import NA.Model.CursorHttp
import NA.Model.CursorRefs
import NA.Model.CursorBanner
import NA.Model.CursorStatus
import NA.Model.CursorCycle
import NA.Gen.PanicSites
import NA.Core.IOUtil
/-!
Driver for C20: one request per line, fields separated by U+001F, list items by U+001E,
second level by U+001D (newline inside a file: U+001D as well, see `parse` / `linux`).
Answer: `ok:<payload>` | `diag:<message>` | `panic:<kind>:<site>`; newlines in the answer are
written as U+001D.

 acl    fixed asa|ios orig parsed
 match  prefix words descrs            descr = ign(0|1) U+001D tok U+001D tok …
 parse  fixed asa|ios isRaw data
 aaa    fixed orig parsed
 route  fixed v6(0|1) orig parsed
 vrf    fixed orig parsed
 metric parsed
 linux  data
 nsx    fixed isRaw policies groups services
 nsxacc fixed kind …
 panos  fixed p1 p2
 info   fixed items                    item = n | e | c<dec><null><ip>
 descr  asa|ios                        dump of the regenerated command descriptions
-/
namespace NA.Drv.C20
open NA.C20 NA.C20.Res

def US : Char := '\x1f'
def RS : Char := '\x1e'
def GS : Char := '\x1d'

def splitOnC (c : Char) (s : String) : List String := s.splitOn (String.singleton c)
def listOf (c : Char) (s : String) : List String := if s.isEmpty then [] else splitOnC c s

def str (s : Str) : String := String.ofList s
def esc (s : String) : String := s.replace "\n" (String.singleton GS)

def showPanic : Panic → String
  | .index s => "index:" ++ s
  | .slice s => "slice:" ++ s
  | .nilDeref s => "nil:" ++ s
  | .explicit s => "explicit:" ++ s

def showRes {α : Type} (f : α → String) : Res α → String
  | .ok a => "ok:" ++ f a
  | .diag m => "diag:" ++ str m
  | .panic p => "panic:" ++ showPanic p

def joinC (c : Char) (l : List String) : String := (String.singleton c).intercalate l

def mkTable (l : List (String × String)) : Str → Option Str :=
  fun k => (l.find? (fun kv => kv.1.toList = k)).map (fun kv => kv.2.toList)

def tables : Tables :=
  { protoNonNumeric := mkTable NA.Gen.PanicSites.protoNonNumeric
    protoNames := mkTable NA.Gen.PanicSites.protoNames
    tcpNames := mkTable NA.Gen.PanicSites.tcpNames
    udpNames := mkTable NA.Gen.PanicSites.udpNames
    icmpTypeCodes := mkTable NA.Gen.PanicSites.icmpTypeCodes
    icmp6Types := mkTable NA.Gen.PanicSites.icmp6Types
    logNames := mkTable NA.Gen.PanicSites.logNames }

def toDescr (d : NA.Gen.PanicSites.RawDescr) : Descr :=
  { pre := d.pre.toList, template := d.template.map String.toList, ignore := d.ignore,
    sub := d.sub.map fun s => (s.1.map String.toList, s.2),
    refs := d.refs.map String.toList, subRefs := d.subRefs.map fun l => l.map String.toList }

def descrOf (m : String) : List Descr :=
  if m == "asa" then NA.Gen.PanicSites.asaDescr.map toDescr else NA.Gen.PanicSites.iosDescr.map toDescr

def b (s : String) : Bool := s == "1"

/-! ### parse: loop + the panic-relevant part of postprocessParsed + dump -/

def showFail {α : Type} : Res α → Option String
  | .ok _ => none
  | .diag m => some ("diag:" ++ str m)
  | .panic p => some ("panic:" ++ showPanic p)

def entry (pre name : Str) (c : Cmd) : String :=
  let a := fun (x : Cmd) => (if x.app then "+" else "") ++ str x.orig
  str pre ++ "|" ++ str name ++ "|" ++ a c ++ "|" ++ "|".intercalate (c.sub.map a)

/-- `strings.Cut(s, pat)`. -/
def cutAt (pat : Str) : Str → Option (Str × Str)
  | [] => if pat = [] then some ([], []) else none
  | c :: cs =>
    if pat.isPrefixOf (c :: cs) then some ([], (c :: cs).drop pat.length)
    else (cutAt pat cs).map fun (a, b) => (c :: a, b)

def transParts : List Str := [lit "ikev1 transform-set", lit "ikev2 ipsec-proposal"]

/-- `setTransRef` for one command: failure, or the command with its references. -/
def postTrans (fixed : Bool) (c : Cmd) : Res Cmd :=
  transParts.foldl (fun r part => r.bind fun c =>
    let cmdPart := lit " set " ++ part ++ lit " "
    match cutAt cmdPart c.parsed with
    | none => .ok c
    | some (d, names) =>
      (transRefs fixed c.orig names).bind fun (nl, rs) => .ok { c with ref := nl, parsed := d ++ cmdPart ++ rs }) (.ok c)

/-- a top-level command after `postprocessParsed` (only called when nothing failed). -/
def postTop (fixed : Bool) (ds : List Descr) (c : Cmd) : Cmd :=
  let pre := prefixOf ds c
  if pre = lit "access-list" then
    match asaACL fixed tables c.orig c.parsed with
    | .ok (some (p, refs)) => { c with parsed := p, ref := c.ref ++ refs }
    | _ => c
  else if pre = lit "crypto map" ∨ pre = lit "crypto dynamic-map" then
    match postTrans fixed c with
    | .ok c' => c'
    | _ => c
  else c

def postIOSFirst (fixed : Bool) (c0 : Cmd) : Cmd :=
  { c0 with sub := c0.sub.map fun sc =>
      match iosACL fixed tables sc.orig sc.parsed with
      | .ok r => { sc with orig := r.2.1, parsed := r.1, ref := sc.ref ++ r.2.2 }
      | _ => sc }

def parseAnswer (fixed : Bool) (model : String) (isRaw : Bool) (data : Str) : String :=
  let ds := descrOf model
  match parseConfig fixed ds isRaw data with
  | .diag m => "diag:" ++ str m
  | .panic p => "panic:" ++ showPanic p
  | .ok cmds =>
    let groups := buildLookup ds cmds
    -- failures of postprocessParsed: ASA ACLs, IOS ACLs, transform-sets, aaa-server
    let f1 := (cmds.filter (fun c => prefixOf ds c = lit "access-list")).filterMap
      (fun c => showFail (asaACL fixed tables c.orig c.parsed))
    let iosGroups := groups.filter (fun g => g.1.1 = lit "ip access-list extended")
    let f2 := iosGroups.flatMap fun g =>
      match g.2 with
      | c0 :: _ => c0.sub.filterMap (fun sc => showFail (iosACL fixed tables sc.orig sc.parsed))
      | [] => []
    let f4 := (cmds.filter (fun c => prefixOf ds c = lit "crypto map" ∨ prefixOf ds c = lit "crypto dynamic-map")).filterMap
      (fun c => showFail (postTrans fixed c))
    let f3 := (groups.filter (fun g => g.1.1 = lit "aaa-server")).filterMap
      (fun g => showFail (aaaGroup fixed g.1.2 g.2))
    -- the lookup map after postprocessParsed
    -- local users without `username NAME nopassword` are not managed: dropped from the lookup map (135107b)
    let groups := groups.filter fun g =>
      !(g.1.1 = lit "username") || g.2.any (fun c => hasSuffix c.parsed (lit " nopassword"))
    let post : Lookup := groups.map fun g =>
      let key := if g.1.1 = lit "crypto map" ∧ g.1.2 = [] then (lit "crypto map interface", g.1.2) else g.1
      let l : List Cmd :=
        if g.1.1 = lit "aaa-server" then
          match aaaGroup fixed g.1.2 g.2 with
          | .ok l' => l'
          | _ => g.2
        else if g.1.1 = lit "ip access-list extended" then
          match g.2 with
          | c0 :: rest => postIOSFirst fixed c0 :: rest
          | [] => []
        else g.2.map (postTop fixed ds)
      (key, l)
    let dump := post.flatMap fun g => g.2.map (entry g.1.1 g.1.2)
    let refcheck := match checkReferences fixed ds post isRaw with
      | .ok _ => "ok"
      | .diag m => "diag:" ++ str m
      | .panic p => "panic:" ++ showPanic p
    "ok:" ++ joinC RS (f1 ++ f2 ++ f4 ++ f3) ++ String.singleton US ++ joinC RS dump ++ String.singleton US ++ refcheck

def decAcl (s : String) : List AclLine :=
  (listOf RS s).map fun e =>
    match splitOnC GS e with
    | [a, o, p] => { orig := o.toList, parsed := p.toList, app := a == "1" }
    | _ => { orig := [], parsed := [], app := false }

/-! ### NSX / PAN-OS encodings -/

def nItems (n : Nat) : List Str := List.replicate n (lit "x")

def decRule (s : String) : Option Nsx.Rule :=
  if s == "-" then none else
  match splitOnC ',' s with
  | [id, a, c, d] => some { id := id.toList, src := nItems a.toNat!, dst := nItems c.toNat!, srv := nItems d.toNat! }
  | _ => none

def decPolicy (s : String) : Option Nsx.Policy :=
  if s == "-" then none else
  match splitOnC GS s with
  | id :: rules => some { id := id.toList, rules := rules.map decRule }
  | [] => none

def decGroup (s : String) : Option Nsx.Group :=
  if s == "-" then none else
  match splitOnC GS s with
  | id :: exprs => some { id := id.toList, expression := exprs.map fun e =>
      if e == "-" then none else some { ips := (listOf ',' e).map String.toList } }
  | [] => none

def decService (s : String) : Option Nsx.Service := if s == "-" then none else some { id := s.toList }

def decPan (s : String) : PanOs.Config :=
  if s == "nil" then { devices := none }
  else { devices := some ((listOf RS s).map fun d =>
    match splitOnC GS d with
    | name :: vs => { name := (name.drop 1).toString.toList, vsys := vs.filterMap fun v =>
        match splitOnC '=' v with
        | [n, r] => some { name := n.toList, nRules := r.toNat! }
        | _ => none }
    | [] => { name := [], vsys := [] }) }

def showPan (c : PanOs.Config) : String :=
  match c.devices with
  | none => "nil"
  | some ds => toString ds.length ++ String.join (ds.map fun d =>
      "/" ++ toString d.vsys.length ++ String.join (d.vsys.map fun v => ":" ++ str v.name ++ "=" ++ toString v.nRules))

def decOpen (s : String) : Files.OpenRes :=
  match s.toList with
  | ['n'] => .notExist
  | ['e'] => .otherErr
  | ['c', d, n, i] => .content (d == '1') (n == '1') (i == '1')
  | _ => .notExist

/-! ### Linux dump -/

def dedupKeys (pairs : List (Str × Str)) : List Str :=
  pairs.foldl (fun acc p => if acc.contains p.1 then acc else acc ++ [p.1]) []

def linuxDump (r : List Linux.Route × List Linux.Table) : String :=
  let routes := r.1.map fun x => "route|" ++ str x.ip ++ "|" ++ toString x.pfx ++ "|" ++ str x.hop ++ "|" ++ str x.orig
  let tabs := r.2.map fun t =>
    "table|" ++ str t.name ++ String.singleton GS ++ joinC GS (t.chains.map fun ch =>
      "chain|" ++ str t.name ++ "|" ++ str ch.name ++ "|" ++ str ch.policy ++
        String.join (ch.rules.map fun ru =>
          String.singleton RS ++ "rule|" ++ (if ru.app then "true" else "false") ++ "|" ++ str ru.orig ++ "|" ++
            ",".intercalate ((dedupKeys ru.pairs).map str)))
  joinC US (routes ++ tabs)

def showDescr (ds : List Descr) : String :=
  joinC RS (ds.map fun d =>
    str d.pre ++ String.singleton GS ++ " ".intercalate (d.template.map str) ++ String.singleton GS ++
      (if d.ignore then "1" else "0") ++ String.singleton GS ++
      ";".intercalate (d.sub.map fun s => (if s.2 then "!" else "") ++ " ".intercalate (s.1.map str)))

/-! ### status file -/

def FS : Char := '\x1c'
def ES : Char := '\x1b'

def decScalar (s : String) : Status.Scalar :=
  match s.toList with
  | 'n' :: _ => .null
  | 't' :: _ => .bool true
  | 'f' :: _ => .bool false
  | 'i' :: l => .num l
  | 's' :: l => .str l
  | 'a' :: _ => .arr
  | _ => .obj

def decField (s : String) : Status.Field :=
  match s.toList with
  | 'n' :: _ => .null
  | 't' :: _ => .bool
  | 'i' :: _ => .num
  | 's' :: _ => .str
  | 'a' :: _ => .arr
  | 'o' :: rest =>
    .obj ((listOf FS (String.ofList rest)).map fun e =>
      match splitOnC ES e with
      | [k, v] => (k.toList, decScalar v)
      | _ => ([], .null))
  | _ => .null

def decTop (s : String) : Status.Top :=
  match s.toList with
  | 'N' :: _ => .notJSON
  | 'n' :: _ => .null
  | 't' :: _ => .bool
  | 'i' :: _ => .num
  | 's' :: _ => .str
  | 'a' :: _ => .arr
  | 'o' :: rest =>
    .obj ((listOf RS (String.ofList rest)).map fun e =>
      match splitOnC GS e with
      | [k, v] => (k.toList, decField v)
      | _ => ([], .null))
  | _ => .notJSON

def showAction (a : Status.Action) : String := str a.result ++ "|" ++ str a.policy ++ "|" ++ toString a.time
def showSt (v : Status.St) : String := showAction v.approve ++ "|" ++ showAction v.compare
def showVerdict : Status.Verdict → String
  | .listed => "listed"
  | .upToDate => "uptodate"
  | .compareCode p => "compare:" ++ str p

def decGroups (s : String) : List (Str × List Str) :=
  (listOf RS s).map fun e =>
    match splitOnC GS e with
    | n :: ms => (n.toList, (ms.filter (· ≠ "")).map String.toList)
    | [] => ([], [])

def answer (line : String) : String :=
  match splitOnC US line with
  | ["acl", fx, kind, orig, parsed] =>
    if kind == "asa" then
      esc <| showRes (fun (o : Option (Str × List Str)) =>
        match o with
        | none => "-"
        | some (p, refs) => str p ++ String.singleton US ++ joinC RS (refs.map str))
        (asaACL (b fx) tables orig.toList parsed.toList)
    else
      esc <| showRes (fun (r : Str × Str × List Str) =>
        str r.1 ++ String.singleton US ++ str r.2.1 ++ String.singleton US ++ joinC RS (r.2.2.map str))
        (iosACL (b fx) tables orig.toList parsed.toList)
  | ["match", pre, words, descrs] =>
    let ws := (splitOnC RS words).map String.toList
    let ds := (listOf RS descrs).map fun d =>
      match splitOnC GS d with
      | ign :: toks => (toks.map String.toList, ign == "1")
      | [] => ([], false)
    esc <| showRes (fun (o : Option Cmd) =>
      match o with
      | none => "-"
      | some c => joinC US [toString c.descr, str c.orig, str c.parsed, str c.name, toString c.seq,
          joinC RS (c.ref.map str)])
      (matchCmd pre.toList (if words.isEmpty then [] else ws) ((indexed ds).map fun x => (x.1, x.2.1, x.2.2)))
  | ["parse", fx, model, raw, data] =>
    esc (parseAnswer (b fx) model (b raw) ((data.replace (String.singleton GS) "\n").toList))
  | ["aaa", fx, orig, parsed] =>
    esc <| showRes (fun (o : Option Str) => match o with | none => "-" | some p => str p)
      (aaaHost (b fx) orig.toList parsed.toList)
  | ["route", fx, v6, orig, parsed] =>
    esc <| showRes (fun (r : RouteWords) => joinC US [str r.vrf, str r.a, str r.b])
      (dstOfRoute (b fx) (b v6) orig.toList parsed.toList)
  | ["vrf", fx, orig, parsed] =>
    esc <| showRes str (routeVRF (b fx) orig.toList parsed.toList)
  | ["metric", parsed] => esc <| showRes str (stripMetric parsed.toList)
  | ["linux", data] =>
    esc <| showRes linuxDump (Linux.parseConfig ((data.replace (String.singleton GS) "\n").toList))
  | ["nsx", fx, raw, pols, grps, srvs] =>
    let c : Nsx.Config := { policies := (listOf RS pols).map decPolicy, groups := (listOf RS grps).map decGroup,
                            services := (listOf RS srvs).map decService }
    esc <| showRes (fun _ => "") (Nsx.validate (b fx) (b raw) c)
  | ["nsxfirst", fx, grp] => esc <| showRes str (Nsx.firstAddr (b fx) (decGroup grp))
  | ["nsxeq", fx, rule, path, ga, gb] =>
    esc <| showRes (fun (x : Bool) => if x then "1" else "0")
      (Nsx.equalizeHead (b fx) rule.toList path.toList (decGroup ga) (decGroup gb))
  | ["panos", fx, p1, p2] => esc <| showRes showPan (PanOs.mergeSpoc (b fx) (decPan p1) (decPan p2))
  | ["panosraw", fx, p] => esc <| showRes (fun _ => "") (PanOs.checkRaw (b fx) (decPan p))
  | ["info", fx, items] =>
    esc <| showRes (fun (x : Bool) => if x then "1" else "0") (Files.loadInfoFile (b fx) ((listOf RS items).map decOpen))
  | ["descr", m] => esc (showDescr (descrOf m))
  | ["status", readable, top, current] =>
    let v := Status.read (b readable) (decTop top)
    "ok:" ++ showSt v ++ "|" ++ showVerdict (Status.check v current.toList)
  | ["statusset", kind, top, policy, flag, now] =>
    let v := Status.read true (decTop top)
    let r := if kind == "approve" then Status.setApprove v policy.toList (b flag) now.toInt! true
             else Status.setCompare v policy.toList (b flag) now.toInt! true
    esc <| showRes showSt r
  | ["pancycle", groups] =>
    let gs := decGroups groups
    let G : Str → Option (List Str) := fun n => (gs.find? (fun g => g.1 = n)).map (·.2)
    -- a name defined twice: the map keeps the LAST definition
    let G' : Str → Option (List Str) := fun n => (gs.reverse.find? (fun g => g.1 = n)).map (·.2)
    let _ := G
    esc <| showRes (fun _ => "") (PanOs.checkGroupCycle G' gs.length (gs.map (·.1)))
  | ["banner", data] =>
    esc <| showRes str (Banner.removeBanner ((data.replace (String.singleton GS) "\n").toList))
  | ["nsxheader", data] =>
    let d := (data.replace (String.singleton GS) "\n").toList
    esc <| showRes str (Banner.removeHeader (d.length + 1) d)
  | ["mergeasa", a, b'] =>
    esc <| showRes (fun (l : List AclLine) => joinC RS (l.map fun x => str x.orig)) (mergeASAACL (decAcl a) (decAcl b'))
  | ["mergeios", a, bs] =>
    esc <| showRes (fun (l : List AclLine) => joinC RS (l.map fun x => str x.orig))
      (mergeIOSACL (decAcl a) ((splitOnC '\x1c' bs).map decAcl))
  | _ => "bad-request"

end NA.Drv.C20

def main (_ : List String) : IO UInt32 := do
  NA.IOUtil.eachLine NA.Drv.C20.answer
  return 0
