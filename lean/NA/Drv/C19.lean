import NA.Gen.NewPolicy
import NA.Core.IOUtil
/-! Driver for C19: replays one scenario per input line on the model of `newpolicy.sh`
(the regenerated program `NA.Gen.NewPolicy.prog` under the semantics of `NA.Model.NewPolicy`).

Input : `<sysEmail 0|1>|ev;ev;…`
  ev = `c:<g|b>:<n|->:<0|1>`   a user pushes a good/bad commit, optionally rewriting POLICY to pN, author with/without e-mail
     | `r:<plan>`              one invocation of newpolicy.sh; plan = `k=act,k=act,…` (may be empty):
                               before the k-th main-shell command of the run do act:
                               `K` kill the run, `cg`/`cb` a user pushes a good/bad commit,
                               `n` a second invocation runs to its end, `nK<j>` … and is killed before its j-th command
Output: per event `<run info> <state>` joined by `;`
  run info = `exit=<n|killed> trace=<line.line.…> nested=[…|…]`   (only for `r`)
  state    = `cur=<n|-> next=<-|cloned/built/headpol/headIsRemote> failed=<0|1> dirs=<n:built:headpol:headIsRemote:nested,…> remote=<good/pol/kind/email> lock=<0|1>`
-/
namespace NA.Drv.C19
open NA.C19 NA.IOUtil

def prog : Prog := NA.Gen.NewPolicy.prog

inductive Act
  | kill
  | commit (good : Bool)
  | nested (killAt : Option Nat)
  | orphan (nested : Bool)
  | group
  deriving Repr

structure RunInfo where
  exit : Option Nat := none
  trace : List Nat := []
  nested : List RunInfo := []
  deriving Inhabited

def b2s (b : Bool) : String := if b then "1" else "0"
def optNat : Option Nat → String
  | some n => toString n
  | none => "-"

def showKind : Kind → String
  | .user => "user" | .policy => "policy" | .revert => "revert" | .merge => "merge"

def showDirBody (g : G) (d : Dir) : String :=
  let hp := match d.head with
    | some h => optNat (commitAt g.store h).pol
    | none => "-"
  s!"{b2s (d.built)}:{hp}:{b2s (d.head == some g.remote)}:{b2s (d.built && dirCodeOK g.store d)}"

def insertSorted (x : Nat × Dir) : List (Nat × Dir) → List (Nat × Dir)
  | [] => [x]
  | y :: ys => if x.1 ≤ y.1 then x :: y :: ys else y :: insertSorted x ys

def showState (s : State) : String :=
  let g := s.g
  let nx := match g.next with
    | none => "-"
    | some d =>
      let hp := match d.head with
        | some h => optNat (commitAt g.store h).pol
        | none => "-"
      s!"{b2s d.head.isSome}/{b2s (d.built)}/{hp}/{b2s (d.head == some g.remote)}/{b2s d.dirty}"
  let ds := (g.dirs.foldr insertSorted []).map fun (n, d) => s!"{n}:{showDirBody g d}:{b2s d.nested}"
  let r := commitAt g.store g.remote
  s!"cur={optNat g.current} next={nx} failed={b2s g.failed} dirs={joinComma ds} " ++
  s!"remote={b2s r.good}/{optNat r.pol}/{showKind r.kind}/{b2s r.email} lock={b2s g.lockFile}"

partial def showRun (r : RunInfo) : String :=
  let ex := match r.exit with
    | some n => toString n
    | none => "killed"
  let tr := ".".intercalate (r.trace.map toString)
  let ns := "|".intercalate (r.nested.map showRun)
  s!"exit={ex} trace={tr} nested=[{ns}]"

/-- Run process `pid` under a plan.  `n` = number of visible commands started so far. -/
partial def runPlan (s : State) (pid : Nat) (plan : List (Nat × Act)) (n : Nat) (info : RunInfo) (fuel : Nat) :
    State × RunInfo :=
  if fuel = 0 then (s, info) else
  match findProc s.procs pid with
  | none => (s, info)
  | some p =>
    if !p.alive then (s, { info with exit := p.exit, trace := info.trace.reverse, nested := info.nested.reverse }) else
    match instrAt prog p.pc with
    | none => runPlan (step prog s (.step pid)) pid plan n info (fuel - 1)
    | some i =>
      if !i.vis then runPlan (step prog s (.step pid)) pid plan n info (fuel - 1) else
      let n := n + 1
      let info := { info with trace := i.line :: info.trace }
      -- actions scheduled before the n-th visible command
      let acts := plan.filter (·.1 == n)
      let rec doActs (s : State) (info : RunInfo) : List (Nat × Act) → State × RunInfo × Bool
        | [] => (s, info, false)
        | (_, .kill) :: _ => (step prog s (.kill pid), info, true)
        | (_, .group) :: _ => (stepG prog s (.killGroup pid), info, true)   -- the whole process group, the compiler half way
        | (_, .orphan nest) :: _ =>
          -- the shell is killed while the child of this command runs (only commands with a child)
          if !i.cmd.external then (step prog s (.kill pid), info, true) else
          let s0 := step prog s (.killDuring pid)
          let (s1, info) :=
            if nest then
              let q := s0.npid
              let (s2, inf2) := runPlan (step prog s0 .spawn) q [] 0 {} 5000
              (s2, { info with nested := inf2 :: info.nested })
            else (s0, info)
          (step prog s1 (.step pid), info, true)
        | (_, .commit g) :: rest => doActs (step prog s (.commit g none true)) info rest
        | (_, .nested k) :: rest =>
          let q := s.npid
          let s1 := step prog s .spawn
          let plan2 := match k with
            | some j => [(j, Act.kill)]
            | none => []
          let (s2, inf2) := runPlan s1 q plan2 0 {} 5000
          doActs s2 { info with nested := inf2 :: info.nested } rest
      let (s, info, killed) := doActs s info acts
      if killed then (s, { info with exit := none, trace := info.trace.reverse, nested := info.nested.reverse })
      else runPlan (step prog s (.step pid)) pid plan n info (fuel - 1)

def parseAct (a : String) : Option Act :=
  if a == "K" then some .kill
  else if a == "G" then some .group
  else if a == "T" || a == "H" then some .kill          -- SIGTERM / SIGHUP to the script alone: no handler, dies as with SIGKILL
  else if a == "Ot" then some (.orphan false)           -- … while the child of the command runs
  else if a == "O" then some (.orphan false)
  else if a == "On" then some (.orphan true)
  else if a == "cg" then some (.commit true)
  else if a == "cb" then some (.commit false)
  else if a == "n" then some (.nested none)
  else if a.startsWith "nK" then (a.drop 2).toNat?.map fun j => .nested (some j)
  else none

def parsePlan (s : String) : Option (List (Nat × Act)) :=
  (splitComma s).mapM fun item =>
    match item.splitOn "=" with
    | [k, a] => do
      let k ← k.toNat?
      let a ← parseAct a
      pure (k, a)
    | _ => none

def applyEvent (s : State) (ev : String) : Option (State × String) :=
  match ev.splitOn ":" with
  | ["c", gb, pol, em] => do
    let good ← if gb == "g" then some true else if gb == "b" then some false else none
    let pol ← if pol == "-" then some none else pol.toNat?.map some
    let s' := step prog s (.commit good pol (em == "1"))
    pure (s', showState s')
  | ["r", plan] => do
    let plan ← parsePlan plan
    let pid := s.npid
    let (s', info) := runPlan (step prog s .spawn) pid plan 0 {} 5000
    pure (s', showRun info ++ " " ++ showState s')
  | _ => none

def answer (line : String) : String :=
  if line == "?understood" then
    (if NA.Gen.NewPolicy.understood then "1" else "0 " ++ NA.Gen.NewPolicy.problem)
  else
  if line == "?writers" then
    -- source lines of the commands of the regenerated program that have an effect on the database in
    -- the model (`Cmd.mutating`; `exec_nonmut`, `nonmut_writes`: all other commands leave it alone)
    " ".intercalate ((NA.Gen.NewPolicy.prog.filter fun i => i.cmd.mutating).map fun i => toString i.line).eraseDups
  else
  if line == "?children" then
    -- … and of the commands whose work is done by a child process (`Cmd.external`)
    " ".intercalate ((NA.Gen.NewPolicy.prog.filter fun i => i.cmd.external).map fun i => toString i.line).eraseDups
  else
  match line.splitOn "|" with
  | [se, evs] =>
    let rec go (s : State) (acc : List String) : List String → String
      | [] => ";".intercalate acc.reverse
      | e :: rest =>
        match applyEvent s e with
        | some (s', out) => go s' (out :: acc) rest
        | none => "bad-input:" ++ e
    go (init (se == "1")) [] (if evs.isEmpty then [] else evs.splitOn ";")
  | _ => "bad-input"

end NA.Drv.C19

def main (_ : List String) : IO UInt32 := do
  NA.IOUtil.eachLine NA.Drv.C19.answer
  return 0
