import NA.Spec.SessFault
import NA.Core.IOUtil
/-!
Driver for C09: runs the session program of one backend against a simulated device with one
injected fault and prints the trace and the derived status.

Input (tab separated):
  backend  mode  shape  planGenuine  planEmpty  iptGenuine  iptEmpty  faultPos  faultKind  prevDiff  fuel
  backend ∈ ASA IOS Linux PAN-OS NSX;  mode ∈ approve compare;  shape: k=v,k=v (yesno enablepw pageroff
  width511 saveask overwrite nochanges pend);  plans: packets separated by '|', the two lines of a joined
  packet by '~';  faultPos = -1: no fault;  prevDiff: the status file already says compare DIFF.
Output: key=value fields separated by blanks, see `answer`.
-/
namespace NA.Drv.C09
open NA.Sess NA.Apply NA.Spec.C09 NA.IOUtil

structure Shape where
  yesno : Bool := false
  enablepw : Bool := false
  pageroff : Bool := false
  width511 : Bool := false
  saveask : Bool := false
  overwrite : Bool := false
  nochanges : Bool := false
  pend : Nat := 0

def parseShape (s : String) : Shape := Id.run do
  let mut sh : Shape := {}
  for kv in splitComma s do
    match kv.splitOn "=" with
    | [k, v] =>
      let n := v.toNat?.getD 0
      match k with
      | "yesno" => sh := { sh with yesno := n != 0 }
      | "enablepw" => sh := { sh with enablepw := n != 0 }
      | "pageroff" => sh := { sh with pageroff := n != 0 }
      | "width511" => sh := { sh with width511 := n != 0 }
      | "saveask" => sh := { sh with saveask := n != 0 }
      | "overwrite" => sh := { sh with overwrite := n != 0 }
      | "nochanges" => sh := { sh with nochanges := n != 0 }
      | "pend" => sh := { sh with pend := n }
      | _ => pure ()
    | _ => pure ()
  return sh

def parsePlan (s : String) : List (List String) := (splitBar s).map (·.splitOn "~")

def parseBackend : String → Option Backend
  | "ASA" => some .asa | "IOS" => some .ios | "Linux" => some .linux
  | "PAN-OS" => some .panos | "NSX" => some .nsx | _ => none

def linesOf (tr : List Ev) : List String :=
  tr.foldr (fun e acc => match e with | .sent _ ls => ls ++ acc | _ => acc) []

def gotCount (tr : List Ev) : Nat := repliesRead tr

/-- the conforming reply to line `l` (the `g`-th line; `prev` = the line before it) -/
def niceReply (b : Backend) (sh : Shape) (g : Nat) (l prev : String) (polls : Nat) : Reply :=
  let fl (fs : List Flag) (arr : Arr := .full) : Reply := { arr := arr, flags := fs }
  match b with
  | .asa | .ios =>
    if g == 0 then (if sh.yesno then fl [.yesNo] .noPrompt
                    else fl (if b == .asa then [.password, .bannerOk] else [.password]) .noPrompt)
    else if l == "yes" then fl (if b == .asa then [.password, .bannerOk] else [.password]) .noPrompt
    else if l == "<secret>" then
      (if prev == "enable" then fl [.hash] else fl (if b == .ios then [.gt, .bannerOk] else [.gt]) .noPrompt)
    else if l == "enable" then (if sh.enablepw then fl [.password] .noPrompt else fl [.hash])
    else if l == "" then
      (if prev == "write memory" then fl [.okMark, .hash] else fl [.hash, .nameOk])
    else if l == "sh pager" then fl (if sh.pageroff then [.noPager] else [])
    else if l == "sh term" then fl (if sh.width511 then [.w511] else [])
    else if l == "show hostname" then fl [.nameOk]
    else if l == "write term" || l == "sh run" then fl [.cfgGenuine, .cfgParses]
    else if l == "write memory" then
      (if b == .ios && sh.overwrite then fl [.overwrite, .confirm] .noPrompt else fl [.okMark])
    else if l == "reload in 2" || l == "do reload in 2" then
      (if sh.saveask then fl [.saveAsk] .noPrompt else fl [.confirm] .noPrompt)
    else if l == "n" then fl [.confirm] .noPrompt
    else if l == "reload cancel" then fl [.aborted]
    else fl []
  | .linux =>
    if g == 0 then (if sh.yesno then fl [.yesNo] .noPrompt else fl [.hash])
    else if l == "yes" then fl [.hash]
    else if l == "PS1=router#" then fl [.hash]
    else if l == "hostname -s" then fl [.nameOk]
    else if l == "echo $?" then fl [.status0]
    else if l == "which iptables-restore" then fl [.restorePath]
    else if l == "iptables-save" || l == "ip route show" then fl [.cfgGenuine, .cfgParses]
    else fl []
  | .panos =>
    if l == "keygen" then fl [.keyOk]
    else if l == "show ha" then fl [.haActive]
    else if l == "get config" then fl [.cfgGenuine, .cfgParses, .nameOk]
    else if l == "commit" then (if sh.nochanges then fl [.noChanges] else fl [.msgEmpty, .wellFormed])
    else if l == "show jobs" then (if polls < sh.pend then fl [.pend, .wellFormed] else fl [.jobOk, .wellFormed])
    else fl []
  | .nsx => fl [.cfgGenuine, .cfgParses]

def faultReply (b : Backend) (kind : String) (nice : Reply) (g : Nat) : Reply :=
  match kind with
  | "errtext" =>
    if b == .panos then { parses := false }
    else if b == .nsx then { status200 := false }
    else if g == 0 then { out := .text } else { out := .text, flags := [.hash] }
  | "unexpected" => if g == 0 then { out := .text } else { out := .text, flags := [.hash] }
  | "warntext" => { out := .warning, flags := [.hash] }
  | "infotext" => { out := .info, flags := [.hash] }
  | "garbled" => { nice with echoOk := false }
  | "silence" => { arr := .silent }
  | "truncated" =>
    if g == 0 then { arr := .silent }
    else if nice.arr == .noPrompt then nice else { nice with arr := .noPrompt }
  | "close" => { arr := .closed }
  | "httpstatus" => { status200 := false }
  | "malformed" => { parses := false }
  | "jobfail" => { flags := [.wellFormed] }
  | _ => nice

def showLike (l : String) : Bool :=
  l.startsWith "sh " || l.startsWith "show " || l == "write term" || l.startsWith "uname" || l.startsWith "hostname"
    || l.startsWith "grep" || l == "iptables-save" || l == "ip route show" || l.startsWith "which"

def mkDev (b : Backend) (sh : Shape) (pos : Option Nat) (kind : String) : Dev := fun tr =>
  let http := b == .panos || b == .nsx
  -- console: reply g answers line g (reply 0 is the preamble); HTTP: reply g answers request g+1
  let g := if http then gotCount tr + 1 else gotCount tr
  let ls := linesOf tr
  let l := if g == 0 then "" else ls.getD (g - 1) ""
  let prev := if g < 2 then "" else ls.getD (g - 2) ""
  let polls := ((ls.take (g - 1)).filter (· == "show jobs")).length
  let nice := niceReply b sh g l prev polls
  -- the bytes `WARNING: …` are a notice in the reply to a configuration command and unexpected
  -- output in place of the output of a show command
  let kind := if kind == "warntext" && showLike l then "unexpected" else kind
  match pos with
  | none => nice
  | some p =>
    if g == p then faultReply b kind nice g
    else if g > p && !http then
      (if kind == "silence" || kind == "truncated" then { arr := .silent }
       else if kind == "close" then { arr := .closed } else nice)
    else nice

def showRole : Role → String
  | .login => "login" | .setup => "setup" | .read => "read" | .change => "change"
  | .probe => "probe" | .save => "save" | .cleanup => "cleanup"

def b2s (b : Bool) : String := if b then "1" else "0"

def showSends (tr : List Ev) : String :=
  ";".intercalate (tr.filterMap fun e => match e with
    | .sent ρ ls => some (showRole ρ ++ ":" ++ "~".intercalate ls)
    | _ => none)

/-- index (number of lines on the wire) at which the first reply that is bad was read; -1 if none -/
def firstBadAt (bad : Role → Reply → Bool) (tr : List Ev) : Int := Id.run do
  let mut g : Nat := 0
  for e in tr do
    match e with
    | .got ρ r => if bad ρ r then return g else g := g + 1
    | .skipped _ => g := g + 1
    | _ => pure ()
  return -1

def answer (line : String) : String :=
  match splitTab line with
  | [bs, mode, shape, pg, pe, ig, ie, fp, kind, prevDiff, fuel] =>
    match parseBackend bs with
    | none => "bad-backend"
    | some b =>
      let sh := parseShape shape
      let planG := parsePlan pg
      let planE := parsePlan pe
      let pos : Option Nat := fp.toNat?
      let env : Env := {
        dev := mkDev b sh pos kind
        plan := fun g => if g then planG else planE
        planIpt := fun g => if g then ig == "1" else ie == "1"
        compare := mode == "compare"
        simulated := true
        fuel := fuel.toNat?.getD 50 }
      let s := runProg b env
      let prev : Status := if prevDiff == "1" then
        { approve := ⟨"OK", "p0", 1727000000⟩, compare := ⟨"DIFF", "p0", 1727000001⟩ } else {}
      let o := doApprove env.compare prev "p1" 1727626790 s.tr (exitCode s)
      let scps := ",".intercalate (s.tr.filterMap fun e => match e with | .scp w => some w | _ => none)
      let res := if env.compare then o.status.compare.result else o.status.approve.result
      let pol := if env.compare then o.status.compare.policy else o.status.approve.policy
      s!"dexit={exitCode s} exit={o.exit} status={res}/{pol} end={o.endMsg} err={b2s (s.tr.contains .logErr)} warn={b2s (s.tr.contains .logWarn)} chg={b2s (s.tr.contains .logChanged)} diverge={b2s (s.mode == .diverge)} scp={scps} ff={firstBadAt (badFull b) s.tr} fc={firstBadAt (badChecked b) s.tr} sf={b2s (safe (badFull b) s.tr)} sc={b2s (safe (badChecked b) s.tr)} saved={b2s (saveConfirmed s.tr)} sends={showSends s.tr}"
  | _ => "bad-input"

end NA.Drv.C09

def main (_ : List String) : IO UInt32 := do
  NA.IOUtil.eachLine NA.Drv.C09.answer
  return 0
