import NA.Spec.SessDevice
import NA.Core.IOUtil
/-!
Driver for C09: runs the session program of one backend against a simulated device with one
injected fault and prints the trace and the derived status.

Input (tab separated):
  backend  mode  shape  planGenuine  planEmpty  iptGenuine  iptEmpty  faultPos  faultKind  prevDiff  fuel
  backend ∈ ASA IOS Linux PAN-OS NSX;  mode ∈ approve compare;  shape: k=v,k=v (yesno enablepw pageroff
  width511 saveask overwrite nochanges pend);  plans: packets separated by '|', the two lines of a joined
  packet by '~';  faultPos = -1: no fault;  prevDiff: 1 = the status file already says compare DIFF, 2 = compare UPTODATE (both of policy p0).
Output: key=value fields separated by blanks, see `answer`.
-/
namespace NA.Drv.C09
open NA.Sess NA.Apply NA.Spec.C09 NA.IOUtil

def parseShape (s : String) : Shape := Id.run do
  let mut sh : Shape := {}
  for kv in splitComma s do
    match kv.splitOn "=" with
    | [k, v] =>
      let n := v.toNat?.getD 0
      match k with
      | "yesno" => sh := { sh with yesno := n != 0 }
      | "enablepw" => sh := { sh with enablepw := n != 0 }
      | "pageroff" => sh := { sh with pageroff := n != 0 }
      | "width511" => sh := { sh with width511 := n != 0 }
      | "saveask" => sh := { sh with saveask := n != 0 }
      | "overwrite" => sh := { sh with overwrite := n != 0 }
      | "nochanges" => sh := { sh with nochanges := n != 0 }
      | "pend" => sh := { sh with pend := n }
      | "realscp" => sh := { sh with realscp := n != 0 }
      | _ => pure ()
    | _ => pure ()
  return sh

def parsePlan (s : String) : List (List String) := (splitBar s).map (·.splitOn "~")

def parseBackend : String → Option Backend
  | "ASA" => some .asa | "IOS" => some .ios | "Linux" => some .linux
  | "PAN-OS" => some .panos | "NSX" => some .nsx | _ => none

def showRole : Role → String
  | .login => "login" | .setup => "setup" | .read => "read" | .change => "change"
  | .probe => "probe" | .save => "save" | .cleanup => "cleanup"

def b2s (b : Bool) : String := if b then "1" else "0"

def showSends (tr : List Ev) : String :=
  ";".intercalate (tr.filterMap fun e => match e with
    | .sent ρ ls => some (showRole ρ ++ ":" ++ "~".intercalate ls)
    | _ => none)

/-- index (number of lines on the wire) at which the first reply that is bad was read; -1 if none -/
def firstBadAt (bad : Role → Reply → Bool) (tr : List Ev) : Int := Id.run do
  let mut g : Nat := 0
  for e in tr do
    match e with
    | .got ρ r => if bad ρ r then return g else g := g + 1
    | .skipped _ => g := g + 1
    | _ => pure ()
  return -1

def answer (line : String) : String :=
  match splitTab line with
  | [bs, mode, shape, pg, pe, ig, ie, fp, kind, prevDiff, fuel] =>
    match parseBackend bs with
    | none => "bad-backend"
    | some b =>
      let sh := parseShape shape
      let planG := parsePlan pg
      let planE := parsePlan pe
      let pos : Option Nat := fp.toNat?
      let env : Env := {
        dev := mkDev b sh pos kind
        plan := fun g => if g then planG else planE
        planIpt := fun g => if g then ig == "1" else ie == "1"
        compare := mode == "compare"
        simulated := !sh.realscp
        fuel := fuel.toNat?.getD 50 }
      let s := runProg b env
      let prev : Status := if prevDiff == "1" then
        { approve := ⟨"OK", "p0", 1727000000⟩, compare := ⟨"DIFF", "p0", 1727000001⟩ }
        else if prevDiff == "2" then
        { approve := ⟨"OK", "p0", 1727000000⟩, compare := ⟨"UPTODATE", "p0", 1727000001⟩ } else {}
      let o := doApprove env.compare prev "p1" 1727626790 s.tr (exitCode s)
      let scps := ",".intercalate (s.tr.filterMap fun e => match e with | .scp w => some w | _ => none)
      let res := if env.compare then o.status.compare.result else o.status.approve.result
      let pol := if env.compare then o.status.compare.policy else o.status.approve.policy
      s!"dexit={exitCode s} exit={o.exit} status={res}/{pol} end={o.endMsg} err={b2s (s.tr.contains .logErr)} warn={b2s (s.tr.contains .logWarn)} chg={b2s (s.tr.contains .logChanged)} diverge={b2s (s.mode == .diverge)} scp={scps} ff={firstBadAt (badFull b) s.tr} fc={firstBadAt (badChecked b) s.tr} sf={b2s (safe (badFull b) s.tr)} sc={b2s (safe (badChecked b) s.tr)} saved={b2s (saveConfirmed s.tr)} sends={showSends s.tr}"
  | _ => "bad-input"

end NA.Drv.C09

def main (_ : List String) : IO UInt32 := do
  NA.IOUtil.eachLine NA.Drv.C09.answer
  return 0
