import NA.Proofs.C20
import NA.Model.CursorBanner
/-!
C20, round 3 — `removeBanner` and `removeHeader` neither panic nor run out of fuel: every
iteration moves the read position forward by at least one byte.
-/
namespace NA.C20.Banner
open NA.C20 NA.C20.Res

theorem indexNl_lt : ∀ (s : Str) (k : Nat), indexNl s = some k → k < s.length
  | [], k, h => by simp [indexNl] at h
  | c :: cs, k, h => by
    unfold indexNl at h
    split at h
    · cases h; simp
    · cases hi : indexNl cs with
      | none => rw [hi] at h; simp at h
      | some j =>
        rw [hi] at h
        simp at h
        have := indexNl_lt cs j hi
        subst h
        simp; omega

/-- the loop invariant: write position ≤ read position ≤ length, enough fuel left. -/
theorem loop_noPanic (data : Str) : ∀ (fuel i : Nat) (out : Str) (eb : Option Str),
    out.length ≤ i → i ≤ data.length → data.length - i < fuel → NoPanic (loop data fuel i out eb)
  | 0, i, out, eb, _, _, hf => by omega
  | fuel + 1, i, out, eb, hj, hi, hf => by
    unfold loop
    rw [if_pos hi]
    have hdl : (data.drop i).length = data.length - i := by simp
    split
    · rw [if_pos hj]
      have : (out ++ List.drop i data).length ≤ data.length := by simp; omega
      rw [if_pos this]
      exact noPanic_ok _
    · rename_i k hk
      have hlt := indexNl_lt _ k hk
      rw [hdl] at hlt
      simp only
      have he : i + k + 1 ≤ data.length := by omega
      rw [if_pos he]
      have hline : ((data.drop i).take (k + 1)).length = k + 1 := by simp; omega
      split
      · exact loop_noPanic data fuel (i + k + 1) out _ (by omega) he (by omega)
      · split
        · exact loop_noPanic data fuel (i + k + 1) out _ (by omega) he (by omega)
        · rw [if_pos hj]
          exact loop_noPanic data fuel (i + k + 1) _ _ (by simp; omega) he (by omega)

/-- `removeBanner`: no Go panic and termination, for ANY bytes of the device configuration. -/
theorem removeBanner_noPanic (data : Str) : NoPanic (removeBanner data) := by
  unfold removeBanner
  exact loop_noPanic data _ 0 [] none (by simp) (by simp) (by omega)

theorem removeHeader_noPanic : ∀ (fuel : Nat) (data : Str), data.length < fuel → NoPanic (removeHeader fuel data)
  | 0, _, h => by omega
  | fuel + 1, data, h => by
    unfold removeHeader
    split
    · rename_i tl
      split
      · exact noPanic_ok _
      · rename_i i hi
        have hlt := indexNl_lt _ i hi
        rw [if_pos (by omega)]
        refine removeHeader_noPanic fuel _ ?_
        have : (List.drop (i + 1) ('#' :: tl)).length = ('#' :: tl).length - (i + 1) := by simp
        rw [this]
        simp at h hlt ⊢
        omega
    · exact noPanic_ok _

end NA.C20.Banner
