import NA.Proofs.C15Full
import NA.Proofs.C15Guard
/-!
# C15 helper lemmas, part 9: counting re-arm exchanges over a whole run
-/
namespace NA.Ios

theorem rearms_append (a b : List Str) : rearms (a ++ b) = rearms a + rearms b := by
  simp [rearms, List.filter_append]

theorem rearms_linesOf_append (a b : List Str) :
    rearms (linesOf (a ++ b)) = rearms (linesOf a) + rearms (linesOf b) := by
  rw [linesOf_append, rearms_append]

theorem rearms_rearmLines (na : Bool) : rearms (linesOf (rearmLines na)) = 1 := by
  cases na <;> decide

theorem ne_doReload_of_change (c : Str) (h : ChangeCmd c) : (c == doReloadCmd) = false := by
  have := notRearm_change c h
  unfold notRearm at this
  cases hx : (c == doReloadCmd) <;> simp_all

theorem Chg.rearms_cmd (g : Chg) (h : g.Clean) : rearms (linesOf [g.cmd]) = 0 := by
  cases g with
  | one c b =>
    have hs : splitOnNL c = [c] := splitOnNL_no_nl c h.cmds.clean.noNL
    simp [linesOf, Chg.cmd, hs, rearms, ne_doReload_of_change c h.cmds]
  | two c1 c2 b1 b2 =>
    have hs : splitOnNL (c1 ++ '\n' :: c2) = [c1, c2] := by
      rw [splitOnNL_append_nl, splitOnNL_no_nl c1 h.cmds.1.clean.noNL, splitOnNL_no_nl c2 h.cmds.2.clean.noNL]; rfl
    simp [linesOf, Chg.cmd, hs, rearms, ne_doReload_of_change c1 h.cmds.1, ne_doReload_of_change c2 h.cmds.2]

/-- number of script elements whose answer carried a one-minute warning -/
def needCount (gs : List Chg) : Nat := (gs.filter Chg.need).length

theorem rearms_specTrace (na : Bool) (gs : List Chg) (hc : ∀ g ∈ gs, g.Clean) (hok : specOk gs = true) :
    rearms (linesOf (specTrace na gs)) = needCount gs := by
  induction gs with
  | nil => rfl
  | cons g gs ih =>
    simp only [specOk, List.all_cons, Bool.and_eq_true] at hok
    have ih' := ih (fun x hx => hc x (by simp [hx])) (by simpa [specOk] using hok.2)
    have hg := Chg.rearms_cmd g (hc g (by simp))
    have e : specTrace na (g :: gs) = [g.cmd] ++ ((if g.need then rearmLines na else []) ++ specTrace na gs) := by
      simp [specTrace, hok.1]
    rw [e, rearms_linesOf_append, rearms_linesOf_append, hg, ih']
    cases hn : g.need with
    | false => simp [needCount, hn, linesOf, rearms]
    | true => simp [needCount, hn, rearms_rearmLines]; omega

theorem rearms_fullTrace (na : Bool) (gs : List Chg) (hc : ∀ g ∈ gs, g.Clean) (hok : specOk gs = true) :
    rearms (linesOf (fullTrace na gs)) = needCount gs := by
  have hpre : rearms (linesOf (prepCmds ++ schedLines na ++ [confCmd])) = 0 := by cases na <;> decide
  have hsuf : rearms (linesOf ([endCmd] ++ [cancelCmd, []] ++ [writeCmd])) = 0 := by decide
  have e : fullTrace na gs = (prepCmds ++ schedLines na ++ [confCmd]) ++ (specTrace na gs ++
      ([endCmd] ++ [cancelCmd, []] ++ [writeCmd])) := by simp [fullTrace]
  rw [e, rearms_linesOf_append (prepCmds ++ schedLines na ++ [confCmd]),
    rearms_linesOf_append (specTrace na gs), hpre, hsuf, rearms_specTrace na gs hc hok]
  omega

end NA.Ios
