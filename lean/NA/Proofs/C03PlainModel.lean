import NA.Proofs.C03Marks
import NA.Proofs.C03Members
/-
C03, whole-vsys theorems, part 3: on vsys pairs without address-groups the rule part of the
planner model is a pure function of the two rule lists and the edit scripts (`plainRuleCmds`);
the planner state changes only in its output.  Core Lean only.
-/
namespace NA.PanOs

/-- The planner state knows no address-group of either side. -/
def NoGrp (st : St) : Prop := st.aGrp = [] ∧ st.bGrp = []

theorem NoGrp.aIdx {st : St} (h : NoGrp st) (x : String) : st.aGrpIdx x = none := by
  simp [St.aGrpIdx, h.1, lastIdx, lastIdxFrom]

theorem NoGrp.bIdx {st : St} (h : NoGrp st) (x : String) : st.bGrpIdx x = none := by
  simp [St.bGrpIdx, h.2, lastIdx, lastIdxFrom]

theorem NoGrp.emitAll {st : St} (h : NoGrp st) (cs : List Cmd) : NoGrp (st.emitAll cs) := h

theorem memberEq_noGrp {st : St} (h : NoGrp st) (a b : String) : memberEq st a b = (a == b) := by
  simp [memberEq, h.aIdx, h.bIdx]

/-- Requests for one list of rule `n`: the heuristic, then either one `edit` or the
incremental requests. -/
def fieldCmds (diff : Differ) (n : String) (f : Fld) (la lb : List String) : List Cmd :=
  if replaceInstead la.length (deletedCount (diff la.length lb.length (nameEq la lb)))
  then [.editList n f lb]
  else listCmds (.rule n f) la lb (diff la.length lb.length (nameEq la lb))

theorem equalizeList_noGrp (diff : Differ) (hd : GoodDiffer diff) (fuel : Nat) (st : St) (hst : NoGrp st)
    (la lb : List String) (n : String) (f : Fld) :
    equalizeList diff (fuel + 1) st la lb n f = st.emitAll (fieldCmds diff n f la lb) := by
  have hfun : (fun i j => memberEq st (la.getD i "") (lb.getD j "")) = nameEq la lb := by
    funext i j; simp [memberEq_noGrp hst, nameEq]
  have hbound := validScript_bounds (hd la.length lb.length (nameEq la lb)).1
  unfold equalizeList fieldCmds
  rw [hasEqLists_plain diff fuel st la lb (.rule n f) (fun x _ => hst.aIdx x) (fun y _ => hst.bIdx y)
    (by rw [hfun]; exact hbound)]
  rw [hfun]
  cases hrep : replaceInstead la.length (deletedCount (diff la.length lb.length (nameEq la lb)))
  · simp
  · simp only [if_true, Bool.false_eq_true, if_false, adaptGroups_plain st lb (fun y _ => hst.bIdx y)]
    simp [St.emit, St.emitAll]

/-- Requests for one pair of an equal range. -/
def eqCmds (diff : Differ) (ra rb : Rule) : List Cmd :=
  fieldCmds diff ra.name .src ra.src rb.src ++ fieldCmds diff ra.name .dst ra.dst rb.dst ++
    (if ra.srv != rb.srv then [.editList ra.name .srv rb.srv] else [])

theorem equalize_noGrp (diff : Differ) (hd : GoodDiffer diff) (fuel : Nat) (st : St) (hst : NoGrp st)
    (ra rb : Rule) :
    equalize diff (fuel + 1) st ra rb = st.emitAll (eqCmds diff ra rb) := by
  unfold equalize eqCmds
  simp only
  rw [equalizeList_noGrp diff hd fuel st hst, equalizeList_noGrp diff hd fuel _ (hst.emitAll _)]
  split <;> simp [St.emit, St.emitAll, List.append_assoc]

/-- Requests of the first loop of `diffRules`. -/
def phase1Cmds (diff : Differ) (aRules bRules : List Rule) : List Range → List Cmd
  | [] => []
  | r :: rs =>
    (match r.kind with
     | .del => (aRules.extract r.lowA r.highA).map (fun ru => Cmd.delRule ru.name)
     | .ins => []
     | .eq => (List.range (r.highA - r.lowA)).flatMap (fun k =>
         eqCmds diff (aRules.getD (r.lowA + k) default) (bRules.getD (r.lowB + k) default))) ++
      phase1Cmds diff aRules bRules rs

/-- Requests of the second loop of `diffRules`. -/
def phase2Cmds (bRules : List Rule) (gs : List InsGroup) : List Cmd :=
  gs.flatMap (fun g => (bRules.extract g.lowB g.highB).flatMap (fun ru =>
    Cmd.setRule ru :: (match g.anchor with | some d => [Cmd.move ru.name d] | none => [])))

theorem rulePhase1_noGrp (diff : Differ) (hd : GoodDiffer diff) (fuel : Nat)
    (aRules bRules : List Rule) :
    ∀ (rs : List Range) (st : St) (d : Nat) (ins : List InsGroup), NoGrp st →
      ∃ d', rs.foldl (phase1Step diff (fuel + 1) aRules bRules) (st, d, ins) =
        (st.emitAll (phase1Cmds diff aRules bRules rs), d', ins ++ insGroupsFrom (ruleNames aRules) d rs) := by
  intro rs
  induction rs with
  | nil => intro st d ins _; exact ⟨d, by simp [phase1Cmds, insGroupsFrom, emitAll_nil]⟩
  | cons r rs ih =>
    intro st d ins hst
    simp only [List.foldl_cons]
    cases hk : r.kind with
    | del =>
      rw [phase1Step_del _ _ _ _ _ _ _ _ hk]
      obtain ⟨d', h⟩ := ih (st.emitAll ((aRules.extract r.lowA r.highA).map (fun ru => Cmd.delRule ru.name)))
        r.highA ins (hst.emitAll _)
      refine ⟨d', ?_⟩
      rw [h]
      simp [phase1Cmds, insGroupsFrom, hk, emitAll_emitAll]
    | ins =>
      rw [phase1Step_ins _ _ _ _ _ _ _ _ hk]
      obtain ⟨d', h⟩ := ih st d (ins ++ [⟨(aRules[max r.lowA d]?).map (·.name), r.lowB, r.highB⟩]) hst
      refine ⟨d', ?_⟩
      rw [h]
      simp [phase1Cmds, insGroupsFrom, hk, ruleNames, List.append_assoc]
    | eq =>
      rw [phase1Step_eq _ _ _ _ _ _ _ _ hk]
      have hfold : ∀ (ks : List Nat) (s : St), NoGrp s →
          ks.foldl (fun st k =>
            equalize diff (fuel + 1) st (aRules.getD (r.lowA + k) default) (bRules.getD (r.lowB + k) default)) s =
          s.emitAll (ks.flatMap (fun k =>
            eqCmds diff (aRules.getD (r.lowA + k) default) (bRules.getD (r.lowB + k) default))) := by
        intro ks
        induction ks with
        | nil => intro s _; simp [emitAll_nil]
        | cons k ks ihk =>
          intro s hs
          simp only [List.foldl_cons, List.flatMap_cons]
          rw [equalize_noGrp diff hd fuel s hs, ihk _ (hs.emitAll _), emitAll_emitAll]
      rw [hfold _ st hst]
      obtain ⟨d', h⟩ := ih (st.emitAll ((List.range (r.highA - r.lowA)).flatMap (fun k =>
        eqCmds diff (aRules.getD (r.lowA + k) default) (bRules.getD (r.lowB + k) default)))) d ins (hst.emitAll _)
      refine ⟨d', ?_⟩
      rw [h]
      simp [phase1Cmds, insGroupsFrom, hk, emitAll_emitAll]

theorem insertRule_noGrp (anchor : Option String) (s : St) (hs : NoGrp s) (ru : Rule) :
    insertRule anchor s ru =
      s.emitAll (Cmd.setRule ru :: (match anchor with | some d => [Cmd.move ru.name d] | none => [])) := by
  unfold insertRule
  rw [adaptGroups_plain s ru.src (fun y _ => hs.bIdx y)]
  simp only
  rw [adaptGroups_plain s ru.dst (fun y _ => hs.bIdx y)]
  cases anchor <;> simp [St.emit, St.emitAll, List.append_assoc]

theorem rulePhase2_noGrp (bRules : List Rule) :
    ∀ (gs : List InsGroup) (st : St), NoGrp st →
      rulePhase2 st bRules gs = st.emitAll (phase2Cmds bRules gs) := by
  intro gs
  induction gs with
  | nil => intro st _; simp [rulePhase2, phase2Cmds, emitAll_nil]
  | cons g gs ih =>
    intro st hst
    unfold rulePhase2 at ih ⊢
    simp only [List.foldl_cons]
    have hinner : ∀ (l : List Rule) (s : St), NoGrp s →
        l.foldl (insertRule g.anchor) s =
        s.emitAll (l.flatMap (fun ru =>
          Cmd.setRule ru :: (match g.anchor with | some d => [Cmd.move ru.name d] | none => []))) := by
      intro l
      induction l with
      | nil => intro s _; simp [emitAll_nil]
      | cons ru l ihl =>
        intro s hs
        simp only [List.foldl_cons, List.flatMap_cons]
        rw [insertRule_noGrp g.anchor s hs ru, ihl _ (hs.emitAll _), emitAll_emitAll]
    have hg : insertGroup bRules st g = st.emitAll ((bRules.extract g.lowB g.highB).flatMap (fun ru =>
        Cmd.setRule ru :: (match g.anchor with | some d => [Cmd.move ru.name d] | none => []))) := by
      unfold insertGroup; exact hinner _ st hst
    rw [hg, ih _ (hst.emitAll _), emitAll_emitAll]
    simp [phase2Cmds]

/-- All rule requests of the plan for a pair without address-groups. -/
def plainRuleCmds (diff : Differ) (aRules bRules : List Rule) (rs : List Range) : List Cmd :=
  phase1Cmds diff aRules bRules rs ++ phase2Cmds bRules (insGroupsFrom (ruleNames aRules) 0 rs)

theorem diffRules_noGrp (diff : Differ) (hd : GoodDiffer diff) (fuel : Nat) (st : St) (hst : NoGrp st)
    (a b : Vsys) (aRules bRules : List Rule) :
    diffRules diff (fuel + 1) st a b aRules bRules =
      st.emitAll (plainRuleCmds diff aRules bRules
        (diff aRules.length bRules.length
          (fun i j => ruleEqual a b (aRules.getD i default) (bRules.getD j default)))) := by
  unfold diffRules rulePhase1
  simp only
  generalize diff aRules.length bRules.length _ = rs
  obtain ⟨d', h⟩ := rulePhase1_noGrp diff hd fuel aRules bRules rs st 0 [] hst
  rw [h]
  simp only [List.nil_append]
  rw [rulePhase2_noGrp bRules _ _ (hst.emitAll _), emitAll_emitAll]
  rfl

/-! ### `markObjects` keeps the state group-free -/

theorem markAddrs_aGrp : ∀ (fuel : Nat) (st : St) (l : List String), (markAddrs fuel st l).aGrp = st.aGrp := by
  intro fuel
  induction fuel with
  | zero => intro st l; rfl
  | succ fuel ih =>
    intro st l
    rw [markAddrs_succ]
    suffices h : ∀ (l : List String) (s : St), (l.foldl (markAddrStep fuel) s).aGrp = s.aGrp from h l st
    intro l
    induction l with
    | nil => intro s; rfl
    | cons x xs ihl =>
      intro s
      simp only [List.foldl_cons]
      rw [ihl]
      unfold markAddrStep
      split
      · rw [ih]
      · split
        · rfl
        · split
          · dsimp only
            split <;> rfl
          · rfl

theorem markSrvs_aGrp : ∀ (fuel : Nat) (st : St) (l : List String), (markSrvs fuel st l).aGrp = st.aGrp := by
  intro fuel
  induction fuel with
  | zero => intro st l; rfl
  | succ fuel ih =>
    intro st l
    rw [markSrvs]
    suffices h : ∀ (l : List String) (s : St) (f : St → String → St), (∀ s x, (f s x).aGrp = s.aGrp) →
        (l.foldl f s).aGrp = s.aGrp by
      apply h
      intro s name
      split
      · dsimp only
        split
        · split
          · simp only [ih]
          · simp only [ih]
        · simp only [ih]
      · split
        · rfl
        · split
          · dsimp only
            split <;> rfl
          · rfl
    intro l
    induction l with
    | nil => intro s f _; rfl
    | cons x xs ihl => intro s f hf; simp only [List.foldl_cons]; rw [ihl _ f hf, hf]

theorem markObjects_noGrp (fuel : Nat) (st : St) (rules : List Rule) (h : NoGrp st) :
    NoGrp (markObjects fuel st rules) := by
  constructor
  · unfold markObjects
    suffices hs : ∀ (l : List Rule) (s : St),
        (l.foldl (fun st r => markSrvs fuel (markAddrs fuel (markAddrs fuel st r.src) r.dst) r.srv) s).aGrp =
          s.aGrp by
      rw [hs]; exact h.1
    intro l
    induction l with
    | nil => intro s; rfl
    | cons r rs ih =>
      intro s
      simp only [List.foldl_cons]
      rw [ih, markSrvs_aGrp, markAddrs_aGrp, markAddrs_aGrp]
  · have := (markObjects_inv fuel st rules).2.2.1
    rw [h.2] at this
    simpa using this

end NA.PanOs
