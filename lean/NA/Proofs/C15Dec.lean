import NA.Proofs.C15Run
/-!
# C15: decidable versions of the hypotheses of the banner theorems
(used for the `example`s / counterexamples and by the driver to classify generated cases)
-/
namespace NA.Ios

def cleanCmdB (c : Str) : Bool :=
  !c.contains '\n' && !c.contains '\x07' && !c.contains '#' &&
  (match c.getLast? with
   | some x => !isUniSpace x
   | none => false) &&
  (List.range (c.length + 1)).all (fun n => !routerName.isPrefixOf (c.drop n))

theorem cleanCmd_of_B (c : Str) (h : cleanCmdB c = true) : CleanCmd c := by
  unfold cleanCmdB at h
  simp only [Bool.and_eq_true, Bool.not_eq_true', List.all_eq_true, List.mem_range] at h
  obtain ⟨⟨⟨⟨h1, h2⟩, h3⟩, h4⟩, h5⟩ := h
  refine ⟨by simpa using h1, by simpa using h2, by simpa using h3, ?_, ?_⟩
  · cases hl : c.getLast? with
    | none => rw [hl] at h4; cases h4
    | some x =>
      rw [hl] at h4
      obtain ⟨ys, hys⟩ := List.getLast?_eq_some_iff.1 hl
      exact ⟨ys, x, hys, by simpa using h4⟩
  · intro n
    by_cases hn : n < c.length + 1
    · exact h5 n hn
    · have : c.drop n = [] := List.drop_eq_nil_of_le (by omega)
      rw [this]; decide

def cleanOutB (o : Str) : Bool :=
  !o.contains '\x07' && (o.isEmpty || o.getLast? == some '\n') && noPH ('\n' :: o)

theorem cleanOut_of_B (o : Str) (h : cleanOutB o = true) : CleanOut o := by
  unfold cleanOutB at h
  simp only [Bool.and_eq_true, Bool.not_eq_true', Bool.or_eq_true] at h
  obtain ⟨⟨h1, h2⟩, h3⟩ := h
  refine ⟨by simpa using h1, ?_, h3⟩
  rcases h2 with h2 | h2
  · left; cases o with
    | nil => rfl
    | cons _ _ => cases h2
  · right
    have hl : o.getLast? = some '\n' := by simpa using h2
    exact List.getLast?_eq_some_iff.1 hl

def cleanMsgB (m : Str) : Bool := !m.isEmpty && !m.contains '\n'

theorem cleanMsg_of_B (m : Str) (h : cleanMsgB m = true) : CleanMsg m := by
  unfold cleanMsgB at h
  simp only [Bool.and_eq_true, Bool.not_eq_true'] at h
  refine ⟨?_, by simpa using h.2⟩
  intro e; rw [e] at h; cases h.1

def cleanBehavB (b : Behav) : Bool := cleanOutB b.out && (b.form == .none || cleanMsgB b.msg)

theorem cleanBehav_of_B (b : Behav) (h : cleanBehavB b = true) : CleanBehav b := by
  unfold cleanBehavB at h
  simp only [Bool.and_eq_true, Bool.or_eq_true] at h
  refine ⟨cleanOut_of_B _ h.1, fun hf => ?_⟩
  rcases h.2 with h2 | h2
  · exact absurd (by simpa using h2) hf
  · exact cleanMsg_of_B _ h2

def changeCmdB (c : Str) : Bool := cleanCmdB c && isChange c

theorem changeCmd_of_B (c : Str) (h : changeCmdB c = true) : ChangeCmd c := by
  unfold changeCmdB at h
  simp only [Bool.and_eq_true] at h
  exact ⟨cleanCmd_of_B c h.1, h.2⟩

def Chg.cleanB : Chg → Bool
  | .one c b => changeCmdB c && cleanBehavB b
  | .two c1 c2 b1 b2 => changeCmdB c1 && changeCmdB c2 && cleanBehavB b1 && cleanBehavB b2

theorem Chg.clean_of_B (g : Chg) (h : g.cleanB = true) : g.Clean := by
  cases g with
  | one c b =>
    simp only [Chg.cleanB, Bool.and_eq_true] at h
    exact ⟨changeCmd_of_B c h.1, fun x hx => by
      simp [Chg.behavs] at hx; subst hx; exact cleanBehav_of_B _ h.2⟩
  | two c1 c2 b1 b2 =>
    simp only [Chg.cleanB, Bool.and_eq_true] at h
    exact ⟨⟨changeCmd_of_B c1 h.1.1.1, changeCmd_of_B c2 h.1.1.2⟩, fun x hx => by
      simp [Chg.behavs] at hx
      rcases hx with rfl | rfl
      · exact cleanBehav_of_B _ h.1.2
      · exact cleanBehav_of_B _ h.2⟩

def Chg.noProbeFirstB : Chg → Bool
  | .one _ _ => true
  | .two c1 _ b1 _ => !probing c1 b1

theorem Chg.noProbe_of_B (g : Chg) (h : g.noProbeFirstB = true) : g.NoProbeFirst := by
  cases g with
  | one c b => trivial
  | two c1 c2 b1 b2 => simpa [Chg.noProbeFirstB, Chg.NoProbeFirst] using h

end NA.Ios
