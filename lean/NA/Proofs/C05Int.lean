import NA.Proofs.C05Str
/-!
C05 (follow-up): `strconv.ParseInt(strconv.FormatInt(i, 10), 0, 32) = i` in the model — the decimal
text of a 32-bit integer is read back by `parseInt32`.  Uses core's lemmas about `Nat.toDigits`.
-/
namespace NA.C05
open NA.Linux

theorem natToStr_eq (n : Nat) : natToStr n = Nat.toDigits 10 n := by
  simp [natToStr]

theorem toDigits_digits (n : Nat) : (Nat.toDigits 10 n).all isDigit = true := by
  rw [List.all_eq_true]
  intro c hc
  have := Nat.isDigit_of_mem_toDigits (b := 10) (by decide) (by decide) hc
  simp only [Char.isDigit, Bool.and_eq_true, decide_eq_true_eq] at this
  simp only [isDigit, Bool.and_eq_true, decide_eq_true_eq]
  exact ⟨this.1, this.2⟩

/-- value of a decimal digit string, as `ParseUint` accumulates it -/
def decVal (acc : Nat) (ds : Str) : Nat := ds.foldl (fun n c => n * 10 + (c.toNat - 48)) acc

theorem decVal_append (acc : Nat) (a b : Str) : decVal acc (a ++ b) = decVal (decVal acc a) b := by
  simp [decVal, List.foldl_append]

theorem decVal_toDigits : ∀ n : Nat, decVal 0 (Nat.toDigits 10 n) = n := by
  intro n
  induction n using Nat.strongRecOn with
  | _ n ih =>
    rw [Nat.toDigits_eq_if (by decide)]
    split
    · rename_i h
      simp [decVal, Nat.toNat_digitChar_sub_48_of_lt_ten h]
    · rename_i h
      rw [decVal_append, ih (n / 10) (by omega)]
      simp only [decVal, List.foldl_cons, List.foldl_nil]
      rw [Nat.toNat_digitChar_sub_48_of_lt_ten (Nat.mod_lt n (by decide))]
      omega

theorem head_append_ne {d x : Str} (h : d ≠ []) : (d ++ x).head? = d.head? := by
  cases d with
  | nil => exact absurd rfl h
  | cons c cs => rfl

theorem toDigits_head (n : Nat) (hn : 0 < n) : (Nat.toDigits 10 n).head? ≠ some '0' := by
  induction n using Nat.strongRecOn with
  | _ n ih =>
    rw [Nat.toDigits_eq_if (by decide)]
    split
    · rename_i h
      have : n = 1 ∨ n = 2 ∨ n = 3 ∨ n = 4 ∨ n = 5 ∨ n = 6 ∨ n = 7 ∨ n = 8 ∨ n = 9 := by omega
      rcases this with e | e | e | e | e | e | e | e | e <;> subst e <;> decide
    · rename_i h
      have hne : Nat.toDigits 10 (n / 10) ≠ [] := Nat.toDigits_ne_nil
      rw [head_append_ne hne]
      exact ih (n / 10) (by omega) (by omega)

/-- the digit loop of `ParseUint` in base 10 on a string of digits -/
theorem uintDigits10 : ∀ (ds : Str) (acc : Nat), ds.all isDigit = true →
    uintDigits 10 ds acc false = some (decVal acc ds, false) := by
  intro ds
  induction ds with
  | nil => intro acc _; simp [uintDigits, decVal]
  | cons c cs ih =>
    intro acc h
    simp only [List.all_cons, Bool.and_eq_true] at h
    have hc := h.1
    have hne : (c == '_') = false := by
      cases hcu : (c == '_') with
      | false => rfl
      | true => simp at hcu; subst hcu; simp [isDigit] at hc
    have hdv : digitVal c = some (c.toNat - '0'.toNat) := by simp [digitVal, hc]
    have hlt : ¬ (c.toNat - '0'.toNat ≥ 10) := by
      simp only [isDigit, Bool.and_eq_true, decide_eq_true_eq] at hc
      have h1 : c.toNat ≤ 57 := hc.2
      have : '0'.toNat = 48 := rfl
      omega
    simp only [uintDigits, hne, Bool.false_eq_true, ↓reduceIte, hdv, hlt]
    rw [ih _ h.2]
    simp [decVal]

theorem basePrefix_ten (c : Char) (cs : Str) (h : c ≠ '0') : basePrefix (c :: cs) = (10, c :: cs) := by
  unfold basePrefix
  split
  · rename_i heq; injection heq with h1 _; exact absurd h1 h
  · rename_i heq; injection heq with h1 _; exact absurd h1 h
  · rfl

theorem parseUint0_natToStr (n : Nat) : parseUint0 (natToStr n) = some n := by
  rw [natToStr_eq]
  by_cases h0 : n = 0
  · subst h0; decide
  · have hd := toDigits_digits n
    have hh := toDigits_head n (by omega)
    have hne : Nat.toDigits 10 n ≠ [] := Nat.toDigits_ne_nil
    have hval := decVal_toDigits n
    cases hx : Nat.toDigits 10 n with
    | nil => exact absurd hx hne
    | cons c cs =>
      rw [hx] at hh hd hval
      have hc0 : c ≠ '0' := by simpa using hh
      unfold parseUint0
      rw [basePrefix_ten c cs hc0]
      simp only [List.isEmpty_cons, Bool.false_eq_true, ↓reduceIte, uintDigits10 (c :: cs) 0 hd, hval, Bool.false_and]

theorem splitSign_digit (c : Char) (cs : Str) (h : isDigit c = true) : splitSign (c :: cs) = (false, c :: cs) := by
  have hcp : c ≠ '+' := by intro e; subst e; simp [isDigit] at h
  have hcm : c ≠ '-' := by intro e; subst e; simp [isDigit] at h
  unfold splitSign
  split
  · rename_i heq; injection heq with h1 _; exact absurd h1 hcp
  · rename_i heq; injection heq with h1 _; exact absurd h1 hcm
  · rfl

theorem parseInt32_intToStr (i : Int) (hlo : -2147483648 ≤ i) (hhi : i < 2147483648) :
    parseInt32 (intToStr i) = some i := by
  unfold intToStr
  by_cases hneg : i < 0
  · rw [if_pos hneg]
    have hs : splitSign ('-' :: natToStr i.natAbs) = (true, natToStr i.natAbs) := rfl
    unfold parseInt32
    rw [hs]
    simp only [List.isEmpty_cons, Bool.false_eq_true, ↓reduceIte, parseUint0_natToStr, Bool.not_true,
      Bool.false_and, Bool.true_and, decide_eq_true_eq]
    rw [if_neg (by omega)]
    congr 1; omega
  · rw [if_neg hneg]
    have hpos : natToStr i.toNat ≠ [] := by rw [natToStr_eq]; exact Nat.toDigits_ne_nil
    have hd := toDigits_digits i.toNat
    have hp := parseUint0_natToStr i.toNat
    cases hx : natToStr i.toNat with
    | nil => exact absurd hx hpos
    | cons c cs =>
      have hc : isDigit c = true := by
        rw [natToStr_eq] at hx; rw [hx] at hd
        simp only [List.all_cons, Bool.and_eq_true] at hd; exact hd.1
      rw [hx] at hp
      unfold parseInt32
      rw [splitSign_digit c cs hc]
      simp only [List.isEmpty_cons, Bool.false_eq_true, ↓reduceIte, hp, Bool.not_false, Bool.true_and,
        decide_eq_true_eq, Bool.false_and]
      rw [if_neg (by omega)]
      congr 1; omega

/-- a value `parseInt32` accepts is a 32-bit integer -/
theorem parseInt32_range {x : Str} {i : Int} (h : parseInt32 x = some i) : -2147483648 ≤ i ∧ i < 2147483648 := by
  unfold parseInt32 at h
  split at h
  · exact absurd h (by simp)
  · cases hp : parseUint0 (splitSign x).2 with
    | none => simp [hp] at h
    | some n =>
      simp only [hp] at h
      split at h
      · exact absurd h (by simp)
      · split at h
        · exact absurd h (by simp)
        · rename_i h1 h2
          simp only [Option.some.injEq] at h
          cases hsg : (splitSign x).1 <;> simp [hsg] at h1 h2 h <;> omega

end NA.C05
