import NA.Spec.C11Sess
/-!
# C11 over the session model of C09: a reflective checker for "compare sends only harmless things"

`ro b p` is a syntactic check of a session program `p` under the assumption that the run is a
compare run (`env.compare = true`): a test of the flag `isCompare` selects its branch, every
`send` / `roundTrip` has a harmless role and a literal from `allowedLines b` (or the password),
never the current element of the change script, and no start-up file is copied.

`ro_ext` — soundness, by induction on the program; inside it `recvLoop_ext` (induction on the
number of unread answers: each step consumes one answer of the device, whatever it is),
`iter_ext` (induction on the fuel of a loop) and `each_ext` (induction on the change script):
whatever the device answers, everything the program appends to the trace is `sentAllowed`.
-/
namespace NA.C11
open NA.Sess NA.Apply NA.Spec.C11

/-- what is known about a condition in a compare run -/
def condKnown : Cond → Option Bool
  | .isCompare => some true
  | .not c => (condKnown c).map (!·)
  | _ => none

theorem condKnown_sound (c : Cond) (env : Env) (s : St) (h : env.compare = true) :
    ∀ v, condKnown c = some v → evalCond c env s = v := by
  induction c with
  | isCompare => intro v hv; simp [condKnown] at hv; simp [evalCond, h, ← hv]
  | not c ih =>
    intro v hv
    simp only [condKnown, Option.map_eq_some_iff] at hv
    obtain ⟨w, hw, rfl⟩ := hv
    simp [evalCond, ih w hw]
  | _ => intro v hv; simp [condKnown] at hv

def okTxt (b : Backend) : Txt → Bool
  | .lit s => (allowedLines b).contains s
  | .litNl s => (allowedLines b).contains s
  | .secret => (allowedLines b).contains "<secret>"
  | .cur => false

def ro (b : Backend) : Sess → Bool
  | .skip | .recv _ _ | .recvMore _ | .abort _ | .warn _ | .cont | .ret _ _ | .setCtr _ | .decCtr
  | .setPlan | .assumeBanner => true
  | .send ρ t => allowedRole ρ && okTxt b t
  | .roundTrip ρ t _ => allowedRole ρ && okTxt b t
  | .mark e => sentAllowed b e
  | .ite c _ t e =>
    match condKnown c with
    | some true => ro b t
    | some false => ro b e
    | none => ro b t && ro b e
  | .seq p q => ro b p && ro b q
  | .forEach p => ro b p
  | .defer c p => ro b c && ro b p
  | .loopN _ p => ro b p
  | .loopFuel p => ro b p
  | .call _ _ p => ro b p
  | .scope _ p => ro b p
  | .when _ p => ro b p

/-- `s'` extends the trace of `s` by allowed events only -/
def Ext (b : Backend) (s s' : St) : Prop := ∃ l, s'.tr = s.tr ++ l ∧ ∀ e ∈ l, sentAllowed b e = true

theorem Ext.refl (b : Backend) (s : St) : Ext b s s := ⟨[], by simp, by simp⟩
theorem Ext.trans {b : Backend} {x y z : St} (h1 : Ext b x y) (h2 : Ext b y z) : Ext b x z := by
  obtain ⟨l1, e1, q1⟩ := h1
  obtain ⟨l2, e2, q2⟩ := h2
  refine ⟨l1 ++ l2, by rw [e2, e1, List.append_assoc], ?_⟩
  intro e he
  rcases List.mem_append.mp he with h | h
  · exact q1 e h
  · exact q2 e h
theorem Ext.of_tr {b : Backend} {s s' : St} (h : s'.tr = s.tr) : Ext b s s' := ⟨[], by simp [h], by simp⟩
theorem Ext.snoc {b : Backend} {s s' : St} (e : Ev) (h : s'.tr = s.tr ++ [e]) (he : sentAllowed b e = true) :
    Ext b s s' := ⟨[e], h, by simp [he]⟩

/-- Reading answers: whatever the device says, only `got` / `skipped` events are appended.
Induction on the number of unread answers — one answer of the device is consumed per step. -/
theorem recvLoop_ext (b : Backend) (dev : Dev) (ρ : Role) (p : Pat) :
    ∀ (n : Nat) (s : St), Ext b s (recvLoop dev ρ p n s) := by
  intro n
  induction n with
  | zero => intro s; exact Ext.of_tr rfl
  | succ n ih =>
    intro s
    simp only [recvLoop]
    split
    · exact Ext.snoc _ rfl rfl
    · split
      · exact (Ext.snoc (s' := { s with tr := s.tr ++ [Ev.skipped (dev s.tr)] }) _ rfl rfl).trans (ih _)
      · exact Ext.snoc _ rfl rfl

theorem each_ext (b : Backend) (f : List String → St → St) (hf : ∀ pk s, Ext b s (f pk s)) :
    ∀ (l : List (List String)) (s : St), Ext b s (each f l s) := by
  intro l
  induction l with
  | nil => intro s; exact Ext.refl b s
  | cons pk rest ih => intro s; exact (hf pk s).trans (ih _)

theorem iter_ext (b : Backend) (f : St → St) (hf : ∀ s, Ext b s (f s)) :
    ∀ (n : Nat) (s : St), Ext b s (iter n f s) := by
  intro n
  induction n with
  | zero =>
    intro s
    simp only [iter]
    split
    · exact Ext.of_tr rfl
    · exact Ext.refl b s
  | succ n ih =>
    intro s
    simp only [iter]
    split
    · split
      · exact (hf s).trans ((Ext.of_tr (s' := { f s with mode := Mode.run }) rfl).trans (ih _))
      · exact (hf s).trans (ih _)
      · exact hf s
    · exact Ext.refl b s

theorem okTxt_lines (b : Backend) (t : Txt) (h : okTxt b t = true) (env : Env) :
    (t.lines env).all (allowedLines b).contains = true := by
  cases t <;> simp_all [okTxt, Txt.lines]

/-- **Soundness of the checker**: in a compare run a checked program appends only allowed events,
against every device. -/
theorem ro_ext (b : Backend) (p : Sess) (hq : ro b p = true) :
    ∀ (env : Env) (s : St), env.compare = true → Ext b s (exec p env s) := by
  induction p with
  | skip => intro env s _; exact Ext.refl b s
  | send ρ t =>
    intro env s _
    simp only [ro, Bool.and_eq_true] at hq
    simp only [exec]
    split
    · refine Ext.snoc _ rfl ?_
      simp [sentAllowed, hq.1, okTxt_lines b t hq.2 env]
    · exact Ext.refl b s
  | recv ρ p =>
    intro env s _
    simp only [exec]
    split
    · exact recvLoop_ext _ _ _ _ _ _
    · exact Ext.refl b s
  | recvMore p =>
    intro env s _
    simp only [exec]
    split
    · exact Ext.of_tr rfl
    · exact Ext.refl b s
  | roundTrip ρ t r =>
    intro env s _
    simp only [ro, Bool.and_eq_true] at hq
    have hs : sentAllowed b (Ev.sent ρ (t.lines env)) = true := by
      simp [sentAllowed, hq.1, okTxt_lines b t hq.2 env]
    simp only [exec]
    split
    · split
      · exact ((Ext.snoc (s' := { s with tr := s.tr ++ [Ev.sent ρ (t.lines env)] }) _ rfl hs).trans
          (recvLoop_ext _ _ _ _ _ _)).trans
          ((Ext.snoc (s' := { recvLoop env.dev ρ Pat.http 1 { s with tr := s.tr ++ [Ev.sent ρ (t.lines env)] } with
              tr := (recvLoop env.dev ρ Pat.http 1 { s with tr := s.tr ++ [Ev.sent ρ (t.lines env)] }).tr ++
                [Ev.sent ρ (t.lines env)] }) _ rfl hs).trans (recvLoop_ext _ _ _ _ _ _))
      · exact (Ext.snoc (s' := { s with tr := s.tr ++ [Ev.sent ρ (t.lines env)] }) _ rfl hs).trans
          (recvLoop_ext _ _ _ _ _ _)
    · exact Ext.refl b s
  | ite c l t e iht ihe =>
    intro env s hc
    simp only [exec]
    split
    · cases hk : condKnown c with
      | none =>
        simp only [ro, hk, Bool.and_eq_true] at hq
        split
        · exact iht hq.1 env s hc
        · exact ihe hq.2 env s hc
      | some v =>
        have hv := condKnown_sound c env s hc v hk
        cases v with
        | true =>
          simp only [ro, hk] at hq
          simp only [hv, if_true]
          exact iht hq env s hc
        | false =>
          simp only [ro, hk] at hq
          simp only [hv, Bool.false_eq_true, if_false]
          exact ihe hq env s hc
    · exact Ext.refl b s
  | abort l =>
    intro env s _
    simp only [exec]
    split
    · exact Ext.snoc _ rfl rfl
    · exact Ext.refl b s
  | warn l =>
    intro env s _
    simp only [exec]
    split
    · exact Ext.snoc _ rfl rfl
    · exact Ext.refl b s
  | mark e =>
    intro env s _
    simp only [exec]
    split
    · exact Ext.snoc _ rfl (by simpa [ro] using hq)
    · exact Ext.refl b s
  | seq p q ihp ihq =>
    intro env s hc
    simp only [ro, Bool.and_eq_true] at hq
    simp only [exec]
    exact (ihp hq.1 env s hc).trans (ihq hq.2 env _ hc)
  | forEach p ih =>
    intro env s hc
    simp only [exec]
    split
    · exact each_ext b _ (fun pk st => ih hq { env with cur := pk } st hc) _ _
    · exact Ext.refl b s
  | defer c p ihc ihp =>
    intro env s hc
    simp only [ro, Bool.and_eq_true] at hq
    simp only [exec]
    split
    · split
      · exact ihp hq.2 env s hc
      · split
        · exact ((ihp hq.2 env s hc).trans (Ext.of_tr (s' := { exec p env s with mode := Mode.run }) rfl)).trans
            ((ihc hq.1 env _ hc).trans (Ext.of_tr rfl))
        · exact ((ihp hq.2 env s hc).trans (Ext.of_tr (s' := { exec p env s with mode := Mode.run }) rfl)).trans
            (ihc hq.1 env _ hc)
    · exact Ext.refl b s
  | loopN n p ih =>
    intro env s hc
    simp only [exec]
    exact iter_ext b _ (fun st => ih hq env st hc) _ _
  | loopFuel p ih =>
    intro env s hc
    simp only [exec]
    exact iter_ext b _ (fun st => ih hq env st hc) _ _
  | cont =>
    intro env s _
    simp only [exec]
    split
    · exact Ext.of_tr rfl
    · exact Ext.refl b s
  | ret v l =>
    intro env s _
    simp only [exec]
    split
    · exact Ext.of_tr rfl
    · exact Ext.refl b s
  | setCtr n =>
    intro env s _
    simp only [exec]
    split
    · exact Ext.of_tr rfl
    · exact Ext.refl b s
  | decCtr =>
    intro env s _
    simp only [exec]
    split
    · exact Ext.of_tr rfl
    · exact Ext.refl b s
  | setPlan =>
    intro env s _
    simp only [exec]
    split
    · exact Ext.of_tr rfl
    · exact Ext.refl b s
  | call n l p ih =>
    intro env s hc
    simp only [exec]
    split
    · split
      · exact (ih hq env s hc).trans (Ext.of_tr rfl)
      · exact ih hq env s hc
    · exact Ext.refl b s
  | scope c p ih =>
    intro env s hc
    simp only [exec]
    exact ih hq env s hc
  | «when» c p ih =>
    intro env s hc
    simp only [exec]
    split
    · split
      · exact ih hq env s hc
      · exact Ext.refl b s
    · exact Ext.refl b s
  | assumeBanner =>
    intro env s _
    simp only [exec]
    split
    · exact Ext.of_tr rfl
    · exact Ext.refl b s

/-- the lines of the events of a read-only trace are all in the vocabulary -/
theorem linesOf_allowed (b : Backend) : ∀ (tr : List Ev), ReadOnlyTrace b tr →
    ∀ l ∈ sentLines tr, l ∈ allowedLines b := by
  intro tr
  induction tr with
  | nil => intro _ l hl; simp [sentLines, NA.Spec.C09.linesOf] at hl
  | cons e t ih =>
    intro h l hl
    have ht : ReadOnlyTrace b t := fun x hx => h x (by simp [hx])
    have he := h e (by simp)
    cases e with
    | sent ρ ls =>
      simp only [sentLines, NA.Spec.C09.linesOf, List.foldr_cons, List.mem_append] at hl
      rcases hl with hl | hl
      · simp only [sentAllowed, Bool.and_eq_true, List.all_eq_true] at he
        have := he.2 l hl
        simpa using this
      · exact ih ht l hl
    | _ =>
      simp only [sentLines, NA.Spec.C09.linesOf, List.foldr_cons] at hl
      exact ih ht l hl

end NA.C11
