import NA.Proofs.C03Marks
/-
C03, whole-vsys theorems, part 4: what the `needed` / `edit` flags of the target's addresses mean
after `markObjects`: `needed` only for names the device lacks, `edit` only for names the device
has with another value, and every name a rule of the target uses is covered (kept as it is,
edited, or transferred).  Core Lean only.
-/
namespace NA.PanOs

/-- Flags of the target's addresses only go up; names and values stay. -/
def BMono (st st' : St) : Prop :=
  ∀ (i : Nat) (o : BObj), st.bAddr[i]? = some o →
    ∃ o' : BObj, st'.bAddr[i]? = some o' ∧ o'.o = o.o ∧ (o.needed = true → o'.needed = true) ∧
      (o.edit = true → o'.edit = true)

theorem BMono.refl (st : St) : BMono st st := fun _ o h => ⟨o, h, rfl, id, id⟩

theorem BMono.trans {a b c : St} (h₁ : BMono a b) (h₂ : BMono b c) : BMono a c := by
  intro i o h
  obtain ⟨o1, g1, e1, n1, d1⟩ := h₁ i o h
  obtain ⟨o2, g2, e2, n2, d2⟩ := h₂ i o1 g1
  exact ⟨o2, g2, e2.trans e1, fun x => n2 (n1 x), fun x => d2 (d1 x)⟩

theorem BMono.of_eq {st st' : St} (h : st'.bAddr = st.bAddr) : BMono st st' :=
  fun _ o ho => ⟨o, by rw [h]; exact ho, rfl, id, id⟩

theorem bMono_mod (st : St) (bi : Nat) (f : BObj → BObj) (hf : ∀ x, (f x).o = x.o)
    (hn : ∀ x, x.needed = true → (f x).needed = true) (he : ∀ x, x.edit = true → (f x).edit = true) :
    BMono st { st with bAddr := modAt st.bAddr bi f } := by
  intro i o h
  simp only [modAt_getElem?]
  split
  · exact ⟨f o, by simp [h], hf o, hn o, he o⟩
  · exact ⟨o, h, rfl, id, id⟩

/-- What the flags of the target's addresses say is true. -/
def FlagSound (st : St) : Prop :=
  ∀ (bi : Nat) (ob : BObj), st.bAddr[bi]? = some ob →
    (ob.needed = true → st.aAddrIdx ob.o.name = none) ∧
    (ob.edit = true → ∃ (ai : Nat) (oa : AObj), st.aAddrIdx ob.o.name = some ai ∧ st.aAddr[ai]? = some oa ∧
      oa.o.val ≠ ob.o.val)

/-- Name `x` (if the target defines it as an address) is taken care of. -/
def Covered (st : St) (x : String) : Prop :=
  ∀ bi, st.bAddrIdx x = some bi → ∃ ob : BObj, st.bAddr[bi]? = some ob ∧
    ((∃ (ai : Nat) (oa : AObj), st.aAddrIdx x = some ai ∧ st.aAddr[ai]? = some oa ∧
        (oa.o.val = ob.o.val ∨ ob.edit = true)) ∨
      (st.aAddrIdx x = none ∧ ob.needed = true))

theorem aAddr_val_stable {st st' : St} (h : MarkInv st st') (ai : Nat) (oa : AObj) (ho : st.aAddr[ai]? = some oa) :
    ∃ oa' : AObj, st'.aAddr[ai]? = some oa' ∧ oa'.o = oa.o := by
  have h1 := congrArg (fun l => l[ai]?) h.1
  simp only [List.getElem?_map, ho, Option.map_some] at h1
  cases hx : st'.aAddr[ai]? with
  | none => simp [hx] at h1
  | some oa' => exact ⟨oa', rfl, by simpa [hx] using h1⟩

theorem FlagSound.mono {st st' : St} (hs : FlagSound st') : FlagSound st' := hs

theorem Covered.mono {st st' : St} {x : String} (hi : MarkInv st st') (hb : BMono st st')
    (hc : Covered st x) : Covered st' x := by
  intro bi hbi
  rw [(hi.idx x).2.1] at hbi
  obtain ⟨ob, hob, hcase⟩ := hc bi hbi
  obtain ⟨ob', hob', heq, hn, he⟩ := hb bi ob hob
  refine ⟨ob', hob', ?_⟩
  rcases hcase with ⟨ai, oa, hai, hoa, hv⟩ | ⟨hnone, hneed⟩
  · left
    obtain ⟨oa', hoa', heqa⟩ := aAddr_val_stable hi ai oa hoa
    refine ⟨ai, oa', by rw [(hi.idx x).1]; exact hai, hoa', ?_⟩
    rcases hv with hv | hv
    · left; rw [heqa, heq]; exact hv
    · right; exact he hv
  · right
    exact ⟨by rw [(hi.idx x).1]; exact hnone, hn hneed⟩

/-- One element of `markAddresses`: flags stay sound, go up only, and the element is covered. -/
theorem markAddrs_flags : ∀ (fuel : Nat) (st : St) (l : List String), FlagSound st →
    FlagSound (markAddrs fuel st l) ∧ BMono st (markAddrs fuel st l) := by
  intro fuel
  induction fuel with
  | zero => intro st l h; exact ⟨h, BMono.refl st⟩
  | succ fuel ih =>
    intro st l
    rw [markAddrs_succ]
    suffices hs : ∀ (l : List String) (s : St), FlagSound s →
        FlagSound (l.foldl (markAddrStep fuel) s) ∧ BMono s (l.foldl (markAddrStep fuel) s) from hs l st
    intro l
    induction l with
    | nil => intro s h; exact ⟨h, BMono.refl s⟩
    | cons x xs ihl =>
      intro s hs
      simp only [List.foldl_cons]
      have step : FlagSound (markAddrStep fuel s x) ∧ BMono s (markAddrStep fuel s x) := by
        unfold markAddrStep
        split
        · rename_i gi _
          dsimp only
          have h1 : FlagSound { s with bGrp := modAt s.bGrp gi (fun g => { g with needed := true }) } := hs
          obtain ⟨a1, a2⟩ := ih { s with bGrp := modAt s.bGrp gi (fun g => { g with needed := true }) } _ h1
          exact ⟨a1, (BMono.of_eq rfl).trans a2⟩
        · split
          · exact ⟨hs, BMono.refl s⟩
          · rename_i bi hbi
            split
            · rename_i ai hai
              dsimp only
              -- needed of the device address: the target's flags are not touched
              have hsA : FlagSound { s with aAddr := modAt s.aAddr ai (fun o => { o with needed := true }) } := by
                intro bi' ob hob
                obtain ⟨p1, p2⟩ := hs bi' ob hob
                have hidx := ((markInv_setA s ai).idx ob.o.name).1
                refine ⟨fun hn => by rw [hidx]; exact p1 hn, fun he => ?_⟩
                obtain ⟨ai', oa, q1, q2, q3⟩ := p2 he
                obtain ⟨oa', r1, r2⟩ := aAddr_val_stable (markInv_setA s ai) ai' oa q2
                exact ⟨ai', oa', by rw [hidx]; exact q1, r1, by rw [r2]; exact q3⟩
              split
              · rename_i hne
                refine ⟨?_, bMono_mod _ bi _ (fun _ => rfl) (fun _ h => h) (fun _ _ => rfl)⟩
                intro bi' ob' hob'
                simp only [modAt_getElem?] at hob'
                split at hob'
                · rename_i hbb
                  subst hbb
                  cases hb0 : s.bAddr[bi']? with
                  | none => simp [hb0] at hob'
                  | some ob0 =>
                    simp only [hb0, Option.map_some, Option.some.injEq] at hob'
                    subst hob'
                    obtain ⟨p1, p2⟩ := hsA bi' ob0 hb0
                    refine ⟨p1, fun _ => ?_⟩
                    -- the name at index bi is x
                    have hname : ob0.o.name = x := by
                      have := lastIdx_spec hbi
                      rw [List.getElem?_map, hb0] at this
                      simpa using this
                    have hidx := ((markInv_setA s ai).idx x).1
                    have hin : ∃ oa, s.aAddr[ai]? = some oa := by
                      have := lastIdx_spec hai
                      rw [List.getElem?_map] at this
                      cases h : s.aAddr[ai]? with
                      | none => simp [h] at this
                      | some o => exact ⟨o, rfl⟩
                    obtain ⟨oa, hoa⟩ := hin
                    refine ⟨ai, { oa with needed := true }, ?_, by simp [modAt_getElem?, hoa], ?_⟩
                    · rw [hname]
                      show St.aAddrIdx { s with aAddr := modAt s.aAddr ai (fun o => { o with needed := true }) } x = some ai
                      rw [hidx]; exact hai
                    simp only [modAt_getElem?, if_true, hoa, Option.map_some, Option.getD_some, hb0] at hne
                    simpa using hne
                · exact hsA bi' ob' hob'
              · exact ⟨hsA, BMono.of_eq rfl⟩
            · rename_i hai
              refine ⟨?_, bMono_mod _ bi _ (fun _ => rfl) (fun _ _ => rfl) (fun _ h => h)⟩
              intro bi' ob' hob'
              simp only [modAt_getElem?] at hob'
              split at hob'
              · rename_i hbb
                subst hbb
                cases hb0 : s.bAddr[bi']? with
                | none => simp [hb0] at hob'
                | some ob0 =>
                  simp only [hb0, Option.map_some, Option.some.injEq] at hob'
                  subst hob'
                  obtain ⟨p1, p2⟩ := hs bi' ob0 hb0
                  have hname : ob0.o.name = x := by
                    have := lastIdx_spec hbi
                    rw [List.getElem?_map, hb0] at this
                    simpa using this
                  refine ⟨fun _ => ?_, p2⟩
                  show St.aAddrIdx _ ob0.o.name = none
                  rw [hname]
                  exact hai
              · exact hs bi' ob' hob'
      obtain ⟨f1, m1⟩ := step
      obtain ⟨f2, m2⟩ := ihl _ f1
      exact ⟨f2, m1.trans m2⟩

end NA.PanOs

namespace NA.PanOs

theorem markAddrStep_covers (fuel : Nat) (s : St) (x : String) (hg : s.bGrpIdx x = none) :
    Covered (markAddrStep fuel s x) x := by
  unfold markAddrStep
  rw [hg]
  cases hbi : s.bAddrIdx x with
  | none =>
    simp only
    intro bi h
    rw [hbi] at h
    cases h
  | some bi =>
    simp only
    have hinb : ∃ ob, s.bAddr[bi]? = some ob := by
      have := lastIdx_spec hbi
      rw [List.getElem?_map] at this
      cases h : s.bAddr[bi]? with
      | none => simp [h] at this
      | some o => exact ⟨o, rfl⟩
    obtain ⟨ob, hob⟩ := hinb
    cases hai : s.aAddrIdx x with
    | none =>
      simp only
      intro bi' h'
      have : St.bAddrIdx { s with bAddr := modAt s.bAddr bi (fun o => { o with needed := true }) } x = s.bAddrIdx x := by
        unfold St.bAddrIdx
        rw [modAt_map s.bAddr bi (fun o => { o with needed := true }) (fun x => x.o.name) (fun _ => rfl)]
      rw [this, hbi] at h'
      cases h'
      refine ⟨{ ob with needed := true }, by simp [modAt_getElem?, hob], Or.inr ⟨?_, rfl⟩⟩
      show s.aAddrIdx x = none
      exact hai
    | some ai =>
      simp only
      have hina : ∃ oa, s.aAddr[ai]? = some oa := by
        have := lastIdx_spec hai
        rw [List.getElem?_map] at this
        cases h : s.aAddr[ai]? with
        | none => simp [h] at this
        | some o => exact ⟨o, rfl⟩
      obtain ⟨oa, hoa⟩ := hina
      have hidxA : St.aAddrIdx { s with aAddr := modAt s.aAddr ai (fun o => { o with needed := true }) } x = some ai := by
        rw [((markInv_setA s ai).idx x).1]; exact hai
      split
      · -- values differ: edit
        intro bi' h'
        have : (modAt s.bAddr bi (fun o => { o with edit := true })).map (fun x => x.o.name) =
            s.bAddr.map (fun x => x.o.name) :=
          modAt_map s.bAddr bi (fun o => { o with edit := true }) (fun x => x.o.name) (fun _ => rfl)
        unfold St.bAddrIdx at h'
        simp only [this] at h'
        have hbi' : lastIdx (s.bAddr.map (fun x => x.o.name)) x = some bi := hbi
        rw [hbi'] at h'
        cases h'
        refine ⟨{ ob with edit := true }, by simp [modAt_getElem?, hob], Or.inl ⟨ai, { oa with needed := true }, ?_,
          by simp [modAt_getElem?, hoa], Or.inr rfl⟩⟩
        exact hidxA
      · rename_i heq
        intro bi' h'
        have : St.bAddrIdx { s with aAddr := modAt s.aAddr ai (fun o => { o with needed := true }) } x = s.bAddrIdx x := rfl
        rw [this, hbi] at h'
        cases h'
        refine ⟨ob, hob, Or.inl ⟨ai, { oa with needed := true }, hidxA, by simp [modAt_getElem?, hoa], Or.inl ?_⟩⟩
        simp only [modAt_getElem?, if_true, hoa, Option.map_some, Option.getD_some, hob] at heq
        simpa using heq

theorem markAddrStep_inv (fuel : Nat) (s : St) (x : String) : MarkInv s (markAddrStep fuel s x) := by
  have := markAddrs_inv (fuel + 1) s [x]
  rw [markAddrs_succ] at this
  simpa using this

theorem markAddrStep_flags (fuel : Nat) (s : St) (x : String) (h : FlagSound s) :
    FlagSound (markAddrStep fuel s x) ∧ BMono s (markAddrStep fuel s x) := by
  have := markAddrs_flags (fuel + 1) s [x] h
  rw [markAddrs_succ] at this
  simpa using this

theorem markAddrs_covers (fuel : Nat) : ∀ (l : List String) (st : St) (x : String), FlagSound st → x ∈ l →
    st.bGrpIdx x = none → Covered (markAddrs (fuel + 1) st l) x := by
  intro l
  induction l with
  | nil => intro st x _ hx; cases hx
  | cons y ys ih =>
    intro st x hfs hx hg
    rw [markAddrs_succ, List.foldl_cons, ← markAddrs_succ]
    have hinv := markAddrStep_inv fuel st y
    obtain ⟨hfs', hmono⟩ := markAddrStep_flags fuel st y hfs
    rcases List.mem_cons.mp hx with rfl | hx
    · exact (markAddrStep_covers fuel st x hg).mono (markAddrs_inv _ _ _) (markAddrs_flags _ _ _ hfs').2
    · exact ih _ x hfs' hx (by rw [(hinv.idx x).2.2]; exact hg)

theorem markSrvs_bmono (fuel : Nat) (st : St) (l : List String) : BMono st (markSrvs fuel st l) :=
  BMono.of_eq (markSrvs_addr fuel st l).2.1

theorem markSrvs_flagSound (fuel : Nat) (st : St) (l : List String) (h : FlagSound st) :
    FlagSound (markSrvs fuel st l) := by
  obtain ⟨h1, h2, _⟩ := markSrvs_addr fuel st l
  intro bi ob hob
  rw [h2] at hob
  obtain ⟨p1, p2⟩ := h bi ob hob
  have hidx : ∀ x, (markSrvs fuel st l).aAddrIdx x = st.aAddrIdx x := by
    intro x; unfold St.aAddrIdx; rw [h1]
  refine ⟨fun hn => by rw [hidx]; exact p1 hn, fun he => ?_⟩
  obtain ⟨ai, oa, q1, q2, q3⟩ := p2 he
  exact ⟨ai, oa, by rw [hidx]; exact q1, by rw [h1]; exact q2, q3⟩

/-- After `markObjects`: the flags are sound, and every name a rule uses in source or destination
(as an address, not a group) is covered. -/
theorem markObjects_flags (fuel : Nat) : ∀ (rules : List Rule) (st : St), FlagSound st →
    FlagSound (markObjects (fuel + 1) st rules) ∧ BMono st (markObjects (fuel + 1) st rules) ∧
    ∀ (r : Rule) (x : String), r ∈ rules → (x ∈ r.src ∨ x ∈ r.dst) → st.bGrpIdx x = none →
      Covered (markObjects (fuel + 1) st rules) x := by
  intro rules
  induction rules with
  | nil => intro st h; exact ⟨h, BMono.refl st, fun r x hr => by cases hr⟩
  | cons r0 rs ih =>
    intro st hfs
    unfold markObjects at ih ⊢
    simp only [List.foldl_cons]
    obtain ⟨f1, m1⟩ := markAddrs_flags (fuel + 1) st r0.src hfs
    obtain ⟨f2, m2⟩ := markAddrs_flags (fuel + 1) _ r0.dst f1
    have f3 := markSrvs_flagSound (fuel + 1) _ r0.srv f2
    have m3 := markSrvs_bmono (fuel + 1) (markAddrs (fuel + 1) (markAddrs (fuel + 1) st r0.src) r0.dst) r0.srv
    have i1 := markAddrs_inv (fuel + 1) st r0.src
    have i2 := markAddrs_inv (fuel + 1) (markAddrs (fuel + 1) st r0.src) r0.dst
    have i3 := markSrvs_inv (fuel + 1) (markAddrs (fuel + 1) (markAddrs (fuel + 1) st r0.src) r0.dst) r0.srv
    obtain ⟨g1, g2, g3⟩ := ih _ f3
    have irest : MarkInv (markSrvs (fuel + 1) (markAddrs (fuel + 1) (markAddrs (fuel + 1) st r0.src) r0.dst) r0.srv)
        (rs.foldl (fun st r => markSrvs (fuel + 1) (markAddrs (fuel + 1) (markAddrs (fuel + 1) st r.src) r.dst) r.srv)
          (markSrvs (fuel + 1) (markAddrs (fuel + 1) (markAddrs (fuel + 1) st r0.src) r0.dst) r0.srv)) :=
      markObjects_inv (fuel + 1) _ rs
    refine ⟨g1, ((m1.trans m2).trans m3).trans g2, ?_⟩
    intro r x hr hx hg
    rcases List.mem_cons.mp hr with rfl | hr
    · rcases hx with hx | hx
      · exact ((markAddrs_covers fuel _ st x hfs hx hg).mono (i2.trans i3) (m2.trans m3)).mono irest g2
      · exact ((markAddrs_covers fuel _ _ x f1 hx (by rw [(i1.idx x).2.2]; exact hg)).mono i3 m3).mono irest g2
    · exact g3 r x hr hx (by rw [(((i1.trans i2).trans i3).idx x).2.2]; exact hg)

end NA.PanOs
