import NA.Proofs.C03GrpAdapt
import NA.Proofs.C03Block
/-
C03, whole-vsys theorems with address-groups, part 5: executing the member requests of one
address-group on the strict device.  Core Lean only.
-/
namespace NA.PanOs

theorem lookupGrp_modifyGrp (gs : List Grp) (g n : String) (f : List String → List String) :
    lookupGrp (modifyGrp gs g f) n = if n == g then (lookupGrp gs n).map f else lookupGrp gs n := by
  unfold lookupGrp modifyGrp
  induction gs with
  | nil => simp
  | cons x xs ih =>
    simp only [List.map_cons, List.find?_cons]
    by_cases hxg : x.name = g
    · have h1 : (x.name == g) = true := by simpa using hxg
      simp only [h1, if_true]
      by_cases hxn : x.name = n
      · have h2 : (x.name == n) = true := by simpa using hxn
        have h3 : (n == g) = true := by simpa using hxn.symm.trans hxg
        simp [h2, h3]
      · have h2 : (x.name == n) = false := by simpa using hxn
        simp only [h2]
        exact ih
    · have h1 : (x.name == g) = false := by simpa using hxg
      simp only [h1, Bool.false_eq_true, if_false]
      by_cases hxn : x.name = n
      · have h2 : (x.name == n) = true := by simpa using hxn
        have h3 : (n == g) = false := by
          have : n ≠ g := fun e => hxg (hxn.trans e)
          simpa using this
        simp [h2, h3]
      · have h2 : (x.name == n) = false := by simpa using hxn
        simp only [h2]
        exact ih

theorem lookupGrp_some {gs : List Grp} {n : String} {l : List String} (h : lookupGrp gs n = some l) :
    ∃ gr, gs.find? (·.name == n) = some gr ∧ gr.members = l := by
  unfold lookupGrp at h
  cases hf : gs.find? (·.name == n) with
  | none => simp [hf] at h
  | some gr => exact ⟨gr, rfl, by simpa [hf] using h⟩

theorem lookupGrp_some_any {gs : List Grp} {n : String} {l : List String} (h : lookupGrp gs n = some l) :
    gs.any (·.name == n) = true := by
  obtain ⟨gr, hf, _⟩ := lookupGrp_some h
  simp only [List.any_eq_true]
  exact ⟨gr, List.mem_of_find?_eq_some hf, by simpa using List.find?_some hf⟩

theorem addrRefOk_congr (sh : Shared) {v w : Vsys} (h1 : w.addrs = v.addrs)
    (h2 : w.groups.map (·.name) = v.groups.map (·.name)) (m : String) :
    addrRefOk sh w m = addrRefOk sh v m := by
  simp only [addrRefOk, h1, any_name_congr h2]

/-- All requests address the members of group `g`. -/
def OnGroup (g : String) (cs : List Cmd) : Prop :=
  ∀ c ∈ cs, (∃ m, c = .delGMem g m) ∨ (∃ ms, c = .setGrp g ms)

/-- **The member list of one address-group.** -/
theorem runs_onGroup (sh : Shared) (g : String) :
    ∀ (cs : List Cmd) (v : Vsys) (l0 l' : List String), OnGroup g cs →
      lookupGrp v.groups g = some l0 →
      runMem l0 (cs.filterMap memOf) = some l' →
      (∀ c ∈ cs, ∀ ms, c = .setGrp g ms → ∀ m ∈ ms, addrRefOk sh v m = true) →
      ∃ w, Runs sh v cs w ∧ lookupGrp w.groups g = some l' ∧
        (∀ n, n ≠ g → lookupGrp w.groups n = lookupGrp v.groups n) ∧
        w.rules = v.rules ∧ w.addrs = v.addrs ∧ w.svcs = v.svcs ∧ w.sgroups = v.sgroups ∧ w.name = v.name ∧
        w.groups.map (·.name) = v.groups.map (·.name) := by
  intro cs
  induction cs with
  | nil =>
    intro v l0 l' _ hl hr _
    simp only [List.filterMap_nil, runMem, Option.some.injEq] at hr
    subst hr
    exact ⟨v, Runs.nil sh v, hl, fun _ _ => rfl, rfl, rfl, rfl, rfl, rfl, rfl⟩
  | cons c cs ih =>
    intro v l0 l' hon hl hr href
    have hon' : OnGroup g cs := fun c' hc' => hon c' (List.mem_cons_of_mem _ hc')
    obtain ⟨gr, hfind, hgm⟩ := lookupGrp_some hl
    have hany := lookupGrp_some_any hl
    -- common tail
    have tail : ∀ (f : List String → List String) (op : MemOp),
        exec sh v c = .ok { v with groups := modifyGrp v.groups g f } → memOf c = some op →
        applyMem l0 op = some (f l0) →
        ∃ w, Runs sh v (c :: cs) w ∧ lookupGrp w.groups g = some l' ∧
          (∀ n, n ≠ g → lookupGrp w.groups n = lookupGrp v.groups n) ∧
          w.rules = v.rules ∧ w.addrs = v.addrs ∧ w.svcs = v.svcs ∧ w.sgroups = v.sgroups ∧ w.name = v.name ∧
          w.groups.map (·.name) = v.groups.map (·.name) := by
      intro f op hv1 hmem happ
      have hl1 : lookupGrp (modifyGrp v.groups g f) g = some (f l0) := by
        rw [lookupGrp_modifyGrp, hl]; simp
      have hr' : runMem (f l0) (cs.filterMap memOf) = some l' := by
        simp only [List.filterMap_cons, hmem, runMem, happ, Option.bind_some] at hr
        exact hr
      obtain ⟨w, hw, hlw, hoth, t1, t2, t3, t4, t5, t6⟩ := ih { v with groups := modifyGrp v.groups g f } (f l0) l'
        hon' hl1 hr' (by
          intro c' hc' ms hcs m hm
          rw [addrRefOk_congr sh (v := v) (w := { v with groups := modifyGrp v.groups g f }) rfl
            (modifyGrp_names _ _ _)]
          exact href c' (List.mem_cons_of_mem _ hc') ms hcs m hm)
      refine ⟨w, Runs.cons hv1 hw, hlw, ?_, t1, t2, t3, t4, t5, t6.trans (modifyGrp_names _ _ _)⟩
      intro n hn
      rw [hoth n hn]
      show lookupGrp (modifyGrp v.groups g f) n = _
      rw [lookupGrp_modifyGrp]
      have : (n == g) = false := by simpa using hn
      simp [this]
    rcases hon c (by simp) with ⟨m, rfl⟩ | ⟨ms, rfl⟩
    · have hcm : l0.contains m = true := by
        simp only [List.filterMap_cons, memOf, runMem, applyMem] at hr
        split at hr
        · assumption
        · simp at hr
      refine tail (fun old => old.filter (· != m)) (.del m) ?_ rfl (by simp only [applyMem, hcm, if_true])
      simp only [exec, hfind, hgm, hcm, if_true]
    · refine tail (fun old => mergeMembers old ms) (.add ms) ?_ rfl rfl
      have hall : ms.all (addrRefOk sh v) = true := by
        rw [List.all_eq_true]
        exact fun m hm => href (.setGrp g ms) (by simp) ms rfl m hm
      simp only [exec, hall, Bool.not_true, Bool.false_eq_true, if_false, hany, if_true]

theorem lookupGrp_append_single (gs : List Grp) (g : Grp) (n : String) (h : n ≠ g.name) :
    lookupGrp (gs ++ [g]) n = lookupGrp gs n := by
  unfold lookupGrp
  rw [List.find?_append]
  cases gs.find? (·.name == n) with
  | some x => rfl
  | none =>
    have : (g.name == n) = false := by
      have : g.name ≠ n := fun e => h e.symm
      simpa using this
    simp [List.find?_cons, this]

/-- A group-member request leaves the groups of other names alone. -/
theorem exec_grpMem_other {sh : Shared} {v w : Vsys} {c : Cmd} (hc : c.isGrpMem = true) (h : exec sh v c = .ok w)
    (n : String) (hn : n ≠ c.grpTarget) : lookupGrp w.groups n = lookupGrp v.groups n := by
  have hne : (n == c.grpTarget) = false := by simpa using hn
  cases c <;> simp only [Cmd.isGrpMem] at hc <;> try (cases hc)
  · rename_i t ms
    simp only [Cmd.grpTarget] at hn hne
    simp only [exec] at h
    split at h
    · cases h
    · split at h
      · simp only [Except.ok.injEq] at h; subst h
        simp only
        rw [lookupGrp_modifyGrp, hne]; rfl
      · simp only [Except.ok.injEq] at h; subst h
        exact lookupGrp_append_single _ _ _ hn
  · rename_i t m
    simp only [Cmd.grpTarget] at hn hne
    simp only [exec] at h
    split at h
    · cases h
    · split at h
      · simp only [Except.ok.injEq] at h; subst h
        simp only
        rw [lookupGrp_modifyGrp, hne]; rfl
      · cases h

theorem runs_grpMem_other (sh : Shared) (names : List String) : ∀ (gs : List Cmd) (v w : Vsys),
    GrpMemOn names gs → Runs sh v gs w → ∀ n, n ∉ names → lookupGrp w.groups n = lookupGrp v.groups n := by
  intro gs
  induction gs with
  | nil =>
    intro v w _ hr n _
    unfold Runs at hr
    simp only [execAll, Prod.mk.injEq] at hr
    rw [← hr.1]
  | cons c cs ih =>
    intro v w hon hr n hn
    obtain ⟨v1, hv1, hr'⟩ := hr.cons_inv
    obtain ⟨hg, ht⟩ := hon c (by simp)
    rw [ih v1 w (fun c' hc' => hon c' (List.mem_cons_of_mem _ hc')) hr' n hn]
    exact exec_grpMem_other hg hv1 n (fun e => hn (e ▸ ht))

end NA.PanOs
